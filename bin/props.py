"""Per-property tables used by bin/check: required theorems (audited with #print axioms), trusted base, notes."""

PROPS = {
    'C07': {
        'theorems': ['trigger_spec', 'path_component', 'query_irrelevant', 'fragment_irrelevant',
                     'query_fragment_irrelevant', 'decision_depends_on_path_only', 'splitter_total'],
        'trusted': ['regexp.MatchString is an oracle of the model (its results on the strings in play are input columns)',
                    'hand-written model of mustTriggerCheck/matchTriggerRule/stringMatch/GetPathQueryFragment, tied by the differential run'],
        'assumptions': ['request targets are valid UTF-8 (gRPC rejects other proto3 strings); the byte-level model is exact for all byte strings anyway'],
    },
    'C08': {
        'theorems': ['check_eq_judge', 'first_match_wins', 'no_criterion_matches', 'criterion_semantics',
                     'configured_name_case_irrelevant', 'all_must_allow', 'stops_at_first_denial',
                     'handler_error_no_verdict', 'default_deny', 'untriggered_allowed'],
        'trusted': ['filters are abstract functions Resp -> Option Resp in the theorems; the differential run uses mock filters',
                    'configured header names are ASCII (strings.ToLower is modelled on ASCII)'],
        'assumptions': ['header maps have unique keys (Go map)'],
    },
    'C12': {
        'theorems': ['memory_refines_spec', 'redis_refines_spec', 'stores_agree', 'memory_setTok', 'memory_setAuth',
                     'memory_getTok', 'memory_getAuth', 'memory_clearAuth', 'memory_remove', 'memory_sweep_invisible',
                     'read_sees_latest_write', 'read_sees_latest_login_state', 'ids_do_not_interfere',
                     'remove_erases_everything', 'clear_keeps_tokens', 'created_fixed_by_first_write',
                     'first_write_sets_created', 'replica_irrelevant', 'redis_clear_absent'],
        'trusted': ['Redis command semantics (HSET/HMSET/HSETNX/HDEL/HMGET/HGET/DEL/EXPIREAT) as modelled in AuthModel/Store/Redis.lean; miniredis stands in for Redis in the differential run',
                    'go-redis (struct scanning, time encoding), sync.Mutex; jwt parsing is the oracle `parses`',
                    'atomicity of the memory store under concurrency is supported by a linearizability search over recorded concurrent histories (sampled, not proved)'],
        'assumptions': ['the store clock and the Redis server clock agree', 'history-level refinement theorems are stated with timeouts off; with timeouts on see C10 and the per-operation memory theorems'],
    },
    'C10': {
        'theorems': ['memory_never_late_tokens', 'memory_never_late_login_state', 'memory_not_dropped_inside',
                     'memory_activity_keeps_created', 'memory_zero_is_no_limit', 'memory_sweep_not_needed',
                     'redis_ttl_formula', 'redis_never_late', 'redis_not_dropped_inside', 'redis_write_keeps_created',
                     'redis_login_write_keeps_created', 'redis_read_keeps_created', 'redis_write_uses_stored_creation'],
        'trusted': ['Redis EXPIREAT/TTL semantics as modelled (key served iff server time < EXPIREAT second); miniredis in the differential run',
                    'the system-level part uses the real clock for ~3 s (time.Sleep) with generous margins'],
        'assumptions': ['store clock and Redis server clock agree', 'timeouts are non-negative (uint32 seconds in the configuration)'],
    },
}
