"""Per-property tables used by bin/check: required theorems (audited with #print axioms), trusted base, notes."""

PROPS = {
    'C07': {
        'theorems': ['trigger_spec', 'path_component', 'query_irrelevant', 'fragment_irrelevant',
                     'query_fragment_irrelevant', 'decision_depends_on_path_only', 'splitter_total'],
        'trusted': ['regexp.MatchString is an oracle of the model (its results on the strings in play are input columns)',
                    'hand-written model of mustTriggerCheck/matchTriggerRule/stringMatch/GetPathQueryFragment, tied by the differential run'],
        'assumptions': ['request targets are valid UTF-8 (gRPC rejects other proto3 strings); the byte-level model is exact for all byte strings anyway'],
    },
    'C08': {
        'theorems': ['check_eq_judge', 'first_match_wins', 'no_criterion_matches', 'criterion_semantics',
                     'configured_name_case_irrelevant', 'all_must_allow', 'stops_at_first_denial',
                     'handler_error_no_verdict', 'default_deny', 'untriggered_allowed'],
        'trusted': ['filters are abstract functions Resp -> Option Resp in the theorems; the differential run uses mock filters',
                    'configured header names are ASCII (strings.ToLower is modelled on ASCII)'],
        'assumptions': ['header maps have unique keys (Go map)'],
    },
}
