"""Per-property tables used by bin/check: required theorems (audited with #print axioms), trusted base, notes."""

PROPS = {
    'C07': {
        'translated': ['GetPathQueryFragment', 'stringMatch', 'matchTriggerRule', 'mustTriggerCheck'],
        'theorems': ['no_hidden_state', 'trigger_spec', 'path_component', 'query_irrelevant', 'fragment_irrelevant',
                     'query_fragment_irrelevant', 'decision_depends_on_path_only', 'splitter_total',
                     'code_trigger_spec', 'code_decision_depends_on_path_only', 'code_splitter'],
        'trusted': ['regexp.MatchString is an oracle of the model (its results on the strings in play are input columns)',
                    'hand-written model of mustTriggerCheck/matchTriggerRule/stringMatch/GetPathQueryFragment, tied by the differential run'],
        'assumptions': ['request targets are valid UTF-8 (gRPC rejects other proto3 strings); the byte-level model is exact for all byte strings anyway'],
    },
    'C08': {
        'translated': ['matches', 'Check', 'allow', 'deny', 'mustTriggerCheck'],
        'theorems': ['no_hidden_state', 'check_eq_judge', 'first_match_wins', 'no_criterion_matches', 'criterion_semantics',
                     'configured_name_case_irrelevant', 'all_must_allow', 'stops_at_first_denial',
                     'handler_error_no_verdict', 'default_deny', 'untriggered_allowed', 'code_matches_spec',
                     'code_check_eq_spec', 'code_untriggered_allowed', 'code_first_match_wins', 'code_default_deny', 'code_stops_at_first_denial', 'code_all_allow'],
        'trusted': ['filters are abstract functions Resp -> Option Resp in the theorems; the differential run uses mock filters',
                    'configured header names are ASCII (strings.ToLower is modelled on ASCII)'],
        'assumptions': ['header maps have unique keys (Go map)'],
    },
    'C12': {
        'theorems': ['no_hidden_state', 'memory_refines_spec', 'redis_refines_spec', 'stores_agree', 'memory_setTok', 'memory_setAuth',
                     'memory_getTok', 'memory_getAuth', 'memory_clearAuth', 'memory_remove', 'memory_sweep_invisible',
                     'read_sees_latest_write', 'read_sees_latest_login_state', 'ids_do_not_interfere',
                     'remove_erases_everything', 'clear_keeps_tokens', 'created_fixed_by_first_write',
                     'first_write_sets_created', 'replica_irrelevant', 'redis_clear_absent',
                     'redis_write_success_is_faultfree', 'redis_read_success_is_faultfree', 'redis_fault_is_error'],
        'trusted': ['Redis command semantics (HSET/HMSET/HSETNX/HDEL/HMGET/HGET/DEL/EXPIREAT) as modelled in AuthModel/Store/Redis.lean; miniredis stands in for Redis in the differential run',
                    'go-redis (struct scanning, time encoding), sync.Mutex; jwt parsing is the oracle `parses`',
                    'atomicity of the memory store under concurrency is supported by a linearizability search over recorded concurrent histories (sampled, not proved)'],
        'assumptions': ['the store clock and the Redis server clock agree', 'history-level refinement theorems are stated with timeouts off; with timeouts on see C10 and the per-operation memory theorems'],
    },
    'C10': {
        'theorems': ['no_hidden_state', 'memory_never_late_tokens', 'memory_never_late_login_state', 'memory_not_dropped_inside',
                     'memory_activity_keeps_created', 'memory_zero_is_no_limit', 'memory_sweep_not_needed',
                     'redis_ttl_formula', 'redis_never_late', 'redis_not_dropped_inside', 'redis_write_keeps_created',
                     'redis_login_write_keeps_created', 'redis_read_keeps_created', 'redis_write_uses_stored_creation'],
        'trusted': ['Redis EXPIREAT/TTL semantics as modelled (key served iff server time < EXPIREAT second); miniredis in the differential run',
                    'the system-level part uses the real clock for ~3 s (time.Sleep) with generous margins'],
        'assumptions': ['store clock and Redis server clock agree', 'timeouts are non-negative (uint32 seconds in the configuration)'],
    },
    'C01': {
        'theorems': ['no_hidden_state', 'ok_justified', 'fault_never_ok', 'run_ok_justified', 'run_matches_driver', 'no_cookie_never_ok', 'callback_never_ok', 'chain_ok_needs_all', 'redis_prefix_safe', 'code_expiry_test', 'code_handler_error_no_verdict'],
        'translated': ['areRequiredTokensExpired', 'Check'],
        'trusted': ['hand-written interaction-tree model of Process/redirectToIDP/retrieveTokens/refreshToken (AuthModel/Oidc/Handler.lean), tied to the code by the differential run (response + ordered action trace per request line)', 'oracles: jwt parsing and claims (jwx), JWS verification (checked against an independent stdlib RSA verification in the harness), SHA-256/base64url; url.Parse of the callback URI', 'store-level atomicity of one Redis method is assumed except in redis_prefix_safe'],
    },
    'C02': {
        'theorems': ['no_hidden_state', 'bound_only_validated', 'validated_meaning', 'login_nonce_exact', 'merged_provenance', 'forwarded_eq_bound', 'same_header_drops_id', 'ok_headers', 'code_forwarded_headers'],
        'translated': ['encodeTokensToHeaders', 'encodeHeaderValue'],
        'trusted': ['hand-written interaction-tree model of Process/redirectToIDP/retrieveTokens/refreshToken (AuthModel/Oidc/Handler.lean), tied to the code by the differential run (response + ordered action trace per request line)', 'oracles: jwt parsing and claims (jwx), JWS verification (checked against an independent stdlib RSA verification in the harness), SHA-256/base64url; url.Parse of the callback URI', 'signature soundness of jwx/crypto is trusted; the key set is an oracle'],
    },
    'C05': {
        'theorems': ['no_hidden_state', 'redirect_renews', 'writes_only_under_issued', 'cookie_name_host_prefix', 'cookie_name_is_token', 'set_cookie_shape', 'directives_match_source', 'name_parts_match_source', 'logout_expires_cookie',
                     'code_cookie_name_host_prefix', 'code_set_cookie_shape', 'code_session_id_from_cookie', 'code_accepted_prefix_is_token'],
        'translated': ['getCookieName', 'getCookieDirectives', 'generateSetCookieHeader', 'getSessionIDFromCookie', 'DecodeCookiesHeader', 'EncodeCookieHeader', 'isCookieNameToken'],
        'trusted': ['hand-written interaction-tree model of Process/redirectToIDP/retrieveTokens/refreshToken (AuthModel/Oidc/Handler.lean), tied to the code by the differential run (response + ordered action trace per request line)', 'oracles: jwt parsing and claims (jwx), JWS verification (checked against an independent stdlib RSA verification in the harness), SHA-256/base64url; url.Parse of the callback URI', 'generator freshness (new id differs from the presented one) is a property of the entropy source (C06)'],
    },
    'C11': {
        'theorems': ['no_hidden_state', 'refresh_request', 'merge_spec', 'rotated_refresh_token_replaces', 'omitted_refresh_token_kept', 'refresh_success_stores_and_forwards_merged', 'refresh_failure_removes_session', 'refresh_branch_outcomes', 'code_response_validators'],
        'translated': ['isValidIDPNewTokensResponse', 'isValidIDPRefreshTokenResponse'],
        'trusted': ['hand-written interaction-tree model of Process/redirectToIDP/retrieveTokens/refreshToken (AuthModel/Oidc/Handler.lean), tied to the code by the differential run (response + ordered action trace per request line)', 'oracles: jwt parsing and claims (jwx), JWS verification (checked against an independent stdlib RSA verification in the harness), SHA-256/base64url; url.Parse of the callback URI', 'the ledger of issued refresh tokens lives in the harness monitor'],
    },
    'C13': {
        'theorems': ['no_hidden_state', 'unescape_escape', 'escape_clean', 'authorization_location', 'parameter_roundtrip', 'requested_url_stored', 'requested_url_def', 'post_login_location', 'redirects_no_cache', 'no_cache_headers_match_source'],
        'trusted': ['hand-written interaction-tree model of Process/redirectToIDP/retrieveTokens/refreshToken (AuthModel/Oidc/Handler.lean), tied to the code by the differential run (response + ordered action trace per request line)', 'oracles: jwt parsing and claims (jwx), JWS verification (checked against an independent stdlib RSA verification in the harness), SHA-256/base64url; url.Parse of the callback URI', 'parse(encode) is proved per parameter (escape/unescape), not for ParseQuery as a whole'],
    },
    'C14': {
        'theorems': ['no_hidden_state', 'answers_are_catalogued', 'location_independent_of_secret', 'location_uses_verifier_only_via_challenge', 'fixed_denials_constant', 'cookie_and_logout_independent_of_secret', 'ok_adds_only_tokens'],
        'trusted': ['hand-written interaction-tree model of Process/redirectToIDP/retrieveTokens/refreshToken (AuthModel/Oidc/Handler.lean), tied to the code by the differential run (response + ordered action trace per request line)', 'oracles: jwt parsing and claims (jwx), JWS verification (checked against an independent stdlib RSA verification in the harness), SHA-256/base64url; url.Parse of the callback URI', 'response bodies of library errors returned by Check are outside the model (scanned by the monitor)'],
    },
    'C15': {
        'translated': ['GetPathQueryFragment', 'stringMatch', 'matchTriggerRule', 'mustTriggerCheck', 'matches', 'Check'],
        'theorems': ['no_hidden_state', 'verdict_wellformed', 'nonstring_nonce_is_invalid', 'splitter_in_bounds', 'no_unexpected_type_assertions', 'no_unexpected_index_or_slice', 'no_explicit_panics', 'code_trigger_path_never_panics', 'code_check_never_panics'],
        'trusted': ['hand-written interaction-tree model of Process/redirectToIDP/retrieveTokens/refreshToken (AuthModel/Oidc/Handler.lean), tied to the code by the differential run (response + ordered action trace per request line)', 'oracles: jwt parsing and claims (jwx), JWS verification (checked against an independent stdlib RSA verification in the harness), SHA-256/base64url; url.Parse of the callback URI', 'library code (jwx, encoding/json, url.ParseQuery, go-redis) is sampled by the differential run, not proved'],
    },
    'C03': {
        'theorems': ['no_hidden_state', 'login_completes', 'no_reauth_while_valid', 'no_expires_in_no_expiry', 'cookie_read_back', 'code_cookie_read_back'],
        'translated': ['getSessionIDFromCookie', 'DecodeCookiesHeader', 'getCookieName'],
        'trusted': ['hand-written interaction-tree model of the handler tied to the code by the differential run', 'oracles: jwt parsing/claims (jwx), JWS verification, SHA-256; url.Parse of the callback URI', 'the three steps are composed through hypotheses that the store returns what was stored (C12) and that the browser presents the cookie it was given (cookie_read_back)'],
    },
    'C04': {
        'theorems': ['no_hidden_state', 'exchange_requires_state', 'challenge_matches', 'state_stored_under_issued_id', 'clear_consumes', 'callback_without_state_no_exchange', 'query_robust', 'consumed_state_no_later_exchange'],
        'trusted': ['hand-written interaction-tree model of the handler tied to the code by the differential run', 'oracles: jwt parsing/claims (jwx), JWS verification, SHA-256; url.Parse of the callback URI', 'interleavings: per-check theorems hold for every thread under any schedule; consumed_state_no_later_exchange covers every interleaving of any number of checks over a store that answers like the abstract session map (both stores refine it, C12; atomicity of a single store call is assumed); inside the overlap window of concurrent callbacks the statement is silent; listed scenarios are also enumerated on real goroutines under the controlled scheduler'],
    },
    'C09': {
        'theorems': ['no_hidden_state', 'logout_answer', 'logout_answer_shape', 'logout_only_after_removal', 'removal_erases', 'ok_requires_tokens_read', 'writes_need_prior_read', 'resurrection_logout_answered', 'resurrection_inflight_ok', 'logout_resurrection', 'finality_characterisation',
                     'redis_removal_reported_faithfully', 'redis_nothing_after_removal', 'logout_uri_configured_or_discovered', 'discovery_refuses_logout_without_uri', 'code_path_matchers'],
        'translated': ['matchesLogoutPath', 'matchesCallbackPath', 'GetPathQueryFragment'],
        'trusted': ['hand-written interaction-tree model of the handler tied to the code by the differential run', 'oracles: jwt parsing/claims (jwx), JWS verification, SHA-256; url.Parse of the callback URI', 'finality over ALL interleavings is proved up to one shape (finality_characterisation: tokens served after an acknowledged removal imply a thread that read the session before the removal and wrote tokens after it) over a store that answers like the abstract session map (both stores refine it, C12; atomicity of a single store call is assumed); that shape is the known finding, exhibited by a kernel-decided witness schedule; every interleaving of logout x one or two checks is also enumerated on real goroutines'],
    },
    'C06': {
        'theorems': ['no_hidden_state', 'sid_independent_of_public', 'every_id_reachable', 'draw_uniform', 'charset_distinct', 'no_prng_import', 'generator_calls_exact', 'identifier_lengths', 'charset_matches_source', 'limit_formula'],
        'level_text': 'PARTIAL. Lean 4 theorems about information flow in the generator model (the session id depends on a stream segment nothing public depends on; no modulo bias) plus obligations over regenerated source facts (no math/rand, no clock, crypto/rand only). The unpredictability of crypto/rand itself is trusted, not proved.',
        'trusted': ['crypto/rand is unpredictable (trusted)', 'oauth2.GenerateVerifier reads 32 bytes from crypto/rand (checked by the differential run)', 'freshness/pairwise distinctness of identifiers used by C04/C05 is a probabilistic assumption (birthday bound over 62^64 / 62^32)'],
    },
    'C19': {
        'theorems': ['no_hidden_state', 'no_hidden_state_infra', 'reconcile_updates_exactly', 'index_sound', 'reconcile_ignores', 'other_namespace_not_indexed', 'refuse_cross_namespace', 'rotation_stable', 'token_request_uses_current', 'secret_key_matches_source'],
        'trusted': ['controller-runtime client and its fake; the watch machinery that turns Secret events into Reconcile calls', 'the write of ClientSecretConfig is unsynchronised with concurrent checks (see C16 known finding)', 'hook: harness/export/internal__k8s/export.go (build tag verif, added by overlay) sets the unexported namespace/k8sClient fields'],
    },
    'C17': {
        'translated': ['isCookieNameToken', 'isRootPath'],
        'theorems': ['code_loader_rules', 'no_hidden_state', 'accepted_resolved', 'merged_callback_was_checked', 'url_check_meaning', 'merge_fieldwise', 'scope_defaulting', 'rejected_is_error', 'untyped_filter_rejected', 'scope_constant_matches_source'],
        'trusted': ['protojson decoding (the model starts from the decoded document); net/url.Parse, redis.ParseURL and net.ParseIP are oracles', 'only the fields that take part in loading are modelled (TLS/CA fields, skip_verify, fetch intervals are carried by the real code, not by the model)', 'hook: harness/export/internal/export.go (build tag verif) constructs LocalConfigFile with a path'],
    },
    'C20': {
        'theorems': ['no_hidden_state', 'trust_decision', 'skip_only_when_requested_and_no_ca', 'identical_settings_share', 'identical_means_same_key', 'superseded_watcher_stops', 'every_user_of_a_file_keeps_its_watcher', 'rotation_reaches_entry', 'rotation_leaves_others', 'unparsable_rotation_ignored', 'pool_and_watchers_locked', 'code_skip_verify_meaning'],
        'translated': ['BoolStrValue'],
        'level_text': 'PARTIAL. Lean 4 theorems about the trust decision, the pool and the watcher state machine of a hand-written model, tied to the code by real TLS handshakes against servers chaining to the old/new/unconfigured CA; crypto/tls, x509 chain building and timer scheduling are trusted.',
        'trusted': ['crypto/tls and crypto/x509 (handshake, chain building, SystemCertPool)', 'the settings hash (fnv64a) is treated as injective on the settings in play', 'timing: a rotation is judged after 7 refresh intervals', 'the in-place update of RootCAs on a live tls.Config is a data race (C16 known finding)'],
    },
    'C18': {
        'theorems': ['no_hidden_state', 'own_config_governs', 'ok_needs_tokens_in_own_store', 'cross_filter_characterisation', 'store_assignment', 'memory_timeouts_first_filter', 'shared_memory_store', 'second_filter_timeouts_ignored'],
        'level_text': 'Lean 4 theorems: a filter uses only its own configuration; a session is honoured only if the store the filter resolves to returns tokens for the presented id (so filters on different stores are isolated); factory model (store assignment, whose timeouts). The statement itself is violated on the unchanged tree for filters that share a store: recorded as known findings, characterised by the theorems so that any other leak is still reported.',
        'trusted': ['the system-level run uses the real clock and the real generator (no model comparison of requests; the factory assignment is compared with the model)'],
    },
    'C16': {
        'theorems': ['lockset_sound', 'lock_discipline', 'package_maps_guarded', 'shared_writes_classified', 'tls_config_aliases_classified', 'field_maps_guarded', 'redis_store_stateless'],
        'race': True,
        'level_text': 'PARTIAL. A Lean 4 theorem about lock-based executions (lockset soundness, unbounded) instantiated on an access table regenerated from the source by a syntactic extractor, plus a classification of every other shared write; the race detector (thorough tier) is the search for a concrete race and validates the table. Soundness of the syntactic extraction, the Go memory model and races inside libraries are outside the proof.',
        'trusted': ['tools/factgen lock-state tracking is a linear syntactic walk (Lock/Unlock/defer) - sound for the straight-line lock usage in this code base, not in general', 'Go memory model: Unlock synchronises-before a later Lock', 'races inside libraries (jwx cache, go-redis, controller-runtime) are out of scope'],
    },
}
