// translate.go - a small Go-to-Lean translator for the pure decision functions of the code base.
//
// It reads the function declarations named in `translationUnits` from /repo's current working tree (go/ast only, no
// type checker) and writes each as a Lean 4 `do` block in the monad `Go.M` (AuthModel/GoLib.lean): assignments become
// `let mut`, `for … range` becomes `for … in`, early `return`s stay early returns, slice expressions and field selections
// through pointers become partial operations that can panic.  Logging calls are dropped (telemetry.Logger values are
// write-only for the translated code).  Anything outside the supported subset makes the translation of THAT function
// fail with a message in the generated file; the Lean modules that need the function then no longer build.
//
// The generated definitions are what the equivalence theorems of AuthProofs/CodeEquiv.lean are about, so those theorems
// are re-checked against what the code says on every run.
package main

import (
	"fmt"
	"go/ast"
	"go/token"
	"path/filepath"
	"sort"
	"strconv"
	"strings"
)

type tfunc struct {
	file string // path relative to the repository
	name string // function or Recv.method
}

type tunit struct {
	module  string // Lean module name under AuthModel.Generated
	imports []string
	funcs   []tfunc
	consts  []string // files whose string constants are emitted
	vars    []tfunc  // package-level variables (a value, or a function literal whose body is one return statement)
}

var translationUnits = []tunit{
	{module: "CodeHttp", funcs: []tfunc{
		{"internal/http/http.go", "GetPathQueryFragment"},
		{"internal/http/http.go", "DecodeCookiesHeader"},
		{"internal/http/http.go", "EncodeCookieHeader"},
	}, consts: []string{"internal/http/headers.go"}},
	{module: "CodeAuthz", imports: []string{"AuthModel.Generated.CodeHttp"}, funcs: []tfunc{
		{"internal/server/authz.go", "stringMatch"},
		{"internal/server/authz.go", "matchTriggerRule"},
		{"internal/server/authz.go", "mustTriggerCheck"},
		{"internal/server/authz.go", "matches"},
		{"internal/server/authz.go", "ExtAuthZFilter.Check"},
	}, vars: []tfunc{{"internal/server/authz.go", "allow"}, {"internal/server/authz.go", "deny"}}},
	{module: "CodeInternal", funcs: []tfunc{
		{"internal/boolstr.go", "BoolStrValue"},
		{"internal/config.go", "isRootPath"},
		{"internal/config.go", "isCookieNameToken"},
		{"internal/config.go", "validateURL"},
		{"internal/config.go", "hasRootPath"},
		{"internal/config.go", "validateOIDCConfigURLs"},
	}},
	{module: "CodeOidc", imports: []string{"AuthModel.Generated.CodeHttp"}, funcs: []tfunc{
		{"internal/authz/oidc.go", "getCookieName"},
		{"internal/authz/oidc.go", "getCookieDirectives"},
		{"internal/authz/oidc.go", "generateSetCookieHeader"},
		{"internal/authz/oidc.go", "getSessionIDFromCookie"},
		{"internal/authz/oidc.go", "matchesLogoutPath"},
		{"internal/authz/oidc.go", "matchesCallbackPath"},
		{"internal/authz/oidc.go", "encodeHeaderValue"},
		{"internal/authz/oidc.go", "oidcHandler.encodeTokensToHeaders"},
		{"internal/authz/oidc.go", "isValidIDPNewTokensResponse"},
		{"internal/authz/oidc.go", "isValidIDPRefreshTokenResponse"},
		{"internal/authz/oidc.go", "oidcHandler.areRequiredTokensExpired"},
		{"internal/authz/oidc.go", "newDenyResponse"},
		{"internal/authz/oidc.go", "newSessionErrorResponse"},
		{"internal/authz/oidc.go", "setDenyResponse"},
		{"internal/authz/oidc.go", "setRedirect"},
		{"internal/authz/oidc.go", "setSetCookieHeader"},
		{"internal/authz/oidc.go", "oidcHandler.allowResponse"},
	}, consts: []string{"internal/authz/oidc.go"}, vars: []tfunc{{"internal/authz/oidc.go", "standardResponseHeaders"}}},
	{module: "CodeStore", funcs: []tfunc{
		{"internal/oidc/memory.go", "memoryStore.live"},
		{"internal/oidc/memory.go", "newSession"},
		{"internal/oidc/redis.go", "redisToken.TokenResponse"},
		{"internal/oidc/redis.go", "redisAuthState.AuthorizationState"},
	}},
}

// Go type -> Lean type
var typeTable = map[string]string{
	"string": "Str", "int": "Int", "bool": "Bool", "error": "Go.Error",
	"[]string": "List Str", "map[string]string": "Go.Map", "time.Duration": "Go.Duration",
	"*configv1.StringMatch": "Pb.StringMatch", "*configv1.TriggerRule": "Pb.TriggerRule",
	"[]*configv1.TriggerRule": "List Pb.TriggerRule", "*configv1.Match": "Pb.Match",
	"*envoy.CheckRequest": "Pb.CheckRequest", "*envoy.AttributeContext_HttpRequest": "Pb.AttributeContext_HttpRequest",
	"*oidcv1.OIDCConfig": "Pb.OIDCConfig", "*idpTokensResponse": "Pb.IdpTokensResponse",
	"*oidc.TokenResponse": "Pb.TokenResponse", "*oidcHandler": "Pb.OidcHandler",
	"*envoy.CheckResponse": "Pb.CheckResponse", "authz.Handler": "Pb.Handler", "*ExtAuthZFilter": "Pb.ExtAuthZFilter",
	"*status.Status": "Pb.Status", "codes.Code": "Int", "*structpb.Value": "Pb.Value",
	"*envoy.DeniedHttpResponse": "Pb.DeniedHttpResponse", "*envoy.OkHttpResponse": "Pb.OkHttpResponse", "*corev3.HeaderValueOption": "Pb.HeaderValueOption",
	"*corev3.HeaderValue": "Pb.HeaderValue", "*typev3.HttpStatus": "Pb.HttpStatus", "[]*corev3.HeaderValueOption": "List Pb.HeaderValueOption",
	"*memoryStore": "Pb.MemoryStore", "*session": "Pb.Session", "redisToken": "Pb.RedisToken", "redisAuthState": "Pb.RedisAuthState",
	"*TokenResponse": "Pb.TokenResponse", "*AuthorizationState": "Pb.AuthorizationState", "time.Time": "Go.Time",
	"*envoy.CheckResponse_DeniedResponse": "Pb.CheckResponse_DeniedResponse", "*envoy.CheckResponse_OkResponse": "Pb.CheckResponse_OkResponse",
}

var zeroTable = map[string]string{
	"Str": "[]", "Int": "0", "Bool": "false", "List Str": "[]", "Go.Map": "Go.Map.empty", "Go.Error": "{}",
	"Pb.CheckResponse": "{ isNil := true }", "Pb.Handler": "{ isNil := true }",
}

// Go types of struct fields read by the translated functions (go/ast only: no type checker)
var fieldTypes = map[string]string{
	"sessions": "map[string]*session", "absoluteSessionTimeout": "time.Duration", "idleSessionTimeout": "time.Duration",
	"added": "time.Time", "accessed": "time.Time",
}

// gRPC status codes (google.golang.org/grpc/codes)
var grpcCodes = map[string]int{"OK": 0, "Unknown": 2, "InvalidArgument": 3, "PermissionDenied": 7, "Internal": 13, "Unauthenticated": 16}

// methods that write through a pointer argument: the translation returns the new value of that argument together with the
// method's own result.  name -> (index of the mutated argument in the Go call, the arguments passed on)
var mutatingMethods = map[string]int{"Process": 2}

// library calls: Go name -> (Lean function, monadic?)
type libfn struct {
	lean    string
	monadic bool
	result  string // Go result type, when useful for typing
}

var libTable = map[string]libfn{
	"strings.Index":     {"Go.index", false, "int"},
	"strings.HasPrefix": {"Go.hasPrefix", false, "bool"},
	"strings.HasSuffix": {"Go.hasSuffix", false, "bool"},
	"strings.ToLower":   {"Go.toLower", false, "string"},
	"strings.TrimSpace": {"Str.trimSpace", false, "string"},
	"strings.EqualFold": {"Go.equalFold", false, "bool"},
	"len":               {"Go.len", false, "int"},
	"strconv.ParseBool": {"Go.parseBool", false, ""},
	"strings.IndexByte": {"Go.indexByte", false, "int"},
}

// results of zero-argument methods and fields that are strings (to tell + on strings from + on ints)
var stringMembers = map[string]bool{"Port": true, "Hostname": true, "Scheme": true, "Path": true, "Host": true,
	"GetPath": true, "GetHost": true, "GetScheme": true, "GetHeader": true, "GetPreamble": true, "GetCookieNamePrefix": true,
	"GetCallbackUri": true, "IDToken": true, "AccessToken": true, "RefreshToken": true, "TokenType": true}

// getters whose result is a map (needed to tell m[k] on a map from xs[i] on a slice without a type checker)
var mapGetters = map[string]bool{"GetHeaders": true}

var leanKeywords = map[string]bool{"match": true, "end": true, "from": true, "at": true, "fun": true, "open": true, "show": true,
	"have": true, "then": true, "do": true, "in": true, "let": true, "if": true, "else": true, "where": true, "with": true,
	"instance": true, "structure": true, "namespace": true, "section": true, "variable": true, "prefix": true, "infix": true,
	"local": true, "private": true, "protected": true, "theorem": true, "def": true, "example": true, "type": true, "Type": true,
	"by": true, "using": true, "return": true, "for": true, "mut": true, "try": true, "catch": true, "finally": true, "unless": true,
	"break": true, "continue": true, "export": true, "import": true, "universe": true, "deriving": true, "class": true, "extends": true,
	"macro": true, "syntax": true, "notation": true, "attribute": true, "inductive": true, "mutual": true, "partial": true, "unsafe": true,
	"nomatch": true, "matches": true, "generalizing": true, "only": true, "extern": true, "nofun": true, "suffices": true, "calc": true, "set_option": true, "omit": true, "include": true}

func lname(s string) string {
	if leanKeywords[s] {
		return s + "_"
	}
	return s
}

type terr struct{ msg string }

func fail(n ast.Node, format string, a ...any) {
	panic(terr{fmt.Sprintf(format, a...) + " at `" + strings.Join(strings.Fields(src(n)), " ") + "`"})
}

// ---------------------------------------------------------------------------------------------------------------

type tctx struct {
	funcs        map[string]*ast.FuncDecl // translated functions by Go name (all units)
	consts       map[string]bool          // emitted string constants
	loggers      map[string]bool          // identifiers that hold a telemetry.Logger
	builders     map[string]bool          // identifiers that hold a strings.Builder
	types        map[string]string        // identifier -> Go type, where declared or inferable
	assigned     map[string]bool          // identifiers assigned after their declaration
	results      []*ast.Field             // named results
	resNames     []string
	fd           *ast.FuncDecl
	used         map[string]int // identifier uses outside dropped statements
	tmp          int
	byteCtx      bool
	fieldWritten map[string]bool // pointer variables written through (p.F = v)
	mutParams    []string        // pointer parameters written through: handed back to the caller
	resTypes     []string        // Lean result types, for typed nil in return statements
}

func typeStr(e ast.Expr) string { return strings.Join(strings.Fields(src(e)), "") }

func (c *tctx) leanType(e ast.Expr) string {
	t := typeStr(e)
	if l, ok := typeTable[t]; ok {
		return l
	}
	fail(e, "type %s is outside the translated subset", t)
	return ""
}

func isLoggerType(e ast.Expr) bool { return typeStr(e) == "telemetry.Logger" }

// isLoggerExpr: an expression that evaluates to a logger (never observable by the translated code)
func (c *tctx) isLoggerExpr(e ast.Expr) bool {
	switch x := e.(type) {
	case *ast.Ident:
		return c.loggers[x.Name]
	case *ast.SelectorExpr:
		return x.Sel.Name == "log"
	case *ast.CallExpr:
		if s, ok := x.Fun.(*ast.SelectorExpr); ok {
			return c.isLoggerExpr(s.X)
		}
	}
	return false
}

// a statement that only logs
func (c *tctx) isLogStmt(s ast.Stmt) bool {
	switch x := s.(type) {
	case *ast.ExprStmt:
		if call, ok := x.X.(*ast.CallExpr); ok {
			if sel, ok := call.Fun.(*ast.SelectorExpr); ok && c.isLoggerExpr(sel.X) {
				return true
			}
		}
	case *ast.AssignStmt:
		if len(x.Rhs) == 1 && c.isLoggerExpr(x.Rhs[0]) {
			for _, l := range x.Lhs {
				if id, ok := l.(*ast.Ident); ok {
					c.loggers[id.Name] = true
				}
			}
			return true
		}
	}
	return false
}

// countUses records identifier uses in everything that is not a dropped logging statement
func (c *tctx) countUses(n ast.Node) {
	ast.Inspect(n, func(m ast.Node) bool {
		if s, ok := m.(ast.Stmt); ok && c.isLogStmt(s) {
			return false
		}
		if call, ok := m.(*ast.CallExpr); ok {
			if id, ok := call.Fun.(*ast.Ident); ok && id.Name == "delete" && len(call.Args) == 2 {
				if sel, ok := call.Args[0].(*ast.SelectorExpr); ok {
					if pv, ok := sel.X.(*ast.Ident); ok {
						c.assigned[pv.Name] = true
						c.fieldWritten[pv.Name] = true
					}
				}
			}
		}
		if as, ok := m.(*ast.AssignStmt); ok && as.Tok == token.ASSIGN {
			for _, l := range as.Lhs {
				if id, ok := l.(*ast.Ident); ok {
					c.assigned[id.Name] = true
				}
				if ix, ok := l.(*ast.IndexExpr); ok {
					if id, ok := ix.X.(*ast.Ident); ok {
						c.assigned[id.Name] = true
					}
				}
				if sel, ok := l.(*ast.SelectorExpr); ok {
					if id, ok := sel.X.(*ast.Ident); ok {
						c.assigned[id.Name] = true
						c.fieldWritten[id.Name] = true
					}
					if call, ok := sel.X.(*ast.CallExpr); ok {
						if gs, ok := call.Fun.(*ast.SelectorExpr); ok {
							if id, ok := gs.X.(*ast.Ident); ok {
								c.assigned[id.Name] = true
								c.fieldWritten[id.Name] = true
							}
						}
					}
				}
			}
		}
		if as, ok := m.(*ast.AssignStmt); ok && (as.Tok == token.ADD_ASSIGN) {
			if id, ok := as.Lhs[0].(*ast.Ident); ok {
				c.assigned[id.Name] = true
			}
		}
		if call, ok := m.(*ast.CallExpr); ok {
			if sel, ok := call.Fun.(*ast.SelectorExpr); ok {
				if ai, ok := mutatingMethods[sel.Sel.Name]; ok && ai < len(call.Args) {
					if id, ok := call.Args[ai].(*ast.Ident); ok {
						c.assigned[id.Name] = true
					}
				}
			}
		}
		if id, ok := m.(*ast.Ident); ok {
			c.used[id.Name]++
		}
		return true
	})
}

// usesIn counts the uses of an identifier inside a node, dropped logging statements aside
func (c *tctx) usesIn(n ast.Node, name string) int {
	k := 0
	ast.Inspect(n, func(m ast.Node) bool {
		if s, ok := m.(ast.Stmt); ok && c.isLogStmt(s) {
			return false
		}
		if id, ok := m.(*ast.Ident); ok && id.Name == name {
			k++
		}
		return true
	})
	return k
}

// goType: best-effort syntactic type of an expression ("" = unknown)
func (c *tctx) goType(e ast.Expr) string {
	switch x := e.(type) {
	case *ast.Ident:
		if t, ok := c.types[x.Name]; ok {
			return t
		}
		if c.consts[x.Name] {
			return "string"
		}
		return ""
	case *ast.BasicLit:
		if x.Kind == token.STRING {
			return "string"
		}
		if x.Kind == token.INT {
			return "int"
		}
	case *ast.ParenExpr:
		return c.goType(x.X)
	case *ast.CallExpr:
		name := typeStr(x.Fun)
		if l, ok := libTable[name]; ok {
			return l.result
		}
		if name == "make" && len(x.Args) > 0 {
			return typeStr(x.Args[0])
		}
		if name == "strings.Split" {
			return "[]string"
		}
		if sel, ok := x.Fun.(*ast.SelectorExpr); ok {
			if mapGetters[sel.Sel.Name] {
				return "map[string]string"
			}
			if stringMembers[sel.Sel.Name] && len(x.Args) == 0 {
				return "string"
			}
			if fd, ok := c.funcs[sel.Sel.Name]; ok && fd.Type.Results != nil && len(fd.Type.Results.List) == 1 {
				return typeStr(fd.Type.Results.List[0].Type)
			}
		}
		if id, ok := x.Fun.(*ast.Ident); ok {
			if fd, ok := c.funcs[id.Name]; ok && fd.Type.Results != nil && len(fd.Type.Results.List) == 1 {
				return typeStr(fd.Type.Results.List[0].Type)
			}
		}
	case *ast.IndexExpr:
		if c.goType(x.X) == "string" {
			return "byte"
		}
		if t := c.goType(x.X); strings.HasPrefix(t, "map[string]*") {
			return t[len("map[string]"):]
		}
	case *ast.CompositeLit:
		if x.Type != nil {
			return typeStr(x.Type)
		}
	case *ast.SelectorExpr:
		if id, ok := x.X.(*ast.Ident); ok && !c.isLocal(id.Name) && c.consts[x.Sel.Name] {
			return "string"
		}
		if stringMembers[x.Sel.Name] {
			return "string"
		}
		if t, ok := fieldTypes[x.Sel.Name]; ok {
			return t
		}
	case *ast.BinaryExpr:
		switch x.Op {
		case token.EQL, token.NEQ, token.LSS, token.GTR, token.LEQ, token.GEQ, token.LAND, token.LOR:
			return "bool"
		case token.ADD:
			return c.goType(x.X)
		}
	}
	return ""
}

func strLit(s string) string {
	ascii := true
	for _, r := range s {
		if r > 126 || r < 32 {
			ascii = false
		}
	}
	if ascii {
		return "(B " + strconv.Quote(s) + ")"
	}
	var bs []string
	for _, b := range []byte(s) {
		bs = append(bs, strconv.Itoa(int(b)))
	}
	return "([" + strings.Join(bs, ", ") + "] : Str)"
}

func (c *tctx) hasEffect(e ast.Expr) bool {
	return strings.Contains(c.expr(e), "(← ")
}

// expr translates an expression to a Lean term; partial operations appear as nested actions `(← …)`
func (c *tctx) expr(e ast.Expr) string {
	switch x := e.(type) {
	case *ast.ParenExpr:
		return "(" + c.expr(x.X) + ")"
	case *ast.BasicLit:
		switch x.Kind {
		case token.STRING:
			s, err := strconv.Unquote(x.Value)
			if err != nil {
				fail(e, "string literal")
			}
			return strLit(s)
		case token.INT:
			if c.byteCtx {
				v, err := strconv.ParseInt(x.Value, 0, 64)
				if err != nil || v < 0 || v > 255 {
					fail(e, "byte literal out of range")
				}
				return fmt.Sprintf("(%d : UInt8)", v)
			}
			return "(" + x.Value + " : Int)"
		case token.CHAR:
			r, _, _, err := strconv.UnquoteChar(strings.Trim(x.Value, "'"), 39)
			if err != nil || r > 255 {
				fail(e, "character literal outside one byte")
			}
			return fmt.Sprintf("(%d : UInt8)", r)
		}
		fail(e, "literal kind outside the translated subset")
	case *ast.Ident:
		switch x.Name {
		case "true", "false":
			return x.Name
		case "nil":
			fail(e, "bare nil outside a comparison")
		}
		return lname(x.Name)
	case *ast.UnaryExpr:
		switch x.Op {
		case token.NOT:
			return "(!" + c.expr(x.X) + ")"
		case token.SUB:
			return "(-" + c.expr(x.X) + ")"
		case token.AND:
			if cl, ok := x.X.(*ast.CompositeLit); ok && cl.Type != nil {
				if lt, ok := typeTable["*"+typeStr(cl.Type)]; ok {
					if len(cl.Elts) == 0 {
						return lt + ".new"
					}
					return c.structLit(e, cl, lt)
				}
			}
			fail(e, "address-of outside the translated subset (only &T{} of a mirrored message type)")
		}
		fail(e, "unary operator outside the translated subset")
	case *ast.BinaryExpr:
		// comparisons with nil
		if id, ok := x.Y.(*ast.Ident); ok && id.Name == "nil" {
			switch x.Op {
			case token.EQL:
				return "(" + c.expr(x.X) + ").isNil"
			case token.NEQ:
				return "(!(" + c.expr(x.X) + ").isNil)"
			}
		}
		// a comparison one side of which is a byte: integer literals on the other side are bytes
		saved := c.byteCtx
		if c.goType(x.X) == "byte" || c.goType(x.Y) == "byte" {
			c.byteCtx = true
		}
		l, r := c.expr(x.X), c.expr(x.Y)
		c.byteCtx = saved
		switch x.Op {
		case token.LAND, token.LOR:
			if strings.Contains(r, "(← ") {
				// Go evaluates the right operand only when needed: keep its partial operations conditional
				if x.Op == token.LAND {
					return "(← (if " + l + " then (do pure " + r + ") else pure false))"
				}
				return "(← (if " + l + " then pure true else (do pure " + r + ")))"
			}
			op := map[token.Token]string{token.LAND: "&&", token.LOR: "||"}[x.Op]
			return "(" + l + " " + op + " " + r + ")"
		case token.EQL:
			return "(" + l + " == " + r + ")"
		case token.NEQ:
			return "(" + l + " != " + r + ")"
		case token.LSS, token.GTR, token.LEQ, token.GEQ:
			return "(decide (" + l + " " + x.Op.String() + " " + r + "))"
		case token.ADD:
			if t := c.goType(x.X); t == "string" || c.goType(x.Y) == "string" {
				return "(" + l + " ++ " + r + ")"
			} else if t == "int" || c.goType(x.Y) == "int" {
				return "(" + l + " + " + r + ")"
			}
			fail(e, "cannot tell string concatenation from integer addition")
		case token.SUB:
			return "(" + l + " - " + r + ")"
		}
		fail(e, "binary operator outside the translated subset")
	case *ast.SliceExpr:
		if x.Slice3 {
			fail(e, "3-index slice")
		}
		s := c.expr(x.X)
		switch {
		case x.Low == nil && x.High == nil:
			return s
		case x.Low == nil:
			return "(← Go.sliceTo " + s + " " + c.expr(x.High) + ")"
		case x.High == nil:
			return "(← Go.sliceFrom " + s + " " + c.expr(x.Low) + ")"
		}
		return "(← Go.slice " + s + " " + c.expr(x.Low) + " " + c.expr(x.High) + ")"
	case *ast.IndexExpr:
		t := c.goType(x.X)
		switch {
		case strings.HasPrefix(t, "map[string]*"):
			// a map of pointers: the zero value is the nil pointer
			return "(Go.MapOf.get " + c.expr(x.X) + " " + c.expr(x.Index) + " { isNil := true })"
		case strings.HasPrefix(t, "map["):
			return "(Go.Map.get " + c.expr(x.X) + " " + c.expr(x.Index) + ")"
		case strings.HasPrefix(t, "[]"):
			return "(← Go.idx " + c.expr(x.X) + " " + c.expr(x.Index) + ")"
		case t == "string":
			return "(← Go.strIdx " + c.expr(x.X) + " " + c.expr(x.Index) + ")"
		}
		fail(e, "cannot tell whether the indexed value is a map or a slice")
	case *ast.CompositeLit:
		t := ""
		if x.Type != nil {
			t = typeStr(x.Type)
		}
		if strings.HasPrefix(t, "[]") {
			var el []string
			for _, y := range x.Elts {
				if cl, ok := y.(*ast.CompositeLit); ok && cl.Type == nil {
					// elided element type: `[]*T{{…}}` is `[]*T{&T{…}}`
					if lt, ok := typeTable[t[2:]]; ok {
						el = append(el, c.structLit(y, cl, lt))
						continue
					}
				}
				el = append(el, c.expr(y))
			}
			return "[" + strings.Join(el, ", ") + "]"
		}
		fail(e, "composite literal outside the translated subset")
	case *ast.SelectorExpr:
		// package-qualified constant, or a field selection
		if id, ok := x.X.(*ast.Ident); ok {
			if _, isVar := c.types[id.Name]; !isVar && c.used[id.Name] > 0 && c.consts[x.Sel.Name] && !c.isLocal(id.Name) {
				return x.Sel.Name
			}
		}
		if id, ok := x.X.(*ast.Ident); ok && id.Name == "typev3" && x.Sel.Name == "StatusCode_Found" {
			return "(302 : Int)"
		}
		if id, ok := x.X.(*ast.Ident); ok && id.Name == "codes" && !c.isLocal("codes") {
			if v, ok := grpcCodes[x.Sel.Name]; ok {
				return fmt.Sprintf("(%d : Int)", v)
			}
			fail(e, "gRPC code outside the table")
		}
		return "(← (" + c.expr(x.X) + ")." + lname(x.Sel.Name) + "!)"
	case *ast.CallExpr:
		return c.call(x)
	}
	fail(e, "expression outside the translated subset")
	return ""
}

// getterOnLocal recognises `p.GetF()` for a local pointer variable p
func getterOnLocal(c *tctx, e ast.Expr) (pv, field string, ok bool) {
	call, isCall := e.(*ast.CallExpr)
	if !isCall || len(call.Args) != 0 {
		return
	}
	sel, isSel := call.Fun.(*ast.SelectorExpr)
	if !isSel || !strings.HasPrefix(sel.Sel.Name, "Get") {
		return
	}
	id, isID := sel.X.(*ast.Ident)
	if !isID || !c.isLocal(id.Name) {
		return
	}
	return id.Name, strings.TrimPrefix(sel.Sel.Name, "Get"), true
}

func (c *tctx) structLit(e ast.Expr, cl *ast.CompositeLit, lt string) string {
	if len(cl.Elts) == 0 {
		return lt + ".new"
	}
	var fs []string
	for _, el := range cl.Elts {
		kv, ok := el.(*ast.KeyValueExpr)
		if !ok {
			fail(e, "positional composite literal")
		}
		fs = append(fs, lname(typeStr(kv.Key))+" := "+c.expr(kv.Value))
	}
	return "({ " + strings.Join(fs, ", ") + " } : " + lt + ")"
}

func (c *tctx) isLocal(name string) bool {
	_, ok := c.types[name]
	return ok
}

func (c *tctx) args(as []ast.Expr) string {
	var out []string
	for _, a := range as {
		if c.isLoggerExpr(a) {
			continue
		}
		out = append(out, c.expr(a))
	}
	return strings.Join(out, " ")
}

func (c *tctx) call(x *ast.CallExpr) string {
	name := typeStr(x.Fun)
	if l, ok := libTable[name]; ok {
		s := "(" + l.lean + " " + c.args(x.Args) + ")"
		if l.monadic {
			s = "(← " + s[1:len(s)-1] + ")"
		}
		return s
	}
	switch name {
	case "strings.Split":
		if lit, ok := x.Args[1].(*ast.BasicLit); ok && lit.Kind == token.STRING {
			if s, err := strconv.Unquote(lit.Value); err == nil && len(s) == 1 {
				return "(Go.split1 " + c.expr(x.Args[0]) + " " + strconv.Itoa(int(s[0])) + ")"
			}
		}
		fail(x, "strings.Split with a separator that is not a one-byte literal")
	case "regexp.MatchString":
		return "(env.regexpMatch " + c.args(x.Args) + ")"
	case "url.Parse":
		return "(env.urlParse " + c.args(x.Args) + ")"
	case "redis.ParseURL":
		return "(env.redisParseURL " + c.args(x.Args) + ")"
	case "strings.Replace":
		if len(x.Args) == 4 {
			if lit, ok := x.Args[3].(*ast.BasicLit); ok && lit.Value == "1" {
				return "(Go.replaceFirst " + c.args(x.Args[:3]) + ")"
			}
		}
		fail(x, "strings.Replace with a count other than the literal 1")
	case "authz.NewMockHandler":
		return "(handlers.newMock " + c.expr(x.Args[0]) + ")"
	case "authz.NewOIDCHandler":
		// the collaborators handed over (pool, key provider, store factory, clock, generator) are the filter's own, fixed at
		// construction (F8): what varies from call to call is the configuration
		return "(handlers.newOIDC " + c.expr(x.Args[0]) + ")"
	case "fmt.Errorf", "errors.New":
		return "({ isNil := false } : Go.Error)"
	case "codes.Code", "int32":
		return c.expr(x.Args[0])
	case "deny":
		if !c.isLocal("deny") {
			return "(deny " + c.args(x.Args) + ")"
		}
	case "make":
		if len(x.Args) >= 1 && strings.HasPrefix(typeStr(x.Args[0]), "map[string]string") {
			return "Go.Map.empty"
		}
		fail(x, "make of a type outside the translated subset")
	case "append":
		if x.Ellipsis != token.NoPos && len(x.Args) == 2 {
			return "(" + c.expr(x.Args[0]) + " ++ " + c.expr(x.Args[1]) + ")"
		}
		if x.Ellipsis != token.NoPos || len(x.Args) < 2 {
			fail(x, "append form outside the translated subset")
		}
		var el []string
		for _, a := range x.Args[1:] {
			el = append(el, c.expr(a))
		}
		return "(" + c.expr(x.Args[0]) + " ++ [" + strings.Join(el, ", ") + "])"
	case "fmt.Sprintf":
		return c.sprintf(x)
	case "int":
		// int(d.Seconds()) on a time.Duration
		if call, ok := x.Args[0].(*ast.CallExpr); ok {
			if sel, ok := call.Fun.(*ast.SelectorExpr); ok && sel.Sel.Name == "Seconds" {
				return "(Go.Duration.secondsInt " + c.expr(sel.X) + ")"
			}
		}
		fail(x, "conversion outside the translated subset")
	}
	switch f := x.Fun.(type) {
	case *ast.Ident:
		if _, ok := c.funcs[f.Name]; ok {
			return "(← " + lname(f.Name) + " env " + c.args(x.Args) + ")"
		}
	case *ast.SelectorExpr:
		// strings.Builder
		if id, ok := f.X.(*ast.Ident); ok && c.builders[id.Name] {
			if f.Sel.Name == "String" {
				return lname(id.Name)
			}
		}
		// another package's translated function
		if id, ok := f.X.(*ast.Ident); ok && !c.isLocal(id.Name) {
			if _, ok := c.funcs[f.Sel.Name]; ok {
				return "(← " + lname(f.Sel.Name) + " env " + c.args(x.Args) + ")"
			}
			fail(x, "call of %s, which is neither translated nor a modelled library function", name)
		}
		// methods modelled through the oracle environment
		if f.Sel.Name == "ParseIDToken" && len(x.Args) == 0 {
			return "(← Pb.parseIDToken env " + c.expr(f.X) + ")"
		}
		if f.Sel.Name == "Now" && len(x.Args) == 0 {
			if inner, ok := f.X.(*ast.SelectorExpr); ok && inner.Sel.Name == "clock" {
				if c.goType(inner.X) == "*memoryStore" {
					return "(← Pb.storeClockNow env " + c.expr(inner.X) + ")"
				}
				return "(← Pb.clockNow env " + c.expr(inner.X) + ")"
			}
		}
		if f.Sel.Name == "Add" && len(x.Args) == 1 && c.goType(f.X) == "time.Time" {
			return "(Go.Time.add " + c.expr(f.X) + " " + c.expr(x.Args[0]) + ")"
		}
		if f.Sel.Name == "Before" && len(x.Args) == 1 {
			return "(Go.Time.before " + c.expr(f.X) + " " + c.expr(x.Args[0]) + ")"
		}
		// protobuf getter: nil-safe, pure
		if strings.HasPrefix(f.Sel.Name, "Get") && len(x.Args) == 0 {
			return "(" + c.expr(f.X) + ")." + f.Sel.Name
		}
		// a method of the receiver's own type that is translated too
		if id, ok := f.X.(*ast.Ident); ok && c.isLocal(id.Name) {
			if _, ok := c.funcs[f.Sel.Name]; ok {
				return "(← " + lname(f.Sel.Name) + " env " + lname(id.Name) + " " + c.args(x.Args) + ")"
			}
		}
		// any other zero-argument method reads through its receiver: partial (nil receiver panics)
		if len(x.Args) == 0 {
			return "(← (" + c.expr(f.X) + ")." + f.Sel.Name + "!)"
		}
	}
	fail(x, "call outside the translated subset")
	return ""
}

func (c *tctx) sprintf(x *ast.CallExpr) string {
	lit, ok := x.Args[0].(*ast.BasicLit)
	if !ok {
		fail(x, "Sprintf with a non-literal format")
	}
	f, _ := strconv.Unquote(lit.Value)
	var parts []string
	arg := 1
	cur := ""
	for i := 0; i < len(f); i++ {
		if f[i] != '%' {
			cur += string(f[i])
			continue
		}
		i++
		if i >= len(f) || arg >= len(x.Args) && f[i] != '%' {
			fail(x, "Sprintf format")
		}
		if cur != "" {
			parts = append(parts, strLit(cur))
			cur = ""
		}
		switch f[i] {
		case 's':
			parts = append(parts, c.expr(x.Args[arg]))
			arg++
		case 'd':
			parts = append(parts, "(Go.itoa "+c.expr(x.Args[arg])+")")
			arg++
		case '%':
			cur += "%"
		default:
			fail(x, "Sprintf verb %%%c", f[i])
		}
	}
	if cur != "" {
		parts = append(parts, strLit(cur))
	}
	if len(parts) == 0 {
		return "([] : Str)"
	}
	return "(" + strings.Join(parts, " ++ ") + ")"
}

// ---------------------------------------------------------------------------------------------------------------

type out struct {
	sb strings.Builder
}

func (o *out) line(ind int, s string) { o.sb.WriteString(strings.Repeat("  ", ind) + s + "\n") }

func (c *tctx) retExpr(rs []ast.Expr, n ast.Node) string {
	if len(c.mutParams) > 0 {
		saved := c.mutParams
		c.mutParams = nil
		base := c.retExpr(rs, n)
		c.mutParams = saved
		var parts []string
		if !(len(rs) == 0 && len(c.resNames) == 0) {
			parts = append(parts, strings.TrimSuffix(strings.TrimPrefix(base, "("), ")"))
			if len(rs) <= 1 && len(c.resNames) <= 1 {
				parts[0] = base
			}
		}
		for _, pn := range saved {
			parts = append(parts, lname(pn))
		}
		if len(parts) == 1 {
			return parts[0]
		}
		return "(" + strings.Join(parts, ", ") + ")"
	}
	if len(rs) == 0 {
		if len(c.resNames) == 0 {
			return "()"
		}
		var names []string
		for _, r := range c.resNames {
			names = append(names, lname(r))
		}
		if len(names) == 1 {
			return names[0]
		}
		return "(" + strings.Join(names, ", ") + ")"
	}
	var es []string
	for i, r := range rs {
		if id, ok := r.(*ast.Ident); ok && id.Name == "nil" {
			lt := "Go.Error"
			if i < len(c.resTypes) {
				lt = c.resTypes[i]
			}
			if lt == "Go.Error" {
				es = append(es, "({} : Go.Error)")
			} else {
				es = append(es, "({ isNil := true } : "+lt+")")
			}
			continue
		}
		es = append(es, c.expr(r))
	}
	if len(es) == 1 {
		return es[0]
	}
	return "(" + strings.Join(es, ", ") + ")"
}

func (c *tctx) declare(o *out, ind int, name, goT, val string) {
	c.types[name] = goT
	if name == "_" {
		return
	}
	kw := "let "
	if c.assigned[name] {
		kw = "let mut "
	}
	ann := ""
	if l, ok := typeTable[goT]; ok {
		ann = " : " + l
	}
	o.line(ind, kw+lname(name)+ann+" := "+val)
}

func (c *tctx) block(o *out, ind int, stmts []ast.Stmt) {
	n := 0
	for _, s := range stmts {
		if c.isLogStmt(s) {
			continue
		}
		c.stmt(o, ind, s)
		n++
	}
	if n == 0 {
		o.line(ind, "pure ()")
	}
}

func (c *tctx) stmt(o *out, ind int, s ast.Stmt) {
	switch x := s.(type) {
	case *ast.DeclStmt:
		gd, ok := x.Decl.(*ast.GenDecl)
		if !ok || gd.Tok != token.VAR {
			fail(s, "declaration outside the translated subset")
		}
		for _, sp := range gd.Specs {
			vs := sp.(*ast.ValueSpec)
			for i, nm := range vs.Names {
				if vs.Type == nil && len(vs.Values) > i {
					c.declare(o, ind, nm.Name, c.goType(vs.Values[i]), c.expr(vs.Values[i]))
					continue
				}
				lt := c.leanType(vs.Type)
				val, ok := zeroTable[lt]
				if len(vs.Values) > i {
					val, ok = c.expr(vs.Values[i]), true
				}
				if !ok {
					fail(s, "no zero value for %s", lt)
				}
				c.declare(o, ind, nm.Name, typeStr(vs.Type), val)
			}
		}
	case *ast.AssignStmt:
		c.assign(o, ind, x)
	case *ast.ExprStmt:
		// strings.Builder.WriteString
		if call, ok := x.X.(*ast.CallExpr); ok {
			if c.builderWrite(o, ind, call) {
				return
			}
			// delete(p.F, k): a write to a map held in a field of a pointer variable
			if id, ok := call.Fun.(*ast.Ident); ok && id.Name == "delete" && len(call.Args) == 2 {
				if sel, ok := call.Args[0].(*ast.SelectorExpr); ok {
					if pv, ok := sel.X.(*ast.Ident); ok && c.isLocal(pv.Name) {
						v := lname(pv.Name)
						o.line(ind, v+" := { (← Go.derefNil ("+v+").isNil "+v+") with "+lname(sel.Sel.Name)+" := Go.MapOf.delete "+c.expr(sel)+" "+c.expr(call.Args[1])+" }")
						return
					}
				}
			}
		}
		fail(s, "expression statement outside the translated subset")
	case *ast.IfStmt:
		if x.Init != nil {
			// `if v := e; cond {…}`: v is a NEW variable scoped to the if statement, whatever the enclosing scope declares
			if as, ok := x.Init.(*ast.AssignStmt); ok && as.Tok == token.DEFINE {
				for _, l := range as.Lhs {
					if id, ok := l.(*ast.Ident); ok {
						delete(c.types, id.Name)
					}
				}
			}
			c.stmt(o, ind, x.Init)
		}
		o.line(ind, "if "+c.expr(x.Cond)+" then")
		c.block(o, ind+1, x.Body.List)
		switch e := x.Else.(type) {
		case nil:
		case *ast.BlockStmt:
			o.line(ind, "else")
			c.block(o, ind+1, e.List)
		case *ast.IfStmt:
			o.line(ind, "else")
			c.stmt(o, ind+1, e)
		}
	case *ast.SwitchStmt:
		c.switchStmt(o, ind, x)
	case *ast.TypeSwitchStmt:
		c.typeSwitch(o, ind, x)
	case *ast.RangeStmt:
		c.rangeStmt(o, ind, x)
	case *ast.ForStmt:
		c.forStmt(o, ind, x)
	case *ast.ReturnStmt:
		o.line(ind, "return "+c.retExpr(x.Results, x))
	case *ast.BranchStmt:
		switch x.Tok {
		case token.CONTINUE:
			o.line(ind, "continue")
		case token.BREAK:
			o.line(ind, "break")
		default:
			fail(s, "branch statement outside the translated subset")
		}
		if x.Label != nil {
			fail(s, "labelled branch")
		}
	case *ast.BlockStmt:
		c.block(o, ind, x.List)
	default:
		fail(s, "statement outside the translated subset")
	}
}

func (c *tctx) builderWrite(o *out, ind int, call *ast.CallExpr) bool {
	sel, ok := call.Fun.(*ast.SelectorExpr)
	if !ok {
		return false
	}
	id, ok := sel.X.(*ast.Ident)
	if !ok || !c.builders[id.Name] || sel.Sel.Name != "WriteString" {
		return false
	}
	o.line(ind, lname(id.Name)+" := "+lname(id.Name)+" ++ "+c.expr(call.Args[0]))
	return true
}

func (c *tctx) assign(o *out, ind int, x *ast.AssignStmt) {
	// `_, _ = b.WriteString(…)`
	if len(x.Rhs) == 1 {
		if call, ok := x.Rhs[0].(*ast.CallExpr); ok {
			allBlank := true
			for _, l := range x.Lhs {
				if id, ok := l.(*ast.Ident); !ok || id.Name != "_" {
					allBlank = false
				}
			}
			if allBlank && c.builderWrite(o, ind, call) {
				return
			}
		}
	}
	// b := strings.Builder{}
	if len(x.Lhs) == 1 && len(x.Rhs) == 1 {
		if cl, ok := x.Rhs[0].(*ast.CompositeLit); ok && cl.Type != nil && typeStr(cl.Type) == "strings.Builder" {
			id := x.Lhs[0].(*ast.Ident)
			c.builders[id.Name] = true
			c.types[id.Name] = "strings.Builder"
			o.line(ind, "let mut "+lname(id.Name)+" : Str := []")
			return
		}
	}
	// m[k] = v
	if len(x.Lhs) == 1 && len(x.Rhs) == 1 && x.Tok == token.ASSIGN {
		if ix, ok := x.Lhs[0].(*ast.IndexExpr); ok {
			id, ok := ix.X.(*ast.Ident)
			if !ok || !strings.HasPrefix(c.types[id.Name], "map[") {
				fail(x, "indexed assignment to something that is not a local map")
			}
			o.line(ind, lname(id.Name)+" := Go.Map.set "+lname(id.Name)+" "+c.expr(ix.Index)+" "+c.expr(x.Rhs[0]))
			return
		}
	}
	// p.F = v : a write through a pointer variable (a nil pointer panics); when p is a parameter the caller sees the write,
	// so the translation hands the new value of p back (see translateFunc)
	if len(x.Lhs) == 1 && len(x.Rhs) == 1 && x.Tok == token.ASSIGN {
		if sel, ok := x.Lhs[0].(*ast.SelectorExpr); ok {
			if id, ok := sel.X.(*ast.Ident); ok && c.isLocal(id.Name) {
				v := lname(id.Name)
				o.line(ind, v+" := { (← Go.derefNil ("+v+").isNil "+v+") with "+lname(sel.Sel.Name)+" := "+c.expr(x.Rhs[0])+" }")
				return
			}
			// p.GetF().G = v : the getter hands out the pointer held in field F of p (nil when p is nil), the write goes
			// through it: it is a write to p.F.G, and a nil p or a nil p.F panics
			if pv, f, ok := getterOnLocal(c, sel.X); ok {
				v := lname(pv)
				inner := "(" + v + ").Get" + f
				rhs := c.expr(x.Rhs[0])
				o.line(ind, v+" := { (← Go.derefNil ("+v+").isNil "+v+") with "+lname(f)+" := { (← Go.derefNil ("+inner+").isNil "+inner+") with "+lname(sel.Sel.Name)+" := "+rhs+" } }")
				return
			}
			fail(x, "assignment to a field of something that is not a local pointer variable")
		}
	}
	if x.Tok == token.ADD_ASSIGN && len(x.Lhs) == 1 {
		id, ok := x.Lhs[0].(*ast.Ident)
		if !ok {
			fail(x, "+= on a non-identifier")
		}
		op := " + "
		if c.types[id.Name] == "string" {
			op = " ++ "
		}
		o.line(ind, lname(id.Name)+" := "+lname(id.Name)+op+c.expr(x.Rhs[0]))
		return
	}
	if x.Tok != token.DEFINE && x.Tok != token.ASSIGN {
		fail(x, "assignment operator outside the translated subset")
	}
	// err = h.Process(ctx, req, resp): the method writes through its pointer argument
	if len(x.Rhs) == 1 && len(x.Lhs) == 1 {
		if call, ok := x.Rhs[0].(*ast.CallExpr); ok {
			if sel, ok := call.Fun.(*ast.SelectorExpr); ok {
				if ai, ok := mutatingMethods[sel.Sel.Name]; ok && ai < len(call.Args) {
					target, ok1 := call.Args[ai].(*ast.Ident)
					res, ok2 := x.Lhs[0].(*ast.Ident)
					if !ok1 || !ok2 {
						fail(x, "mutating method call with a non-identifier argument or result")
					}
					c.tmp++
					t1, t2 := fmt.Sprintf("%s__%d", lname(target.Name), c.tmp), fmt.Sprintf("%s__%d", lname(res.Name), c.tmp)
					var as []string
					for _, a := range call.Args {
						if typeStr(a) == "ctx" || c.isLoggerExpr(a) {
							continue
						}
						as = append(as, c.expr(a))
					}
					o.line(ind, "let ("+t1+", "+t2+") ← ("+c.expr(sel.X)+")."+sel.Sel.Name+"! "+strings.Join(as, " "))
					o.line(ind, lname(target.Name)+" := "+t1)
					if x.Tok == token.DEFINE {
						c.declare(o, ind, res.Name, "error", t2)
					} else {
						o.line(ind, lname(res.Name)+" := "+t2)
					}
					return
				}
			}
		}
	}
	// h, err = f(...): re-assignment of existing variables from a tuple
	if len(x.Rhs) == 1 && len(x.Lhs) > 1 && x.Tok == token.ASSIGN {
		c.tmp++
		var tmps []string
		for _, l := range x.Lhs {
			id, ok := l.(*ast.Ident)
			if !ok {
				fail(x, "tuple assignment to a non-identifier")
			}
			if id.Name == "_" {
				tmps = append(tmps, "_")
			} else {
				tmps = append(tmps, fmt.Sprintf("%s__%d", lname(id.Name), c.tmp))
			}
		}
		rhs := c.expr(x.Rhs[0])
		arrow := ":="
		if strings.HasPrefix(rhs, "(← ") && strings.HasSuffix(rhs, ")") {
			rhs, arrow = rhs[len("(← "):len(rhs)-1], "←"
		}
		o.line(ind, "let ("+strings.Join(tmps, ", ")+") "+arrow+" "+rhs)
		for i, l := range x.Lhs {
			if id := l.(*ast.Ident); id.Name != "_" {
				o.line(ind, lname(id.Name)+" := "+tmps[i])
			}
		}
		return
	}
	if len(x.Rhs) == 1 && len(x.Lhs) > 1 {
		// tuple result of one call
		call, ok := x.Rhs[0].(*ast.CallExpr)
		if !ok {
			fail(x, "tuple assignment from a non-call")
		}
		var fd *ast.FuncDecl
		switch f := call.Fun.(type) {
		case *ast.Ident:
			fd = c.funcs[f.Name]
		case *ast.SelectorExpr:
			if id, ok := f.X.(*ast.Ident); ok && !c.isLocal(id.Name) {
				fd = c.funcs[f.Sel.Name]
			}
		}
		var names []string
		for i, l := range x.Lhs {
			id, ok := l.(*ast.Ident)
			if !ok {
				fail(x, "tuple assignment to a non-identifier")
			}
			if x.Tok == token.ASSIGN && id.Name != "_" {
				fail(x, "tuple re-assignment (only := is supported for tuples)")
			}
			names = append(names, lname(id.Name))
			if fd != nil && fd.Type.Results != nil {
				var rts []string
				for _, f := range fd.Type.Results.List {
					k := len(f.Names)
					if k == 0 {
						k = 1
					}
					for j := 0; j < k; j++ {
						rts = append(rts, typeStr(f.Type))
					}
				}
				if i < len(rts) && id.Name != "_" {
					c.types[id.Name] = rts[i]
				}
			} else if id.Name != "_" {
				c.types[id.Name] = ""
			}
		}
		rhs := c.expr(call)
		arrow := ":="
		if strings.HasPrefix(rhs, "(← ") && strings.HasSuffix(rhs, ")") && fd != nil {
			rhs = rhs[len("(← ") : len(rhs)-1]
			arrow = "←"
		}
		if typeStr(call.Fun) == "regexp.MatchString" && len(names) == 2 {
			c.types[x.Lhs[0].(*ast.Ident).Name] = "bool"
			c.types[x.Lhs[1].(*ast.Ident).Name] = "error"
		}
		if typeStr(call.Fun) == "url.Parse" && len(names) == 2 {
			c.types[x.Lhs[0].(*ast.Ident).Name] = "*url.URL"
		}
		o.line(ind, "let ("+strings.Join(names, ", ")+") "+arrow+" "+rhs)
		return
	}
	if len(x.Lhs) != len(x.Rhs) {
		fail(x, "assignment shape outside the translated subset")
	}
	for i, l := range x.Lhs {
		id, ok := l.(*ast.Ident)
		if !ok {
			fail(x, "assignment to a non-identifier")
		}
		if id.Name == "_" {
			continue
		}
		val := c.expr(x.Rhs[i])
		_, known := c.types[id.Name]
		if x.Tok == token.DEFINE && !known {
			c.declare(o, ind, id.Name, c.goType(x.Rhs[i]), val)
		} else {
			o.line(ind, lname(id.Name)+" := "+val)
		}
	}
}

func (c *tctx) switchStmt(o *out, ind int, x *ast.SwitchStmt) {
	if x.Init != nil {
		c.stmt(o, ind, x.Init)
	}
	var tag string
	if x.Tag != nil {
		tag = c.expr(x.Tag)
	}
	var deflt *ast.CaseClause
	first := true
	depth := 0
	for _, cc := range x.Body.List {
		cl := cc.(*ast.CaseClause)
		for _, s := range cl.Body {
			if b, ok := s.(*ast.BranchStmt); ok && b.Tok == token.FALLTHROUGH {
				fail(x, "fallthrough")
			}
		}
		if cl.List == nil {
			deflt = cl
			continue
		}
		var conds []string
		for _, e := range cl.List {
			if tag == "" {
				conds = append(conds, c.expr(e))
			} else {
				conds = append(conds, "("+tag+" == "+c.expr(e)+")")
			}
		}
		cond := strings.Join(conds, " || ")
		if !first {
			o.line(ind+depth, "else")
			depth++
		}
		o.line(ind+depth, "if "+cond+" then")
		c.block(o, ind+depth+1, cl.Body)
		first = false
	}
	if deflt != nil {
		if first {
			c.block(o, ind, deflt.Body)
			return
		}
		o.line(ind+depth, "else")
		c.block(o, ind+depth+1, deflt.Body)
	}
}

func (c *tctx) typeSwitch(o *out, ind int, x *ast.TypeSwitchStmt) {
	var bind, subject string
	switch a := x.Assign.(type) {
	case *ast.AssignStmt:
		bind = a.Lhs[0].(*ast.Ident).Name
		subject = c.expr(a.Rhs[0].(*ast.TypeAssertExpr).X)
	case *ast.ExprStmt:
		subject = c.expr(a.X.(*ast.TypeAssertExpr).X)
	}
	o.line(ind, "match "+subject+" with")
	hasDefault := false
	for _, cc := range x.Body.List {
		cl := cc.(*ast.CaseClause)
		if cl.List == nil {
			hasDefault = true
			o.line(ind, "| _ =>")
			c.block(o, ind+2, cl.Body)
			continue
		}
		if len(cl.List) != 1 {
			fail(x, "type switch case with several types")
		}
		t := typeStr(cl.List[0])
		i := strings.LastIndex(t, "_")
		if i < 0 {
			fail(x, "type switch on something that is not a oneof wrapper")
		}
		ctor := t[i+1:]
		b := "_"
		if bind != "" && c.used[bind] > 0 {
			b = lname(bind)
			c.types[bind] = t
		}
		o.line(ind, "| ."+ctor+" "+b+" =>")
		c.block(o, ind+2, cl.Body)
	}
	if !hasDefault {
		o.line(ind, "| _ => pure ()")
	}
}

// forStmt: only the counting loop `for i := 0; i < len(x); i++ { … }` whose body does not assign i
func (c *tctx) forStmt(o *out, ind int, x *ast.ForStmt) {
	init, ok1 := x.Init.(*ast.AssignStmt)
	cond, ok2 := x.Cond.(*ast.BinaryExpr)
	post, ok3 := x.Post.(*ast.IncDecStmt)
	if !ok1 || !ok2 || !ok3 || init.Tok != token.DEFINE || len(init.Lhs) != 1 || typeStr(init.Rhs[0]) != "0" || cond.Op != token.LSS || post.Tok != token.INC {
		fail(x, "for statement outside the translated subset (only `for i := 0; i < n; i++`)")
	}
	i := init.Lhs[0].(*ast.Ident).Name
	if typeStr(cond.X) != i || typeStr(post.X) != i || c.assigned[i] {
		fail(x, "counting loop whose counter is assigned in the body")
	}
	c.types[i] = "int"
	o.line(ind, "for "+lname(i)+" in Go.range "+c.expr(cond.Y)+" do")
	c.block(o, ind+1, x.Body.List)
}

func (c *tctx) rangeStmt(o *out, ind int, x *ast.RangeStmt) {
	key, val := "_", "_"
	if id, ok := x.Key.(*ast.Ident); ok && x.Key != nil {
		key = id.Name
	}
	if x.Value != nil {
		if id, ok := x.Value.(*ast.Ident); ok {
			val = id.Name
		}
	}
	if key != "_" && c.usesIn(x.Body, key) == 0 { // only used by dropped logging statements
		key = "_"
	}
	t := c.goType(x.X)
	coll := c.expr(x.X)
	switch {
	case strings.HasPrefix(t, "map["):
		c.types[key], c.types[val] = "string", "string"
		o.line(ind, "for ("+lname(key)+", "+lname(val)+") in Go.Map.entries "+coll+" do")
	case key == "_":
		if strings.HasPrefix(t, "[]") {
			c.types[val] = t[2:]
		} else {
			c.types[val] = ""
		}
		o.line(ind, "for "+lname(val)+" in "+coll+" do")
	default:
		c.types[key] = "int"
		if strings.HasPrefix(t, "[]") {
			c.types[val] = t[2:]
		}
		o.line(ind, "for ("+lname(key)+", "+lname(val)+") in Go.enum "+coll+" do")
	}
	c.block(o, ind+1, x.Body.List)
}

// ---------------------------------------------------------------------------------------------------------------

func findFunc(f *ast.File, name string) *ast.FuncDecl {
	for _, d := range f.Decls {
		if fd, ok := d.(*ast.FuncDecl); ok && funcName(fd) == name {
			return fd
		}
	}
	return nil
}

func shortName(name string) string {
	if i := strings.LastIndex(name, "."); i >= 0 {
		return name[i+1:]
	}
	return name
}

func translateFunc(all map[string]*ast.FuncDecl, consts map[string]bool, fd *ast.FuncDecl) (code string, err string) {
	defer func() {
		if r := recover(); r != nil {
			if te, ok := r.(terr); ok {
				err = te.msg
				return
			}
			panic(r)
		}
	}()
	c := &tctx{funcs: all, consts: consts, loggers: map[string]bool{}, builders: map[string]bool{}, types: map[string]string{},
		assigned: map[string]bool{}, fd: fd, used: map[string]int{}, fieldWritten: map[string]bool{}}
	var params []string
	if fd.Recv != nil && len(fd.Recv.List) == 1 && len(fd.Recv.List[0].Names) == 1 {
		r := fd.Recv.List[0]
		c.types[r.Names[0].Name] = typeStr(r.Type)
		params = append(params, "("+lname(r.Names[0].Name)+" : "+c.leanType(r.Type)+")")
	}
	for _, p := range fd.Type.Params.List {
		for _, nm := range p.Names {
			if isLoggerType(p.Type) {
				c.loggers[nm.Name] = true
				continue
			}
			if ts := typeStr(p.Type); ts == "context.Context" {
				continue
			}
			c.types[nm.Name] = typeStr(p.Type)
			params = append(params, "("+lname(nm.Name)+" : "+c.leanType(p.Type)+")")
		}
	}
	c.countUses(fd.Body)
	var paramOrder []string
	var paramTypes = map[string]string{}
	if fd.Recv != nil && len(fd.Recv.List) == 1 && len(fd.Recv.List[0].Names) == 1 {
		paramOrder = append(paramOrder, fd.Recv.List[0].Names[0].Name)
		paramTypes[fd.Recv.List[0].Names[0].Name] = typeTable[typeStr(fd.Recv.List[0].Type)]
	}
	for _, p := range fd.Type.Params.List {
		for _, nm := range p.Names {
			if _, ok := typeTable[typeStr(p.Type)]; ok {
				paramOrder = append(paramOrder, nm.Name)
				paramTypes[nm.Name] = typeTable[typeStr(p.Type)]
			}
		}
	}
	for _, pn := range paramOrder {
		if c.fieldWritten[pn] {
			c.mutParams = append(c.mutParams, pn)
		}
	}
	var rts []string
	if fd.Type.Results != nil {
		for _, r := range fd.Type.Results.List {
			k := len(r.Names)
			if k == 0 {
				k = 1
			}
			for j := 0; j < k; j++ {
				rts = append(rts, c.leanType(r.Type))
			}
			for _, nm := range r.Names {
				c.resNames = append(c.resNames, nm.Name)
				c.assigned[nm.Name] = true
			}
		}
	}
	c.resTypes = rts
	for _, pn := range c.mutParams {
		rts = append(rts, paramTypes[pn])
	}
	rt := "Unit"
	if len(rts) == 1 {
		rt = rts[0]
		if strings.Contains(rt, " ") {
			rt = "(" + rt + ")"
		}
	} else if len(rts) > 1 {
		rt = "(" + strings.Join(rts, " × ") + ")"
	}
	var o out
	extra := ""
	if strings.Contains(src(fd.Body), "authz.NewOIDCHandler") || strings.Contains(src(fd.Body), "authz.NewMockHandler") {
		extra = "(handlers : Pb.Handlers) "
	}
	o.line(0, "def "+lname(shortName(funcName(fd)))+" (env : Go.Env) "+extra+strings.Join(params, " ")+" : Go.M "+rt+" := do")
	o.line(1, "let _ := env")
	for _, pn := range c.mutParams {
		o.line(1, "let mut "+lname(pn)+" := "+lname(pn))
	}
	if fd.Type.Results != nil {
		for _, r := range fd.Type.Results.List {
			for _, nm := range r.Names {
				lt := c.leanType(r.Type)
				z, ok := zeroTable[lt]
				if !ok {
					fail(r.Type, "no zero value for %s", lt)
				}
				c.declare(&o, 1, nm.Name, typeStr(r.Type), z)
			}
		}
	}
	c.block(&o, 1, fd.Body.List)
	// a Go function whose last statement is not a return (only possible without results)
	if len(c.resTypes) == 0 {
		o.line(1, "return "+c.retExpr(nil, fd))
	}
	return o.sb.String(), ""
}

// translateVar: a package-level variable holding a value, or a function literal whose body is a single return of a value
func translateVar(all map[string]*ast.FuncDecl, consts map[string]bool, f *ast.File, name string) (code string, err string) {
	defer func() {
		if r := recover(); r != nil {
			if te, ok := r.(terr); ok {
				err = te.msg
				return
			}
			panic(r)
		}
	}()
	for _, d := range f.Decls {
		gd, ok := d.(*ast.GenDecl)
		if !ok || gd.Tok != token.VAR {
			continue
		}
		for _, sp := range gd.Specs {
			vs := sp.(*ast.ValueSpec)
			for i, nm := range vs.Names {
				if nm.Name != name || i >= len(vs.Values) {
					continue
				}
				c := &tctx{funcs: all, consts: consts, loggers: map[string]bool{}, builders: map[string]bool{}, types: map[string]string{},
					assigned: map[string]bool{}, used: map[string]int{}, fieldWritten: map[string]bool{}}
				if fl, ok := vs.Values[i].(*ast.FuncLit); ok {
					if len(fl.Body.List) != 1 {
						fail(fl, "function value with more than one statement")
					}
					ret, ok := fl.Body.List[0].(*ast.ReturnStmt)
					if !ok || len(ret.Results) != 1 || fl.Type.Results == nil || len(fl.Type.Results.List) != 1 {
						fail(fl, "function value that is not a single return of one value")
					}
					var params []string
					for _, p := range fl.Type.Params.List {
						for _, pn := range p.Names {
							c.types[pn.Name] = typeStr(p.Type)
							params = append(params, "("+lname(pn.Name)+" : "+c.leanType(p.Type)+")")
						}
					}
					body := c.expr(ret.Results[0])
					if strings.Contains(body, "(← ") {
						fail(fl, "function value with a partial operation")
					}
					return "def " + lname(name) + " " + strings.Join(params, " ") + " : " + c.leanType(fl.Type.Results.List[0].Type) + " := " + body + "\n", ""
				}
				c.countUses(vs.Values[i])
				body := c.expr(vs.Values[i])
				if strings.Contains(body, "(← ") {
					fail(vs, "package-level value with a partial operation")
				}
				return "def " + lname(name) + " := " + body + "\n", ""
			}
		}
	}
	return "", "the variable no longer exists"
}

func translateAll(repo, outDir string) {
	files := map[string]*ast.File{}
	get := func(p string) *ast.File {
		if f, ok := files[p]; ok {
			return f
		}
		f := parse(filepath.Join(repo, p))
		files[p] = f
		return f
	}
	all := map[string]*ast.FuncDecl{}
	for _, u := range translationUnits {
		for _, tf := range u.funcs {
			if fd := findFunc(get(tf.file), tf.name); fd != nil && fd.Body != nil {
				all[shortName(tf.name)] = fd
			}
		}
	}
	consts := map[string]bool{}
	constVals := map[string]map[string]string{}
	for _, u := range translationUnits {
		for _, cf := range u.consts {
			constVals[cf] = stringConsts(get(cf))
			for k := range constVals[cf] {
				consts[k] = true
			}
		}
	}
	for _, u := range translationUnits {
		var sb strings.Builder
		sb.WriteString("/- GENERATED by tools/factgen (translate.go) from /repo's working tree: do not edit. -/\n")
		sb.WriteString("import AuthModel.GoLib\nimport AuthModel.Pb\n")
		for _, im := range u.imports {
			sb.WriteString("import " + im + "\n")
		}
		sb.WriteString("set_option linter.unusedVariables false\nnamespace AuthModel.Code\nopen AuthModel AuthModel.Str\n\n")
		for _, cf := range u.consts {
			var ks []string
			for k := range constVals[cf] {
				ks = append(ks, k)
			}
			sort.Strings(ks)
			for _, k := range ks {
				sb.WriteString("def " + lname(k) + " : Str := " + strLit(constVals[cf][k]) + "\n")
			}
			sb.WriteString("\n")
		}
		for _, tv := range u.vars {
			code, err := translateVar(all, consts, get(tv.file), tv.name)
			if err != "" {
				sb.WriteString("/- NOT TRANSLATED " + tv.file + " var " + tv.name + ": " + strings.ReplaceAll(err, "-/", "- /") + " -/\n\n")
				continue
			}
			sb.WriteString("/-- " + tv.file + ": var " + tv.name + " -/\n" + code + "\n")
		}
		for _, tf := range u.funcs {
			fd := findFunc(get(tf.file), tf.name)
			if fd == nil || fd.Body == nil {
				sb.WriteString("/- NOT TRANSLATED " + tf.file + " " + tf.name + ": the function no longer exists -/\n\n")
				continue
			}
			code, err := translateFunc(all, consts, fd)
			if err != "" {
				sb.WriteString("/- NOT TRANSLATED " + tf.file + " " + tf.name + ": " + strings.ReplaceAll(err, "-/", "- /") + " -/\n\n")
				continue
			}
			sb.WriteString("/-- " + tf.file + ": " + tf.name + " -/\n" + code + "\n")
		}
		sb.WriteString("end AuthModel.Code\n")
		writeIfChanged(filepath.Join(outDir, u.module+".lean"), sb.String())
	}
}
