// factgen: a purely syntactic (go/parser + go/ast, no type checker, no third-party dependency) fact extractor.
// It reads /repo's current working tree and writes AuthModel/Generated/Facts.lean (+ facts.json for humans).
// Facts are DATA; the obligations over them are Lean theorems in AuthProps/*.lean (mostly `by decide`).
package main

import (
	"encoding/json"
	"flag"
	"fmt"
	"go/ast"
	"go/parser"
	"go/printer"
	"go/token"
	"os"
	"path/filepath"
	"sort"
	"strconv"
	"strings"
)

var fset = token.NewFileSet()

func parse(path string) *ast.File {
	f, err := parser.ParseFile(fset, path, nil, parser.ParseComments)
	if err != nil {
		fmt.Fprintln(os.Stderr, "factgen: cannot parse", path, err)
		os.Exit(1)
	}
	return f
}

func src(n ast.Node) string {
	var sb strings.Builder
	_ = printer.Fprint(&sb, fset, n)
	return strings.Join(strings.Fields(sb.String()), " ")
}

// string constants of a file: name -> value
func stringConsts(f *ast.File) map[string]string {
	m := map[string]string{}
	ast.Inspect(f, func(n ast.Node) bool {
		vs, ok := n.(*ast.ValueSpec)
		if !ok {
			return true
		}
		for i, name := range vs.Names {
			if i < len(vs.Values) {
				if bl, ok := vs.Values[i].(*ast.BasicLit); ok && bl.Kind == token.STRING {
					if s, err := strconv.Unquote(bl.Value); err == nil {
						m[name.Name] = s
					}
				}
			}
		}
		return true
	})
	return m
}

func funcDecl(f *ast.File, name string) *ast.FuncDecl {
	for _, d := range f.Decls {
		if fd, ok := d.(*ast.FuncDecl); ok && fd.Name.Name == name {
			return fd
		}
	}
	return nil
}

func funcName(fd *ast.FuncDecl) string {
	if fd.Recv != nil && len(fd.Recv.List) == 1 {
		t := fd.Recv.List[0].Type
		if st, ok := t.(*ast.StarExpr); ok {
			t = st.X
		}
		return src(t) + "." + fd.Name.Name
	}
	return fd.Name.Name
}

// resolve an expression to a string constant using local and imported constant tables
func resolve(e ast.Expr, local map[string]string, pkgs map[string]map[string]string) (string, bool) {
	switch x := e.(type) {
	case *ast.BasicLit:
		if x.Kind == token.STRING {
			s, err := strconv.Unquote(x.Value)
			return s, err == nil
		}
	case *ast.Ident:
		s, ok := local[x.Name]
		return s, ok
	case *ast.SelectorExpr:
		if id, ok := x.X.(*ast.Ident); ok {
			if p, ok := pkgs[id.Name]; ok {
				s, ok := p[x.Sel.Name]
				return s, ok
			}
		}
	}
	return "", false
}

type lockAccess struct {
	Struct, Method, Field, Kind string
	Locked                      bool
}

type facts struct {
	PrefixCookieName, SuffixCookieName, DefaultCookieName string
	CookieDirectives                                      []string
	StdHeaders                                            [][2]string
	SessionErrorBody, ExpiredBody                         string
	TokenResponseKeys, AuthorizationStateKeys, ClearHDel  []string
	Charset                                               string
	GenLengths                                            [][2]string // method, length literal
	ClientSecretKey, ScopeOIDC                            string
	AllowSites, DenySites                                 [][2]string // function, count
	StoreCallSites                                        [][2]string // function, "Method,Method,..." in source order
	SessionImports                                        []string
	GeneratorCalls                                        [][2]string // function, pkg.Func
	TypeAssertsNoOk                                       [][2]string // function, expr
	IndexSliceSites                                       [][2]string // function, expr   (authz/oidc.go, server/authz.go, http/http.go)
	ExplicitPanics                                        [][2]string
	LockTable                                             []lockAccess
	PackageMaps                                           [][2]string  // package-level map variables: file, name
	PackageMapAccess                                      []lockAccess // Struct = var name
	RegisteredUnits                                       []string
	RedisFieldWrites                                      [][2]string  // function, field  (outside NewRedisStore)
	SharedConfigWrites                                    [][2]string  // function, target expr: assignments through *OIDCConfig / *tls.Config fields outside constructors
	FieldMapWrites                                        []lockAccess // every write to a map reached through a struct field, in any non-test file of internal/: (file, function, target, write|delete, some mutex locked at that statement or constructor)
	TLSConfigAliases                                      [][2]string  // function, right-hand side: a *tls.Config installed into an http.Transport (TLSClientConfig) - shared with the pool unless cloned
	TriggerUsesSplitter                                   bool
}

func main() {
	repo := flag.String("repo", "/repo", "repository root")
	out := flag.String("out", "", "output directory for Facts.lean")
	flag.Parse()
	R := func(p string) string { return filepath.Join(*repo, p) }
	var F facts

	oidcGo := parse(R("internal/authz/oidc.go"))
	hdrGo := parse(R("internal/http/headers.go"))
	httpGo := parse(R("internal/http/http.go"))
	redisGo := parse(R("internal/oidc/redis.go"))
	memGo := parse(R("internal/oidc/memory.go"))
	sessGo := parse(R("internal/oidc/session.go"))
	discGo := parse(R("internal/oidc/discovery.go"))
	srvGo := parse(R("internal/server/authz.go"))
	cfgGo := parse(R("internal/config.go"))
	k8sGo := parse(R("internal/k8s/secret_controller.go"))
	tlsGo := parse(R("internal/tls.go"))
	fileGo := parse(R("internal/file.go"))
	mainGo := parse(R("cmd/main.go"))

	lc := stringConsts(oidcGo)
	pk := map[string]map[string]string{"inthttp": stringConsts(hdrGo)}
	F.PrefixCookieName, F.SuffixCookieName, F.DefaultCookieName = lc["prefixCookieName"], lc["suffixCookieName"], lc["defaultCookieName"]

	// cookie directives: the composite literal assigned to `directives` in getCookieDirectives
	if fd := funcDecl(oidcGo, "getCookieDirectives"); fd != nil {
		ast.Inspect(fd, func(n ast.Node) bool {
			if cl, ok := n.(*ast.CompositeLit); ok && len(F.CookieDirectives) == 0 {
				for _, e := range cl.Elts {
					s, ok := resolve(e, lc, pk)
					if !ok {
						s = "?" + src(e)
					}
					F.CookieDirectives = append(F.CookieDirectives, s)
				}
			}
			return true
		})
	}
	// standardResponseHeaders
	ast.Inspect(oidcGo, func(n ast.Node) bool {
		vs, ok := n.(*ast.ValueSpec)
		if !ok || len(vs.Names) != 1 || vs.Names[0].Name != "standardResponseHeaders" {
			return true
		}
		ast.Inspect(vs, func(m ast.Node) bool {
			cl, ok := m.(*ast.CompositeLit)
			if !ok || !strings.HasSuffix(src(cl.Type), "HeaderValue") {
				return true
			}
			var k, v string
			for _, e := range cl.Elts {
				if kv, ok := e.(*ast.KeyValueExpr); ok {
					s, _ := resolve(kv.Value, lc, pk)
					if src(kv.Key) == "Key" {
						k = s
					} else if src(kv.Key) == "Value" {
						v = s
					}
				}
			}
			F.StdHeaders = append(F.StdHeaders, [2]string{k, v})
			return true
		})
		return false
	})
	// fixed bodies: string literals assigned to a field named Body
	ast.Inspect(oidcGo, func(n ast.Node) bool {
		switch x := n.(type) {
		case *ast.KeyValueExpr:
			if src(x.Key) == "Body" {
				if s, ok := resolve(x.Value, lc, pk); ok && strings.Contains(s, "session data") {
					F.SessionErrorBody = s
				}
			}
		case *ast.AssignStmt:
			if len(x.Lhs) == 1 && strings.HasSuffix(src(x.Lhs[0]), ".Body") {
				if s, ok := resolve(x.Rhs[0], lc, pk); ok {
					F.ExpiredBody = s
				}
			}
		}
		return true
	})

	// redis key lists
	rc := stringConsts(redisGo)
	list := func(f *ast.File, varName string) []string {
		var out []string
		ast.Inspect(f, func(n ast.Node) bool {
			vs, ok := n.(*ast.ValueSpec)
			if !ok || len(vs.Names) != 1 || vs.Names[0].Name != varName || len(vs.Values) != 1 {
				return true
			}
			if cl, ok := vs.Values[0].(*ast.CompositeLit); ok {
				for _, e := range cl.Elts {
					s, _ := resolve(e, rc, nil)
					out = append(out, s)
				}
			}
			return false
		})
		return out
	}
	F.TokenResponseKeys = list(redisGo, "tokenResponseKeys")
	F.AuthorizationStateKeys = list(redisGo, "authorizationStateKeys")
	for _, d := range redisGo.Decls {
		fd, ok := d.(*ast.FuncDecl)
		if !ok {
			continue
		}
		ast.Inspect(fd, func(n ast.Node) bool {
			// HDel list of ClearAuthorizationState
			if ce, ok := n.(*ast.CallExpr); ok && fd.Name.Name == "ClearAuthorizationState" && strings.HasSuffix(src(ce.Fun), ".HDel") {
				for _, a := range ce.Args[2:] {
					s, _ := resolve(a, rc, nil)
					F.ClearHDel = append(F.ClearHDel, s)
				}
			}
			// F7: writes to receiver fields outside the constructor
			if as, ok := n.(*ast.AssignStmt); ok && fd.Recv != nil && strings.Contains(funcName(fd), "redisStore") {
				for _, l := range as.Lhs {
					if se, ok := l.(*ast.SelectorExpr); ok {
						if id, ok := se.X.(*ast.Ident); ok && id.Name == fd.Recv.List[0].Names[0].Name {
							F.RedisFieldWrites = append(F.RedisFieldWrites, [2]string{funcName(fd), se.Sel.Name})
						}
					}
				}
			}
			return true
		})
	}

	// generator: charset, lengths, calls, imports
	for _, im := range sessGo.Imports {
		p, _ := strconv.Unquote(im.Path.Value)
		F.SessionImports = append(F.SessionImports, p)
	}
	sort.Strings(F.SessionImports)
	for _, d := range sessGo.Decls {
		fd, ok := d.(*ast.FuncDecl)
		if !ok || !(strings.HasPrefix(fd.Name.Name, "Generate") || fd.Name.Name == "generate" || fd.Name.Name == "NewRandomGenerator") {
			continue
		}
		if fd.Recv != nil && strings.Contains(funcName(fd), "staticGenerator") {
			continue
		}
		ast.Inspect(fd, func(n ast.Node) bool {
			switch x := n.(type) {
			case *ast.ValueSpec:
				if len(x.Names) == 1 && x.Names[0].Name == "charset" && len(x.Values) == 1 {
					if s, ok := resolve(x.Values[0], nil, nil); ok {
						F.Charset = s
					}
				}
			case *ast.CallExpr:
				if se, ok := x.Fun.(*ast.SelectorExpr); ok {
					if id, ok := se.X.(*ast.Ident); ok {
						if id.Name == "r" && se.Sel.Name == "generate" && len(x.Args) == 1 {
							F.GenLengths = append(F.GenLengths, [2]string{fd.Name.Name, src(x.Args[0])})
						} else if id.Obj == nil { // package-qualified call
							F.GeneratorCalls = append(F.GeneratorCalls, [2]string{fd.Name.Name, id.Name + "." + se.Sel.Name})
						}
					}
				}
			}
			return true
		})
	}

	F.ClientSecretKey = stringConsts(k8sGo)["clientSecretKey"]
	F.ScopeOIDC = stringConsts(cfgGo)["ScopeOIDC"]

	// F2: verdict sites and store call sites per function, in source order
	storeMethods := map[string]bool{"SetTokenResponse": true, "GetTokenResponse": true, "SetAuthorizationState": true,
		"GetAuthorizationState": true, "ClearAuthorizationState": true, "RemoveSession": true}
	for _, d := range oidcGo.Decls {
		fd, ok := d.(*ast.FuncDecl)
		if !ok || fd.Body == nil {
			continue
		}
		allow, deny := 0, 0
		var calls []string
		ast.Inspect(fd.Body, func(n ast.Node) bool {
			if ce, ok := n.(*ast.CallExpr); ok {
				f := src(ce.Fun)
				switch {
				case strings.HasSuffix(f, "allowResponse"):
					allow++
				case f == "setDenyResponse":
					deny++
				case strings.HasPrefix(f, "store."):
					if m := strings.TrimPrefix(f, "store."); storeMethods[m] {
						calls = append(calls, m)
					}
				case f == "performIDPRequest":
					calls = append(calls, "IDP")
				case strings.HasSuffix(f, "jwks.Get"):
					calls = append(calls, "KEYS")
				}
			}
			return true
		})
		if allow > 0 {
			F.AllowSites = append(F.AllowSites, [2]string{funcName(fd), strconv.Itoa(allow)})
		}
		if deny > 0 {
			F.DenySites = append(F.DenySites, [2]string{funcName(fd), strconv.Itoa(deny)})
		}
		if len(calls) > 0 {
			F.StoreCallSites = append(F.StoreCallSites, [2]string{funcName(fd), strings.Join(calls, ",")})
		}
	}

	// F5: panic-capable sites in the files on the Check path
	for _, pf := range []struct {
		name string
		f    *ast.File
	}{{"authz/oidc.go", oidcGo}, {"server/authz.go", srvGo}, {"http/http.go", httpGo}, {"oidc/memory.go", memGo}, {"oidc/redis.go", redisGo}, {"config.go", cfgGo}} {
		for _, d := range pf.f.Decls {
			fd, ok := d.(*ast.FuncDecl)
			if !ok || fd.Body == nil {
				continue
			}
			okAsserts := map[ast.Expr]bool{}
			ast.Inspect(fd.Body, func(n ast.Node) bool {
				switch x := n.(type) {
				case *ast.AssignStmt:
					if len(x.Lhs) == 2 && len(x.Rhs) == 1 {
						if ta, ok := x.Rhs[0].(*ast.TypeAssertExpr); ok {
							okAsserts[ta] = true
						}
					}
				case *ast.ValueSpec:
					if len(x.Names) == 2 && len(x.Values) == 1 {
						if ta, ok := x.Values[0].(*ast.TypeAssertExpr); ok {
							okAsserts[ta] = true
						}
					}
				case *ast.IfStmt:
					if as, ok := x.Init.(*ast.AssignStmt); ok && len(as.Lhs) == 2 && len(as.Rhs) == 1 {
						if ta, ok := as.Rhs[0].(*ast.TypeAssertExpr); ok {
							okAsserts[ta] = true
						}
					}
				case *ast.TypeSwitchStmt:
					ast.Inspect(x.Assign, func(m ast.Node) bool {
						if ta, ok := m.(*ast.TypeAssertExpr); ok {
							okAsserts[ta] = true
						}
						return true
					})
				}
				return true
			})
			ast.Inspect(fd.Body, func(n ast.Node) bool {
				switch x := n.(type) {
				case *ast.TypeAssertExpr:
					if !okAsserts[x] && x.Type != nil {
						F.TypeAssertsNoOk = append(F.TypeAssertsNoOk, [2]string{pf.name + ":" + funcName(fd), src(x)})
					}
				case *ast.IndexExpr:
					// map lookups never panic; record indexing of non-map looking operands (slices/strings/arrays)
					if _, isLit := x.Index.(*ast.BasicLit); isLit || strings.Contains(src(x.Index), "len(") || strings.Contains(src(x.Index), "Intn") || strings.Contains(src(x.Index), "%") {
						F.IndexSliceSites = append(F.IndexSliceSites, [2]string{pf.name + ":" + funcName(fd), src(x)})
					}
				case *ast.SliceExpr:
					F.IndexSliceSites = append(F.IndexSliceSites, [2]string{pf.name + ":" + funcName(fd), src(x)})
				case *ast.CallExpr:
					if id, ok := x.Fun.(*ast.Ident); ok && id.Name == "panic" {
						F.ExplicitPanics = append(F.ExplicitPanics, [2]string{pf.name + ":" + funcName(fd), src(x)})
					}
				}
				return true
			})
		}
	}

	// F3: lock discipline. For each struct with a sync.Mutex/RWMutex field: per method, a linear walk of the statements
	// tracking Lock()/RLock()/Unlock()/RUnlock()/defer Unlock(); every use of a guarded field (map-typed fields of that
	// struct) is recorded with the lock state at that statement.
	for _, pf := range []*ast.File{memGo, tlsGo, fileGo} {
		guarded := map[string][]string{} // struct -> guarded fields (maps)
		mutex := map[string]string{}
		ast.Inspect(pf, func(n ast.Node) bool {
			ts, ok := n.(*ast.TypeSpec)
			if !ok {
				return true
			}
			st, ok := ts.Type.(*ast.StructType)
			if !ok {
				return true
			}
			for _, fl := range st.Fields.List {
				t := src(fl.Type)
				for _, nm := range fl.Names {
					if t == "sync.Mutex" || t == "sync.RWMutex" {
						mutex[ts.Name.Name] = nm.Name
					}
					if strings.HasPrefix(t, "map[") {
						guarded[ts.Name.Name] = append(guarded[ts.Name.Name], nm.Name)
					}
				}
			}
			return true
		})
		methods := map[string]map[string]bool{}
		for _, d := range pf.Decls {
			if fd, ok := d.(*ast.FuncDecl); ok && fd.Recv != nil {
				sn := strings.Split(funcName(fd), ".")[0]
				if methods[sn] == nil {
					methods[sn] = map[string]bool{}
				}
				methods[sn][fd.Name.Name] = true
			}
		}
		tableStart := len(F.LockTable)
		// two passes: the first finds the methods that write a guarded field, the second records the table
		writers := map[string]bool{}
		for pass := 0; pass < 2; pass++ {
			if pass == 1 {
				F.LockTable = F.LockTable[:tableStart]
			}
			for _, d := range pf.Decls {
				fd, ok := d.(*ast.FuncDecl)
				if !ok || fd.Recv == nil || fd.Body == nil || len(fd.Recv.List[0].Names) == 0 {
					continue
				}
				sname := strings.TrimPrefix(strings.Split(funcName(fd), ".")[0], "*")
				mu, has := mutex[sname]
				if !has {
					continue
				}
				recv := fd.Recv.List[0].Names[0].Name
				locked := false
				exclusive := false
				var walk func(stmts []ast.Stmt)
				record := func(n ast.Node, writeCtx bool) {
					ast.Inspect(n, func(m ast.Node) bool {
						se, ok := m.(*ast.SelectorExpr)
						if !ok {
							return true
						}
						id, ok := se.X.(*ast.Ident)
						if !ok || id.Name != recv {
							return true
						}
						if methods[sname][se.Sel.Name] {
							// calling a helper that writes a guarded field needs the exclusive lock
							F.LockTable = append(F.LockTable, lockAccess{sname, fd.Name.Name, "call:" + se.Sel.Name, "call", locked && (exclusive || !writers[sname+"."+se.Sel.Name])})
						}
						for _, g := range guarded[sname] {
							if se.Sel.Name == g {
								k := "read"
								if writeCtx {
									k = "write"
									writers[sname+"."+fd.Name.Name] = true
								}
								// a write needs the exclusive lock; a read is fine under either mode
								F.LockTable = append(F.LockTable, lockAccess{sname, fd.Name.Name, g, k, locked && (exclusive || !writeCtx)})
							}
						}
						return true
					})
				}
				walk = func(stmts []ast.Stmt) {
					for _, s := range stmts {
						switch x := s.(type) {
						case *ast.ExprStmt:
							c := src(x.X)
							switch c {
							case recv + "." + mu + ".Lock()":
								locked, exclusive = true, true
								continue
							case recv + "." + mu + ".RLock()":
								locked, exclusive = true, false
								continue
							case recv + "." + mu + ".Unlock()", recv + "." + mu + ".RUnlock()":
								locked = false
								continue
							}
							isDelete := strings.HasPrefix(c, "delete(")
							record(x, isDelete)
						case *ast.DeferStmt:
							// defer Unlock keeps the lock to the end of the function
						case *ast.AssignStmt:
							for _, l := range x.Lhs {
								record(l, true)
							}
							for _, r := range x.Rhs {
								record(r, false)
							}
						case *ast.IfStmt:
							if x.Init != nil {
								walk([]ast.Stmt{x.Init})
							}
							record(x.Cond, false)
							save := locked
							walk(x.Body.List)
							inner := locked
							locked = save
							if x.Else != nil {
								if b, ok := x.Else.(*ast.BlockStmt); ok {
									walk(b.List)
								} else {
									walk([]ast.Stmt{x.Else})
								}
							}
							_ = inner
							locked = save
						case *ast.RangeStmt:
							record(x.X, false)
							walk(x.Body.List)
						case *ast.ForStmt:
							walk(x.Body.List)
						case *ast.BlockStmt:
							walk(x.List)
						case *ast.ReturnStmt:
							for _, r := range x.Results {
								record(r, false)
							}
						default:
							record(s, false)
						}
					}
				}
				walk(fd.Body.List)
			}
		}
	}
	// package-level maps (discovery cache) and their accesses with the state of a package-level mutex
	for _, pf := range []struct {
		name string
		f    *ast.File
	}{{"oidc/discovery.go", discGo}} {
		var maps []string
		pkgMutex := ""
		for _, d := range pf.f.Decls {
			gd, ok := d.(*ast.GenDecl)
			if !ok || gd.Tok != token.VAR {
				continue
			}
			for _, sp := range gd.Specs {
				vs := sp.(*ast.ValueSpec)
				for i, nm := range vs.Names {
					if vs.Type != nil && (src(vs.Type) == "sync.Mutex" || src(vs.Type) == "sync.RWMutex") {
						pkgMutex = nm.Name
					}
					if i < len(vs.Values) && strings.HasPrefix(src(vs.Values[i]), "make(map[") {
						maps = append(maps, nm.Name)
						F.PackageMaps = append(F.PackageMaps, [2]string{pf.name, nm.Name})
					}
				}
			}
		}
		for _, d := range pf.f.Decls {
			fd, ok := d.(*ast.FuncDecl)
			if !ok || fd.Body == nil {
				continue
			}
			locked := false
			for _, s := range fd.Body.List {
				c := ""
				if es, ok := s.(*ast.ExprStmt); ok {
					c = src(es.X)
				}
				switch {
				case pkgMutex != "" && (c == pkgMutex+".Lock()" || c == pkgMutex+".RLock()"):
					locked = true
					continue
				case pkgMutex != "" && (c == pkgMutex+".Unlock()" || c == pkgMutex+".RUnlock()"):
					locked = false
					continue
				}
				ast.Inspect(s, func(m ast.Node) bool {
					ix, ok := m.(*ast.IndexExpr)
					if !ok {
						return true
					}
					if id, ok := ix.X.(*ast.Ident); ok {
						for _, mp := range maps {
							if id.Name == mp {
								kind := "read"
								if as, ok := s.(*ast.AssignStmt); ok {
									for _, l := range as.Lhs {
										if l == ast.Expr(ix) {
											kind = "write"
										}
									}
								}
								F.PackageMapAccess = append(F.PackageMapAccess, lockAccess{mp, fd.Name.Name, mp, kind, locked})
							}
						}
					}
					return true
				})
			}
		}
	}
	// runtime writes through shared configuration objects: assignments whose target is a field reached through a
	// parameter or variable of pointer type *OIDCConfig / *tls.Config (syntactic: cfg.X = ..., oidcConfig.X = ..., tlsConfig.X = ...)
	for _, pf := range []struct {
		name string
		f    *ast.File
	}{{"authz/oidc.go", oidcGo}, {"k8s/secret_controller.go", k8sGo}, {"tls.go", tlsGo}} {
		for _, d := range pf.f.Decls {
			fd, ok := d.(*ast.FuncDecl)
			if !ok || fd.Body == nil {
				continue
			}
			ast.Inspect(fd.Body, func(n ast.Node) bool {
				as, ok := n.(*ast.AssignStmt)
				if !ok || as.Tok != token.ASSIGN {
					return true
				}
				for _, l := range as.Lhs {
					t := src(l)
					for _, p := range []string{"cfg.", "oidcConfig.", "tlsConfig.", "config."} {
						if strings.HasPrefix(t, p) {
							F.SharedConfigWrites = append(F.SharedConfigWrites, [2]string{pf.name + ":" + funcName(fd), t})
						}
					}
				}
				return true
			})
		}
	}
	// a *tls.Config installed into a transport: net/http writes TLSClientConfig.NextProtos on the first round trip of EVERY
	// transport, so a config shared by several transports (the pooled one) is written concurrently
	for _, pf := range []struct {
		name string
		f    *ast.File
	}{{"http/http.go", parse(R("internal/http/http.go"))}, {"authz/oidc.go", oidcGo}, {"oidc/jwks.go", parse(R("internal/oidc/jwks.go"))}, {"tls.go", tlsGo}} {
		for _, d := range pf.f.Decls {
			fd, ok := d.(*ast.FuncDecl)
			if !ok || fd.Body == nil {
				continue
			}
			ast.Inspect(fd.Body, func(n ast.Node) bool {
				as, ok := n.(*ast.AssignStmt)
				if !ok {
					return true
				}
				for i, l := range as.Lhs {
					if strings.HasSuffix(src(l), ".TLSClientConfig") {
						rhs := src(as.Rhs[0])
						if len(as.Rhs) == len(as.Lhs) {
							rhs = src(as.Rhs[i])
						}
						F.TLSConfigAliases = append(F.TLSConfigAliases, [2]string{pf.name + ":" + funcName(fd), rhs})
					}
				}
				return true
			})
		}
	}
	// writes to maps that are struct fields, anywhere in internal/ (a cache added to a long-lived object shows up here)
	_ = filepath.Walk(R("internal"), func(path string, info os.FileInfo, err error) error {
		if err != nil || info.IsDir() || !strings.HasSuffix(path, ".go") || strings.HasSuffix(path, "_test.go") || strings.Contains(path, "zzverif") || strings.Contains(path, "zz_verif") {
			return nil
		}
		f := parse(path)
		rel := strings.TrimPrefix(path, R("internal")+"/")
		for _, d := range f.Decls {
			fd, ok := d.(*ast.FuncDecl)
			if !ok || fd.Body == nil {
				continue
			}
			ctor := strings.HasPrefix(fd.Name.Name, "New") || strings.HasPrefix(fd.Name.Name, "new")
			locked := false
			ast.Inspect(fd.Body, func(n ast.Node) bool {
				switch x := n.(type) {
				case *ast.CallExpr:
					c := src(x.Fun)
					if strings.HasSuffix(c, ".Lock") {
						locked = true
					}
					if strings.HasSuffix(c, ".Unlock") {
						if _, isDefer := n.(*ast.CallExpr); isDefer {
							// a plain Unlock ends the critical section; a deferred one is visited as DeferStmt below
						}
					}
					if c == "delete" && len(x.Args) == 2 {
						if _, ok := x.Args[0].(*ast.SelectorExpr); ok {
							F.FieldMapWrites = append(F.FieldMapWrites, lockAccess{rel, funcName(fd), src(x.Args[0]), "delete", locked || ctor})
						}
					}
				case *ast.ExprStmt:
					if c, ok := x.X.(*ast.CallExpr); ok && strings.HasSuffix(src(c.Fun), ".Unlock") {
						locked = false
						return false
					}
				case *ast.DeferStmt:
					return false // deferred Unlock: the lock is held to the end of the function
				case *ast.AssignStmt:
					for _, l := range x.Lhs {
						if ix, ok := l.(*ast.IndexExpr); ok {
							if _, ok := ix.X.(*ast.SelectorExpr); ok {
								F.FieldMapWrites = append(F.FieldMapWrites, lockAccess{rel, funcName(fd), src(ix.X), "write", locked || ctor})
							}
						}
					}
				}
				return true
			})
		}
		return nil
	})
	// F6: registered units
	ast.Inspect(mainGo, func(n ast.Node) bool {
		if ce, ok := n.(*ast.CallExpr); ok && src(ce.Fun) == "g.Register" {
			for _, a := range ce.Args {
				F.RegisteredUnits = append(F.RegisteredUnits, src(a))
			}
		}
		return true
	})
	// C07: mustTriggerCheck goes through the splitter
	if fd := funcDecl(srvGo, "mustTriggerCheck"); fd != nil {
		F.TriggerUsesSplitter = strings.Contains(src(fd), "GetPathQueryFragment(")
	}

	if *out == "" {
		b, _ := json.MarshalIndent(F, "", " ")
		fmt.Println(string(b))
		return
	}
	must(os.MkdirAll(*out, 0o755))
	b, _ := json.MarshalIndent(F, "", " ")
	writeIfChanged(filepath.Join(*out, "facts.json"), string(b)+"\n")
	writeIfChanged(filepath.Join(*out, "Facts.lean"), lean(F))
	translateAll(*repo, *out)
	writeStateInventory(*repo, *out)
}

func must(err error) {
	if err != nil {
		panic(err)
	}
}

func writeIfChanged(path, content string) {
	if old, err := os.ReadFile(path); err == nil && string(old) == content {
		return
	}
	must(os.WriteFile(path, []byte(content), 0o644))
}

func q(s string) string { return strconv.Quote(s) }

func lstr(xs []string) string {
	var p []string
	for _, x := range xs {
		p = append(p, "B "+q(x))
	}
	return "[" + strings.Join(p, ", ") + "]"
}

func lpairsS(xs [][2]string) string {
	var p []string
	for _, x := range xs {
		p = append(p, "("+q(x[0])+", "+q(x[1])+")")
	}
	return "[" + strings.Join(p, ", ") + "]"
}

func lean(F facts) string {
	var sb strings.Builder
	w := func(f string, a ...any) { fmt.Fprintf(&sb, f+"\n", a...) }
	w("/- GENERATED by /verif/tools/factgen from /repo's current working tree. Do not edit. -/")
	w("import AuthModel.Str")
	w("namespace AuthModel.Generated")
	w("open AuthModel")
	w("")
	w("def prefixCookieName : Str := B %s", q(F.PrefixCookieName))
	w("def suffixCookieName : Str := B %s", q(F.SuffixCookieName))
	w("def defaultCookieName : Str := B %s", q(F.DefaultCookieName))
	w("def cookieDirectives : List Str := %s", lstr(F.CookieDirectives))
	var sh []string
	for _, h := range F.StdHeaders {
		sh = append(sh, "(B "+q(h[0])+", B "+q(h[1])+")")
	}
	w("def stdHeaders : List (Str × Str) := [%s]", strings.Join(sh, ", "))
	w("def sessionErrorBody : Str := B %s", q(F.SessionErrorBody))
	w("def expiredBody : Str := B %s", q(F.ExpiredBody))
	w("def tokenResponseKeys : List String := %s", lS(F.TokenResponseKeys))
	w("def authorizationStateKeys : List String := %s", lS(F.AuthorizationStateKeys))
	w("def clearHDel : List String := %s", lS(F.ClearHDel))
	w("def charset : Str := B %s", q(F.Charset))
	w("def genLengths : List (String × String) := %s", lpairsS(F.GenLengths))
	w("def clientSecretKey : String := %s", q(F.ClientSecretKey))
	w("def scopeOIDC : Str := B %s", q(F.ScopeOIDC))
	w("def allowSites : List (String × String) := %s", lpairsS(F.AllowSites))
	w("def denySites : List (String × String) := %s", lpairsS(F.DenySites))
	w("def storeCallSites : List (String × String) := %s", lpairsS(F.StoreCallSites))
	w("def sessionImports : List String := %s", lS(F.SessionImports))
	w("def generatorCalls : List (String × String) := %s", lpairsS(F.GeneratorCalls))
	w("def typeAssertsNoOk : List (String × String) := %s", lpairsS(F.TypeAssertsNoOk))
	w("def indexSliceSites : List (String × String) := %s", lpairsS(F.IndexSliceSites))
	w("def explicitPanics : List (String × String) := %s", lpairsS(F.ExplicitPanics))
	la := func(xs []lockAccess) string {
		var p []string
		for _, x := range xs {
			p = append(p, fmt.Sprintf("(%s, %s, %s, %s, %v)", q(x.Struct), q(x.Method), q(x.Field), q(x.Kind), x.Locked))
		}
		return "[" + strings.Join(p, ",\n    ") + "]"
	}
	w("/-- (struct, method, guarded field, read|write, lock held at that statement) -/")
	w("def lockTable : List (String × String × String × String × Bool) :=\n   %s", la(F.LockTable))
	w("def packageMaps : List (String × String) := %s", lpairsS(F.PackageMaps))
	w("def packageMapAccess : List (String × String × String × String × Bool) :=\n   %s", la(F.PackageMapAccess))
	w("def registeredUnits : List String := %s", lS(F.RegisteredUnits))
	w("def redisFieldWrites : List (String × String) := %s", lpairsS(F.RedisFieldWrites))
	w("def sharedConfigWrites : List (String × String) := %s", lpairsS(F.SharedConfigWrites))
	w("def tlsConfigAliases : List (String × String) := %s", lpairsS(F.TLSConfigAliases))
	w("/-- (file, function, target, write|delete, a mutex is held or the function is a constructor) -/")
	w("def fieldMapWrites : List (String × String × String × String × Bool) :=\n   %s", la(F.FieldMapWrites))
	w("def triggerUsesSplitter : Bool := %v", F.TriggerUsesSplitter)
	w("")
	w("end AuthModel.Generated")
	return sb.String()
}

func lS(xs []string) string {
	var p []string
	for _, x := range xs {
		p = append(p, q(x))
	}
	return "[" + strings.Join(p, ", ") + "]"
}
