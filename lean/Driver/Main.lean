import AuthModel
import AuthModel.Wire
open AuthModel AuthModel.Wire

def parseMatch (t : Tok) : Option StringMatch :=
  match t with
  | ['u'] => some .unset
  | 'e' :: r => (unhex r).map .exact
  | 'p' :: r => (unhex r).map .pfx
  | 's' :: r => (unhex r).map .sfx
  | 'r' :: r => (unhex r).map .regex
  | _ => none

def parseRule (t : Tok) : Option TriggerRule :=
  match splitC '/' t with
  | [e, i] => do
    let ex ← (splitList ',' e).mapM parseMatch
    let inc ← (splitList ',' i).mapM parseMatch
    pure { excluded := ex, included := inc }
  | _ => none

def parseRules (t : Tok) : Option (List TriggerRule) := (splitList ';' t).mapM parseRule

/-- regex oracle table: pattern:subject:0|1 ; anything not listed is `false` -/
def parseRe (t : Tok) : Option (List (Str × Str × Bool)) :=
  (splitList ',' t).mapM fun e =>
    match splitC ':' e with
    | [p, s, b] => do pure ((← unhex p), (← unhex s), (← boolOf b))
    | _ => none

def reOracle (tbl : List (Str × Str × Bool)) : ReOracle := fun p s =>
  match tbl.find? (fun e => e.1 == p && e.2.1 == s) with
  | some e => e.2.2
  | none => false

def parseChain (t : Tok) : Option Chain :=
  match splitC '/' t with
  | [crit, fs] => do
    let c ← (if crit = ['-'] then some none else
      match splitC ':' crit with
      | [h, e, p] => do pure (some (⟨(← unhex h), (← unhex e), (← unhex p)⟩ : Match))
      | _ => none)
    let filters ← (splitList ',' fs).mapM fun f =>
      match f with
      | ['a'] => some (mockFilter true)
      | ['d'] => some (mockFilter false)
      | _ => none
    pure { criterion := c, filters := filters }
  | _ => none

def handle (toks : List Tok) : String :=
  match toks with
  | [['t','r','i','g'], target, rules, re] =>
    match unhex target, parseRules rules, parseRe re with
    | some t, some rs, some tbl => if mustTrigger (reOracle tbl) rs t then "1" else "0"
    | _, _, _ => "bad-op"
  | [['p','q','f'], s] =>
    match unhex s with
    | some s => match pqfLit s with
      | some (p, q, f) => hex p ++ " " ++ hex q ++ " " ++ hex f
      | none => "panic"
    | none => "bad-op"
  | [['c','h','a','i','n'], trig, au, chains, hdrs] =>
    match boolOf trig, boolOf au, (splitList ';' chains).mapM parseChain, parseHeaders hdrs with
    | some t, some a, some cs, some h => showOptResp (check t a cs h)
    | _, _, _, _ => "bad-op"
  | _ => "bad-op"

partial def loop (h : IO.FS.Stream) (out : IO.FS.Stream) : IO Unit := do
  let line ← h.getLine
  if line.isEmpty then return ()
  let cs := line.toList.filter (fun c => c ≠ '\n' ∧ c ≠ '\r')
  out.putStrLn (handle (splitC ' ' cs))
  loop h out

def main : IO Unit := do
  let out ← IO.getStdout
  loop (← IO.getStdin) out
  out.flush
