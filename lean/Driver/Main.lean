import AuthModel
import AuthModel.Wire
import AuthModel.Store.Memory
import AuthModel.Store.Redis
open AuthModel AuthModel.Wire

def parseMatch (t : Tok) : Option StringMatch :=
  match t with
  | ['u'] => some .unset
  | 'e' :: r => (unhex r).map .exact
  | 'p' :: r => (unhex r).map .pfx
  | 's' :: r => (unhex r).map .sfx
  | 'r' :: r => (unhex r).map .regex
  | _ => none

def parseRule (t : Tok) : Option TriggerRule :=
  match splitC '/' t with
  | [e, i] => do
    let ex ← (splitList ',' e).mapM parseMatch
    let inc ← (splitList ',' i).mapM parseMatch
    pure { excluded := ex, included := inc }
  | _ => none

def parseRules (t : Tok) : Option (List TriggerRule) := (splitList ';' t).mapM parseRule

/-- regex oracle table: pattern:subject:0|1 ; anything not listed is `false` -/
def parseRe (t : Tok) : Option (List (Str × Str × Bool)) :=
  (splitList ',' t).mapM fun e =>
    match splitC ':' e with
    | [p, s, b] => do pure ((← unhex p), (← unhex s), (← boolOf b))
    | _ => none

def reOracle (tbl : List (Str × Str × Bool)) : ReOracle := fun p s =>
  match tbl.find? (fun e => e.1 == p && e.2.1 == s) with
  | some e => e.2.2
  | none => false

def parseChain (t : Tok) : Option Chain :=
  match splitC '/' t with
  | [crit, fs] => do
    let c ← (if crit = ['-'] then some none else
      match splitC ':' crit with
      | [h, e, p] => do pure (some (⟨(← unhex h), (← unhex e), (← unhex p)⟩ : Match))
      | _ => none)
    let filters ← (splitList ',' fs).mapM fun f =>
      match f with
      | ['a'] => some (mockFilter true)
      | ['d'] => some (mockFilter false)
      | _ => none
    pure { criterion := c, filters := filters }
  | _ => none

structure DState where
  kind : Nat := 0              -- 0 memory, 1 redis
  mem : MemStore := MemStore.empty 0 0
  abs : Int := 0
  idle : Int := 0
  red : Str → RHash := fun _ => {}
  now : Int := 0
  parseTbl : List (Str × Bool) := []

def DState.parses (d : DState) : Str → Bool := fun s =>
  match d.parseTbl.find? (·.1 == s) with
  | some e => e.2
  | none => false

def showExp : Option Int → String
  | none => "-"
  | some e => toString e

def showTok : Option Tokens → String
  | none => "nil"
  | some t => "tok " ++ hex t.idToken ++ " " ++ hex t.accessToken ++ " " ++ hex t.refreshToken ++ " " ++ showExp t.accessExp

def showAuth : Option AuthState → String
  | none => "nil"
  | some a => "auth " ++ hex a.state ++ " " ++ hex a.nonce ++ " " ++ hex a.requestedUrl ++ " " ++ hex a.codeVerifier

def okErr (b : Bool) : String := if b then "ok" else "err"

def expOf (t : Tok) : Option (Option Int) := if t = ['-'] then some none else (intOf t).map some

def storeOp (d : DState) (toks : List Tok) : DState × String :=
  match toks with
  | [['s','e','t','t','o','k'], _inst, id, a, b, c, e] =>
    match unhex id, unhex a, unhex b, unhex c, expOf e with
    | some id, some a, some b, some c, some e =>
      let t : Tokens := { idToken := a, accessToken := b, refreshToken := c, accessExp := e }
      if d.kind = 0 then ({ d with mem := d.mem.setTok d.now id t }, "ok")
      else
        let (h, ok) := Redis.setTok d.abs d.idle d.now t (d.red id)
        ({ d with red := upd d.red id h }, okErr ok)
    | _, _, _, _, _ => (d, "bad-op")
  | [['s','e','t','a','u','t','h'], _inst, id, a, b, c, e] =>
    match unhex id, unhex a, unhex b, unhex c, unhex e with
    | some id, some a, some b, some c, some e =>
      let st : AuthState := { state := a, nonce := b, requestedUrl := c, codeVerifier := e }
      if d.kind = 0 then ({ d with mem := d.mem.setAuth d.now id st }, "ok")
      else
        let (h, ok) := Redis.setAuth d.abs d.idle d.now st (d.red id)
        ({ d with red := upd d.red id h }, okErr ok)
    | _, _, _, _, _ => (d, "bad-op")
  | [op, _inst, id] =>
    match unhex id with
    | none => (d, "bad-op")
    | some id =>
      if op = "gettok".toList then
        if d.kind = 0 then
          let (m, r) := d.mem.getTok d.now id
          ({ d with mem := m }, showTok r)
        else
          let (h, r) := Redis.getTok d.parses d.abs d.idle d.now (d.red id)
          ({ d with red := upd d.red id h }, match r with | .ok t => showTok t | .err => "err")
      else if op = "getauth".toList then
        if d.kind = 0 then
          let (m, r) := d.mem.getAuth d.now id
          ({ d with mem := m }, showAuth r)
        else
          let (h, r) := Redis.getAuth d.abs d.idle d.now (d.red id)
          ({ d with red := upd d.red id h }, match r with | .ok t => showAuth t | .err => "err")
      else if op = "clear".toList then
        if d.kind = 0 then ({ d with mem := d.mem.clearAuth d.now id }, "ok")
        else
          let (h, ok) := Redis.clearAuth d.abs d.idle d.now (d.red id)
          ({ d with red := upd d.red id h }, okErr ok)
      else if op = "remove".toList then
        if d.kind = 0 then ({ d with mem := d.mem.remove id }, "ok")
        else ({ d with red := upd d.red id (Redis.remove (d.red id)) }, "ok")
      else (d, "bad-op")
  | [['s','w','e','e','p'], _inst] =>
    if d.kind = 0 then ({ d with mem := d.mem.removeAllExpired d.now }, "ok") else (d, "ok")
  | _ => (d, "bad-op")

def handle (d : DState) (toks : List Tok) : DState × String :=
  match toks with
  | [['t','r','i','g'], target, rules, re] =>
    (d, match unhex target, parseRules rules, parseRe re with
    | some t, some rs, some tbl => if mustTrigger (reOracle tbl) rs t then "1" else "0"
    | _, _, _ => "bad-op")
  | [['p','q','f'], s] =>
    (d, match unhex s with
    | some s => match pqfLit s with
      | some (p, q, f) => hex p ++ " " ++ hex q ++ " " ++ hex f
      | none => "panic"
    | none => "bad-op")
  | [['c','h','a','i','n'], trig, au, chains, hdrs] =>
    (d, match boolOf trig, boolOf au, (splitList ';' chains).mapM parseChain, parseHeaders hdrs with
    | some t, some a, some cs, some h => showOptResp (check t a cs h)
    | _, _, _, _ => "bad-op")
  | [['s','t','o','r','e'], ['n','e','w'], kind, abs, idle, now] =>
    match intOf abs, intOf idle, intOf now with
    | some a, some i, some n =>
      ({ d with kind := if kind = "mem".toList then 0 else 1, mem := MemStore.empty a i, abs := a, idle := i,
                red := fun _ => {}, now := n, parseTbl := [] }, "ok")
    | _, _, _ => (d, "bad-op")
  | [['o','r','a','c','l','e'], ['p','a','r','s','e'], s, b] =>
    match unhex s, boolOf b with
    | some s, some b => ({ d with parseTbl := (s, b) :: d.parseTbl }, "ok")
    | _, _ => (d, "bad-op")
  | [['t','i','c','k'], n] =>
    match intOf n with
    | some n => ({ d with now := d.now + n }, "ok")
    | none => (d, "bad-op")
  | ['s','o','p'] :: rest => storeOp d rest
  | _ => (d, "bad-op")

partial def loop (h : IO.FS.Stream) (out : IO.FS.Stream) (d : DState) : IO Unit := do
  let line ← h.getLine
  if line.isEmpty then return ()
  let cs := line.toList.filter (fun c => c ≠ '\n' ∧ c ≠ '\r')
  let (d', o) := handle d (splitC ' ' cs)
  out.putStrLn o
  loop h out d'

def main : IO Unit := do
  let out ← IO.getStdout
  loop (← IO.getStdin) out {}
  out.flush
