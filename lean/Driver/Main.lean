import AuthModel
import AuthModel.Wire
import AuthModel.Store.Memory
import AuthModel.Store.Redis
import AuthModel.Oidc.Run
import AuthModel.Oidc.Sched
import AuthModel.Gen
import AuthModel.Secret
import AuthModel.Config
import AuthModel.Tls
import AuthModel.Factory
import AuthModel.Store.RedisCmd
import AuthModel.Oidc.Discovery
open AuthModel AuthModel.Wire

def parseMatch (t : Tok) : Option StringMatch :=
  match t with
  | ['u'] => some .unset
  | 'e' :: r => (unhex r).map .exact
  | 'p' :: r => (unhex r).map .pfx
  | 's' :: r => (unhex r).map .sfx
  | 'r' :: r => (unhex r).map .regex
  | _ => none

def parseRule (t : Tok) : Option TriggerRule :=
  match splitC '/' t with
  | [e, i] => do
    let ex ← (splitList ',' e).mapM parseMatch
    let inc ← (splitList ',' i).mapM parseMatch
    pure { excluded := ex, included := inc }
  | _ => none

def parseRules (t : Tok) : Option (List TriggerRule) := (splitList ';' t).mapM parseRule

/-- regex oracle table: pattern:subject:0|1 ; anything not listed is `false` -/
def parseRe (t : Tok) : Option (List (Str × Str × Bool)) :=
  (splitList ',' t).mapM fun e =>
    match splitC ':' e with
    | [p, s, b] => do pure ((← unhex p), (← unhex s), (← boolOf b))
    | _ => none

def reOracle (tbl : List (Str × Str × Bool)) : ReOracle := fun p s =>
  match tbl.find? (fun e => e.1 == p && e.2.1 == s) with
  | some e => e.2.2
  | none => false

def parseChain (t : Tok) : Option Chain :=
  match splitC '/' t with
  | [crit, fs] => do
    let c ← (if crit = ['-'] then some none else
      match splitC ':' crit with
      | [h, e, p] => do pure (some (⟨(← unhex h), (← unhex e), (← unhex p)⟩ : Match))
      | _ => none)
    let filters ← (splitList ',' fs).mapM fun f =>
      match f with
      | ['a'] => some (mockFilter true)
      | ['d'] => some (mockFilter false)
      | _ => none
    pure { criterion := c, filters := filters }
  | _ => none

structure DState where
  st : StoreW := {}
  now : Int := 0
  parseTbl : List (Str × Bool) := []
  cfg : Cfg := { clientId := [], clientSecret := [], callbackUri := [], cbScheme := [], cbHost := [], cbPort := [],
                 cbPath := [], authUri := [], tokenUri := [], scopes := [], cookiePrefix := [], idHeader := [],
                 idPreamble := [], access := none, logout := none }
  tokTbl : List (Str × Option TokAttrs × Bool) := []
  s256Tbl : List (Str × Str) := []
  threads : List (Nat × Thread) := []
  secret : Secret.State := { ns := [], index := [], filters := [] }
  confDoc : Config.Doc := { chains := [], listenAddressIsIP := false, listenPort := 0, healthPort := 0, logLevelOk := false, default := none }
  confUrls : List (Str × Option Str) := []
  confRedis : List (Str × Bool) := []
  tls : Tls.State := Tls.init
  tlsSettings : List (Nat × Tls.Settings × Tls.LoadResult) := []
  discCache : Discovery.Cache := []

def DState.parses (d : DState) : Str → Bool := fun s =>
  match d.parseTbl.find? (·.1 == s) with
  | some e => e.2
  | none =>
    match d.tokTbl.find? (·.1 == s) with
    | some e => e.2.1.isSome
    | none => false

def DState.oracles (d : DState) : Oracles :=
  { attrs := fun s => match d.tokTbl.find? (·.1 == s) with | some e => e.2.1 | none => none,
    sigOK := fun s => match d.tokTbl.find? (·.1 == s) with | some e => e.2.2 | none => false,
    s256 := fun v => match d.s256Tbl.find? (·.1 == v) with | some e => e.2 | none => [] }

def DState.store (d : DState) : StoreW := { d.st with parses := d.parses }

def showExp : Option Int → String
  | none => "-"
  | some e => toString e

def showTokens (t : Tokens) : String :=
  hex t.idToken ++ " " ++ hex t.accessToken ++ " " ++ hex t.refreshToken ++ " " ++ showExp t.accessExp

def showTok : Option Tokens → String
  | none => "nil"
  | some t => "tok " ++ showTokens t

def showAuthState (a : AuthState) : String :=
  hex a.state ++ " " ++ hex a.nonce ++ " " ++ hex a.requestedUrl ++ " " ++ hex a.codeVerifier

def showAuth : Option AuthState → String
  | none => "nil"
  | some a => "auth " ++ showAuthState a

def okErr (b : Bool) : String := if b then "ok" else "err"

def expOf (t : Tok) : Option (Option Int) := if t = ['-'] then some none else (intOf t).map some

def storeOp (d : DState) (toks : List Tok) : DState × String :=
  let w := d.store
  match toks with
  | [['s','e','t','t','o','k'], _inst, id, a, b, c, e] =>
    match unhex id, unhex a, unhex b, unhex c, expOf e with
    | some id, some a, some b, some c, some e =>
      let (w', ok) := w.setTok d.now id { idToken := a, accessToken := b, refreshToken := c, accessExp := e }
      ({ d with st := w' }, okErr ok)
    | _, _, _, _, _ => (d, "bad-op")
  | [['s','e','t','a','u','t','h'], _inst, id, a, b, c, e] =>
    match unhex id, unhex a, unhex b, unhex c, unhex e with
    | some id, some a, some b, some c, some e =>
      let (w', ok) := w.setAuth d.now id { state := a, nonce := b, requestedUrl := c, codeVerifier := e }
      ({ d with st := w' }, okErr ok)
    | _, _, _, _, _ => (d, "bad-op")
  | [op, _inst, id] =>
    match unhex id with
    | none => (d, "bad-op")
    | some id =>
      if op = "gettok".toList then
        let (w', r) := w.getTok d.now id
        ({ d with st := w' }, match r with | .ok t => showTok t | .err => "err")
      else if op = "getauth".toList then
        let (w', r) := w.getAuth d.now id
        ({ d with st := w' }, match r with | .ok t => showAuth t | .err => "err")
      else if op = "clear".toList then
        let (w', ok) := w.clearAuth d.now id
        ({ d with st := w' }, okErr ok)
      else if op = "remove".toList then
        let (w', ok) := w.remove id
        ({ d with st := w' }, okErr ok)
      else (d, "bad-op")
  | [['s','w','e','e','p'], _inst] =>
    if w.kind = 0 then ({ d with st := { w with mem := w.mem.removeAllExpired d.now } }, "ok") else (d, "ok")
  | _ => (d, "bad-op")

/-- raw server state of a session key, as the harness reads it from miniredis -/
def showDump (now : Int) (h0 : RHash) : String :=
  let h := Redis.visible now h0
  if !Redis.hasFields h then "absent" else
  let f (k : String) (v : Option Str) : List String := match v with | some v => [k ++ "=" ++ hex v] | none => []
  let g (k : String) (v : Option Int) : List String := match v with | some v => [k ++ "=" ++ toString v] | none => []
  String.intercalate " " (f "access_token" h.accessToken ++ g "access_token_expiry" h.accessExp ++ f "code_verifier" h.codeVerifier
    ++ f "id_token" h.idToken ++ f "nonce" h.nonce ++ f "refresh_token" h.refreshToken ++ f "requested_url" h.requestedUrl
    ++ f "state" h.state ++ g "time_added" h.timeAdded)
  ++ " ttl=" ++ (match h.expireAt with | some e => toString (e * Redis.sec - now) | none => "-")

def parseCmdFaults (t : Tok) : List RedisCmd.Fault :=
  (splitList ',' t).map fun x => if x = ['1'] then .lost false else if x = ['2'] then .lost true else .none

def showIssued (l : List String) : String := if l.isEmpty then "-" else String.intercalate "," l

/-- a Redis store method at command level under a fault script -/
def storeOpF (d : DState) (fs : List RedisCmd.Fault) (toks : List Tok) : DState × String :=
  let w := d.store
  if w.kind = 0 then (d, "bad-op") else
  let fin {α : Type} (id : Str) (o : RedisCmd.Outcome α) (sh : α → String) : DState × String :=
    ({ d with st := { d.st with red := upd w.red id o.state } }, sh o.res ++ " cmds=" ++ showIssued o.issued)
  let start (id : Str) : RHash := Redis.visible d.now (w.red id)
  match toks with
  | [['s','e','t','t','o','k'], _inst, id, a, b, c, e] =>
    match unhex id, unhex a, unhex b, unhex c, expOf e with
    | some id, some a, some b, some c, some e =>
      fin id (RedisCmd.run d.now fs (RedisCmd.setTokP w.abs w.idle d.now { idToken := a, accessToken := b, refreshToken := c, accessExp := e }) (start id)) okErr
    | _, _, _, _, _ => (d, "bad-op")
  | [['s','e','t','a','u','t','h'], _inst, id, a, b, c, e] =>
    match unhex id, unhex a, unhex b, unhex c, unhex e with
    | some id, some a, some b, some c, some e =>
      fin id (RedisCmd.run d.now fs (RedisCmd.setAuthP w.abs w.idle d.now { state := a, nonce := b, requestedUrl := c, codeVerifier := e }) (start id)) okErr
    | _, _, _, _, _ => (d, "bad-op")
  | [op, _inst, id] =>
    match unhex id with
    | none => (d, "bad-op")
    | some id =>
      if op = "gettok".toList then
        fin id (RedisCmd.run d.now fs (RedisCmd.getTokP w.parses w.abs w.idle d.now) (start id)) fun r => match r with | .ok t => showTok t | .err => "err"
      else if op = "getauth".toList then
        fin id (RedisCmd.run d.now fs (RedisCmd.getAuthP w.abs w.idle d.now) (start id)) fun r => match r with | .ok t => showAuth t | .err => "err"
      else if op = "clear".toList then
        fin id (RedisCmd.run d.now fs (RedisCmd.clearAuthP w.abs w.idle d.now) (start id)) okErr
      else if op = "remove".toList then
        fin id (RedisCmd.run d.now fs RedisCmd.removeP (start id)) okErr
      else (d, "bad-op")
  | _ => (d, "bad-op")

/-! handler-level records -/

def parseStrList (t : Tok) : Option (List Str) := (splitList ',' t).mapM unhex

def parsePairOpt (t : Tok) : Option (Option (Str × Str)) :=
  if t = ['-'] then some none else
  match splitC ':' t with
  | [a, b] => do pure (some ((← unhex a), (← unhex b)))
  | _ => none

def parseCfg (toks : List Tok) : Option Cfg :=
  match toks with
  | [cid, sec, cb, sch, host, port, path, auth, tokUri, scopes, pfx, idh, idp, acc, lo] => do
    pure { clientId := (← unhex cid), clientSecret := (← unhex sec), callbackUri := (← unhex cb),
           cbScheme := (← unhex sch), cbHost := (← unhex host), cbPort := (← unhex port), cbPath := (← unhex path),
           authUri := (← unhex auth), tokenUri := (← unhex tokUri), scopes := (← parseStrList scopes),
           cookiePrefix := (← unhex pfx), idHeader := (← unhex idh), idPreamble := (← unhex idp),
           access := (← parsePairOpt acc), logout := (← parsePairOpt lo) }
  | _ => none

def parseNonce (t : Tok) : Option NonceClaim :=
  match t with
  | ['a'] => some .absent
  | ['o'] => some .other
  | 's' :: r => (unhex r).map .str
  | _ => none

def parseIdp (t : Tok) : Option IdpAns :=
  match t with
  | ['t'] => some .transportErr
  | ['u'] => some .undecodable
  | 's' :: r => (natOf r).map .status
  | 'b' :: ':' :: r =>
    match splitC ':' r with
    | [a, b, c, e, ty] => do
      pure (.body { idToken := (← unhex a), accessToken := (← unhex b), refreshToken := (← unhex c),
                    expiresIn := (← intOf e), tokenType := (← unhex ty) })
    | _ => none
  | _ => none

def parseFaults (t : Tok) : List Nat :=
  if t = ['-'] then [] else t.map fun c => c.toNat - 48

def showAct : Act → String
  | .removeSession id => "remove:" ++ hex id
  | .getTok id => "gettok:" ++ hex id
  | .setTok id t => "settok:" ++ hex id ++ ":" ++ hex t.idToken ++ ":" ++ hex t.accessToken ++ ":" ++ hex t.refreshToken ++ ":" ++ showExp t.accessExp
  | .getAuth id => "getauth:" ++ hex id
  | .setAuth id a => "setauth:" ++ hex id ++ ":" ++ hex a.state ++ ":" ++ hex a.nonce ++ ":" ++ hex a.requestedUrl ++ ":" ++ hex a.codeVerifier
  | .clearAuth id => "clear:" ++ hex id
  | .idp (.code uri code ru v cid cs) => "idp:code:" ++ hex uri ++ ":" ++ hex code ++ ":" ++ hex ru ++ ":" ++ hex v ++ ":" ++ hex cid ++ ":" ++ hex cs
  | .idp (.refresh uri rt cid cs) => "idp:refresh:" ++ hex uri ++ ":" ++ hex rt ++ ":" ++ hex cid ++ ":" ++ hex cs
  | .keys => "keys"
  | .gen => "gen"
  | .now => "now"

def showTrace (tr : List Act) : String :=
  let items := (tr.filter fun a => a != .now).map showAct
  if items.isEmpty then "-" else String.intercalate "," items

/-! endpoint discovery -/

def parseJwks (t : Tok) : Option Discovery.Jwks :=
  match t with
  | ['u'] => some .unset
  | ['s'] => some (.static [])
  | 'f' :: ':' :: r =>
    match splitC ':' r with
    | [u, i] => do pure (.fetcher (← unhex u) (← natOf i) false)
    | _ => none
  | _ => none

def showJwks : Discovery.Jwks → String
  | .unset => "u"
  | .static _ => "s"
  | .fetcher u i _ => "f:" ++ hex u ++ ":" ++ toString i

def parseFetchAns (t : Tok) : Option Discovery.FetchAns :=
  match t with
  | ['t'] => some .transportErr
  | ['u'] => some .undecodable
  | 's' :: r => (natOf r).map .status
  | 'd' :: ':' :: r =>
    match splitC ':' r with
    | [a, b, c, e] => do
      pure (.doc { authorizationEndpoint := (← unhex a), tokenEndpoint := (← unhex b), jwksUri := (← unhex c), endSessionEndpoint := (← unhex e) })
    | _ => none
  | _ => none

def showLogoutPair : Option (Str × Str) → String
  | none => "-"
  | some (p, u) => hex p ++ ":" ++ hex u

def handleDisc (d : DState) (toks : List Tok) : DState × String :=
  match toks with
  | [uri, auth, tok, jwks, lo, ans, apply] =>
    match unhex uri, unhex auth, unhex tok, parseJwks jwks, parsePairOpt lo, parseFetchAns ans, boolOf apply with
    | some uri, some auth, some tok, some jwks, some lo, some ans, some apply =>
      let c : Discovery.DCfg := { configurationUri := uri, authUri := auth, tokenUri := tok, jwks := jwks, logout := lo }
      let (cache, res, req) := Discovery.load d.discCache c ans
      let d := { d with discCache := cache }
      let rq := " req=" ++ (if req then "1" else "0")
      match res with
      | .ok r =>
        let d := if apply then { d with cfg := Discovery.applyTo d.cfg r } else d
        (d, "ok auth=" ++ hex r.authUri ++ " tok=" ++ hex r.tokenUri ++ " jwks=" ++ showJwks r.jwks ++ " logout=" ++ showLogoutPair r.logout ++ rq)
      | .error .fetch => (d, "err:fetch" ++ rq)
      | .error .missingLogoutRedirect => (d, "err:missing-logout-redirect" ++ rq)
    | _, _, _, _, _, _, _ => (d, "bad-op")
  | _ => (d, "bad-op")

def handleReq (d : DState) (toks : List Tok) : DState × String :=
  match toks with
  | [http, scheme, host, path, query, cookie, gen, idp, keys, faults] =>
    match boolOf http, unhex scheme, unhex host, unhex path, unhex query, unhex cookie, parseStrList gen, parseIdp idp, boolOf keys with
    | some http, some scheme, some host, some path, some query, some cookie, some [g1, g2, g3, g4], some idp, some keys =>
      let req : Req := { http := http, scheme := scheme, host := host, path := path, query := query, cookie := cookie }
      let sc : Script := { gen := (g1, g2, g3, g4), idp := idp, keysOk := keys, faults := parseFaults faults }
      let (w', resp, tr) := runProg d.store d.now sc (Oidc.process d.cfg d.oracles req) sc.faults []
      ({ d with st := w' }, showResp resp ++ " | " ++ showTrace tr)
    | _, _, _, _, _, _, _, _, _ => (d, "bad-op")
  | _ => (d, "bad-op")

def parseSrc (t : Tok) : Option Secret.FilterS :=
  match t with
  | ['m'] => some none
  | ['n'] => some (some .none)
  | 'l' :: r => (unhex r).map fun s => some (.literal s)
  | 'r' :: r =>
    match splitC ':' r with
    | [a, b] => do pure (some (.ref (← unhex a) (← unhex b)))
    | _ => none
  | _ => none

def showSrc : Secret.FilterS → String
  | none => "m"
  | some .none => "n"
  | some (.literal s) => "l" ++ hex s
  | some (.ref a b) => "r" ++ hex a ++ ":" ++ hex b

def showFilters (fs : List Secret.FilterS) : String :=
  if fs.isEmpty then "-" else String.intercalate "," (fs.map showSrc)

def handleSecret (d : DState) (toks : List Tok) : DState × String :=
  match toks with
  | [['l','o','a','d'], ns, filters] =>
    match unhex ns, (splitList ',' filters).mapM parseSrc with
    | some ns, some fs =>
      match Secret.loadSecrets ns fs 0 with
      | some idx => ({ d with secret := { ns := ns, index := idx, filters := fs } }, "ok")
      | none => ({ d with secret := { ns := ns, index := [], filters := fs } }, "err")
    | _, _ => (d, "bad-op")
  | [['e','v'], ns, name, l] =>
    match unhex ns, unhex name with
    | some ns, some name =>
      let lk : Option Secret.Lookup := match l with
        | ['n','f'] => some .notFound
        | ['d','e','l'] => some .deleting
        | ['n','o','k','e','y'] => some (.data none)
        | 'v' :: r => (unhex r).map fun v => .data (some v)
        | _ => none
      match lk with
      | some lk =>
        let st := Secret.reconcile d.secret ns name lk
        ({ d with secret := st }, showFilters st.filters)
      | none => (d, "bad-op")
    | _, _ => (d, "bad-op")
  | _ => (d, "bad-op")

namespace ConfWire
open Config

def parseTok (t : Tok) : Option (Option TokenCfg) :=
  if t = ['-'] then some none else
  match splitC ':' t with
  | [a, b] => do pure (some { header := (← unhex a), preamble := (← unhex b) })
  | _ => none

def parseOidc (toks : List Tok) : Option OidcDoc :=
  match toks with
  | [cu, au, tu, cb, jw, cid, sec, scopes, pfx, idt, act, lo, proxy, redis, abs, idle] => do
    let jwks ← (match jw with
      | ['u'] => some JwksCfg.unset
      | 'i' :: r => (unhex r).map JwksCfg.inline
      | 'f' :: r => (match splitC ':' r with
          | [a, n] => do pure (JwksCfg.fetcher (← unhex a) (← natOf n))
          | _ => none)
      | _ => none)
    let secret ← (match sec with
      | ['u'] => some SecretCfg.unset
      | 'l' :: r => (unhex r).map SecretCfg.literal
      | 'r' :: r => (match splitC ':' r with
          | [a, b] => do pure (SecretCfg.ref (← unhex a) (← unhex b))
          | _ => none)
      | _ => none)
    let logout ← (if lo = ['-'] then some none else
      match splitC ':' lo with
      | [a, b] => do pure (some ({ path := (← unhex a), redirectUri := (← unhex b) } : LogoutCfg))
      | _ => none)
    let redisUri ← (if redis = ['-'] then some none else (unhex redis).map some)
    pure { configurationUri := (← unhex cu), authorizationUri := (← unhex au), tokenUri := (← unhex tu), callbackUri := (← unhex cb),
           jwks := jwks, clientId := (← unhex cid), secret := secret, scopes := (← parseStrList scopes), cookiePrefix := (← unhex pfx),
           idToken := (← parseTok idt), accessToken := (← parseTok act), logout := logout, proxyUri := (← unhex proxy),
           redisUri := redisUri, absTimeout := (← natOf abs), idleTimeout := (← natOf idle) }
  | _ => none

def showTokCfg : Option TokenCfg → String
  | none => "-"
  | some t => hex t.header ++ ":" ++ hex t.preamble

def showOidc (d : OidcDoc) : String :=
  String.intercalate " " [hex d.configurationUri, hex d.authorizationUri, hex d.tokenUri, hex d.callbackUri,
    (match d.jwks with | .unset => "u" | .inline s => "i" ++ hex s | .fetcher u n => "f" ++ hex u ++ ":" ++ toString n),
    hex d.clientId,
    (match d.secret with | .unset => "u" | .literal s => "l" ++ hex s | .ref a b => "r" ++ hex a ++ ":" ++ hex b),
    (if d.scopes.isEmpty then "-" else String.intercalate "," (d.scopes.map hex)), hex d.cookiePrefix,
    showTokCfg d.idToken, showTokCfg d.accessToken,
    (match d.logout with | none => "-" | some l => hex l.path ++ ":" ++ hex l.redirectUri), hex d.proxyUri,
    (match d.redisUri with | none => "-" | some r => hex r), toString d.absTimeout, toString d.idleTimeout]

def showFilter : FilterDoc → String
  | .none => "none"
  | .mock a => if a then "mock1" else "mock0"
  | .oidc d => "oidc " ++ showOidc d
  | .override d => "override " ++ showOidc d

def showLoaded (l : Loaded) : String :=
  "accept " ++ String.intercalate " | " (l.chains.map fun c =>
    hex c.name ++ " [" ++ String.intercalate " ; " (c.filters.map showFilter) ++ "]")

end ConfWire

def handleConf (d : DState) (toks : List Tok) : DState × String :=
  match toks with
  | [['b','e','g','i','n'], ip, lp, hp, lg] =>
    match boolOf ip, intOf lp, intOf hp, boolOf lg with
    | some ip, some lp, some hp, some lg =>
      ({ d with confDoc := { chains := [], listenAddressIsIP := ip, listenPort := lp, healthPort := hp, logLevelOk := lg, default := none },
                confUrls := [], confRedis := [] }, "ok")
    | _, _, _, _ => (d, "bad-op")
  | ['d','e','f','a','u','l','t'] :: rest =>
    match ConfWire.parseOidc rest with
    | some o => ({ d with confDoc := { d.confDoc with default := some o } }, "ok")
    | none => (d, "bad-op")
  | [['c','h','a','i','n'], name, crit] =>
    match unhex name with
    | some name =>
      let c : Option (Option Config.MatchDoc) := if crit = ['-'] then some none else
        match splitC ':' crit with
        | [h, b, v] => do pure (some { header := (← unhex h), criterionSet := (← boolOf b), value := (← unhex v) })
        | _ => none
      match c with
      | some c => ({ d with confDoc := { d.confDoc with chains := d.confDoc.chains ++ [{ name := name, criterion := c, filters := [] }] } }, "ok")
      | none => (d, "bad-op")
    | none => (d, "bad-op")
  | ['f','i','l','t','e','r'] :: kind :: rest =>
    let f : Option Config.FilterDoc :=
      if kind = "none".toList then some .none
      else if kind = "mock1".toList then some (.mock true)
      else if kind = "mock0".toList then some (.mock false)
      else if kind = "oidc".toList then (ConfWire.parseOidc rest).map .oidc
      else if kind = "override".toList then (ConfWire.parseOidc rest).map .override
      else none
    match f, d.confDoc.chains.reverse with
    | some f, last :: before =>
      ({ d with confDoc := { d.confDoc with chains := (({ last with filters := last.filters ++ [f] }) :: before).reverse } }, "ok")
    | _, _ => (d, "bad-op")
  | [['u','r','l'], uri, res] =>
    match unhex uri with
    | some uri =>
      let r : Option (Option Str) := if res = ['-'] then some none else (unhex res).map some
      match r with
      | some r => ({ d with confUrls := (uri, r) :: d.confUrls }, "ok")
      | none => (d, "bad-op")
    | none => (d, "bad-op")
  | [['r','e','d','i','s'], uri, ok] =>
    match unhex uri, boolOf ok with
    | some uri, some ok => ({ d with confRedis := (uri, ok) :: d.confRedis }, "ok")
    | _, _ => (d, "bad-op")
  | [['l','o','a','d']] =>
    let u : Config.UrlOracle :=
      { parse := fun s => match d.confUrls.find? (·.1 == s) with | some e => e.2 | none => none,
        redisOk := fun s => match d.confRedis.find? (·.1 == s) with | some e => e.2 | none => false }
    (d, match Config.load u d.confDoc with
      | some l => ConfWire.showLoaded l
      | none => "reject")
  | _ => (d, "bad-op")

def tlsOracle : Tls.Oracle :=
  { parseBool := fun s => s == B "1" || s == B "t" || s == B "T" || s == B "TRUE" || s == B "true" || s == B "True",
    pemOk := fun s => Str.hasPrefix s (B "CA-") }

def parseSettings (toks : List Tok) : Option Tls.Settings :=
  match toks with
  | [inl, file, skip, iv] => do
    let sk ← (match skip with
      | ['u'] => some Tls.Skip.unset
      | ['b', '1'] => some (Tls.Skip.bool true)
      | ['b', '0'] => some (Tls.Skip.bool false)
      | 's' :: r => (unhex r).map Tls.Skip.str
      | _ => none)
    pure { caInline := (← unhex inl), caFile := (← unhex file), skip := sk, interval := (← intOf iv) }
  | _ => none

def showLoad : Tls.LoadResult → String
  | .noConfig => "none"
  | .error => "error"
  | .cfg t => "cfg insecure=" ++ (if t.insecure then "1" else "0") ++ " extra=" ++ (match t.extra with | some e => hex e | none => "-")

def handleTls (d : DState) (toks : List Tok) : DState × String :=
  match toks with
  | [['r','e','s','e','t']] => ({ d with tls := Tls.init, tlsSettings := [] }, "ok")
  | ['l','o','a','d'] :: idx :: rest =>
    match natOf idx, parseSettings rest with
    | some idx, some s =>
      let (st, r) := Tls.load tlsOracle d.tls s
      ({ d with tls := st, tlsSettings := (idx, s, r) :: d.tlsSettings.filter (·.1 != idx) }, showLoad r)
    | _, _ => (d, "bad-op")
  | [['r','e','w','r','i','t','e'], path, content] =>
    match unhex path with
    | some path =>
      let c : Option (Option Str) := if content = ['-'] then some none else (unhex content).map some
      match c with
      | some c => ({ d with tls := Tls.rewrite d.tls path c }, "ok")
      | none => (d, "bad-op")
    | none => (d, "bad-op")
  | [['s','e','t','t','l','e']] => ({ d with tls := Tls.tickAll tlsOracle d.tls }, "ok")
  | [['p','r','o','b','e'], idx, ca] =>
    -- a client built when settings #idx were loaded, now connecting to a server whose chain ends in `ca`
    match natOf idx, (if ca = ['-'] then some none else (unhex ca).map some) with
    | some idx, some ca =>
      match d.tlsSettings.find? (·.1 == idx) with
      | some (_, s, r) =>
        let cur : Tls.LoadResult := match r with
          | .cfg _ => (match Tls.lookupPool d.tls.pool (Tls.keyOf tlsOracle s) with | some t => .cfg t | none => r)
          | other => other
        (d, if Tls.accepts cur ca then "accept" else "reject")
      | none => (d, "bad-op")
    | _, _ => (d, "bad-op")
  | [['w','a','t','c','h','e','r','s']] =>
    (d, toString (d.tls.watchers.filter (·.alive)).length ++ "/" ++ toString d.tls.pool.length)
  | _ => (d, "bad-op")

def showStep (acts : List (Act × ARes)) (t : Thread) : String :=
  showTrace (acts.map (·.1)) ++ (match t.answer with | some r => " => " ++ showResp r | none => "")

def handleSpawn (d : DState) (toks : List Tok) : DState × String :=
  match toks with
  | tid :: uri :: [http, scheme, host, path, query, cookie, gen, idp, keys, faults] =>
    match natOf tid, boolOf http, unhex scheme, unhex host, unhex path, unhex query, unhex cookie, parseStrList gen, parseIdp idp, boolOf keys with
    | some tid, some http, some scheme, some host, some path, some query, some cookie, some [g1, g2, g3, g4], some idp, some keys =>
      let req : Req := { http := http, scheme := scheme, host := host, path := path, query := query, cookie := cookie }
      let sc : Script := { gen := (g1, g2, g3, g4), idp := idp, keysOk := keys, faults := parseFaults faults }
      let cfg := match unhex uri with | some u => { d.cfg with tokenUri := u } | none => d.cfg
      let (t, acts) := Thread.spawn d.now sc (Oidc.process cfg d.oracles req)
      ({ d with threads := (tid, t) :: d.threads.filter (·.1 != tid) }, showStep acts t)
    | _, _, _, _, _, _, _, _, _, _ => (d, "bad-op")
  | _ => (d, "bad-op")

def handleStep (d : DState) (tid : Nat) : DState × String :=
  match d.threads.find? (·.1 == tid) with
  | none => (d, "no-thread")
  | some (_, t) =>
    let (w', t', acts) := t.step d.store d.now
    ({ d with st := w', threads := (tid, t') :: d.threads.filter (·.1 != tid) }, showStep acts t')

def handle (d : DState) (toks : List Tok) : DState × String :=
  match toks with
  | [['t','r','i','g'], target, rules, re] =>
    (d, match unhex target, parseRules rules, parseRe re with
    | some t, some rs, some tbl => if mustTrigger (reOracle tbl) rs t then "1" else "0"
    | _, _, _ => "bad-op")
  | [['p','q','f'], s] =>
    (d, match unhex s with
    | some s => match pqfLit s with
      | some (p, q, f) => hex p ++ " " ++ hex q ++ " " ++ hex f
      | none => "panic"
    | none => "bad-op")
  | [['c','h','a','i','n'], trig, au, chains, hdrs] =>
    (d, match boolOf trig, boolOf au, (splitList ';' chains).mapM parseChain, parseHeaders hdrs with
    | some t, some a, some cs, some h => showOptResp (check t a cs h)
    | _, _, _, _ => "bad-op")
  | [['s','t','o','r','e'], ['n','e','w'], kind, abs, idle, now] =>
    match intOf abs, intOf idle, intOf now with
    | some a, some i, some n =>
      ({ d with st := { kind := if kind = "mem".toList then 0 else 1, mem := MemStore.empty a i, abs := a, idle := i },
                now := n, parseTbl := [], tokTbl := [], s256Tbl := [], threads := [] }, "ok")
    | _, _, _ => (d, "bad-op")
  | [['o','r','a','c','l','e'], ['p','a','r','s','e'], s, b] =>
    match unhex s, boolOf b with
    | some s, some b => ({ d with parseTbl := (s, b) :: d.parseTbl }, "ok")
    | _, _ => (d, "bad-op")
  | [['o','r','a','c','l','e'], ['t','o','k'], s, parse, exp, aud, nonce, sig] =>
    match unhex s, boolOf parse, intOf exp, parseStrList aud, parseNonce nonce, boolOf sig with
    | some s, some p, some e, some au, some n, some sg =>
      ({ d with tokTbl := (s, (if p then some { exp := e, aud := au, nonce := n } else none), sg) :: d.tokTbl }, "ok")
    | _, _, _, _, _, _ => (d, "bad-op")
  | [['o','r','a','c','l','e'], ['s','2','5','6'], v, c] =>
    match unhex v, unhex c with
    | some v, some c => ({ d with s256Tbl := (v, c) :: d.s256Tbl }, "ok")
    | _, _ => (d, "bad-op")
  | ['c','f','g'] :: rest =>
    match parseCfg rest with
    | some c => ({ d with cfg := c }, "ok")
    | none => (d, "bad-op")
  | [['g','e','n'], bytes] =>
    (d, match unhex bytes with
    | some bs => match Gen.genAll bs with
      | some i => hex i.sid ++ " " ++ hex i.nonce ++ " " ++ hex i.state ++ " " ++ hex i.verifierBytes ++ " " ++ toString i.rest.length
      | none => "exhausted"
    | none => "bad-op")
  | ['s','e','c','r','e','t'] :: rest => handleSecret d rest
  | ['c','o','n','f'] :: rest => handleConf d rest
  | ['t','l','s'] :: rest => handleTls d rest
  | [['f','a','c','t','o','r','y'], filters] =>
    let fs : Option (List Factory.FilterStore) := (splitList ',' filters).mapM fun t =>
      match splitC ':' t with
      | [u, a, i] => do pure { redisUri := (← unhex u), abs := (← natOf a), idle := (← natOf i) }
      | _ => none
    (d, match fs with
      | some fs =>
        let b := Factory.preRun fs { memory := none, redis := [] }
        let ids := fs.map (Factory.get b)
        let classOf (i : Nat) : Nat := match (List.range i).find? (fun j => ids.getD j .memory == ids.getD i .memory) with
          | some j => j
          | none => i
        -- class of i = class of the first earlier filter with the same store (transitively the smallest index)
        String.intercalate "," ((List.range fs.length).map fun i => toString (classOf i))
      | none => "bad-op")
  | ['r','e','q'] :: rest => handleReq d rest
  | ['s','p','a','w','n'] :: rest => handleSpawn d rest
  | [['s','t','e','p'], tid] =>
    match natOf tid with
    | some tid => handleStep d tid
    | none => (d, "bad-op")
  | [['t','i','c','k'], n] =>
    match intOf n with
    | some n => ({ d with now := d.now + n }, "ok")
    | none => (d, "bad-op")
  | [['s','o','p'], ['d','u','m','p'], _inst, id] =>
    (d, match unhex id with
      | some id => if d.store.kind = 0 then "n/a" else showDump d.now (d.store.red id)
      | none => "bad-op")
  | ['s','o','p'] :: rest => storeOp d rest
  | ['s','o','p','f'] :: fs :: rest => storeOpF d (parseCmdFaults fs) rest
  | ['d','i','s','c'] :: rest => handleDisc d rest
  | _ => (d, "bad-op")

partial def loop (h : IO.FS.Stream) (out : IO.FS.Stream) (d : DState) : IO Unit := do
  let line ← h.getLine
  if line.isEmpty then return ()
  let cs := line.toList.filter (fun c => c ≠ '\n' ∧ c ≠ '\r')
  let (d', o) := handle d (splitC ' ' cs)
  out.putStrLn o
  loop h out d'

def main : IO Unit := do
  let out ← IO.getStdout
  loop (← IO.getStdin) out {}
  out.flush
