import AuthProofs.StrLemmas
import AuthProofs.Splitter
import AuthProofs.Trigger
