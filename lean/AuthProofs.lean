import AuthProofs.StrLemmas
import AuthProofs.Splitter
import AuthProofs.Trigger
import AuthProofs.CodeEquiv
import AuthProofs.CodeEquivOidc
import AuthProofs.StateInventory
import AuthProofs.CodeEquivCheck
