import AuthProps.C07
