/-
  The response builders of internal/authz/oidc.go, as translated from the source (Generated/CodeOidc.lean:
  newDenyResponse, newSessionErrorResponse, setDenyResponse, setRedirect, setSetCookieHeader, allowResponse and the
  package-level value standardResponseHeaders), against the responses of the handler model (`Oidc.deny`, `sessErr`,
  `found`, `redirectWithCookie`, `allow`).

  `respOf` reads an `*envoy.CheckResponse` the way Envoy (and the harness's canonical form) does: the gRPC code through
  the nil-safe getters, the HTTP part through the oneof.  The theorems compose the builders exactly as the call sites of
  oidc.go do (`setDenyResponse(resp, newDenyResponse(), code)`; `deny := newDenyResponse(); setRedirect(deny, loc);
  setSetCookieHeader(deny, cookie); setDenyResponse(resp, deny, Unauthenticated)`; …).
-/
import AuthModel.Generated.CodeOidc
import AuthModel.Oidc.Handler
import AuthProofs.CodeEquivOidc
namespace AuthModel.CodeEquiv
open AuthModel AuthModel.Str AuthModel.Oidc

/-- header list of a response as Envoy reads it: (key, value) of every option, nil-safe -/
def hdrsOf (hs : List Pb.HeaderValueOption) : Headers :=
  hs.map fun h => (h.GetHeader.GetKey, h.GetHeader.GetValue)

theorem hdrsOf_append (a b : List Pb.HeaderValueOption) : hdrsOf (a ++ b) = hdrsOf a ++ hdrsOf b := by
  simp [hdrsOf]

/-- the headers of an OK response; a nil one has none -/
def okOf (o : Pb.OkHttpResponse) : Headers := if o.isNil then [] else hdrsOf o.Headers

def deniedOf (d : Pb.DeniedHttpResponse) : Denied :=
  if d.isNil then {} else { status := d.Status.GetCode.toNat, headers := hdrsOf d.Headers, body := d.Body }

/-- the observable part of an `*envoy.CheckResponse` -/
def respOf (r : Pb.CheckResponse) : Resp :=
  { code := r.GetStatus.GetCode.toNat
    message := if r.GetStatus.isNil then [] else r.GetStatus.Message
    http := match r.HttpResponse with
      | .nil => .none
      | .OkResponse v => .ok (okOf v.OkResponse)
      | .DeniedResponse v => .denied (deniedOf v.DeniedResponse) }

/-- the OK headers a response already carries (what an earlier filter of the chain left) -/
def prevOk (r : Pb.CheckResponse) : Headers := okOf r.GetOkResponse

theorem code_stdHeaders : hdrsOf Code.standardResponseHeaders = stdHeaders := by decide

/-- `newDenyResponse()`: the standard no-cache headers, nothing else, and it cannot panic -/
theorem code_newDeny (env : Go.Env) :
    ∃ d, Code.newDenyResponse env = .ok d ∧ d.isNil = false ∧ deniedOf d = { headers := stdHeaders } := by
  refine ⟨{ Headers := Code.standardResponseHeaders }, ?_, rfl, ?_⟩
  · unfold Code.newDenyResponse
    simp [bind, Except.bind, pure, Except.pure, Go.derefNil, Pb.DeniedHttpResponse.new, Pb.DeniedHttpResponse.Headers!]
  · simp [deniedOf, code_stdHeaders, Pb.HttpStatus.GetCode]

theorem code_newSessErr (env : Go.Env) :
    ∃ d, Code.newSessionErrorResponse env = .ok d ∧ d.isNil = false ∧ deniedOf d = { body := sessionErrorBody } := by
  refine ⟨{ Body := sessionErrorBody }, ?_, rfl, ?_⟩
  · unfold Code.newSessionErrorResponse; simp [pure, Except.pure, sessionErrorBody]
  · simp [deniedOf, hdrsOf, Pb.HttpStatus.GetCode]

/-- `setDenyResponse(resp, deny, code)`: the gRPC code and the denied HTTP response are REPLACED (whatever an earlier
    filter left is gone); a nil `resp` panics -/
theorem code_setDeny (env : Go.Env) (resp : Pb.CheckResponse) (d : Pb.DeniedHttpResponse) (code : Int)
    (hr : resp.isNil = false) (_hc : 0 ≤ code) :
    ∃ r, Code.setDenyResponse env resp d code = .ok r ∧ r.isNil = false ∧
      respOf r = { code := code.toNat, http := .denied (deniedOf d) } := by
  refine ⟨{ resp with HttpResponse := .DeniedResponse ⟨d⟩, Status := { Code := code } }, ?_, hr, ?_⟩
  · unfold Code.setDenyResponse
    simp [bind, Except.bind, pure, Except.pure, Go.derefNil, hr]
  · simp [respOf, Pb.CheckResponse.GetStatus, Pb.Status.GetCode, hr]

theorem code_setRedirect (env : Go.Env) (d : Pb.DeniedHttpResponse) (loc : Str) (hd : d.isNil = false) :
    ∃ d', Code.setRedirect env d loc = .ok d' ∧ d'.isNil = false ∧
      deniedOf d' = { deniedOf d with status := 302, headers := (deniedOf d).headers ++ [(B "location", loc)] } := by
  refine ⟨{ d with Status := { Code := 302 }, Headers := d.Headers ++ [{ Header := { Key := Code.HeaderLocation, Value := loc } }] }, ?_, hd, ?_⟩
  · unfold Code.setRedirect
    simp [bind, Except.bind, pure, Except.pure, Go.derefNil, hd, Pb.DeniedHttpResponse.Headers!]
  · simp [deniedOf, hd, hdrsOf, Pb.HttpStatus.GetCode, Pb.HeaderValueOption.GetHeader, Pb.HeaderValue.GetKey,
      Pb.HeaderValue.GetValue, Code.HeaderLocation]

theorem code_setSetCookie (env : Go.Env) (d : Pb.DeniedHttpResponse) (cookie : Str) (hd : d.isNil = false) :
    ∃ d', Code.setSetCookieHeader env d cookie = .ok d' ∧ d'.isNil = false ∧
      deniedOf d' = { deniedOf d with headers := (deniedOf d).headers ++ [(B "set-cookie", cookie)] } := by
  refine ⟨{ d with Headers := d.Headers ++ [{ Header := { Key := Code.HeaderSetCookie, Value := cookie } }] }, ?_, hd, ?_⟩
  · unfold Code.setSetCookieHeader
    simp [bind, Except.bind, pure, Except.pure, Go.derefNil, hd, Pb.DeniedHttpResponse.Headers!]
  · simp [deniedOf, hd, hdrsOf, Pb.HeaderValueOption.GetHeader, Pb.HeaderValue.GetKey,
      Pb.HeaderValue.GetValue, Code.HeaderSetCookie]

/-! ### the compositions the call sites of oidc.go use -/

/-- `setDenyResponse(resp, newDenyResponse(), code)` is the model's `deny code` -/
theorem code_deny (env : Go.Env) (resp : Pb.CheckResponse) (code : Int) (hr : resp.isNil = false) (_hc : 0 ≤ code) :
    ∃ r, (do let d ← Code.newDenyResponse env; Code.setDenyResponse env resp d code) = .ok r ∧
      respOf r = deny code.toNat := by
  obtain ⟨d, h1, _, h3⟩ := code_newDeny env
  obtain ⟨r, h4, _, h6⟩ := code_setDeny env resp d code hr _hc
  refine ⟨r, ?_, ?_⟩
  · simp [bind, Except.bind, h1, h4]
  · rw [h6, h3]; rfl

/-- `setDenyResponse(resp, newSessionErrorResponse(), codes.Unauthenticated)` is the model's `sessErr` -/
theorem code_sessErr (env : Go.Env) (resp : Pb.CheckResponse) (hr : resp.isNil = false) :
    ∃ r, (do let d ← Code.newSessionErrorResponse env; Code.setDenyResponse env resp d 16) = .ok r ∧
      respOf r = sessErr := by
  obtain ⟨d, h1, _, h3⟩ := code_newSessErr env
  obtain ⟨r, h4, _, h6⟩ := code_setDeny env resp d 16 hr (by decide)
  refine ⟨r, ?_, ?_⟩
  · simp [bind, Except.bind, h1, h4]
  · rw [h6, h3]; rfl

/-- `deny := newDenyResponse(); setRedirect(deny, loc); setDenyResponse(resp, deny, Unauthenticated)` is `found loc` -/
theorem code_found (env : Go.Env) (resp : Pb.CheckResponse) (loc : Str) (hr : resp.isNil = false) :
    ∃ r, (do let d ← Code.newDenyResponse env
             let d ← Code.setRedirect env d loc
             Code.setDenyResponse env resp d 16) = .ok r ∧
      respOf r = found loc := by
  obtain ⟨d, h1, h2, h3⟩ := code_newDeny env
  obtain ⟨d', h4, h5, h6⟩ := code_setRedirect env d loc h2
  obtain ⟨r, h7, _, h9⟩ := code_setDeny env resp d' 16 hr (by decide)
  refine ⟨r, ?_, ?_⟩
  · simp [bind, Except.bind, h1, h4, h7]
  · rw [h9, h6, h3]; rfl

/-- the redirect that also sets the session cookie (to the IdP with a new session, or after logout with `deleted`) -/
theorem code_redirectWithCookie (env : Go.Env) (resp : Pb.CheckResponse) (loc cookie : Str) (hr : resp.isNil = false) :
    ∃ r, (do let d ← Code.newDenyResponse env
             let d ← Code.setRedirect env d loc
             let d ← Code.setSetCookieHeader env d cookie
             Code.setDenyResponse env resp d 16) = .ok r ∧
      respOf r = redirectWithCookie loc cookie := by
  obtain ⟨d, h1, h2, h3⟩ := code_newDeny env
  obtain ⟨d', h4, h5, h6⟩ := code_setRedirect env d loc h2
  obtain ⟨d'', h7, h8, h9⟩ := code_setSetCookie env d' cookie h5
  obtain ⟨r, h10, _, h12⟩ := code_setDeny env resp d'' 16 hr (by decide)
  refine ⟨r, ?_, ?_⟩
  · simp [bind, Except.bind, h1, h4, h7, h10]
  · rw [h12, h9, h6, h3]; simp [redirectWithCookie, cUnauthenticated]

/-- every denial the builders can produce that redirects carries the no-cache pair: a redirect is `setRedirect` applied
    to a `newDenyResponse()` (the only constructor with headers), and nothing removes headers -/
theorem code_redirect_keeps_headers (env : Go.Env) (d : Pb.DeniedHttpResponse) (loc : Str) (hd : d.isNil = false) :
    ∀ d', Code.setRedirect env d loc = .ok d' → ∀ h ∈ (deniedOf d).headers, h ∈ (deniedOf d').headers := by
  intro d' h1 h hh
  obtain ⟨d2, h2, _, h4⟩ := code_setRedirect env d loc hd
  rw [h2] at h1; cases h1
  rw [h4]; simp [hh]

/-! ### allowResponse -/

def mkOpt (x : Str × Str) : Pb.HeaderValueOption := { Header := { Key := x.1, Value := x.2 } }

theorem hdrsOf_mkOpt (kvs : List (Str × Str)) : hdrsOf (kvs.map mkOpt) = kvs := by
  induction kvs with
  | nil => rfl
  | cons a t ih =>
    simp only [hdrsOf, List.map_cons, List.map_map] at ih ⊢
    rw [ih]; simp [mkOpt, Pb.HeaderValueOption.GetHeader, Pb.HeaderValue.GetKey, Pb.HeaderValue.GetValue]

/-- a loop that appends one header option per entry -/
theorem forIn_hdrs (kvs : List (Str × Str)) (ok : Pb.OkHttpResponse) (hn : ok.isNil = false)
    (body : Str × Str → Pb.OkHttpResponse → Go.M (ForInStep Pb.OkHttpResponse))
    (hb : ∀ x r, r.isNil = false → body x r = .ok (.yield { r with Headers := r.Headers ++ [mkOpt x] })) :
    forIn kvs ok body = .ok { ok with Headers := ok.Headers ++ kvs.map mkOpt } := by
  induction kvs generalizing ok with
  | nil => simp [pure, Except.pure]
  | cons kv t ih =>
    rw [List.forIn_cons, hb kv ok hn]
    simp only [bind, Except.bind]
    rw [ih { ok with Headers := ok.Headers ++ [mkOpt kv] } hn]; simp

/-- the OK headers a response already carries (what an earlier filter of the chain left) -/
theorem prevOk_of_nil (r : Pb.CheckResponse) (h : r.GetOkResponse.isNil = true) : prevOk r = [] := by
  simp [prevOk, okOf, h]

/-- `o.allowResponse(resp, tokens)` is the model's `allow`: gRPC OK, and the token headers are APPENDED to the OK headers
    an earlier filter of the chain left on `resp` (a denied HTTP part left there is replaced) -/
theorem code_allow (env : Go.Env) (o : Pb.OidcHandler) (resp : Pb.CheckResponse) (t : Pb.TokenResponse) (cfg : Cfg) (tok : Tokens)
    (hr : resp.isNil = false)
    (ho : o.isNil = false) (hc : o.config.isNil = false) (ht : t.isNil = false)
    (hid : cfg.idHeader = o.config.IdToken.GetHeader) (hpre : cfg.idPreamble = o.config.IdToken.GetPreamble)
    (hacc : cfg.access = if o.config.AccessToken.isNil then none else some (o.config.AccessToken.Header, o.config.AccessToken.Preamble))
    (h1 : tok.idToken = t.IDToken) (h2 : tok.accessToken = t.AccessToken) :
    ∃ r, Code.allowResponse env o resp t = .ok r ∧ respOf r = allow cfg (prevOk resp) tok := by
  have henc := code_encodeTokens env o t cfg tok ho hc ht hid hpre hacc h1 h2
  unfold Code.allowResponse
  simp only [bind, Except.bind, pure, Except.pure, henc, Go.Map.entries]
  cases h : resp.GetOkResponse.isNil
  · simp only [Bool.false_eq_true, if_false]
    rw [forIn_hdrs (encodeTokens cfg tok) resp.GetOkResponse h]
    · refine ⟨_, by simp only [Go.derefNil, hr, Bool.false_eq_true, if_false]; rfl, ?_⟩
      simp [respOf, allow, Pb.CheckResponse.GetStatus, Pb.Status.GetCode, prevOk, okOf, h, hdrsOf_append, hdrsOf_mkOpt, cOK]
    · intro x r hx
      simp [Go.derefNil, hx, Pb.OkHttpResponse.Headers!, mkOpt, pure, Except.pure]
  · simp only [if_true]
    rw [forIn_hdrs (encodeTokens cfg tok) Pb.OkHttpResponse.new rfl]
    · refine ⟨_, by simp only [Go.derefNil, hr, Bool.false_eq_true, if_false]; rfl, ?_⟩
      simp [respOf, allow, Pb.CheckResponse.GetStatus, Pb.Status.GetCode, prevOk, okOf, h, cOK,
        Pb.OkHttpResponse.new, hdrsOf]
      simpa [hdrsOf] using hdrsOf_mkOpt (encodeTokens cfg tok)
    · intro x r hx
      simp [Go.derefNil, hx, Pb.OkHttpResponse.Headers!, mkOpt, pure, Except.pure]

/-! ### examples (the hypotheses are satisfiable; the values are the ones the harness sees) -/

example : (do let d ← Code.newDenyResponse {}; Code.setDenyResponse {} Pb.CheckResponse.new d 3).map respOf
    = .ok (deny cInvalidArgument) := by decide

example : (do let d ← Code.newDenyResponse {}
              let d ← Code.setRedirect {} d (B "https://idp/auth")
              let d ← Code.setSetCookieHeader {} d (B "c=v")
              Code.setDenyResponse {} Pb.CheckResponse.new d 16).map respOf
    = .ok (redirectWithCookie (B "https://idp/auth") (B "c=v")) := by decide

/-- a nil response panics (the model's `Check` always passes `&envoy.CheckResponse{}`) -/
example : Code.setDenyResponse {} { isNil := true } {} 3 = .error "invalid memory address or nil pointer dereference" := by decide

end AuthModel.CodeEquiv
