/-
  Logout finality over ALL interleavings of ANY number of checks (C09): a characterisation of every execution in
  which tokens are served for a session after its removal was acknowledged.

  A global execution is a list of events (thread, action, answer) in the order in which the shared store performed
  them. Two things are assumed of it, each discharged elsewhere:
    * per thread, the events are a run of the handler's interaction tree (`IsRun`), so everything proved for every
      path of `process` (AllActs/AllPaths, e.g. `process_writes`) holds of every thread under every schedule;
    * the store answers like the abstract session map (`Reach`), which both stores refine (C12) - generously:
      sessions may also vanish at any moment (expiry), a failed write may or may not have been applied, a read may
      miss.
-/
import AuthProofs.Ladder
set_option linter.unusedSimpArgs false
set_option linter.unusedVariables false
namespace AuthModel
open Oidc

structure Ev where
  tid : Nat
  act : Act
  res : ARes

/-- `evs` is a (prefix of a) path of the interaction tree -/
def IsRun : Prog → Trace → Prop
  | _, [] => True
  | .ret _, _ :: _ => False
  | .act a k, (a', res) :: rest => a' = a ∧ IsRun (k res) rest

/-- whatever holds of every action of the tree holds of every action of a run, with the run's own prefix -/
theorem allActs_of_run {Q : Trace → Act → Prop} :
    ∀ (pre : Trace) (p : Prog) (tr0 : Trace) (a : Act) (res : ARes) (post : Trace),
      AllActs Q p tr0 → IsRun p (pre ++ (a, res) :: post) → Q (tr0.reverse ++ pre) a := by
  intro pre
  induction pre with
  | nil =>
    intro p tr0 a res post hA hR
    cases p with
    | ret r => simp [IsRun] at hR
    | act a' k =>
      simp only [List.nil_append, IsRun] at hR
      obtain ⟨rfl, _⟩ := hR
      simpa using hA.1
  | cons x pre ih =>
    intro p tr0 a res post hA hR
    cases p with
    | ret r => simp [IsRun] at hR
    | act a' k =>
      obtain ⟨xa, xr⟩ := x
      simp only [List.cons_append, IsRun] at hR
      obtain ⟨rfl, hR'⟩ := hR
      have := ih (k xr) ((xa, xr) :: tr0) a res post (hA.2 xr) hR'
      simpa using this

/-! ### the store, as seen through the answers it gives -/

/-- sessions may vanish (expiry), nothing appears by itself -/
def Shrinks (m m' : SpecMap) : Prop := ∀ id, m' id = m id ∨ m' id = none

theorem Shrinks.refl (m : SpecMap) : Shrinks m m := fun _ => Or.inl rfl

/-- one action on the store: the answer given the map, and what the map may become -/
def StoreStep (m : SpecMap) (a : Act) (r : ARes) (m' : SpecMap) : Prop :=
  match a, r with
  | .getTok id, .tok (.ok x) => (x = none ∨ x = Spec.getTok m id) ∧ Shrinks m m'
  | .getAuth id, .auth (.ok x) => (x = none ∨ x = Spec.getAuth m id) ∧ Shrinks m m'
  | .setTok id t, .done true => ∃ now, Shrinks (Spec.setTok m id t now) m'
  | .setTok id t, _ => Shrinks m m' ∨ ∃ now, Shrinks (Spec.setTok m id t now) m'
  | .setAuth id s, .done true => ∃ now, Shrinks (Spec.setAuth m id s now) m'
  | .setAuth id s, _ => Shrinks m m' ∨ ∃ now, Shrinks (Spec.setAuth m id s now) m'
  | .clearAuth id, .done true => Shrinks (Spec.clearAuth m id) m'
  | .clearAuth id, _ => Shrinks m m' ∨ Shrinks (Spec.clearAuth m id) m'
  | .removeSession id, .done true => Shrinks (Spec.remove m id) m'
  | .removeSession id, _ => Shrinks m m' ∨ Shrinks (Spec.remove m id) m'
  | _, _ => Shrinks m m'

/-- the store performs the events in order, from map `m` to map `m'` -/
def Reach : SpecMap → List Ev → SpecMap → Prop
  | m, [], m' => m' = m
  | m, e :: es, m'' => ∃ m', StoreStep m e.act e.res m' ∧ Reach m' es m''

theorem reach_append (m m'' : SpecMap) (xs ys : List Ev) :
    Reach m (xs ++ ys) m'' ↔ ∃ m', Reach m xs m' ∧ Reach m' ys m'' := by
  induction xs generalizing m with
  | nil => simp [Reach]
  | cons e es ih =>
    simp only [List.cons_append, Reach, ih]
    constructor
    · rintro ⟨m1, hs, m2, h1, h2⟩; exact ⟨m2, ⟨m1, hs, h1⟩, h2⟩
    · rintro ⟨m2, ⟨m1, hs, h1⟩, h2⟩; exact ⟨m1, hs, m2, h1, h2⟩

def NoTok (m : SpecMap) (sid : Str) : Prop := Spec.getTok m sid = none
def NoAuth (m : SpecMap) (sid : Str) : Prop := Spec.getAuth m sid = none

theorem noTok_shrinks {m m' : SpecMap} {sid : Str} (h : NoTok m sid) (hs : Shrinks m m') : NoTok m' sid := by
  unfold NoTok Spec.getTok at *
  rcases hs sid with e | e <;> simp [e, h]

theorem noAuth_shrinks {m m' : SpecMap} {sid : Str} (h : NoAuth m sid) (hs : Shrinks m m') : NoAuth m' sid := by
  unfold NoAuth Spec.getAuth at *
  rcases hs sid with e | e <;> simp [e, h]

def isSetTok (sid : Str) : Act → Bool
  | .setTok id _ => decide (id = sid)
  | _ => false

def isSetAuth (sid : Str) : Act → Bool
  | .setAuth id _ => decide (id = sid)
  | _ => false

theorem noTok_setTok_other {m : SpecMap} {sid id : Str} {t : Tokens} {now : Int} (h : NoTok m sid) (hne : id ≠ sid) :
    NoTok (Spec.setTok m id t now) sid := by
  unfold NoTok Spec.getTok Spec.setTok upd at *
  have : sid ≠ id := fun e => hne e.symm
  simp [this, h]

theorem noTok_setAuth {m : SpecMap} {sid id : Str} {s : AuthState} {now : Int} (h : NoTok m sid) :
    NoTok (Spec.setAuth m id s now) sid := by
  unfold NoTok Spec.getTok Spec.setAuth upd at *
  by_cases e : sid = id
  · subst e
    cases hm : m sid with
    | none => simp [hm]
    | some x => simp [hm] at h ⊢; exact h
  · simp [e, h]

theorem noTok_clearAuth {m : SpecMap} {sid id : Str} (h : NoTok m sid) : NoTok (Spec.clearAuth m id) sid := by
  unfold NoTok Spec.getTok Spec.clearAuth upd at *
  cases hm : m id with
  | none => simp [hm, h]
  | some x =>
    by_cases e : sid = id
    · subst e; simp [hm] at h ⊢; exact h
    · simp [hm, e, h]

theorem noTok_remove {m : SpecMap} {sid id : Str} (h : NoTok m sid) : NoTok (Spec.remove m id) sid := by
  unfold NoTok Spec.getTok Spec.remove upd at *
  by_cases e : sid = id <;> simp [e, h]

theorem noAuth_setAuth_other {m : SpecMap} {sid id : Str} {s : AuthState} {now : Int} (h : NoAuth m sid) (hne : id ≠ sid) :
    NoAuth (Spec.setAuth m id s now) sid := by
  unfold NoAuth Spec.getAuth Spec.setAuth upd at *
  have : sid ≠ id := fun e => hne e.symm
  simp [this, h]

theorem noAuth_setTok {m : SpecMap} {sid id : Str} {t : Tokens} {now : Int} (h : NoAuth m sid) :
    NoAuth (Spec.setTok m id t now) sid := by
  unfold NoAuth Spec.getAuth Spec.setTok upd at *
  by_cases e : sid = id
  · subst e
    cases hm : m sid with
    | none => simp [hm]
    | some x => simp [hm] at h ⊢; exact h
  · simp [e, h]

theorem noAuth_clearAuth {m : SpecMap} {sid id : Str} (h : NoAuth m sid) : NoAuth (Spec.clearAuth m id) sid := by
  unfold NoAuth Spec.getAuth Spec.clearAuth upd at *
  cases hm : m id with
  | none => simp [hm, h]
  | some x =>
    by_cases e : sid = id
    · subst e; simp [hm]
    · simp [hm, e, h]

theorem noAuth_remove {m : SpecMap} {sid id : Str} (h : NoAuth m sid) : NoAuth (Spec.remove m id) sid := by
  unfold NoAuth Spec.getAuth Spec.remove upd at *
  by_cases e : sid = id <;> simp [e, h]

/-- tokens do not appear under `sid` unless some thread writes tokens under `sid` -/
theorem step_keeps_noTok {m m' : SpecMap} {sid : Str} {a : Act} {r : ARes}
    (h : NoTok m sid) (hs : StoreStep m a r m') (hn : isSetTok sid a = false) : NoTok m' sid := by
  cases a with
  | setTok id t =>
    have hne : id ≠ sid := by simpa [isSetTok] using hn
    cases r with
    | done ok =>
      cases ok with
      | true => obtain ⟨now, hsh⟩ := hs; exact noTok_shrinks (noTok_setTok_other h hne) hsh
      | false =>
        rcases hs with hsh | ⟨now, hsh⟩
        · exact noTok_shrinks h hsh
        · exact noTok_shrinks (noTok_setTok_other h hne) hsh
    | _ =>
      rcases hs with hsh | ⟨now, hsh⟩
      · exact noTok_shrinks h hsh
      · exact noTok_shrinks (noTok_setTok_other h hne) hsh
  | setAuth id s =>
    cases r with
    | done ok =>
      cases ok with
      | true => obtain ⟨now, hsh⟩ := hs; exact noTok_shrinks (noTok_setAuth h) hsh
      | false =>
        rcases hs with hsh | ⟨now, hsh⟩
        · exact noTok_shrinks h hsh
        · exact noTok_shrinks (noTok_setAuth h) hsh
    | _ =>
      rcases hs with hsh | ⟨now, hsh⟩
      · exact noTok_shrinks h hsh
      · exact noTok_shrinks (noTok_setAuth h) hsh
  | clearAuth id =>
    have hs' : Shrinks m m' ∨ Shrinks (Spec.clearAuth m id) m' := by
      cases r with
      | done ok => cases ok with
        | true => exact Or.inr hs
        | false => exact hs
      | _ => exact hs
    rcases hs' with hsh | hsh
    · exact noTok_shrinks h hsh
    · exact noTok_shrinks (noTok_clearAuth h) hsh
  | removeSession id =>
    cases r with
    | done ok =>
      cases ok with
      | true => exact noTok_shrinks (noTok_remove h) hs
      | false =>
        rcases hs with hsh | hsh
        · exact noTok_shrinks h hsh
        · exact noTok_shrinks (noTok_remove h) hsh
    | _ =>
      rcases hs with hsh | hsh
      · exact noTok_shrinks h hsh
      · exact noTok_shrinks (noTok_remove h) hsh
  | getTok id =>
    cases r with
    | tok x => cases x with
      | ok y => exact noTok_shrinks h hs.2
      | err => exact noTok_shrinks h hs
    | _ => exact noTok_shrinks h hs
  | getAuth id =>
    cases r with
    | auth x => cases x with
      | ok y => exact noTok_shrinks h hs.2
      | err => exact noTok_shrinks h hs
    | _ => exact noTok_shrinks h hs
  | idp q => exact noTok_shrinks h hs
  | keys => exact noTok_shrinks h hs
  | gen => exact noTok_shrinks h hs
  | now => exact noTok_shrinks h hs

/-- login state does not appear under `sid` unless some thread writes login state under `sid` -/
theorem step_keeps_noAuth {m m' : SpecMap} {sid : Str} {a : Act} {r : ARes}
    (h : NoAuth m sid) (hs : StoreStep m a r m') (hn : isSetAuth sid a = false) : NoAuth m' sid := by
  cases a with
  | setAuth id s =>
    have hne : id ≠ sid := by simpa [isSetAuth] using hn
    cases r with
    | done ok =>
      cases ok with
      | true => obtain ⟨now, hsh⟩ := hs; exact noAuth_shrinks (noAuth_setAuth_other h hne) hsh
      | false =>
        rcases hs with hsh | ⟨now, hsh⟩
        · exact noAuth_shrinks h hsh
        · exact noAuth_shrinks (noAuth_setAuth_other h hne) hsh
    | _ =>
      rcases hs with hsh | ⟨now, hsh⟩
      · exact noAuth_shrinks h hsh
      · exact noAuth_shrinks (noAuth_setAuth_other h hne) hsh
  | setTok id t =>
    cases r with
    | done ok =>
      cases ok with
      | true => obtain ⟨now, hsh⟩ := hs; exact noAuth_shrinks (noAuth_setTok h) hsh
      | false =>
        rcases hs with hsh | ⟨now, hsh⟩
        · exact noAuth_shrinks h hsh
        · exact noAuth_shrinks (noAuth_setTok h) hsh
    | _ =>
      rcases hs with hsh | ⟨now, hsh⟩
      · exact noAuth_shrinks h hsh
      · exact noAuth_shrinks (noAuth_setTok h) hsh
  | clearAuth id =>
    have hs' : Shrinks m m' ∨ Shrinks (Spec.clearAuth m id) m' := by
      cases r with
      | done ok => cases ok with
        | true => exact Or.inr hs
        | false => exact hs
      | _ => exact hs
    rcases hs' with hsh | hsh
    · exact noAuth_shrinks h hsh
    · exact noAuth_shrinks (noAuth_clearAuth h) hsh
  | removeSession id =>
    cases r with
    | done ok =>
      cases ok with
      | true => exact noAuth_shrinks (noAuth_remove h) hs
      | false =>
        rcases hs with hsh | hsh
        · exact noAuth_shrinks h hsh
        · exact noAuth_shrinks (noAuth_remove h) hsh
    | _ =>
      rcases hs with hsh | hsh
      · exact noAuth_shrinks h hsh
      · exact noAuth_shrinks (noAuth_remove h) hsh
  | getTok id =>
    cases r with
    | tok x => cases x with
      | ok y => exact noAuth_shrinks h hs.2
      | err => exact noAuth_shrinks h hs
    | _ => exact noAuth_shrinks h hs
  | getAuth id =>
    cases r with
    | auth x => cases x with
      | ok y => exact noAuth_shrinks h hs.2
      | err => exact noAuth_shrinks h hs
    | _ => exact noAuth_shrinks h hs
  | idp q => exact noAuth_shrinks h hs
  | keys => exact noAuth_shrinks h hs
  | gen => exact noAuth_shrinks h hs
  | now => exact noAuth_shrinks h hs

theorem reach_keeps_noTok (sid : Str) : ∀ (es : List Ev) (m m' : SpecMap), NoTok m sid → Reach m es m' →
    (∀ e ∈ es, isSetTok sid e.act = false) → NoTok m' sid := by
  intro es
  induction es with
  | nil => intro m m' h hr _; simp only [Reach] at hr; subst hr; exact h
  | cons e es ih =>
    intro m m' h hr hn
    obtain ⟨m1, hs, hr'⟩ := hr
    exact ih m1 m' (step_keeps_noTok h hs (hn e (by simp))) hr' (fun e' he' => hn e' (by simp [he']))

theorem reach_keeps_noAuth (sid : Str) : ∀ (es : List Ev) (m m' : SpecMap), NoAuth m sid → Reach m es m' →
    (∀ e ∈ es, isSetAuth sid e.act = false) → NoAuth m' sid := by
  intro es
  induction es with
  | nil => intro m m' h hr _; simp only [Reach] at hr; subst hr; exact h
  | cons e es ih =>
    intro m m' h hr hn
    obtain ⟨m1, hs, hr'⟩ := hr
    exact ih m1 m' (step_keeps_noAuth h hs (hn e (by simp))) hr' (fun e' he' => hn e' (by simp [he']))

/-- the first event of a list that satisfies `p`, with everything before it not satisfying `p` -/
theorem first_split {α : Type} (p : α → Bool) : ∀ (l : List α), (∃ x ∈ l, p x = true) →
    ∃ l1 x l2, l = l1 ++ x :: l2 ∧ p x = true ∧ ∀ y ∈ l1, p y = false := by
  intro l
  induction l with
  | nil => rintro ⟨x, hx, _⟩; simp at hx
  | cons a l ih =>
    intro h
    by_cases ha : p a = true
    · exact ⟨[], a, l, rfl, ha, by simp⟩
    · have : ∃ x ∈ l, p x = true := by
        obtain ⟨x, hx, hp⟩ := h
        simp only [List.mem_cons] at hx
        rcases hx with rfl | hx
        · exact absurd hp ha
        · exact ⟨x, hx, hp⟩
      obtain ⟨l1, x, l2, rfl, hp, hl1⟩ := ih this
      refine ⟨a :: l1, x, l2, rfl, hp, ?_⟩
      intro y hy
      simp only [List.mem_cons] at hy
      rcases hy with rfl | hy
      · simpa using ha
      · exact hl1 y hy

/-! ### per-thread view of a global execution -/

def threadTrace (tr : List Ev) (t : Nat) : Trace := (tr.filter fun e => e.tid = t).map fun e => (e.act, e.res)

theorem threadTrace_append (xs ys : List Ev) (t : Nat) : threadTrace (xs ++ ys) t = threadTrace xs t ++ threadTrace ys t := by
  simp [threadTrace]

theorem threadTrace_cons_self (e : Ev) (ys : List Ev) : threadTrace (e :: ys) e.tid = (e.act, e.res) :: threadTrace ys e.tid := by
  simp [threadTrace]

theorem mem_threadTrace {tr : List Ev} {t : Nat} {a : Act} {r : ARes} (h : (a, r) ∈ threadTrace tr t) :
    ∃ e ∈ tr, e.tid = t ∧ e.act = a ∧ e.res = r := by
  simp only [threadTrace, List.mem_map, List.mem_filter, decide_eq_true_eq, Prod.mk.injEq] at h
  obtain ⟨e, ⟨he, ht⟩, ha, hr⟩ := h
  exact ⟨e, he, ht, ha, hr⟩

/-- a read of `sid` that returned data -/
def isReadSome (sid : Str) (e : Ev) : Prop :=
  (∃ t, e.act = .getTok sid ∧ e.res = .tok (.ok (some t))) ∨ (∃ a, e.act = .getAuth sid ∧ e.res = .auth (.ok (some a)))

/-- every write of tokens under `sid` by a thread that runs the handler was preceded, in that thread, by a read of
    `sid` that returned tokens (refresh) or login state (callback) -/
theorem setTok_needs_read (cfg : Cfg) (o : Oracles) (req : Req) (prev : Headers) (pre post : List Ev) (e : Ev)
    (sid : Str) (t : Tokens) (hrun : IsRun (process cfg o req prev) (threadTrace (pre ++ e :: post) e.tid))
    (ha : e.act = .setTok sid t) : ∃ q ∈ pre, q.tid = e.tid ∧ isReadSome sid q := by
  rw [threadTrace_append, threadTrace_cons_self] at hrun
  have hw := allActs_of_run (threadTrace pre e.tid) _ [] e.act e.res (threadTrace post e.tid) (process_writes cfg o req prev) hrun
  simp only [List.reverse_nil, List.nil_append, ha, WriteOK] at hw
  obtain ⟨_, _, hshape⟩ := hw
  split at hshape
  · rename_i s1 a uri code ru v cid cs b s2 now hpre
    obtain ⟨rfl, _⟩ := hshape
    have : (Act.getAuth s1, ARes.auth (.ok (some a))) ∈ threadTrace pre e.tid := by rw [hpre]; simp
    obtain ⟨q, hq, ht, hqa, hqr⟩ := mem_threadTrace this
    exact ⟨q, hq, ht, Or.inr ⟨a, hqa, hqr⟩⟩
  · rename_i s1 old _ uri rt cid cs b now2 s2 authAns hpre
    obtain ⟨rfl, _⟩ := hshape
    have : (Act.getTok s1, ARes.tok (.ok (some old))) ∈ threadTrace pre e.tid := by rw [hpre]; simp
    obtain ⟨q, hq, ht, hqa, hqr⟩ := mem_threadTrace this
    exact ⟨q, hq, ht, Or.inl ⟨old, hqa, hqr⟩⟩
  · exact absurd hshape id

/-- login state is written only under an id the thread's generator has just produced -/
theorem setAuth_needs_gen (cfg : Cfg) (o : Oracles) (req : Req) (prev : Headers) (pre post : List Ev) (e : Ev)
    (sid : Str) (a : AuthState) (hrun : IsRun (process cfg o req prev) (threadTrace (pre ++ e :: post) e.tid))
    (ha : e.act = .setAuth sid a) : ∃ q ∈ pre, q.act = .gen ∧ ∃ n s v, q.res = .gen sid n s v := by
  rw [threadTrace_append, threadTrace_cons_self] at hrun
  have hw := allActs_of_run (threadTrace pre e.tid) _ [] e.act e.res (threadTrace post e.tid) (process_writes cfg o req prev) hrun
  simp only [List.reverse_nil, List.nil_append, ha, WriteOK] at hw
  obtain ⟨hg, _⟩ := hw
  have : (Act.gen, ARes.gen sid a.nonce a.state a.codeVerifier) ∈ threadTrace pre e.tid := by
    have := List.mem_of_mem_head? hg
    simpa using this
  obtain ⟨q, hq, _, hqa, hqr⟩ := mem_threadTrace this
  exact ⟨q, hq, hqa, _, _, _, hqr⟩

/-! ### the characterisation -/

/-- CHARACTERISATION OF EVERY LATE SERVING. Any number of threads, each running the handler, interleaved in any way on
    a store that answers like the session map. If the store acknowledged the removal of `sid` (event `eR`) and later
    returns tokens for `sid` (event `eB`), then between the two some thread `A` wrote tokens under `sid`, and that
    thread had read `sid` - tokens or login state - BEFORE the removal. There is no other way: a thread that starts
    reading after the removal finds nothing, and login state is only written under freshly generated ids. -/
theorem late_tokens_shape (cfg : Cfg) (o : Oracles) (reqOf : Nat → Req) (prevOf : Nat → Headers)
    (m0 mEnd : SpecMap) (pre mid post : List Ev) (eR eB : Ev) (sid : Str) (tB : Tokens)
    (hruns : ∀ t, IsRun (process cfg o (reqOf t) (prevOf t)) (threadTrace (pre ++ eR :: (mid ++ eB :: post)) t))
    (hstore : Reach m0 (pre ++ eR :: (mid ++ eB :: post)) mEnd)
    (hfresh : ∀ e ∈ pre ++ eR :: (mid ++ eB :: post), e.act = .gen → ∀ n s v, e.res ≠ .gen sid n s v)
    (hR : eR.act = .removeSession sid ∧ eR.res = .done true)
    (hB : eB.act = .getTok sid ∧ eB.res = .tok (.ok (some tB))) :
    ∃ mid1 eP mid2 t, mid = mid1 ++ eP :: mid2 ∧ eP.act = .setTok sid t ∧
      (∀ e ∈ mid1, isSetTok sid e.act = false) ∧
      ∃ q ∈ pre, q.tid = eP.tid ∧ isReadSome sid q := by
  -- the store, cut at the removal and at the late read
  rw [show pre ++ eR :: (mid ++ eB :: post) = pre ++ ([eR] ++ (mid ++ ([eB] ++ post))) by simp] at hstore
  obtain ⟨m1, _, hstore⟩ := (reach_append _ _ _ _).mp hstore
  obtain ⟨m2, hrem, hstore⟩ := (reach_append _ _ _ _).mp hstore
  obtain ⟨m3, hmid, hstore⟩ := (reach_append _ _ _ _).mp hstore
  obtain ⟨m4, hread, _⟩ := (reach_append _ _ _ _).mp hstore
  -- after the acknowledged removal nothing is stored under sid
  have hno2 : NoTok m2 sid ∧ NoAuth m2 sid := by
    simp only [Reach] at hrem
    obtain ⟨m', hs, rfl⟩ := hrem
    rw [hR.1, hR.2] at hs
    simp only [StoreStep] at hs
    have h0 : NoTok (Spec.remove m1 sid) sid ∧ NoAuth (Spec.remove m1 sid) sid := by
      simp [NoTok, NoAuth, Spec.remove, Spec.getTok, Spec.getAuth, upd]
    exact ⟨noTok_shrinks h0.1 hs, noAuth_shrinks h0.2 hs⟩
  -- the late read returned tokens, so tokens were stored under sid at that point
  have hyes3 : ¬ NoTok m3 sid := by
    simp only [Reach] at hread
    obtain ⟨m', hs, _⟩ := hread
    rw [hB.1, hB.2] at hs
    simp only [StoreStep] at hs
    intro hn
    rcases hs.1 with h | h
    · cases h
    · rw [hn] at h; cases h
  -- hence some thread wrote tokens under sid in between; take the first such write
  have hex : ∃ e ∈ mid, isSetTok sid e.act = true := by
    apply Classical.byContradiction
    intro hc
    have : ∀ e ∈ mid, isSetTok sid e.act = false := by
      intro e he
      cases h : isSetTok sid e.act with
      | false => rfl
      | true => exact absurd ⟨e, he, h⟩ hc
    exact hyes3 (reach_keeps_noTok sid mid m2 m3 hno2.1 hmid this)
  obtain ⟨mid1, eP, mid2, rfl, hP, hfirst⟩ := first_split (fun e => isSetTok sid e.act) mid hex
  obtain ⟨t, hPa⟩ : ∃ t, eP.act = .setTok sid t := by
    cases hact : eP.act with
    | setTok id t => simp [isSetTok, hact] at hP; exact ⟨t, by rw [hP]⟩
    | _ => simp [isSetTok, hact] at hP
  refine ⟨mid1, eP, mid2, t, rfl, hPa, hfirst, ?_⟩
  -- that thread read sid before writing; the read cannot lie after the removal
  have hrunP := hruns eP.tid
  rw [show pre ++ eR :: (mid1 ++ eP :: mid2 ++ eB :: post) = (pre ++ eR :: mid1) ++ eP :: (mid2 ++ eB :: post) by simp] at hrunP
  obtain ⟨q, hq, hqt, hqr⟩ := setTok_needs_read cfg o (reqOf eP.tid) (prevOf eP.tid) _ _ eP sid t hrunP hPa
  simp only [List.mem_append, List.mem_cons] at hq
  rcases hq with hq | rfl | hq
  · exact ⟨q, hq, hqt, hqr⟩
  · -- the removal itself is not a read
    rcases hqr with ⟨_, h, _⟩ | ⟨_, h, _⟩ <;> rw [hR.1] at h <;> cases h
  · -- a read after the removal and before the first write of tokens: it cannot have returned data
    exfalso
    obtain ⟨a1, a2, rfl⟩ := List.append_of_mem hq
    rw [show (a1 ++ q :: a2) ++ eP :: mid2 = a1 ++ ([q] ++ (a2 ++ eP :: mid2)) by simp] at hmid
    obtain ⟨n1, h1, hmid⟩ := (reach_append _ _ _ _).mp hmid
    obtain ⟨n2, hqstep, _⟩ := (reach_append _ _ _ _).mp hmid
    have hfirst1 : ∀ e ∈ a1, isSetTok sid e.act = false := fun e he => hfirst e (by simp [he])
    have hnt : NoTok n1 sid := reach_keeps_noTok sid a1 m2 n1 hno2.1 h1 hfirst1
    simp only [Reach] at hqstep
    obtain ⟨n', hs, _⟩ := hqstep
    rcases hqr with ⟨tq, hqa, hqres⟩ | ⟨aq, hqa, hqres⟩
    · rw [hqa, hqres] at hs
      simp only [StoreStep] at hs
      rcases hs.1 with h | h
      · cases h
      · rw [hnt] at h; cases h
    · -- login state under sid after the removal: somebody wrote it, under an id its generator produced: not fresh
      have hna : ¬ NoAuth n1 sid := by
        rw [hqa, hqres] at hs
        simp only [StoreStep] at hs
        intro hn
        rcases hs.1 with h | h
        · cases h
        · rw [hn] at h; cases h
      have hexA : ∃ e ∈ a1, isSetAuth sid e.act = true := by
        apply Classical.byContradiction
        intro hc
        have : ∀ e ∈ a1, isSetAuth sid e.act = false := by
          intro e he
          cases h : isSetAuth sid e.act with
          | false => rfl
          | true => exact absurd ⟨e, he, h⟩ hc
        exact hna (reach_keeps_noAuth sid a1 m2 n1 hno2.2 h1 this)
      obtain ⟨eA, heA, hisA⟩ := hexA
      obtain ⟨b1, b2, rfl⟩ := List.append_of_mem heA
      obtain ⟨st, hAa⟩ : ∃ st, eA.act = .setAuth sid st := by
        cases hact : eA.act with
        | setAuth id st => simp [isSetAuth, hact] at hisA; exact ⟨st, by rw [hisA]⟩
        | _ => simp [isSetAuth, hact] at hisA
      have hrunA := hruns eA.tid
      rw [show pre ++ eR :: ((b1 ++ eA :: b2) ++ q :: a2 ++ eP :: mid2 ++ eB :: post)
            = (pre ++ eR :: b1) ++ eA :: (b2 ++ q :: a2 ++ eP :: mid2 ++ eB :: post) by simp] at hrunA
      obtain ⟨g, hg, hga, n, s, v, hgr⟩ := setAuth_needs_gen cfg o (reqOf eA.tid) (prevOf eA.tid) _ _ eA sid st hrunA hAa
      have hgmem : g ∈ pre ++ eR :: ((b1 ++ eA :: b2) ++ q :: a2 ++ eP :: mid2 ++ eB :: post) := by
        simp only [List.mem_append, List.mem_cons] at hg
        rcases hg with h | h | h
        · simp [h]
        · simp [h]
        · simp [h]
      exact hfresh g hgmem hga n s v hgr

end AuthModel

namespace AuthModel
open Oidc

instance decIsRun : (p : Prog) → (evs : Trace) → Decidable (IsRun p evs)
  | .ret _, [] => isTrue (by simp [IsRun])
  | .act _ _, [] => isTrue (by simp [IsRun])
  | .ret _, _ :: _ => isFalse (by simp [IsRun])
  | .act a k, (a', res) :: rest =>
    if h : a' = a then
      match decIsRun (k res) rest with
      | isTrue h2 => isTrue (by simp only [IsRun]; exact ⟨h, h2⟩)
      | isFalse h2 => isFalse (by simp only [IsRun]; exact fun hh => h2 hh.2)
    else isFalse (by simp only [IsRun]; exact fun hh => h hh.1)

end AuthModel

namespace AuthModel
open Oidc

/-- a canonical execution of the store (no expiry, successful writes applied, failed writes not): `none` if an answer
    in the trace is not the one the map gives. Used to exhibit executions that satisfy `Reach`. -/
def replayStep (m : SpecMap) (a : Act) (r : ARes) : Option SpecMap :=
  match a, r with
  | .getTok id, .tok (.ok x) => if x = Spec.getTok m id then some m else none
  | .getAuth id, .auth (.ok x) => if x = Spec.getAuth m id then some m else none
  | .setTok id t, .done true => some (Spec.setTok m id t 0)
  | .setAuth id s, .done true => some (Spec.setAuth m id s 0)
  | .clearAuth id, .done true => some (Spec.clearAuth m id)
  | .removeSession id, .done true => some (Spec.remove m id)
  | .setTok _ _, _ | .setAuth _ _, _ | .clearAuth _, _ | .removeSession _, _ => some m
  | _, _ => some m

theorem replayStep_sound (m m' : SpecMap) (a : Act) (r : ARes) (h : replayStep m a r = some m') : StoreStep m a r m' := by
  cases a <;> cases r <;> simp only [replayStep, StoreStep] at h ⊢ <;>
    first
    | (injection h with h; subst h; first | exact Shrinks.refl _ | exact Or.inl (Shrinks.refl _))
    | (rename_i ok; cases ok <;> simp only [replayStep] at h <;> injection h with h <;> subst h <;>
        first
        | exact Shrinks.refl _
        | exact Or.inl (Shrinks.refl _)
        | exact ⟨0, Shrinks.refl _⟩
        | exact Or.inr (Shrinks.refl _))
    | (rename_i x; cases x <;> simp only [replayStep] at h <;>
        first
        | (injection h with h; subst h; exact Shrinks.refl _)
        | (split at h <;> first | (injection h with h; subst h; rename_i he; exact ⟨Or.inr he, Shrinks.refl _⟩) | cases h))

def replay : SpecMap → List Ev → Option SpecMap
  | m, [] => some m
  | m, e :: es => match replayStep m e.act e.res with
    | some m' => replay m' es
    | none => none

theorem replay_sound : ∀ (es : List Ev) (m m' : SpecMap), replay m es = some m' → Reach m es m' := by
  intro es
  induction es with
  | nil => intro m m' h; simp only [replay] at h; injection h with h; exact h.symm
  | cons e es ih =>
    intro m m' h
    simp only [replay] at h
    cases hs : replayStep m e.act e.res with
    | none => simp [hs] at h
    | some m1 =>
      simp only [hs] at h
      exact ⟨m1, replayStep_sound _ _ _ _ hs, ih m1 m' h⟩

end AuthModel

namespace AuthModel
open Oidc

theorem noAuth_after_clear (m : SpecMap) (sid : Str) : NoAuth (Spec.clearAuth m sid) sid := by
  unfold NoAuth Spec.getAuth Spec.clearAuth upd
  cases hm : m sid with
  | none => simp [hm]
  | some x => simp [hm]

/-- the code exchange of a callback was preceded, in that thread, by a read of the login state of the session named by
    its cookie, and the verifier it sends is the one of that state -/
theorem exchange_needs_state (cfg : Cfg) (o : Oracles) (req : Req) (prev : Headers) (pre post : List Ev) (e : Ev)
    (uri code ru v cid cs : Str) (hrun : IsRun (process cfg o req prev) (threadTrace (pre ++ e :: post) e.tid))
    (ha : e.act = .idp (.code uri code ru v cid cs)) :
    ∃ q ∈ pre, q.tid = e.tid ∧ ∃ a, q.act = .getAuth (sessionIdFromCookie cfg req.cookie) ∧ q.res = .auth (.ok (some a)) ∧
      v = a.codeVerifier := by
  rw [threadTrace_append, threadTrace_cons_self] at hrun
  have hw := allActs_of_run (threadTrace pre e.tid) _ [] e.act e.res (threadTrace post e.tid) (process_idp_requests cfg o req prev) hrun
  simp only [List.reverse_nil, List.nil_append, ha, IdpReqOK] at hw
  obtain ⟨_, _, _, _, _, a, hpre, hv, _⟩ := hw
  have : (Act.getAuth (sessionIdFromCookie cfg req.cookie), ARes.auth (.ok (some a))) ∈ threadTrace pre e.tid := by rw [hpre]; simp
  obtain ⟨q, hq, ht, hqa, hqr⟩ := mem_threadTrace this
  exact ⟨q, hq, ht, a, hqa, hqr, hv⟩

/-- CONSUMPTION, FOR EVERY SCHEDULE. Once the store has acknowledged that the login state of `sid` was cleared (a callback
    does that after its exchange succeeded), the only callbacks that can still send a code to the token endpoint for
    `sid` are those that had ALREADY READ the login state before the clearing - the overlap window of concurrent callbacks.
    A callback that starts afterwards finds no state (nobody writes login state under an existing id) and makes no
    exchange: the state is single-use. -/
theorem exchange_after_consumption_shape (cfg : Cfg) (o : Oracles) (reqOf : Nat → Req) (prevOf : Nat → Headers)
    (m0 mEnd : SpecMap) (pre mid post : List Ev) (eC eX : Ev) (sid uri code ru v cid cs : Str)
    (hruns : ∀ t, IsRun (process cfg o (reqOf t) (prevOf t)) (threadTrace (pre ++ eC :: (mid ++ eX :: post)) t))
    (hstore : Reach m0 (pre ++ eC :: (mid ++ eX :: post)) mEnd)
    (hfresh : ∀ e ∈ pre ++ eC :: (mid ++ eX :: post), e.act = .gen → ∀ n s v, e.res ≠ .gen sid n s v)
    (hC : eC.act = .clearAuth sid ∧ eC.res = .done true)
    (hX : eX.act = .idp (.code uri code ru v cid cs)) (hsid : sessionIdFromCookie cfg (reqOf eX.tid).cookie = sid) :
    ∃ q ∈ pre, q.tid = eX.tid ∧ ∃ a, q.act = .getAuth sid ∧ q.res = .auth (.ok (some a)) := by
  have hrunX := hruns eX.tid
  rw [show pre ++ eC :: (mid ++ eX :: post) = (pre ++ eC :: mid) ++ eX :: post by simp] at hrunX
  obtain ⟨q, hq, hqt, a, hqa, hqr, _⟩ := exchange_needs_state cfg o (reqOf eX.tid) (prevOf eX.tid) _ _ eX uri code ru v cid cs hrunX hX
  rw [hsid] at hqa
  simp only [List.mem_append, List.mem_cons] at hq
  rcases hq with hq | rfl | hq
  · exact ⟨q, hq, hqt, a, hqa, hqr⟩
  · rw [hC.1] at hqa; cases hqa
  · exfalso
    obtain ⟨a1, a2, rfl⟩ := List.append_of_mem hq
    rw [show pre ++ eC :: ((a1 ++ q :: a2) ++ eX :: post) = pre ++ ([eC] ++ (a1 ++ ([q] ++ (a2 ++ eX :: post)))) by simp] at hstore
    obtain ⟨m1, _, hstore⟩ := (reach_append _ _ _ _).mp hstore
    obtain ⟨m2, hclr, hstore⟩ := (reach_append _ _ _ _).mp hstore
    obtain ⟨n1, h1, hstore⟩ := (reach_append _ _ _ _).mp hstore
    obtain ⟨n2, hqstep, _⟩ := (reach_append _ _ _ _).mp hstore
    have hno2 : NoAuth m2 sid := by
      simp only [Reach] at hclr
      obtain ⟨m', hs, rfl⟩ := hclr
      rw [hC.1, hC.2] at hs
      simp only [StoreStep] at hs
      exact noAuth_shrinks (noAuth_after_clear m1 sid) hs
    have hna : ¬ NoAuth n1 sid := by
      simp only [Reach] at hqstep
      obtain ⟨n', hs, _⟩ := hqstep
      rw [hqa, hqr] at hs
      simp only [StoreStep] at hs
      intro hn
      rcases hs.1 with h | h
      · cases h
      · rw [hn] at h; cases h
    have hexA : ∃ e ∈ a1, isSetAuth sid e.act = true := by
      apply Classical.byContradiction
      intro hc
      have : ∀ e ∈ a1, isSetAuth sid e.act = false := by
        intro e he
        cases h : isSetAuth sid e.act with
        | false => rfl
        | true => exact absurd ⟨e, he, h⟩ hc
      exact hna (reach_keeps_noAuth sid a1 m2 n1 hno2 h1 this)
    obtain ⟨eA, heA, hisA⟩ := hexA
    obtain ⟨b1, b2, rfl⟩ := List.append_of_mem heA
    obtain ⟨st, hAa⟩ : ∃ st, eA.act = .setAuth sid st := by
      cases hact : eA.act with
      | setAuth id st => simp [isSetAuth, hact] at hisA; exact ⟨st, by rw [hisA]⟩
      | _ => simp [isSetAuth, hact] at hisA
    have hrunA := hruns eA.tid
    rw [show pre ++ eC :: ((b1 ++ eA :: b2) ++ q :: a2 ++ eX :: post)
          = (pre ++ eC :: b1) ++ eA :: (b2 ++ q :: a2 ++ eX :: post) by simp] at hrunA
    obtain ⟨g, hg, hga, n, s, v', hgr⟩ := setAuth_needs_gen cfg o (reqOf eA.tid) (prevOf eA.tid) _ _ eA sid st hrunA hAa
    have hgmem : g ∈ pre ++ eC :: ((b1 ++ eA :: b2) ++ q :: a2 ++ eX :: post) := by
      simp only [List.mem_append, List.mem_cons] at hg
      rcases hg with h | h | h
      · simp [h]
      · simp [h]
      · simp [h]
    exact hfresh g hgmem hga n s v' hgr

end AuthModel
