import AuthModel.Lockset
set_option linter.unusedSimpArgs false
set_option linter.unusedVariables false
namespace AuthModel
namespace Lockset

theorem holders_snoc (tr : List Ev) (e : Ev) : holders (tr ++ [e]) = step (holders tr) e := by
  simp [holders, List.foldl_append]

theorem take_succ_get {α} (l : List α) (i : Nat) (e : α) (h : l[i]? = some e) : l.take (i + 1) = l.take i ++ [e] := by
  induction l generalizing i with
  | nil => simp at h
  | cons a as ih =>
    cases i with
    | zero => simp at h; subst h; simp
    | succ i => simp at h; simp [ih i h]

theorem holders_take_succ (tr : List Ev) (i : Nat) (e : Ev) (h : tr[i]? = some e) :
    holders (tr.take (i + 1)) = step (holders (tr.take i)) e := by
  rw [take_succ_get tr i e h, holders_snoc]

theorem take_of_none {α} (l : List α) (i : Nat) (h : l[i]? = none) : l.take (i + 1) = l.take i := by
  have : l.length ≤ i := by
    cases hl : l[i]? with
    | none => exact List.getElem?_eq_none_iff.mp hl
    | some x => rw [hl] at h; cases h
  rw [List.take_of_length_le (by omega), List.take_of_length_le this]

/-- LAST ACQUIRE: if `b` holds `L` after the first `j` events, some earlier event is `b`'s acquire of `L` and `b` holds
    `L` at every point in between -/
theorem last_acquire (tr : List Ev) (L b : Nat) : ∀ j, holders (tr.take j) L = some b →
    ∃ m, m < j ∧ tr[m]? = some (.acq b L) ∧ ∀ p, m < p → p ≤ j → holders (tr.take p) L = some b := by
  intro j
  induction j with
  | zero => intro h; simp [holders] at h
  | succ j ih =>
    intro h
    cases he : tr[j]? with
    | none =>
      rw [take_of_none tr j he] at h
      obtain ⟨m, hm, hacq, hall⟩ := ih h
      refine ⟨m, by omega, hacq, ?_⟩
      intro p hp1 hp2
      by_cases hpj : p ≤ j
      · exact hall p hp1 hpj
      · have : p = j + 1 := by omega
        subst this; rw [take_of_none tr j he]; exact hall j (by omega) (Nat.le_refl _) |> fun x => by
          by_cases hmj : m < j
          · exact hall j hmj (Nat.le_refl _)
          · omega
    | some e =>
      have hs := holders_take_succ tr j e he
      rw [hs] at h
      -- does event j acquire L?
      by_cases hacqL : ∃ t, e = .acq t L
      · obtain ⟨t, rfl⟩ := hacqL
        simp [step] at h
        subst h
        refine ⟨j, by omega, he, ?_⟩
        intro p hp1 hp2
        have : p = j + 1 := by omega
        subst this; rw [hs]; simp [step]
      · have hprev : holders (tr.take j) L = some b := by
          cases e with
          | acq t l =>
            have : l ≠ L := fun hl => hacqL ⟨t, by rw [hl]⟩
            simp [step, Ne.symm this] at h; exact h
          | rel t l =>
            by_cases hl : L = l
            · simp [step, hl] at h
            · simp [step, hl] at h; exact h
          | rd t x => exact h
          | wr t x => exact h
        obtain ⟨m, hm, hacq, hall⟩ := ih hprev
        refine ⟨m, by omega, hacq, ?_⟩
        intro p hp1 hp2
        by_cases hpj : p ≤ j
        · exact hall p hp1 hpj
        · have : p = j + 1 := by omega
          subst this; rw [hs]; exact h

/-- RELEASE IN BETWEEN: if `a` holds `L` after `i` events and does not hold it after `m ≥ i` events, then in a
    well-formed trace some event `k ∈ [i, m)` is `a`'s release of `L` -/
theorem release_between (tr : List Ev) (hwf : WF tr) (L a : Nat) (i : Nat) (hi : holders (tr.take i) L = some a) :
    ∀ d m, m = i + d → holders (tr.take m) L ≠ some a → ∃ k, i ≤ k ∧ k < m ∧ tr[k]? = some (.rel a L) := by
  intro d
  induction d with
  | zero => intro m hm hne; subst hm; exact absurd hi hne
  | succ d ih =>
    intro m hm hne
    subst hm
    by_cases hprev : holders (tr.take (i + d)) L = some a
    · -- the change happens at event i + d
      cases he : tr[i + d]? with
      | none =>
        have := take_of_none tr (i + d) he
        rw [show i + (d + 1) = i + d + 1 by omega, this] at hne
        exact absurd hprev hne
      | some e =>
        have hs := holders_take_succ tr (i + d) e he
        rw [show i + (d + 1) = i + d + 1 by omega, hs] at hne
        cases e with
        | acq t l =>
          by_cases hl : L = l
          · -- acquiring a held lock contradicts well-formedness
            have := hwf (i + d)
            rw [he] at this
            simp only at this
            rw [← hl, hprev] at this
            cases this
          · simp [step, hl] at hne; exact absurd hprev hne
        | rel t l =>
          by_cases hl : L = l
          · have := hwf (i + d)
            rw [he] at this
            simp only at this
            rw [← hl, hprev] at this
            injection this with this
            subst this
            exact ⟨i + d, by omega, by omega, by rw [he, hl]⟩
          · simp [step, hl] at hne; exact absurd hprev hne
        | rd t x => simp [step] at hne; exact absurd hprev hne
        | wr t x => simp [step] at hne; exact absurd hprev hne
    · obtain ⟨k, hk1, hk2, hk3⟩ := ih (i + d) rfl hprev
      exact ⟨k, hk1, by omega, hk3⟩

/-- LOCKSET SOUNDNESS. In a well-formed trace, two accesses at positions `i < j` by different threads that were both
    made while holding the SAME lock `L` are ordered by happens-before. Hence: if every access to a location is made
    under one common lock, no two conflicting accesses to it are concurrent - there is no data race on it.
    No bound on the number of threads, locks or events. -/
theorem lockset_sound (tr : List Ev) (hwf : WF tr) (L i j : Nat) (ei ej : Ev) (hij : i < j)
    (hi : tr[i]? = some ei) (hj : tr[j]? = some ej) (hai : ei.loc.isSome) (haj : ej.loc.isSome)
    (hgi : holders (tr.take i) L = some ei.tid) (hgj : holders (tr.take j) L = some ej.tid) :
    HB tr i j := by
  by_cases hsame : ei.tid = ej.tid
  · exact HB.po i j ei ej hi hj hij hsame
  · -- the last acquire of L by ej's thread before j
    obtain ⟨m, hmj, hacq, hheld⟩ := last_acquire tr L ej.tid j hgj
    -- i is not inside (m, j]: there the holder is ej.tid ≠ ei.tid
    have him : i ≤ m := by
      by_cases h : i ≤ m
      · exact h
      · have := hheld i (by omega) (by omega)
        rw [hgi] at this
        injection this with this
        exact absurd this hsame
    -- at m the lock is free (well-formedness of the acquire), so ei's thread released it in [i, m)
    have hfree : holders (tr.take m) L = none := by
      have := hwf m
      rw [hacq] at this
      exact this
    obtain ⟨k, hk1, hk2, hrel⟩ := release_between tr hwf L ei.tid i hgi (m - i) m (by omega) (by rw [hfree]; simp)
    -- k ≠ i because event i is an access, not a release
    have hki : i < k := by
      by_cases h : i < k
      · exact h
      · have : k = i := by omega
        subst this
        rw [hi] at hrel
        injection hrel with hrel
        rw [hrel] at hai
        simp [Ev.loc] at hai
    have h1 : HB tr i k := HB.po i k ei (.rel ei.tid L) hi hrel hki rfl
    have h2 : HB tr k m := HB.sync k m ei.tid ej.tid L hrel hacq hk2
    have h3 : HB tr m j := HB.po m j (.acq ej.tid L) ej hacq hj hmj rfl
    exact HB.trans i k j h1 (HB.trans k m j h2 h3)

end Lockset
end AuthModel
