import AuthModel.Config
set_option linter.unusedSimpArgs false
set_option linter.unusedVariables false
namespace AuthModel
namespace Config

/-- what "fully resolved" means for an OIDC filter of a loaded configuration (the clauses of C17) -/
structure Resolved (u : UrlOracle) (d : OidcDoc) : Prop where
  openid : scopeOpenid ∈ d.scopes
  callbackSet : d.callbackUri ≠ []
  clientId : d.clientId ≠ [] ∧ (58 : UInt8) ∉ d.clientId
  secret : (∃ s, d.secret = .literal s ∧ s ≠ []) ∨ (∃ ns name, d.secret = .ref ns name ∧ name ≠ [])
  idHeader : ∃ t, d.idToken = some t ∧ t.header ≠ []
  accessHeader : ∀ t, d.accessToken = some t → t.header ≠ []
  endpoints : d.configurationUri ≠ [] ∨
    (d.authorizationUri ≠ [] ∧ d.tokenUri ≠ [] ∧
      ((∃ s, d.jwks = .inline s ∧ s ≠ []) ∨ (∃ uri n, d.jwks = .fetcher uri n ∧ uri ≠ [])))
  logout : ∀ lo, d.logout = some lo → lo.path ≠ [] ∧ lo.path ≠ B "/" ∧ (u.parse d.callbackUri).getD [] ≠ lo.path
  cookiePrefix : isCookieNameToken d.cookiePrefix = true

theorem mapM'_mem {α β} (f : α → Option β) (l : List α) (r : List β) (h : mapM' f l = some r) :
    ∀ b ∈ r, ∃ a ∈ l, f a = some b := by
  induction l generalizing r with
  | nil => simp [mapM'] at h; subst h; simp
  | cons a as ih =>
    unfold mapM' at h
    cases hfa : f a with
    | none => simp [hfa] at h
    | some b0 =>
      cases hr : mapM' f as with
      | none => simp [hfa, hr] at h
      | some bs =>
        simp [hfa, hr] at h; subst h
        intro b hb
        simp at hb
        rcases hb with rfl | hb
        · exact ⟨a, by simp, hfa⟩
        · obtain ⟨a', ha', hf'⟩ := ih bs hr b hb
          exact ⟨a', by simp [ha'], hf'⟩

theorem mapM'_length {α β} (f : α → Option β) (l : List α) (r : List β) (h : mapM' f l = some r) : r.length = l.length := by
  induction l generalizing r with
  | nil => simp [mapM'] at h; subst h; rfl
  | cons a as ih =>
    unfold mapM' at h
    cases hfa : f a with
    | none => simp [hfa] at h
    | some b0 =>
      cases hr : mapM' f as with
      | none => simp [hfa, hr] at h
      | some bs => simp [hfa, hr] at h; subst h; simp [ih bs hr]

theorem resolve_kind (u : UrlOracle) (dflt : Option OidcDoc) (f : FilterDoc) (f' : FilterDoc) (b : Bool)
    (h : resolveFilter u dflt f = some (f', b)) (hb : b = true) : isOidcLike f' = isOidcLike f := by
  cases f with
  | none => simp [resolveFilter] at h; obtain ⟨rfl, _⟩ := h; rfl
  | mock a => simp [resolveFilter] at h; obtain ⟨rfl, _⟩ := h; rfl
  | oidc d =>
    simp only [resolveFilter, resolveFilter.step] at h
    split at h
    · split at h
      · cases h
      · simp at h; obtain ⟨rfl, _⟩ := h; rfl
    · simp at h; obtain ⟨rfl, _⟩ := h; rfl
  | override o =>
    cases dflt with
    | none => simp [resolveFilter] at h; obtain ⟨_, rfl⟩ := h; cases hb
    | some d =>
      simp only [resolveFilter, resolveFilter.step] at h
      split at h
      · split at h
        · cases h
        · simp at h; obtain ⟨rfl, _⟩ := h; rfl
      · simp at h; obtain ⟨rfl, _⟩ := h; rfl

theorem resolved_count (u : UrlOracle) (dflt : Option OidcDoc) (fs : List FilterDoc) (rs : List (FilterDoc × Bool))
    (h : mapM' (resolveFilter u dflt) fs = some rs) (hall : rs.all (·.2) = true) :
    ((rs.map (·.1)).filter isOidcLike).length = (fs.filter isOidcLike).length := by
  induction fs generalizing rs with
  | nil => simp [mapM'] at h; subst h; rfl
  | cons f fs ih =>
    unfold mapM' at h
    cases hf : resolveFilter u dflt f with
    | none => simp [hf] at h
    | some fb =>
      cases hr : mapM' (resolveFilter u dflt) fs with
      | none => simp [hf, hr] at h
      | some rs' =>
        simp [hf, hr] at h; subst h
        obtain ⟨f', b⟩ := fb
        simp only [List.all_cons, Bool.and_eq_true] at hall
        have hk := resolve_kind u dflt f f' b hf hall.1
        have := ih rs' hr hall.2
        simp only [List.map_cons, List.filter_cons, hk]
        split <;> simp [this]

theorem merge_callback (d o : OidcDoc) : (merge d o).callbackUri = d.callbackUri ∨ (merge d o).callbackUri = o.callbackUri := by
  unfold merge; simp only; split <;> simp

/-- a filter that came out of the per-filter step with no error recorded and passes the generated rules is resolved -/
theorem step_resolved (u : UrlOracle) (d : OidcDoc) (f' : FilterDoc) (h : resolveFilter.step u d = some (f', true))
    (hv : validFilter f' = true) : ∃ d', f' = .oidc d' ∧ Resolved u d' := by
  unfold resolveFilter.step at h
  simp only at h
  have hopen : scopeOpenid ∈ (applyDefaults d).scopes := by
    unfold applyDefaults
    split
    · rename_i hc; simpa using hc
    · simp
  have fieldsEq : (applyDefaults d).configurationUri = d.configurationUri ∧ (applyDefaults d).authorizationUri = d.authorizationUri ∧
      (applyDefaults d).tokenUri = d.tokenUri ∧ (applyDefaults d).jwks = d.jwks := by
    unfold applyDefaults; split <;> simp
  have hpfx : (applyDefaults d).cookiePrefix = d.cookiePrefix := by unfold applyDefaults; split <;> rfl
  have build : ∀ (hurls0 : (endpointsOk d && isCookieNameToken d.cookiePrefix) = true)
      (hlo : ∀ lo, (applyDefaults d).logout = some lo → lo.path ≠ [] ∧ lo.path ≠ B "/" ∧ (u.parse (applyDefaults d).callbackUri).getD [] ≠ lo.path)
      (hv' : validOidc (applyDefaults d) = true), Resolved u (applyDefaults d) := by
    intro hurls0 hlo hv'
    have hurls : endpointsOk d = true := by simp only [Bool.and_eq_true] at hurls0; exact hurls0.1
    have hck : isCookieNameToken d.cookiePrefix = true := by simp only [Bool.and_eq_true] at hurls0; exact hurls0.2
    unfold validOidc at hv'
    simp only [Bool.and_eq_true, decide_eq_true_eq, Bool.not_eq_true', ne_eq] at hv'
    obtain ⟨⟨⟨⟨⟨⟨⟨h1, h2⟩, h3⟩, h4⟩, h5⟩, h6⟩, h7⟩, h8⟩ := hv'
    refine { openid := hopen, callbackSet := by simpa using h1, clientId := ⟨by simpa using h2, by simpa using h3⟩, secret := ?_,
             idHeader := ?_, accessHeader := ?_, endpoints := ?_, logout := hlo, cookiePrefix := by rw [hpfx]; exact hck }
    · cases hs : (applyDefaults d).secret with
      | unset => simp [hs] at h4
      | literal s => simp [hs] at h4; exact Or.inl ⟨s, rfl, h4⟩
      | ref ns name => simp [hs] at h4; exact Or.inr ⟨ns, name, rfl, h4⟩
    · cases ht : (applyDefaults d).idToken with
      | none => simp [ht] at h5
      | some t => simp [ht] at h5; exact ⟨t, rfl, h5⟩
    · intro t ht; simp [ht] at h6; exact h6
    · rw [fieldsEq.1, fieldsEq.2.1, fieldsEq.2.2.1, fieldsEq.2.2.2]
      unfold endpointsOk at hurls
      simp only [Bool.or_eq_true, Bool.and_eq_true, decide_eq_true_eq] at hurls
      rcases hurls with h | ⟨⟨ha, ht⟩, hj⟩
      · exact Or.inl h
      · refine Or.inr ⟨ha, ht, ?_⟩
        cases hjw : d.jwks with
        | unset => simp [hjw] at hj
        | inline s => simp [hjw] at hj; exact Or.inl ⟨s, rfl, hj⟩
        | fetcher uri n => simp [hjw] at hj; exact Or.inr ⟨uri, n, rfl, hj⟩
  cases hlo : (applyDefaults d).logout with
  | none =>
    simp only [hlo] at h
    simp only [Option.some.injEq, Prod.mk.injEq] at h
    obtain ⟨rfl, hb⟩ := h
    exact ⟨_, rfl, build hb (by intro lo hl; rw [hlo] at hl; cases hl) (by simpa [validFilter] using hv)⟩
  | some lo =>
    simp only [hlo] at h
    by_cases hroot : isRootPath lo.path = true
    · simp [hroot] at h
    · simp only [hroot, Bool.false_eq_true, if_false, Option.some.injEq, Prod.mk.injEq] at h
      obtain ⟨rfl, hb⟩ := h
      simp only [Bool.and_eq_true, bne_iff_ne, ne_eq] at hb
      refine ⟨_, rfl, build (by simp only [Bool.and_eq_true]; exact hb.1) ?_ (by simpa [validFilter] using hv)⟩
      intro lo' hl
      rw [hlo] at hl
      injection hl with hl; subst hl
      unfold isRootPath at hroot
      simp only [Bool.or_eq_true, beq_iff_eq, not_or] at hroot
      exact ⟨hroot.2, hroot.1, hb.2⟩

theorem resolveFilter_resolved (u : UrlOracle) (dflt : Option OidcDoc) (f f' : FilterDoc)
    (h : resolveFilter u dflt f = some (f', true)) (hv : validFilter f' = true) :
    (∃ a, f' = .mock a) ∨ (∃ d', f' = .oidc d' ∧ Resolved u d') := by
  cases f with
  | none => simp [resolveFilter] at h; subst h; simp [validFilter] at hv
  | mock a => simp [resolveFilter] at h; subst h; exact Or.inl ⟨a, rfl⟩
  | oidc d => exact Or.inr (step_resolved u d f' (by simpa [resolveFilter] using h) hv)
  | override o =>
    cases dflt with
    | none => simp [resolveFilter] at h
    | some d => exact Or.inr (step_resolved u (merge d o) f' (by simpa [resolveFilter] using h) hv)

end Config
end AuthModel

namespace AuthModel
namespace Config

theorem list_all_mem {α} (p : α → Bool) (l : List α) (h : l.all p = true) : ∀ x ∈ l, p x = true := by
  intro x hx; exact List.all_eq_true.mp h x hx

/-- ACCEPTED MEANS RESOLVED. If `load` returns a configuration then: there is at least one chain; every chain has a
    name, at least one filter, a well-formed criterion (if any) and at most one OIDC filter; every filter is `mock` or
    a fully resolved `oidc` filter (no override, no filter without type left). -/
theorem load_resolved (u : UrlOracle) (doc : Doc) (l : Loaded) (h : load u doc = some l) :
    l.chains ≠ [] ∧
    ∀ c ∈ l.chains, c.name ≠ [] ∧ c.filters ≠ [] ∧ (c.filters.filter isOidcLike).length ≤ 1 ∧
      (∀ m, c.criterion = some m → m.header ≠ [] ∧ m.criterionSet = true ∧ m.value ≠ []) ∧
      ∀ f ∈ c.filters, (∃ a, f = .mock a) ∨ (∃ d, f = .oidc d ∧ Resolved u d) := by
  unfold load at h
  split at h
  · cases h
  split at h
  · cases h
  split at h
  · cases h
  rename_i hports hurls hover
  cases hm : mapM' (fun c => (mapM' (resolveFilter u doc.default) c.filters).map fun fs => (c, fs)) doc.chains with
  | none => simp [hm] at h
  | some resolved =>
    simp only [hm] at h
    split at h
    · cases h
    rename_i hflags
    have hfinal : (decide ((resolved.map fun cf => ({ cf.1 with filters := cf.2.map (·.1) } : ChainDoc)).length ≥ 1) &&
        doc.listenAddressIsIP && decide (doc.listenPort < 65536) && decide (doc.healthPort < 65536) && doc.logLevelOk &&
        (resolved.map fun cf => ({ cf.1 with filters := cf.2.map (·.1) } : ChainDoc)).all validChain) = true := by
      by_cases hc : (decide ((resolved.map fun cf => ({ cf.1 with filters := cf.2.map (·.1) } : ChainDoc)).length ≥ 1) &&
        doc.listenAddressIsIP && decide (doc.listenPort < 65536) && decide (doc.healthPort < 65536) && doc.logLevelOk &&
        (resolved.map fun cf => ({ cf.1 with filters := cf.2.map (·.1) } : ChainDoc)).all validChain) = true
      · exact hc
      · simp only [hc] at h; cases h
    simp only [hfinal, if_true] at h
    injection h with h
    subst h
    simp only [Bool.and_eq_true, decide_eq_true_eq, ge_iff_le] at hfinal
    obtain ⟨⟨⟨⟨⟨hlen, _⟩, _⟩, _⟩, _⟩, hvalid⟩ := hfinal
    have hflags' : resolved.all (fun cf => cf.2.all (·.2)) = true := by simpa using hflags
    have hover' : overrideChecks doc = true := by simpa using hover
    constructor
    · intro he
      have : resolved = [] := by simpa using he
      subst this; simp at hlen
    · intro c hc
      simp only [List.mem_map] at hc
      obtain ⟨⟨c0, rs⟩, hmem, rfl⟩ := hc
      obtain ⟨c1, hc1, hres⟩ := mapM'_mem _ _ _ hm (c0, rs) hmem
      cases hinner : mapM' (resolveFilter u doc.default) c1.filters with
      | none => simp [hinner] at hres
      | some rs' =>
        simp [hinner] at hres
        obtain ⟨rfl, rfl⟩ := hres
        have hvc := list_all_mem validChain _ hvalid _ (List.mem_map.mpr ⟨(c1, rs'), hmem, rfl⟩)
        unfold validChain at hvc
        simp only [Bool.and_eq_true, decide_eq_true_eq, ge_iff_le] at hvc
        obtain ⟨⟨⟨hname, hnf⟩, hcrit⟩, hfil⟩ := hvc
        have hall := list_all_mem (fun cf => cf.2.all (·.2)) _ hflags' (c1, rs') hmem
        simp only at hall
        refine ⟨by simpa using hname, ?_, ?_, ?_, ?_⟩
        · intro he
          have : rs' = [] := by simpa using he
          subst this; simp at hnf
        · rw [resolved_count u doc.default c1.filters rs' hinner hall]
          have := list_all_mem _ _ (by unfold overrideChecks at hover'; exact hover') c1 hc1
          simp only [Bool.and_eq_true, decide_eq_true_eq] at this
          exact this.2
        · intro m hmc
          have hmc' : c1.criterion = some m := hmc
          rw [hmc'] at hcrit
          simp only [Bool.and_eq_true, decide_eq_true_eq] at hcrit
          exact ⟨by simpa using hcrit.1.1, hcrit.1.2, by simpa using hcrit.2⟩
        · intro f hf
          simp only [List.mem_map] at hf
          obtain ⟨⟨f', b⟩, hfb, rfl⟩ := hf
          have hb : b = true := by
            have := list_all_mem (·.2) rs' hall (f', b) hfb
            simpa using this
          subst hb
          obtain ⟨f0, _, hr0⟩ := mapM'_mem _ _ _ hinner (f', true) hfb
          have hvf := list_all_mem validFilter _ hfil f' (List.mem_map.mpr ⟨(f', true), hfb, rfl⟩)
          exact resolveFilter_resolved u doc.default f0 f' hr0 hvf

/-- MERGE, field by field: the override's value when it is set, else the default's (repeated fields: concatenation) -/
theorem merge_fieldwise (d o : OidcDoc) :
    (merge d o).clientId = (if o.clientId ≠ [] then o.clientId else d.clientId) ∧
    (merge d o).callbackUri = (if o.callbackUri ≠ [] then o.callbackUri else d.callbackUri) ∧
    (merge d o).authorizationUri = (if o.authorizationUri ≠ [] then o.authorizationUri else d.authorizationUri) ∧
    (merge d o).tokenUri = (if o.tokenUri ≠ [] then o.tokenUri else d.tokenUri) ∧
    (merge d o).configurationUri = (if o.configurationUri ≠ [] then o.configurationUri else d.configurationUri) ∧
    (merge d o).cookiePrefix = (if o.cookiePrefix ≠ [] then o.cookiePrefix else d.cookiePrefix) ∧
    (merge d o).scopes = d.scopes ++ o.scopes ∧
    (o.secret = .unset → (merge d o).secret = d.secret) ∧
    (∀ s, o.secret = .literal s → (merge d o).secret = .literal s) := by
  unfold merge
  refine ⟨rfl, rfl, rfl, rfl, rfl, rfl, rfl, ?_, ?_⟩
  · intro h; simp only [h]
  · intro s h; simp only [h]

/-- rejected means an error: `load` is total - it returns a configuration or `none` (an error), nothing else; and the
    decisions that reject are exactly the listed ones -/
theorem load_rejects (u : UrlOracle) (doc : Doc)
    (h : doc.listenPort = doc.healthPort ∨ validateUrls u doc = false ∨ overrideChecks doc = false) :
    load u doc = none := by
  unfold load
  rcases h with h | h | h
  · simp [h]
  · by_cases hp : doc.listenPort = doc.healthPort <;> simp [hp, h]
  · by_cases hp : doc.listenPort = doc.healthPort <;> by_cases hu : validateUrls u doc = true <;> simp [hp, hu, h]

end Config
end AuthModel
