import AuthModel.Oidc.Discovery
set_option linter.unusedSimpArgs false
set_option linter.unusedVariables false
namespace AuthModel
namespace Discovery

theorem lookup_cons_self (c : Cache) (url : Str) (d : WellKnown) : lookup ((url, d) :: c) url = some d := by
  simp [lookup, List.find?]

/-- what `patch` yields when it succeeds -/
theorem patch_ok (c r : DCfg) (d : WellKnown) (h : patch c d = .ok r) :
    r.authUri = d.authorizationEndpoint ∧ r.tokenUri = d.tokenEndpoint ∧
    (∃ i s, r.jwks = .fetcher d.jwksUri i s) ∧ r.configurationUri = c.configurationUri ∧
    (c.logout = none → r.logout = none) ∧
    (∀ p u, c.logout = some (p, u) →
      (u ≠ [] → r.logout = some (p, u)) ∧
      (u = [] → d.endSessionEndpoint ≠ [] ∧ r.logout = some (p, d.endSessionEndpoint))) := by
  unfold patch at h
  cases hl : c.logout with
  | none =>
    simp only [hl] at h
    injection h with h; subst h
    refine ⟨rfl, rfl, ?_, rfl, fun _ => rfl, fun p u hc => by simp at hc⟩
    cases c.jwks <;> simp
  | some pu =>
    obtain ⟨p, u⟩ := pu
    simp only [hl] at h
    by_cases hu : u = []
    · simp only [hu, if_true] at h
      by_cases he : d.endSessionEndpoint = []
      · simp [he] at h
      · simp only [he, if_false] at h
        injection h with h; subst h
        refine ⟨rfl, rfl, ?_, rfl, fun hc => by simp at hc, ?_⟩
        · cases c.jwks <;> simp
        · intro p' u' hc
          simp only [Option.some.injEq, Prod.mk.injEq] at hc
          obtain ⟨rfl, rfl⟩ := hc
          exact ⟨fun hne => absurd hu hne, fun _ => ⟨he, rfl⟩⟩
    · simp only [hu, if_false] at h
      injection h with h; subst h
      refine ⟨rfl, rfl, ?_, rfl, fun hc => by simp [hl] at hc, ?_⟩
      · cases c.jwks <;> simp
      · intro p' u' hc
        simp only [hl, Option.some.injEq, Prod.mk.injEq] at hc
        obtain ⟨rfl, rfl⟩ := hc
        exact ⟨fun _ => rfl, fun he => absurd he hu⟩

/-- `patch` fails only for a logout without any redirect uri -/
theorem patch_error (c : DCfg) (d : WellKnown) (e : DErr) (h : patch c d = .error e) :
    e = .missingLogoutRedirect ∧ d.endSessionEndpoint = [] ∧ ∃ p, c.logout = some (p, []) := by
  unfold patch at h
  cases hl : c.logout with
  | none => simp [hl] at h
  | some pu =>
    obtain ⟨p, u⟩ := pu
    simp only [hl] at h
    by_cases hu : u = []
    · by_cases he : d.endSessionEndpoint = []
      · simp [hu, he] at h
        exact ⟨h.symm, he, p, by simp [hu]⟩
      · simp [hu, he] at h
    · simp [hu] at h

/-- the document `load` used is the one in the cache afterwards -/
theorem load_ok (cache cache' : Cache) (c r : DCfg) (ans : FetchAns) (req : Bool)
    (hu : c.configurationUri ≠ []) (h : load cache c ans = (cache', .ok r, req)) :
    ∃ d, lookup cache' c.configurationUri = some d ∧ patch c d = .ok r ∧
      (lookup cache c.configurationUri = some d ∧ req = false ∧ cache' = cache ∨
       lookup cache c.configurationUri = none ∧ ans = .doc d ∧ req = true) := by
  unfold load at h
  simp only [hu, if_false] at h
  unfold getWellKnown at h
  cases hc : lookup cache c.configurationUri with
  | some d =>
    simp only [hc, Prod.mk.injEq] at h
    obtain ⟨rfl, hp, rfl⟩ := h
    exact ⟨d, hc, hp, Or.inl ⟨rfl, rfl, rfl⟩⟩
  | none =>
    simp only [hc] at h
    cases ans with
    | doc d =>
      simp only [Prod.mk.injEq] at h
      obtain ⟨rfl, hp, rfl⟩ := h
      exact ⟨d, lookup_cons_self _ _ _, hp, Or.inr ⟨rfl, rfl, rfl⟩⟩
    | transportErr => simp at h
    | status n => simp at h
    | undecodable => simp at h

/-- a cached document makes the answer of the endpoint irrelevant, and no request is made -/
theorem cached_no_request (cache : Cache) (c : DCfg) (d : WellKnown) (ans ans' : FetchAns)
    (hc : lookup cache c.configurationUri = some d) :
    load cache c ans = load cache c ans' ∧ (load cache c ans).2.2 = false ∧ (load cache c ans).1 = cache := by
  unfold load getWellKnown
  by_cases hu : c.configurationUri = []
  · simp [hu]
  · simp [hu, hc]

/-- a failed fetch is an error and leaves the cache as it was (so the next check asks again) -/
theorem failed_fetch (cache : Cache) (c : DCfg) (ans : FetchAns) (hu : c.configurationUri ≠ [])
    (hc : lookup cache c.configurationUri = none) (hd : ∀ d, ans ≠ .doc d) :
    load cache c ans = (cache, .error .fetch, true) := by
  unfold load getWellKnown
  cases ans with
  | doc d => exact absurd rfl (hd d)
  | transportErr => simp [hu, hc]
  | status n => simp [hu, hc]
  | undecodable => simp [hu, hc]

/-- without a discovery URI nothing is touched and nothing is requested -/
theorem no_discovery (cache : Cache) (c : DCfg) (ans : FetchAns) (hu : c.configurationUri = []) :
    load cache c ans = (cache, .ok c, false) := by
  simp [load, hu]

end Discovery
end AuthModel
