/-
  The URL checks of the configuration loader (internal/config.go: validateURL, hasRootPath, validateOIDCConfigURLs), as
  translated from the source (Generated/CodeInternal.lean), against a specification over the same oracles
  (`url.Parse`, `redis.ParseURL`) and against `Config.validateOidcUrls` of the loader model.

  `hasRootPath` documents a prerequisite ("u is a valid URL"): it dereferences the result of `url.Parse` without looking
  at the error.  Its only call site runs after `validateURL` accepted the same string; `code_validate_urls` shows that
  this order is what keeps the loader from panicking on an unparseable callback URI, for every configuration.
-/
import AuthModel.Generated.CodeInternal
import AuthModel.Config
import AuthProofs.CodeEquivInternal
set_option linter.unusedSimpArgs false
namespace AuthModel.CodeEquiv
open AuthModel AuthModel.Str

/-- what `url.Parse` guarantees and the translated code relies on: no error means a non-nil URL -/
def UrlParseCoherent (env : Go.Env) : Prop := ∀ s, (env.urlParseOracle s).2 = false → (env.urlParseOracle s).1.isNil = false

/-- `validateURL(u) == nil` -/
def urlOk (env : Go.Env) (u : Str) : Bool := u == [] || !(env.urlParseOracle u).2

theorem code_validateURL (env : Go.Env) (u : Str) :
    ∃ e, Code.validateURL env u = .ok e ∧ e.isNil = urlOk env u := by
  unfold Code.validateURL urlOk
  have hB : B "" = [] := by decide
  by_cases h : u = []
  · exact ⟨{}, by simp [h, hB, pure, Except.pure], by simp [h]⟩
  · refine ⟨(env.urlParse u).2, by simp [h, hB, pure, Except.pure], ?_⟩
    simp [h, Go.Env.urlParse]

/-- `hasRootPath(uri)`: panics exactly when the URI is non-empty and does not parse -/
theorem code_hasRootPath (env : Go.Env) (uri : Str) (h : uri = [] ∨ (env.urlParseOracle uri).1.isNil = false) :
    Code.hasRootPath env uri = .ok (uri != [] && Config.isRootPath (env.urlParseOracle uri).1.Path) := by
  unfold Code.hasRootPath
  have hB : B "" = [] := by decide
  by_cases h0 : uri = []
  · simp [h0, hB, pure, Except.pure]
  · have h1 := h.resolve_left h0
    simp [h0, hB, pure, Except.pure, bind, Except.bind, Go.Env.urlParse, Go.URL.Path!, h1, code_isRootPath]

example : Code.hasRootPath {} (B "::bad") = .error "invalid memory address or nil pointer dereference" := by decide

/-- the Redis URI after the backwards-compatibility rewriting of `tcp://` -/
def redisAfter (c : Pb.OIDCConfig) : Str :=
  let r := c.GetRedisSessionStoreConfig.GetServerUri
  if r != [] then Go.replaceFirst r (B "tcp://") (B "redis://") else r

/-- the configuration after `validateOIDCConfigURLs` ran to its end -/
def rewritten (c : Pb.OIDCConfig) : Pb.OIDCConfig :=
  if c.GetRedisSessionStoreConfig.GetServerUri != [] then
    { c with RedisSessionStoreConfig := { c.GetRedisSessionStoreConfig with ServerUri := redisAfter c } }
  else c

/-- `validateOIDCConfigURLs(c) == nil`, over the oracles -/
def urlsAccepted (env : Go.Env) (c : Pb.OIDCConfig) : Bool :=
  urlOk env c.GetProxyUri && urlOk env c.GetTokenUri && urlOk env c.GetConfigurationUri &&
  urlOk env c.GetAuthorizationUri && urlOk env c.GetCallbackUri && urlOk env c.GetJwksFetcher.GetJwksUri &&
  (redisAfter c == [] || !env.redisParseURLOracle (redisAfter c)) &&
  !(c.GetCallbackUri != [] && Config.isRootPath (env.urlParseOracle c.GetCallbackUri).1.Path)

theorem getServerUri_ne_nil (c : Pb.OIDCConfig) (h : c.GetRedisSessionStoreConfig.GetServerUri ≠ []) :
    c.isNil = false ∧ c.RedisSessionStoreConfig.isNil = false ∧ c.GetRedisSessionStoreConfig = c.RedisSessionStoreConfig := by
  unfold Pb.OIDCConfig.GetRedisSessionStoreConfig Pb.RedisConfig.GetServerUri at *
  cases h1 : c.isNil <;> cases h2 : c.RedisSessionStoreConfig.isNil <;> simp_all

/-- THE CODE's `validateOIDCConfigURLs`: cannot panic (whatever the configuration, nil included), accepts exactly the
    configurations `urlsAccepted` describes, and an accepted configuration comes back with its Redis URI rewritten and
    nothing else changed -/
theorem code_validate_urls (env : Go.Env) (c : Pb.OIDCConfig) (hcoh : UrlParseCoherent env) :
    ∃ e c', Code.validateOIDCConfigURLs env c = .ok (e, c') ∧ e.isNil = urlsAccepted env c ∧
      (e.isNil = true → c' = rewritten c) := by
  have hB : B "" = [] := by decide
  obtain ⟨e1, h1, k1⟩ := code_validateURL env c.GetProxyUri
  obtain ⟨e2, h2, k2⟩ := code_validateURL env c.GetTokenUri
  obtain ⟨e3, h3, k3⟩ := code_validateURL env c.GetConfigurationUri
  obtain ⟨e4, h4, k4⟩ := code_validateURL env c.GetAuthorizationUri
  obtain ⟨e5, h5, k5⟩ := code_validateURL env c.GetCallbackUri
  obtain ⟨e6, h6, k6⟩ := code_validateURL env c.GetJwksFetcher.GetJwksUri
  unfold Code.validateOIDCConfigURLs urlsAccepted
  simp only [bind, Except.bind, pure, Except.pure, h1, h2, h3, h4, h5, h6]
  cases g1 : urlOk env c.GetProxyUri
  · exact ⟨{ isNil := false }, c, by simp [k1, g1], by simp, by simp⟩
  cases g2 : urlOk env c.GetTokenUri
  · exact ⟨{ isNil := false }, c, by simp [k1, g1, k2, g2], by simp, by simp⟩
  cases g3 : urlOk env c.GetConfigurationUri
  · exact ⟨{ isNil := false }, c, by simp [k1, g1, k2, g2, k3, g3], by simp, by simp⟩
  cases g4 : urlOk env c.GetAuthorizationUri
  · exact ⟨{ isNil := false }, c, by simp [k1, g1, k2, g2, k3, g3, k4, g4], by simp, by simp⟩
  cases g5 : urlOk env c.GetCallbackUri
  · exact ⟨{ isNil := false }, c, by simp [k1, g1, k2, g2, k3, g3, k4, g4, k5, g5], by simp, by simp⟩
  cases g6 : urlOk env c.GetJwksFetcher.GetJwksUri
  · exact ⟨{ isNil := false }, c, by simp [k1, g1, k2, g2, k3, g3, k4, g4, k5, g5, k6, g6], by simp, by simp⟩
  simp only [k1, g1, k2, g2, k3, g3, k4, g4, k5, g5, k6, g6, Bool.not_true, Bool.false_eq_true, if_false, Bool.true_and]
  -- the callback URI passed validateURL: hasRootPath's prerequisite holds
  have hcb : c.GetCallbackUri = [] ∨ (env.urlParseOracle c.GetCallbackUri).1.isNil = false := by
    unfold urlOk at g5
    by_cases h0 : c.GetCallbackUri = []
    · exact Or.inl h0
    · right; apply hcoh; simpa [h0] using g5
  by_cases hr : c.GetRedisSessionStoreConfig.GetServerUri = []
  · -- no Redis URI: nothing is rewritten
    have hra : redisAfter c = [] := by simp [redisAfter, hr]
    have hrw : rewritten c = c := by simp [rewritten, hr]
    simp only [hr, hB, bne_self_eq_false, Bool.false_eq_true, if_false, hra, hrw, code_hasRootPath env _ hcb,
      BEq.rfl, Bool.true_or, Bool.true_and]
    cases hroot : (c.GetCallbackUri != [] && Config.isRootPath (env.urlParseOracle c.GetCallbackUri).1.Path)
    · exact ⟨{}, c, by simp, by simp, by simp⟩
    · exact ⟨{ isNil := false }, c, by simp, by simp, by simp⟩
  · obtain ⟨hc, hrn, hget⟩ := getServerUri_ne_nil c hr
    have hne : (c.GetRedisSessionStoreConfig.GetServerUri != []) = true := by simpa using hr
    have hra : redisAfter c = Go.replaceFirst c.GetRedisSessionStoreConfig.GetServerUri (B "tcp://") (B "redis://") := by
      simp [redisAfter, hne]
    have hrw : rewritten c = { c with RedisSessionStoreConfig := { c.GetRedisSessionStoreConfig with ServerUri := redisAfter c } } := by
      simp [rewritten, hne]
    -- the configuration after the write
    have hget' : ∀ v, (Pb.OIDCConfig.GetRedisSessionStoreConfig
        { c with RedisSessionStoreConfig := { c.GetRedisSessionStoreConfig with ServerUri := v } }).GetServerUri = v := by
      intro v; simp [Pb.OIDCConfig.GetRedisSessionStoreConfig, Pb.RedisConfig.GetServerUri, hc, hget, hrn]
    have hcb' : ∀ v, Pb.OIDCConfig.GetCallbackUri
        { c with RedisSessionStoreConfig := { c.GetRedisSessionStoreConfig with ServerUri := v } } = c.GetCallbackUri := by
      intro v; simp [Pb.OIDCConfig.GetCallbackUri]
    have hrn' : c.GetRedisSessionStoreConfig.isNil = false := by rw [hget]; exact hrn
    have hne' : (c.GetRedisSessionStoreConfig.GetServerUri != B "") = true := by rw [hB]; exact hne
    have d1 : Go.derefNil c.isNil c = .ok c := by simp [Go.derefNil, hc]
    have d2 : Go.derefNil c.GetRedisSessionStoreConfig.isNil c.GetRedisSessionStoreConfig = .ok c.GetRedisSessionStoreConfig := by
      simp [Go.derefNil, hrn']
    simp only [hne', if_true, d1, d2]
    simp only [hget', hcb', ← hra, hB, code_hasRootPath env _ hcb, Go.Env.redisParseURL]
    by_cases hz : redisAfter c = []
    · simp only [hz, bne_self_eq_false, Bool.false_eq_true, if_false, BEq.rfl, Bool.true_or, Bool.true_and]
      cases hroot : (c.GetCallbackUri != [] && Config.isRootPath (env.urlParseOracle c.GetCallbackUri).1.Path)
      · exact ⟨{}, _, rfl, by simp, by intro _; rw [hrw, hz]⟩
      · exact ⟨{ isNil := false }, _, rfl, by simp, by simp⟩
    · have hz' : (redisAfter c != []) = true := by simpa using hz
      have hz'' : (redisAfter c == []) = false := by simpa using hz
      simp only [hz', if_true, hz'', Bool.false_or]
      cases hro : env.redisParseURLOracle (redisAfter c)
      · simp only [Bool.not_false, Bool.not_true, Bool.false_eq_true, if_false, Bool.true_and]
        cases hroot : (c.GetCallbackUri != [] && Config.isRootPath (env.urlParseOracle c.GetCallbackUri).1.Path)
        · exact ⟨{}, _, rfl, by simp, by intro _; rw [hrw]⟩
        · exact ⟨{ isNil := false }, _, rfl, by simp, by simp⟩
      · exact ⟨{ isNil := false }, _, by simp; rfl, by simp, by simp⟩

/-- in particular: the loader's URL validation never panics -/
theorem code_validate_urls_total (env : Go.Env) (c : Pb.OIDCConfig) (hcoh : UrlParseCoherent env) :
    ∃ r, Code.validateOIDCConfigURLs env c = .ok r := by
  obtain ⟨e, c', h, _⟩ := code_validate_urls env c hcoh
  exact ⟨_, h⟩

/-- accepted means: every configured URL parses, the Redis URI is accepted by go-redis after the tcp:// rewriting, and
    the callback URI does not have the root path -/
theorem code_accepted_urls (env : Go.Env) (c : Pb.OIDCConfig) (hcoh : UrlParseCoherent env) :
    ∀ e c', Code.validateOIDCConfigURLs env c = .ok (e, c') → e.isNil = true →
      (c.GetCallbackUri = [] ∨ ((env.urlParseOracle c.GetCallbackUri).2 = false ∧
         Config.isRootPath (env.urlParseOracle c.GetCallbackUri).1.Path = false)) ∧
      (c.GetTokenUri = [] ∨ (env.urlParseOracle c.GetTokenUri).2 = false) ∧
      (c.GetAuthorizationUri = [] ∨ (env.urlParseOracle c.GetAuthorizationUri).2 = false) ∧
      (redisAfter c = [] ∨ env.redisParseURLOracle (redisAfter c) = false) ∧
      c'.GetRedisSessionStoreConfig.GetServerUri = redisAfter c := by
  intro e c' h he
  obtain ⟨e2, c2, h2, k1, k2⟩ := code_validate_urls env c hcoh
  rw [h2] at h; cases h
  have hacc : urlsAccepted env c = true := by rw [← k1]; exact he
  have hc' := k2 he
  unfold urlsAccepted urlOk at hacc
  simp only [Bool.and_eq_true, Bool.or_eq_true, beq_iff_eq, Bool.not_eq_true', Bool.and_eq_false_iff, bne_eq_false_iff_eq] at hacc
  obtain ⟨⟨⟨⟨⟨⟨⟨_, a2⟩, _⟩, a4⟩, a5⟩, _⟩, a7⟩, a8⟩ := hacc
  refine ⟨?_, a2, a4, a7, ?_⟩
  · rcases a5 with h0 | h0
    · exact Or.inl h0
    · rcases a8 with h8 | h8
      · exact Or.inl h8
      · exact Or.inr ⟨h0, h8⟩
  · rw [hc']
    unfold rewritten
    by_cases hr : c.GetRedisSessionStoreConfig.GetServerUri = []
    · simp [hr, redisAfter]
    · obtain ⟨hc, hrn, hget⟩ := getServerUri_ne_nil c hr
      have hne : (c.GetRedisSessionStoreConfig.GetServerUri != []) = true := by simpa using hr
      have hrn' : c.GetRedisSessionStoreConfig.isNil = false := by rw [hget]; exact hrn
      rw [if_pos hne]
      simp [Pb.OIDCConfig.GetRedisSessionStoreConfig, Pb.RedisConfig.GetServerUri, hc, hrn]

end AuthModel.CodeEquiv
