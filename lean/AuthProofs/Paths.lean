import AuthModel.Oidc.Run
set_option linter.unusedSimpArgs false
set_option linter.unusedVariables false
namespace AuthModel
open Oidc

abbrev Trace := List (Act × ARes)

/-- `P` holds of (trace, response) on EVERY path of the interaction tree, whatever the environment answers
    (any store content, any fault, any token-endpoint answer, any clock). -/
def AllPaths (P : Trace → Resp → Prop) : Prog → Trace → Prop
  | .ret r, tr => P tr.reverse r
  | .act a k, tr => ∀ res, AllPaths P (k res) ((a, res) :: tr)

/-- no path of the program answers OK -/
def NeverOK : Prog → Prop
  | .ret r => r.code ≠ cOK
  | .act _ k => ∀ res, NeverOK (k res)

theorem allPaths_of_neverOK {Q : Trace → Resp → Prop} {p : Prog} (h : NeverOK p) (tr : Trace) :
    AllPaths (fun t r => r.code = cOK → Q t r) p tr := by
  induction p generalizing tr with
  | ret r => intro hc; exact absurd hc h
  | act a k ih => intro res; exact ih res (h res) _

theorem allPaths_mono {P Q : Trace → Resp → Prop} (hPQ : ∀ t r, P t r → Q t r) {p : Prog} {tr : Trace}
    (h : AllPaths P p tr) : AllPaths Q p tr := by
  induction p generalizing tr with
  | ret r => exact hPQ _ _ h
  | act a k ih => intro res; exact ih res (h res)

/-- the executable sequential semantics follows one path of the tree: whatever holds on all paths holds of a run -/
def traceOfRun (w : StoreW) (now : Int) (sc : Script) : Prog → List Nat → Trace → StoreW × Resp × Trace
  | .ret r, _, tr => (w, r, tr.reverse)
  | .act a k, faults, tr =>
    let fault := if isStoreAct a then faults.headD 0 else 0
    let faults' := if isStoreAct a then faults.tail else faults
    let (w', res) := perform w now sc fault a
    traceOfRun w' now sc (k res) faults' ((a, res) :: tr)

theorem run_satisfies {P : Trace → Resp → Prop} (w : StoreW) (now : Int) (sc : Script) (p : Prog) (faults : List Nat)
    (tr : Trace) (h : AllPaths P p tr) :
    P (traceOfRun w now sc p faults tr).2.2 (traceOfRun w now sc p faults tr).2.1 := by
  induction p generalizing w faults tr with
  | ret r => exact h
  | act a k ih =>
    simp only [traceOfRun]
    exact ih _ _ _ _ (h _)

/-- `traceOfRun` and `runProg` compute the same response and final store -/
theorem traceOfRun_resp (w : StoreW) (now : Int) (sc : Script) (p : Prog) (faults : List Nat) (tr : Trace) (ta : List Act) :
    (traceOfRun w now sc p faults tr).2.1 = (runProg w now sc p faults ta).2.1 := by
  induction p generalizing w faults tr ta with
  | ret r => rfl
  | act a k ih => simp only [traceOfRun, runProg]; exact ih _ _ _ _ _

/-! ### sub-programs that never answer OK -/

theorem neverOK_redirectAfterRemoval (cfg : Cfg) (o : Oracles) (req : Req) : NeverOK (redirectAfterRemoval cfg o req) := by
  unfold redirectAfterRemoval
  intro g
  cases g <;> simp only [NeverOK]
  all_goals first
    | (intro r; cases r <;> simp [NeverOK, sessErr, redirectWithCookie, cUnauthenticated, cOK]
       rename_i ok; cases ok <;> simp [NeverOK, sessErr, redirectWithCookie, cUnauthenticated, cOK])
    | simp [sessErr, cUnauthenticated, cOK]

theorem neverOK_redirectToIdp (cfg : Cfg) (o : Oracles) (req : Req) (old : Str) : NeverOK (redirectToIdp cfg o req old) := by
  unfold redirectToIdp
  split
  · intro r
    cases r <;> simp only [NeverOK]
    all_goals first
      | (rename_i ok; cases ok
         · simp [NeverOK, sessErr, cUnauthenticated, cOK]
         · exact neverOK_redirectAfterRemoval cfg o req)
      | simp [sessErr, cUnauthenticated, cOK]
  · exact neverOK_redirectAfterRemoval cfg o req

end AuthModel
