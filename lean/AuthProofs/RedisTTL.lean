import AuthProofs.Redis
set_option linter.unusedSimpArgs false
set_option linter.unusedVariables false
namespace AuthModel
namespace Redis

theorem fdiv_sec (x : Int) : Int.fdiv x sec = x / 1000000000 := by
  unfold sec
  exact Int.fdiv_eq_ediv_of_nonneg x (by decide)

/-- `EXPIREAT` uses whole seconds: the stored expiry is within one second below the computed time -/
theorem floor_bounds (x : Int) : Int.fdiv x sec * sec ≤ x ∧ x < Int.fdiv x sec * sec + sec := by
  rw [fdiv_sec]; unfold sec; omega

theorem expiryTime_le_abs (abs idle now ta : Int) (ha : abs > 0) : expiryTime abs idle now ta ≤ ta + abs := by
  unfold expiryTime
  repeat' split
  all_goals omega

theorem expiryTime_le_idle (abs idle now ta : Int) (hi : idle > 0) : expiryTime abs idle now ta ≤ now + idle := by
  unfold expiryTime
  repeat' split
  all_goals omega

/-- the expiry is exactly the smaller of the configured limits (over the non-zero ones) -/
theorem expiryTime_formula (abs idle now ta : Int) (ha : abs ≥ 0) (hi : idle ≥ 0) (h : ¬(abs = 0 ∧ idle = 0)) :
    expiryTime abs idle now ta =
      if abs = 0 then now + idle else if idle = 0 then ta + abs else min (ta + abs) (now + idle) := by
  unfold expiryTime
  split
  · rfl
  · split
    · rfl
    · split <;> omega

/-- a key is served at server time `now'` only strictly before its `EXPIREAT` second -/
theorem visible_hasFields_lt (now' : Int) (h : RHash) (e : Int) (he : h.expireAt = some e)
    (hv : hasFields (visible now' h) = true) : now' < e * sec := by
  unfold visible at hv
  rw [he] at hv
  by_cases hlt : now' < e * sec
  · exact hlt
  · simp [hlt, hasFields] at hv

theorem visible_inside (now' : Int) (h : RHash) (e : Int) (he : h.expireAt = some e) (hlt : now' < e * sec) :
    visible now' h = h := by
  unfold visible; rw [he]; simp [hlt]

/-- state of the key after `refreshExpiration` with a known creation time and a timeout configured -/
theorem refresh_with_timeout (abs idle now ta : Int) (h : RHash) (hto : ¬(abs = 0 ∧ idle = 0)) (hf : hasFields h = true) :
    refresh abs idle now (some ta) h =
      (if Int.fdiv (expiryTime abs idle now ta) sec * sec ≤ now then {}
       else { h with expireAt := some (Int.fdiv (expiryTime abs idle now ta) sec) }, true) := by
  unfold refresh refreshTA expireAtCmd
  simp [hto, hf]

/-- NEVER LATE (Redis). After a refresh at time `t0` of a key created at `ta`, whenever the server still serves
    the key at time `now'`, `now'` is strictly before creation + absolute and before `t0` + idle. -/
theorem never_late_after_refresh (abs idle t0 ta now' : Int) (h : RHash)
    (hto : ¬(abs = 0 ∧ idle = 0)) (hf : hasFields h = true)
    (hv : hasFields (visible now' (refresh abs idle t0 (some ta) h).1) = true) :
    (abs > 0 → now' < ta + abs) ∧ (idle > 0 → now' < t0 + idle) := by
  rw [refresh_with_timeout abs idle t0 ta h hto hf] at hv
  simp only at hv
  have fb := floor_bounds (expiryTime abs idle t0 ta)
  by_cases hdel : Int.fdiv (expiryTime abs idle t0 ta) sec * sec ≤ t0
  · simp [hdel, visible, hasFields] at hv
  · simp only [hdel, if_false] at hv
    have hlt := visible_hasFields_lt now' _ _ rfl hv
    constructor
    · intro ha; have := expiryTime_le_abs abs idle t0 ta ha; omega
    · intro hi; have := expiryTime_le_idle abs idle t0 ta hi; omega

/-- NOT DROPPED INSIDE (Redis, one second of granularity aside). If `now'` is at least one second before the
    computed expiry, the key is still served, unchanged. -/
theorem not_dropped_inside_after_refresh (abs idle t0 ta now' : Int) (h : RHash)
    (hto : ¬(abs = 0 ∧ idle = 0)) (hf : hasFields h = true) (hge : t0 ≤ now')
    (hin : now' + sec ≤ expiryTime abs idle t0 ta) :
    visible now' (refresh abs idle t0 (some ta) h).1 =
      { h with expireAt := some (Int.fdiv (expiryTime abs idle t0 ta) sec) } := by
  rw [refresh_with_timeout abs idle t0 ta h hto hf]
  have fb := floor_bounds (expiryTime abs idle t0 ta)
  have hdel : ¬ Int.fdiv (expiryTime abs idle t0 ta) sec * sec ≤ t0 := by omega
  simp only [hdel, if_false]
  apply visible_inside _ _ _ rfl
  omega

theorem refreshTA_timeAdded (abs idle now : Int) (x : Option Int) (h : RHash)
    (hf : hasFields (refreshTA abs idle now x h).1 = true) :
    (refreshTA abs idle now x h).1.timeAdded = h.timeAdded := by
  cases x with
  | none => simp [refreshTA, hasFields] at hf
  | some ta =>
    unfold refreshTA at hf ⊢
    simp only at hf ⊢
    by_cases hto : abs = 0 ∧ idle = 0
    · simp [hto]
    · simp only [hto, if_false] at hf ⊢
      unfold expireAtCmd at hf ⊢
      by_cases hff : hasFields h = true
      · simp only [hff, Bool.not_true, Bool.false_eq_true, if_false] at hf ⊢
        by_cases hd : Int.fdiv (expiryTime abs idle now ta) sec * sec ≤ now
        · simp [hd, hasFields] at hf
        · simp [hd]
      · simp [hff]

/-- `refreshExpiration` never alters `time_added` of a key it leaves in place -/
theorem refresh_timeAdded (abs idle now : Int) (arg : Option Int) (h : RHash)
    (hf : hasFields (refresh abs idle now arg h).1 = true) :
    (refresh abs idle now arg h).1.timeAdded = h.timeAdded := by
  unfold refresh at hf ⊢
  exact refreshTA_timeAdded _ _ _ _ _ hf

/-- ACTIVITY NEVER MOVES THE CREATION TIME: every write uses HSETNX for `time_added`. -/
theorem setTok_keeps_timeAdded (abs idle now : Int) (t : Tokens) (h : RHash) (ta : Int)
    (hta : (visible now h).timeAdded = some ta) (hf : hasFields (setTok abs idle now t h).1 = true) :
    (setTok abs idle now t h).1.timeAdded = some ta := by
  unfold setTok at hf ⊢
  rw [refresh_timeAdded _ _ _ _ _ hf]
  generalize visible now h = v at *
  rcases v with ⟨i, a, r, e, s, n, u, c, tav, ex⟩
  simp only at hta; subst hta
  rcases t with ⟨tid, tacc, tref, texp⟩
  by_cases h1 : tacc = [] <;> by_cases h2 : tref = [] <;> cases texp <;>
    simp [setTokSteps, runSteps, norm, hasFields, h1, h2]

theorem setAuth_keeps_timeAdded (abs idle now : Int) (a : AuthState) (h : RHash) (ta : Int)
    (hta : (visible now h).timeAdded = some ta) (hf : hasFields (setAuth abs idle now a h).1 = true) :
    (setAuth abs idle now a h).1.timeAdded = some ta := by
  unfold setAuth at hf ⊢
  rw [refresh_timeAdded _ _ _ _ _ hf]
  generalize visible now h = v at *
  rcases v with ⟨i, a', r, e, s, n, u, c, tav, ex⟩
  simp only at hta; subst hta
  simp [setAuthSteps, runSteps]

/-- reads never alter `time_added` either -/
theorem getTok_keeps_timeAdded (parses : Str → Bool) (abs idle now : Int) (h : RHash)
    (hf : hasFields (getTok parses abs idle now h).1 = true) :
    (getTok parses abs idle now h).1.timeAdded = (visible now h).timeAdded := by
  unfold getTok at hf ⊢
  simp only at hf ⊢
  split
  · rfl
  · split
    · rfl
    · rename_i h1 h2
      simp only [h1, h2, if_false] at hf
      split at hf <;> split <;> simp_all [refresh_timeAdded]

end Redis
end AuthModel
