import AuthModel.Oidc.Handler
import AuthProofs.StrLemmas
set_option linter.unusedSimpArgs false
set_option linter.unusedVariables false
namespace AuthModel
open Str Oidc

/-- visible ASCII other than `;` and `=`: the bytes of cookie names and of generated session ids -/
def tokByte (b : UInt8) : Bool := decide (33 ≤ b) && decide (b < 127) && b != 59 && b != 61

theorem tokByte_facts : ∀ b : UInt8, tokByte b = true →
    isSpace b = false ∧ b ≠ 0xC2 ∧ b ≠ 0xE1 ∧ b ≠ 0xE2 ∧ b ≠ 0xE3 ∧ b ≠ 59 ∧ b ≠ 61 ∧ b < 128 :=
  forall_byte (by decide +kernel)

theorem isSpace2_false (a b : UInt8) (h : a ≠ 0xC2) : isSpace2 a b = false := by simp [isSpace2, h]
theorem isSpace3_false (a b c : UInt8) (h1 : a ≠ 0xE1) (h2 : a ≠ 0xE2) (h3 : a ≠ 0xE3) : isSpace3 a b c = false := by
  simp [isSpace3, h1, h2, h3]

theorem trimLeft_tok (a : UInt8) (s : Str) (h : tokByte a = true) : trimLeft (a :: s) = a :: s := by
  obtain ⟨h0, h1, h2, h3, h4, _⟩ := tokByte_facts a h
  have hl : spaceRuneLen (a :: s) = 0 := by
    unfold spaceRuneLen
    simp only [h0, Bool.false_eq_true, if_false]
    cases s with
    | nil => rfl
    | cons b s' =>
      simp only [isSpace2_false a b h1, Bool.false_eq_true, if_false]
      cases s' with
      | nil => rfl
      | cons c s'' => simp [isSpace3_false a b c h2 h3 h4]
  simp [trimLeft, trimLeftFuel, hl]

theorem isSpace2_rev_false : ∀ a : UInt8, a < 128 → ∀ b, isSpace2 b a = false := by
  intro a ha b
  simp only [isSpace2, Bool.and_eq_false_iff, Bool.or_eq_false_iff, beq_eq_false_iff_ne, ne_eq]
  right
  constructor <;> (intro h; subst h; revert ha; decide)

theorem isSpace3_rev_false : ∀ a : UInt8, a < 128 → ∀ c b, isSpace3 c b a = false := by
  intro a ha c b
  have key : ∀ a : UInt8, a < 128 → (a == 0x80) = false ∧ ((decide (0x80 ≤ a) && decide (a ≤ 0x8A)) = false) ∧
      (a == 0xA8) = false ∧ (a == 0xA9) = false ∧ (a == 0xAF) = false ∧ (a == 0x9F) = false :=
    forall_byte (by decide +kernel)
  obtain ⟨k1, k2, k3, k4, k5, k6⟩ := key a ha
  unfold isSpace3
  simp only [k1, k2, k3, k4, k5, k6, Bool.and_false, Bool.or_false, Bool.false_or]

theorem spaceRuneLenRev_low (a : UInt8) (s : Str) (h0 : isSpace a = false) (h7 : a < 128) : spaceRuneLenRev (a :: s) = 0 := by
  unfold spaceRuneLenRev
  simp only [h0, Bool.false_eq_true, if_false]
  cases s with
  | nil => rfl
  | cons b s' =>
    simp only [isSpace2_rev_false a h7 b, Bool.false_eq_true, if_false]
    cases s' with
    | nil => rfl
    | cons c s'' => simp [isSpace3_rev_false a h7 c b]

theorem trimLeftRev_tok (a : UInt8) (s : Str) (h : tokByte a = true) : trimLeftRev (a :: s) = a :: s := by
  obtain ⟨h0, _, _, _, _, _, _, h7⟩ := tokByte_facts a h
  simp [trimLeftRev, trimLeftRevFuel, spaceRuneLenRev_low a s h0 h7]

/-- a non-empty string of token bytes is not changed by `strings.TrimSpace` -/
theorem trimSpace_tok (s : Str) (h : ∀ b ∈ s, tokByte b = true) : trimSpace s = s := by
  unfold trimSpace
  cases s with
  | nil => rfl
  | cons a t =>
    rw [trimLeft_tok a t (h a (by simp))]
    cases hr : (a :: t).reverse with
    | nil => simp at hr
    | cons l r =>
      have hl : tokByte l = true := by
        have : l ∈ (a :: t).reverse := by rw [hr]; simp
        exact h l (by simp at this ⊢; rcases this with h1 | h1; exact Or.inr h1; exact Or.inl h1)
      rw [trimLeftRev_tok l r hl, ← hr, List.reverse_reverse]

theorem splitOn_no (c : UInt8) (s : Str) (h : c ∉ s) : splitOn c s = [s] := by
  induction s with
  | nil => rfl
  | cons a s ih =>
    have ha : a ≠ c := fun e => h (by simp [e])
    have hs : c ∉ s := fun m => h (by simp [m])
    simp [splitOn, ha, ih hs]

theorem splitOn_cut (c : UInt8) (p q : Str) (h : c ∉ p) : splitOn c (p ++ c :: q) = p :: splitOn c q := by
  induction p with
  | nil => simp [splitOn]
  | cons a p ih =>
    have ha : a ≠ c := fun e => h (by simp [e])
    have hp : c ∉ p := fun m => h (by simp [m])
    simp [splitOn, ha, ih hp]

/-- WHAT IS SET CAN BE READ BACK: a Cookie header consisting of the pair `name=value`, both made of token bytes,
    decodes to that pair -/
theorem decodeCookies_pair (name value : Str) (hn : ∀ b ∈ name, tokByte b = true) (hv : ∀ b ∈ value, tokByte b = true)
    (hne : name ≠ []) : decodeCookies (name ++ [61] ++ value) = [(name, value)] := by
  have hall : ∀ b ∈ name ++ [61] ++ value, b ≠ 59 := by
    intro b hb
    simp at hb
    rcases hb with hb | hb | hb
    · exact (tokByte_facts b (hn b hb)).2.2.2.2.2.1
    · subst hb; decide
    · exact (tokByte_facts b (hv b hb)).2.2.2.2.2.1
  have h59 : (59 : UInt8) ∉ name ++ [61] ++ value := fun m => hall 59 m rfl
  unfold decodeCookies
  rw [splitOn_no 59 _ h59]
  simp only [List.filterMap_cons, List.filterMap_nil]
  -- trimming: the header starts with a token byte (name non-empty) and ends with a token byte or '='
  have htrim : trimSpace (name ++ [61] ++ value) = name ++ [61] ++ value := by
    unfold trimSpace
    cases name with
    | nil => exact absurd rfl hne
    | cons a t =>
      simp only [List.cons_append]
      rw [trimLeft_tok a _ (hn a (by simp))]
      cases hr : (a :: (t ++ [61] ++ value)).reverse with
      | nil => simp at hr
      | cons l r =>
        have hl : tokByte l = true ∨ l = 61 := by
          have hm : l ∈ (a :: (t ++ [61] ++ value)).reverse := by rw [hr]; simp
          simp at hm
          rcases hm with hm | hm | hm | hm
          · exact Or.inl (hv l hm)
          · exact Or.inr hm
          · exact Or.inl (hn l (by simp [hm]))
          · subst hm; exact Or.inl (hn l (by simp))
        have hkeep : trimLeftRev (l :: r) = l :: r := by
          rcases hl with hl | hl
          · exact trimLeftRev_tok l r hl
          · subst hl
            simp [trimLeftRev, trimLeftRevFuel, spaceRuneLenRev_low 61 r (by decide) (by decide)]
        rw [hkeep, ← hr, List.reverse_reverse]
  rw [htrim]
  have h61n : (61 : UInt8) ∉ name := fun m => (tokByte_facts 61 (hn 61 m)).2.2.2.2.2.2.1 rfl
  have h61v : (61 : UInt8) ∉ value := fun m => (tokByte_facts 61 (hv 61 m)).2.2.2.2.2.2.1 rfl
  have : name ++ [61] ++ value = name ++ 61 :: value := by simp
  rw [this, splitOn_cut 61 name value h61n, splitOn_no 61 value h61v]

theorem sessionId_roundtrip (cfg : Cfg) (sid : Str) (hname : ∀ b ∈ cookieName cfg, tokByte b = true)
    (hsid : ∀ b ∈ sid, tokByte b = true) (hne : cookieName cfg ≠ []) :
    sessionIdFromCookie cfg (cookieName cfg ++ [61] ++ sid) = sid := by
  unfold sessionIdFromCookie
  have hnn : cookieName cfg ++ [61] ++ sid ≠ [] := by
    cases h : cookieName cfg with
    | nil => exact absurd h hne
    | cons a t => simp
  simp only [hnn, if_false]
  rw [decodeCookies_pair _ _ hname hsid hne]
  simp [lookupLast]

/-- the constant parts of the cookie name are token bytes; so is the whole name when the configured prefix is -/
theorem cookieName_tok (cfg : Cfg) (hp : ∀ b ∈ cfg.cookiePrefix, tokByte b = true) : ∀ b ∈ cookieName cfg, tokByte b = true := by
  have c1 : ∀ b ∈ cookiePrefixConst, tokByte b = true := by decide
  have c2 : ∀ b ∈ cookieSuffixConst, tokByte b = true := by decide
  have c3 : ∀ b ∈ defaultCookieName, tokByte b = true := by decide
  unfold cookieName
  split
  · intro b hb
    simp at hb
    rcases hb with hb | hb | hb
    · exact c1 b hb
    · exact hp b hb
    · exact c2 b hb
  · exact c3

end AuthModel
