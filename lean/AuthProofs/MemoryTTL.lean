import AuthProofs.StoreSeq
set_option linter.unusedSimpArgs false
set_option linter.unusedVariables false
namespace AuthModel
namespace MemStore

theorem live_some (m : MemStore) (now : Int) (id : Str) (s : MSess) (h : (m.live now id).2 = some s) :
    m.sessions id = some s ∧ (m.abs > 0 → now ≤ s.added + m.abs) ∧ (m.idle > 0 → now ≤ s.accessed + m.idle) := by
  rw [live_snd] at h
  cases hs : m.sessions id with
  | none => simp [hs] at h
  | some s0 =>
    rw [hs] at h
    by_cases he : m.expired now s0 = true
    · simp [he] at h
    · simp only [he] at h
      simp only [Bool.false_eq_true, if_false, Option.some.injEq] at h
      subst h
      refine ⟨rfl, ?_⟩
      unfold expired at he
      simp only [Bool.or_eq_true, Bool.and_eq_true, decide_eq_true_eq, not_or, not_and] at he
      omega

theorem live_inside (m : MemStore) (now : Int) (id : Str) (s : MSess) (hs : m.sessions id = some s)
    (ha : m.abs > 0 → now ≤ s.added + m.abs) (hi : m.idle > 0 → now ≤ s.accessed + m.idle) :
    (m.live now id).2 = some s := by
  rw [live_snd, hs]
  have : m.expired now s = false := by
    unfold expired
    simp only [Bool.or_eq_false_iff, Bool.and_eq_false_iff, decide_eq_false_iff_not]
    omega
  simp [this]

/-- NEVER LATE (memory): data is returned only for a session inside both limits -/
theorem getTok_never_late (m : MemStore) (now : Int) (id : Str) (t : Tokens) (h : (m.getTok now id).2 = some t) :
    ∃ s, m.sessions id = some s ∧ s.tokens = some t ∧
      (m.abs > 0 → now ≤ s.added + m.abs) ∧ (m.idle > 0 → now ≤ s.accessed + m.idle) := by
  unfold getTok at h
  cases hl : (m.live now id).2 with
  | none => simp [hl] at h
  | some s =>
    simp [hl] at h
    have := live_some m now id s hl
    exact ⟨s, this.1, h, this.2⟩

theorem getAuth_never_late (m : MemStore) (now : Int) (id : Str) (a : AuthState) (h : (m.getAuth now id).2 = some a) :
    ∃ s, m.sessions id = some s ∧ s.auth = some a ∧
      (m.abs > 0 → now ≤ s.added + m.abs) ∧ (m.idle > 0 → now ≤ s.accessed + m.idle) := by
  unfold getAuth at h
  cases hl : (m.live now id).2 with
  | none => simp [hl] at h
  | some s =>
    simp [hl] at h
    have := live_some m now id s hl
    exact ⟨s, this.1, h, this.2⟩

/-- NOT DROPPED INSIDE (memory): a session inside both limits is served, and the access is recorded -/
theorem getTok_inside (m : MemStore) (now : Int) (id : Str) (s : MSess) (hs : m.sessions id = some s)
    (ha : m.abs > 0 → now ≤ s.added + m.abs) (hi : m.idle > 0 → now ≤ s.accessed + m.idle) :
    (m.getTok now id).2 = s.tokens ∧ (m.getTok now id).1.sessions id = some { s with accessed := now } := by
  have hl := live_inside m now id s hs ha hi
  unfold getTok
  simp [hl, upd]

theorem getAuth_inside (m : MemStore) (now : Int) (id : Str) (s : MSess) (hs : m.sessions id = some s)
    (ha : m.abs > 0 → now ≤ s.added + m.abs) (hi : m.idle > 0 → now ≤ s.accessed + m.idle) :
    (m.getAuth now id).2 = s.auth ∧ (m.getAuth now id).1.sessions id = some { s with accessed := now } := by
  have hl := live_inside m now id s hs ha hi
  unfold getAuth
  simp [hl, upd]

/-- a write on a live session keeps its creation time and records the access; on an absent or expired one it
    starts a new session created now -/
theorem setTok_session (m : MemStore) (now : Int) (id : Str) (t : Tokens) :
    (m.setTok now id t).sessions id = some (match (m.live now id).2 with
      | some s => { s with accessed := now, tokens := some t }
      | none => { tokens := some t, auth := none, added := now, accessed := now }) := by
  unfold setTok set
  cases hl : (m.live now id).2 <;> simp [hl, upd]

theorem setAuth_session (m : MemStore) (now : Int) (id : Str) (a : AuthState) :
    (m.setAuth now id a).sessions id = some (match (m.live now id).2 with
      | some s => { s with accessed := now, auth := some a }
      | none => { tokens := none, auth := some a, added := now, accessed := now }) := by
  unfold setAuth set
  cases hl : (m.live now id).2 <;> simp [hl, upd]

end MemStore
end AuthModel
