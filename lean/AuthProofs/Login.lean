import AuthProofs.Ladder
set_option linter.unusedSimpArgs false
set_option linter.unusedVariables false
namespace AuthModel
open Oidc

/-- feed a fixed list of environment answers to a check; `none` if the list is too short -/
def replay : Prog → List ARes → Option (Resp × List Act)
  | .ret r, _ => some (r, [])
  | .act a k, res :: rest => (replay (k res) rest).map fun x => (x.1, a :: x.2)
  | .act _ _, [] => none

/-- step 1 of a login: no cookie, not the logout path: one generator draw, the login state stored under the new id,
    and a 302 to the authorization endpoint carrying that id in the session cookie -/
theorem first_visit (cfg : Cfg) (o : Oracles) (req : Req) (sid nonce state verifier : Str)
    (hh : req.http = true) (hlo : matchesLogout cfg req = false) (hc : sessionIdFromCookie cfg req.cookie = []) :
    replay (process cfg o req) [.gen sid nonce state verifier, .done true] =
      some (redirectWithCookie (authLocation cfg o state nonce verifier) (setCookie (cookieName cfg) sid none),
            [.gen, .setAuth sid { state := state, nonce := nonce, requestedUrl := requestedUrl req, codeVerifier := verifier }]) := by
  simp [process, hh, hlo, hc, redirectToIdp, redirectAfterRemoval, replay]

/-- what a standards-compliant answer to the code exchange is, for the session's nonce -/
structure CompliantAnswer (cfg : Cfg) (o : Oracles) (b : IdpBody) (nonce : Str) : Prop where
  bearer : isBearer b.tokenType = true                         -- any capitalisation of "bearer"
  expires : b.expiresIn ≥ 0                                    -- absent (0) or a lifetime
  access : cfg.access.isSome = true → b.accessToken ≠ []       -- an access token when forwarding is configured
  parses : ∃ a, o.attrs b.idToken = some a ∧ a.nonce = .str nonce ∧ cfg.clientId ∈ a.aud   -- nonce echoed, aud ∋ client id
  signed : o.sigOK b.idToken = true

theorem compliant_valid (cfg : Cfg) (o : Oracles) (b : IdpBody) (nonce : Str) (h : CompliantAnswer cfg o b nonce) :
    validNewResponse cfg b = true := by
  unfold validNewResponse
  have h1 := h.bearer
  have h2 := h.expires
  simp only [h1, Bool.true_and, Bool.and_eq_true, decide_eq_true_eq, Bool.not_eq_true']
  refine ⟨h2, ?_⟩
  cases hc : cfg.access with
  | none => simp
  | some x =>
    have := h.access (by simp [hc])
    simp [this]

/-- step 2: the callback with the issued state and any code, against a compliant provider: exactly one token request,
    login state cleared, tokens stored, 302 to the URL stored at step 1 -/
theorem callback_completes (cfg : Cfg) (o : Oracles) (req : Req) (sid code : Str) (a : AuthState) (b : IdpBody) (now : Int)
    (params : List (Str × Str))
    (hh : req.http = true) (hlo : matchesLogout cfg req = false) (hc : sessionIdFromCookie cfg req.cookie = sid)
    (hs : sid ≠ []) (hcb : matchesCallback cfg req = true)
    (hq : parseQuery (queryOf req.path) = (params, true)) (hne : params.isEmpty = false)
    (hst : valuesGet params (B "state") = a.state) (hsne : a.state ≠ [])
    (hcode : valuesGet params (B "code") = code) (hcne : code ≠ [])
    (hb : CompliantAnswer cfg o b a.nonce) :
    replay (process cfg o req) [.auth (.ok (some a)), .idp (.body b), .keys true, .done true, .time now, .done true] =
      some (found a.requestedUrl,
            [.getAuth sid, .idp (.code cfg.tokenUri code cfg.callbackUri a.codeVerifier cfg.clientId cfg.clientSecret),
             .keys, .clearAuth sid, .now,
             .setTok sid { idToken := b.idToken, accessToken := b.accessToken, refreshToken := b.refreshToken,
                           accessExp := accessExpiry now b.expiresIn }]) := by
  obtain ⟨at_, hat, hn, haud⟩ := hb.parses
  have hv := compliant_valid cfg o b a.nonce hb
  have hna : nonceAccepted at_ a.nonce true = true := by simp [nonceAccepted, hn]
  have haud' : at_.aud.contains cfg.clientId = true := by simpa using haud
  subst hc
  simp [process, hh, hlo, hs, hcb, retrieveTokens, hq, hne, hst, hsne, hcode, hcne, hv, validateIdToken, hat, hna,
    haud', haud, hb.signed, replay]

/-- step 3 and every later request: a session holding unexpired tokens is answered OK with those tokens, with NO
    token request and no redirect (the only actions are the store read and the clock read) -/
theorem authenticated_request_ok (cfg : Cfg) (o : Oracles) (req : Req) (prev : Headers) (sid : Str) (t : Tokens)
    (at_ : TokAttrs) (now : Int)
    (hh : req.http = true) (hlo : matchesLogout cfg req = false) (hc : sessionIdFromCookie cfg req.cookie = sid)
    (hs : sid ≠ []) (hcb : matchesCallback cfg req = false)
    (hat : o.attrs t.idToken = some at_) (hfresh : tokensExpired cfg at_ t now = false) :
    replay (process cfg o req prev) [.tok (.ok (some t)), .time now] = some (allow cfg prev t, [.getTok sid, .now]) := by
  subst hc
  simp [process, hh, hlo, hs, hcb, hat, hfresh, replay]

/-- the tokens stored at step 2 are unexpired for as long as the provider said: until the ID token's `exp`, and - only
    if a positive `expires_in` was announced and forwarding is configured - until that lifetime (minus 5 ns) is over.
    In particular a response WITHOUT expires_in does not make the session expire at once (the C03 defect). -/
theorem stored_tokens_valid_while_provider_says (cfg : Cfg) (at_ : TokAttrs) (b : IdpBody) (now0 now : Int)
    (hexp : now ≤ at_.exp)
    (hacc : b.expiresIn > 0 → now ≤ now0 + b.expiresIn * 1000000000 - 5) :
    tokensExpired cfg at_ { idToken := b.idToken, accessToken := b.accessToken, refreshToken := b.refreshToken,
                            accessExp := accessExpiry now0 b.expiresIn } now = false := by
  unfold tokensExpired accessExpiry nsPerSec
  have h1 : decide (at_.exp < now) = false := by simp; omega
  simp only [h1, Bool.false_or]
  by_cases hpos : b.expiresIn > 0
  · have := hacc hpos
    simp only [hpos, if_true]
    have h2 : decide (now0 + b.expiresIn * 1000000000 - 5 < now) = false := by simp; omega
    simp [h2]
  · simp [hpos]

end AuthModel
