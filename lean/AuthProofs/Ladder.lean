import AuthProofs.FailClosed
set_option linter.unusedSimpArgs false
set_option linter.unusedVariables false
set_option maxRecDepth 4000
namespace AuthModel
open Oidc

/-- a verdict is well formed: OK status with an OK body, any other status with a denied body -/
def WellFormed (r : Resp) : Prop :=
  (r.code = cOK ∧ ∃ h, r.http = .ok h) ∨ (r.code ≠ cOK ∧ ∃ d, r.http = .denied d)

/-- automation: walk every branch of an interaction tree -/
macro "walk" : tactic => `(tactic| repeat' (first | (intro _) | split | (simp only [AllPaths])))

theorem wf_redirectToIdp (cfg : Cfg) (o : Oracles) (req : Req) (old : Str) (tr : Trace) :
    AllPaths (fun _ r => WellFormed r) (redirectToIdp cfg o req old) tr := by
  unfold redirectToIdp redirectAfterRemoval
  walk <;> simp [AllPaths, WellFormed, sessErr, redirectWithCookie, cUnauthenticated, cOK]

end AuthModel

namespace AuthModel
open Oidc

theorem wf_validate (cfg : Cfg) (o : Oracles) (tok en : Str) (nr : Bool) (fail : Nat → Prog) (ok : Prog) (tr : Trace)
    {P : Trace → Resp → Prop}
    (hf1 : ∀ tr', AllPaths P (fail cInternal) tr') (hf2 : ∀ tr', AllPaths P (fail cInvalidArgument) tr')
    (hok : ∀ tr', AllPaths P ok tr') :
    AllPaths P (validateIdToken cfg o tok en nr fail ok) tr := by
  unfold validateIdToken
  walk <;> first | exact hf1 _ | exact hf2 _ | exact hok _

/-- C15: every path of `Process` ends in a well-formed verdict -/
theorem process_wellformed (cfg : Cfg) (o : Oracles) (req : Req) (prev : Headers) :
    AllPaths (fun _ r => WellFormed r) (process cfg o req prev) [] := by
  have hR : ∀ old tr, AllPaths (fun _ r => WellFormed r) (redirectToIdp cfg o req old) tr := wf_redirectToIdp cfg o req
  unfold process retrieveTokens refreshPath
  walk
  all_goals first
    | exact hR _ _
    | (apply wf_validate
       · intro tr'; first | exact hR _ _ | simp [AllPaths, WellFormed, deny, cOK, cInternal, cInvalidArgument]
       · intro tr'; first | exact hR _ _ | simp [AllPaths, WellFormed, deny, cOK, cInternal, cInvalidArgument]
       · intro tr'; walk <;> simp [AllPaths, WellFormed, sessErr, found, allow, cUnauthenticated, cOK])
    | simp [AllPaths, WellFormed, deny, sessErr, expired400, logoutResp, redirectWithCookie, allow, found,
        cUnauthenticated, cOK, cInvalidArgument, cInternal, cUnknown]

end AuthModel

namespace AuthModel
open Oidc

/-- `Q prefix action` holds of EVERY action a check performs, given the actions and answers before it -/
def AllActs (Q : Trace → Act → Prop) : Prog → Trace → Prop
  | .ret _, _ => True
  | .act a k, tr => Q tr.reverse a ∧ ∀ res, AllActs Q (k res) ((a, res) :: tr)

macro "walkA" : tactic =>
  `(tactic| repeat' (first | (intro _) | split | (simp only [AllActs]) | (apply And.intro)))

/-- C04 / C11: the shape of every token-endpoint request, and what must have happened before it -/
def IdpReqOK (cfg : Cfg) (o : Oracles) (req : Req) (pre : Trace) : Act → Prop
  | .idp (.code uri code ru v cid cs) =>
      uri = cfg.tokenUri ∧ ru = cfg.callbackUri ∧ cid = cfg.clientId ∧ cs = cfg.clientSecret ∧
      matchesCallback cfg req = true ∧
      ∃ a, pre = [(Act.getAuth (sessionIdFromCookie cfg req.cookie), ARes.auth (.ok (some a)))] ∧ v = a.codeVerifier ∧
        valuesGet (parseQuery (queryOf req.path)).1 (B "state") = a.state ∧ a.state ≠ [] ∧
        code = valuesGet (parseQuery (queryOf req.path)).1 (B "code") ∧ code ≠ [] ∧ (parseQuery (queryOf req.path)).2 = true
  | .idp (.refresh uri rt cid cs) =>
      uri = cfg.tokenUri ∧ cid = cfg.clientId ∧ cs = cfg.clientSecret ∧
      ∃ t now, pre = [(Act.getTok (sessionIdFromCookie cfg req.cookie), ARes.tok (.ok (some t))), (Act.now, ARes.time now)] ∧
        rt = t.refreshToken ∧ rt ≠ [] ∧ ∃ a, o.attrs t.idToken = some a ∧ tokensExpired cfg a t now = true
  | _ => True


theorem acts_redirectToIdp (cfg : Cfg) (o : Oracles) (req : Req) (old : Str) (tr : Trace) :
    AllActs (IdpReqOK cfg o req) (redirectToIdp cfg o req old) tr := by
  unfold redirectToIdp redirectAfterRemoval
  walkA <;> simp [AllActs, IdpReqOK]

theorem acts_validate {Q : Trace → Act → Prop} (cfg : Cfg) (o : Oracles) (tok en : Str) (nr : Bool)
    (fail : Nat → Prog) (ok : Prog) (tr : Trace)
    (hk : ∀ tr', Q tr' .keys) (hf : ∀ c tr', AllActs Q (fail c) tr') (hok : ∀ tr', AllActs Q ok tr') :
    AllActs Q (validateIdToken cfg o tok en nr fail ok) tr := by
  unfold validateIdToken
  walkA <;> first | exact hf _ _ | exact hok _ | exact hk _

/-- every token-endpoint request of `Process` has the required form and the required history -/
theorem process_idp_requests (cfg : Cfg) (o : Oracles) (req : Req) (prev : Headers) :
    AllActs (IdpReqOK cfg o req) (process cfg o req prev) [] := by
  have hR : ∀ old tr, AllActs (IdpReqOK cfg o req) (redirectToIdp cfg o req old) tr := acts_redirectToIdp cfg o req
  unfold process retrieveTokens refreshPath
  walkA
  all_goals first
    | exact hR _ _
    | (apply acts_validate
       · intro tr'; simp [IdpReqOK]
       · intro c tr'; first | exact hR _ _ | simp [AllActs]
       · intro tr'; walkA <;> simp [AllActs, IdpReqOK])
    | (simp_all [AllActs, IdpReqOK]; done)
    | (simp_all [AllActs, IdpReqOK]; exact ⟨_, _, ⟨rfl, rfl⟩, rfl, _, by assumption, by assumption⟩)

end AuthModel

namespace AuthModel
open Oidc

/-- Bool form of `Validated` -/
def validatedB (cfg : Cfg) (o : Oracles) (tok expected : Str) (required : Bool) : Bool :=
  match o.attrs tok with
  | none => false
  | some a => nonceAccepted a expected required && a.aud.contains cfg.clientId && o.sigOK tok

theorem validatedB_iff (cfg : Cfg) (o : Oracles) (tok en : Str) (nr : Bool) :
    validatedB cfg o tok en nr = true ↔ Validated cfg o tok en nr := by
  unfold validatedB Validated
  cases h : o.attrs tok with
  | none => simp
  | some a => simp [Bool.and_eq_true, and_assoc]

/-- C02 / C05: what may be written to the session store, and when. Stated on the exact prefix of actions and answers
    that precedes the write (so it also fixes the ORDER of the ladder). -/
def WriteOK (cfg : Cfg) (o : Oracles) (req : Req) (pre : Trace) : Act → Prop
  | .setTok sid t =>
    sid = sessionIdFromCookie cfg req.cookie ∧ sid ≠ [] ∧
    match pre with
    | [(.getAuth s1, .auth (.ok (some a))), (.idp (.code uri code ru v cid cs), .idp (.body b)), (.keys, .keys true),
       (.clearAuth s2, .done true), (.now, .time now)] =>
        -- login: the ID token is the one of THIS check's token-endpoint answer, validated against the nonce stored
        -- for this very session; the login state was cleared first
        s1 = sid ∧ s2 = sid ∧ v = a.codeVerifier ∧ validNewResponse cfg b = true ∧
        validatedB cfg o b.idToken a.nonce true = true ∧
        t = { idToken := b.idToken, accessToken := b.accessToken, refreshToken := b.refreshToken,
              accessExp := accessExpiry now b.expiresIn }
    | [(.getTok s1, .tok (.ok (some old))), (.now, .time _), (.idp (.refresh uri rt cid cs), .idp (.body b)),
       (.now, .time now2), (.getAuth s2, .auth (.ok authAns)), (.keys, .keys true)] =>
        -- refresh: the merge of this check's answer over the stored tokens, validated
        s1 = sid ∧ s2 = sid ∧ rt = old.refreshToken ∧ validRefreshResponse b = true ∧
        validatedB cfg o (mergeTokens o old b now2).idToken (match authAns with | some x => x.nonce | none => []) false = true ∧
        t = mergeTokens o old b now2
    | _ => False
  | .setAuth sid a =>
    -- login state is only ever stored under the id the generator just produced, with the values it produced
    pre.reverse.head? = some (Act.gen, ARes.gen sid a.nonce a.state a.codeVerifier) ∧ a.requestedUrl = requestedUrl req
  | .clearAuth sid => sid = sessionIdFromCookie cfg req.cookie ∧ sid ≠ []
  | .removeSession sid => sid = sessionIdFromCookie cfg req.cookie ∧ sid ≠ []
  | _ => True

theorem writes_redirectToIdp (cfg : Cfg) (o : Oracles) (req : Req) (old : Str) (tr : Trace)
    (hold : old = [] ∨ old = sessionIdFromCookie cfg req.cookie) :
    AllActs (WriteOK cfg o req) (redirectToIdp cfg o req old) tr := by
  unfold redirectToIdp redirectAfterRemoval
  walkA
  all_goals first
    | (simp_all [AllActs, WriteOK]; done)
    | (simp only [WriteOK]; rcases hold with h | h <;> simp_all)

end AuthModel

namespace AuthModel
open Oidc

/-- through the validator: the continuation runs only for a validated token, right after a successful key lookup -/
theorem acts_validate' {Q : Trace → Act → Prop} (cfg : Cfg) (o : Oracles) (tok en : Str) (nr : Bool)
    (fail : Nat → Prog) (ok : Prog) (tr : Trace)
    (hk : ∀ tr', Q tr' .keys) (hf : ∀ c tr', AllActs Q (fail c) tr')
    (hok : validatedB cfg o tok en nr = true → AllActs Q ok ((.keys, .keys true) :: tr)) :
    AllActs Q (validateIdToken cfg o tok en nr fail ok) tr := by
  unfold validateIdToken
  cases ha : o.attrs tok with
  | none => exact hf _ _
  | some a =>
    simp only
    by_cases hn : nonceAccepted a en nr = true
    · simp only [hn, Bool.not_true, Bool.false_eq_true, if_false]
      by_cases haud : a.aud.contains cfg.clientId = true
      · simp only [haud, Bool.not_true, Bool.false_eq_true, if_false, AllActs]
        refine ⟨hk _, ?_⟩
        intro res
        cases res with
        | keys b =>
          cases b with
          | false => exact hf _ _
          | true =>
            simp only
            by_cases hs : o.sigOK tok = true
            · simp only [hs, if_true]
              exact hok (by simp only [validatedB, ha, hn, haud, hs]; rfl)
            · simp only [hs]; exact hf _ _
        | _ => exact hf _ _
      · simp only [haud]; exact hf _ _
    · simp only [hn]; exact hf _ _

/-- C02 / C05: every store write of `Process` is justified by the exact history of the check before it -/
theorem process_writes (cfg : Cfg) (o : Oracles) (req : Req) (prev : Headers) :
    AllActs (WriteOK cfg o req) (process cfg o req prev) [] := by
  have hR0 : ∀ tr, AllActs (WriteOK cfg o req) (redirectToIdp cfg o req []) tr :=
    fun tr => writes_redirectToIdp cfg o req [] tr (Or.inl rfl)
  have hR : ∀ tr, AllActs (WriteOK cfg o req) (redirectToIdp cfg o req (sessionIdFromCookie cfg req.cookie)) tr :=
    fun tr => writes_redirectToIdp cfg o req _ tr (Or.inr rfl)
  unfold process retrieveTokens refreshPath
  walkA
  all_goals first
    | exact hR0 _
    | exact hR _
    | (apply acts_validate'
       · intro tr'; simp [WriteOK]
       · intro c tr'; first | exact hR _ | simp [AllActs]
       · intro hval; walkA <;> simp_all [AllActs, WriteOK])
    | (simp_all [AllActs, WriteOK]; done)
    | skip
  · apply acts_validate'
    · intro tr'; simp [WriteOK]
    · intro c tr'; simp [AllActs]
    · intro hval
      simp only [AllActs]
      refine ⟨by simp_all [WriteOK], fun r => ?_⟩
      cases r with
      | done b =>
        cases b with
        | false => simp [AllActs]
        | true =>
          simp only [AllActs]
          refine ⟨by simp [WriteOK], fun t => ?_⟩
          cases t with
          | time now =>
            simp only [AllActs]
            refine ⟨by simp_all [WriteOK], fun r2 => ?_⟩
            cases r2 with
            | done b2 => cases b2 <;> simp [AllActs]
            | _ => simp [AllActs]
          | _ => simp [AllActs]
      | _ => simp [AllActs]
  · apply acts_validate'
    · intro tr'; simp [WriteOK]
    · intro c tr'; exact hR _
    · intro hval
      simp only [AllActs]
      refine ⟨by simp_all [WriteOK], fun r => ?_⟩
      cases r with
      | done b => cases b <;> simp [AllActs]
      | _ => simp [AllActs]
  · apply acts_validate'
    · intro tr'; simp [WriteOK]
    · intro c tr'; exact hR _
    · intro hval
      simp only [AllActs]
      refine ⟨by simp_all [WriteOK], fun r => ?_⟩
      cases r with
      | done b => cases b <;> simp [AllActs]
      | _ => simp [AllActs]

end AuthModel

namespace AuthModel
open Oidc

/-- The closed list of answers `Process` can give, each with the history that must have produced it.
    `sid` is the session id the request presented (possibly empty). -/
inductive RespShape (cfg : Cfg) (o : Oracles) (req : Req) (prev : Headers) : Trace → Resp → Prop
  | denied (c : Nat) (hc : c = cInvalidArgument ∨ c = cInternal ∨ c = cUnknown) (tr : Trace) : RespShape cfg o req prev tr (deny c)
  | sessionError (tr : Trace) : RespShape cfg o req prev tr sessErr
  | expired (tr : Trace) : RespShape cfg o req prev tr expired400
  | ok (t : Tokens) (tr : Trace) : RespShape cfg o req prev tr (allow cfg prev t)
  | back (a : AuthState) (t : Tokens) (tr : Trace)
      (h1 : (Act.getAuth (sessionIdFromCookie cfg req.cookie), ARes.auth (.ok (some a))) ∈ tr)
      (h2 : (Act.clearAuth (sessionIdFromCookie cfg req.cookie), ARes.done true) ∈ tr)
      (h3 : (Act.setTok (sessionIdFromCookie cfg req.cookie) t, ARes.done true) ∈ tr) :
      RespShape cfg o req prev tr (found a.requestedUrl)
  | login (newSid nonce state verifier : Str) (tr : Trace)
      (h1 : (Act.gen, ARes.gen newSid nonce state verifier) ∈ tr)
      (h2 : (Act.setAuth newSid { state := state, nonce := nonce, requestedUrl := requestedUrl req, codeVerifier := verifier },
              ARes.done true) ∈ tr)
      (h3 : sessionIdFromCookie cfg req.cookie ≠ [] →
              (Act.removeSession (sessionIdFromCookie cfg req.cookie), ARes.done true) ∈ tr) :
      RespShape cfg o req prev tr
        (redirectWithCookie (authLocation cfg o state nonce verifier) (setCookie (cookieName cfg) newSid none))
  | logout (uri : Str) (tr : Trace) (h1 : matchesLogout cfg req = true)
      (h2 : cfg.logout = some (pathOf req.path, uri))
      (h3 : sessionIdFromCookie cfg req.cookie ≠ [] →
              (Act.removeSession (sessionIdFromCookie cfg req.cookie), ARes.done true) ∈ tr) :
      RespShape cfg o req prev tr (logoutResp cfg uri)

theorem shape_redirectToIdp (cfg : Cfg) (o : Oracles) (req : Req) (prev : Headers) (old : Str) (tr : Trace)
    (hold : (old = [] ∧ sessionIdFromCookie cfg req.cookie = []) ∨ (old = sessionIdFromCookie cfg req.cookie ∧ old ≠ [])) :
    AllPaths (RespShape cfg o req prev) (redirectToIdp cfg o req old) tr := by
  unfold redirectToIdp redirectAfterRemoval
  walk
  all_goals (try simp only [AllPaths])
  all_goals first
    | exact RespShape.sessionError _
    | (refine RespShape.login _ _ _ _ _ (by simp) (by simp) ?_
       rcases hold with ⟨h1, h2⟩ | ⟨h1, h2⟩ <;> simp_all)

end AuthModel

namespace AuthModel
open Oidc

theorem shape_validate (cfg : Cfg) (o : Oracles) (req : Req) (prev : Headers) (tok en : Str) (nr : Bool)
    (fail : Nat → Prog) (ok : Prog) (tr : Trace)
    (hf1 : ∀ tr', AllPaths (RespShape cfg o req prev) (fail cInternal) tr')
    (hf2 : ∀ tr', AllPaths (RespShape cfg o req prev) (fail cInvalidArgument) tr')
    (hok : AllPaths (RespShape cfg o req prev) ok ((.keys, .keys true) :: tr)) :
    AllPaths (RespShape cfg o req prev) (validateIdToken cfg o tok en nr fail ok) tr := by
  apply allPaths_validate cfg o tok en nr fail ok tr hf1 hf2
  intro _; exact hok

/-- C05 / C09 / C13 / C14: every answer of `Process` is one of the catalogued shapes with its required history -/
theorem process_shapes (cfg : Cfg) (o : Oracles) (req : Req) (prev : Headers) :
    AllPaths (RespShape cfg o req prev) (process cfg o req prev) [] := by
  unfold process
  by_cases hhttp0 : req.http = false
  · simp only [hhttp0, Bool.not_false, if_true, AllPaths]
    exact RespShape.denied _ (Or.inl rfl) _
  have hhttp : req.http = true := by simpa using hhttp0
  simp only [hhttp, Bool.not_true, Bool.false_eq_true, if_false]
  by_cases hlo : matchesLogout cfg req = true
  · simp only [hlo, if_true]
    have hcfg : ∃ uri, cfg.logout = some (pathOf req.path, uri) ∧
        (match cfg.logout with | some (_, u) => u | none => []) = uri := by
      unfold matchesLogout at hlo
      cases hl : cfg.logout with
      | none => simp [hl] at hlo
      | some pu =>
        obtain ⟨p, u⟩ := pu
        simp [hl] at hlo
        exact ⟨u, by simp [hlo], rfl⟩
    obtain ⟨uri, hu1, hu2⟩ := hcfg
    simp only [hu1]
    split
    · intro r
      rename_i hs
      cases r with
      | done b =>
        cases b with
        | false => exact RespShape.sessionError _
        | true => exact RespShape.logout uri _ hlo hu1 (fun _ => by simp)
      | _ => exact RespShape.sessionError _
    · rename_i hs
      exact RespShape.logout uri _ hlo hu1 (fun h => absurd h (by simpa using hs))
  simp only [hlo, Bool.false_eq_true, if_false]
  by_cases hsid : sessionIdFromCookie cfg req.cookie = []
  · simp only [hsid, if_true]
    exact shape_redirectToIdp cfg o req prev [] _ (Or.inl ⟨rfl, hsid⟩)
  simp only [hsid, if_false]
  have hR : ∀ tr, AllPaths (RespShape cfg o req prev) (redirectToIdp cfg o req (sessionIdFromCookie cfg req.cookie)) tr :=
    fun tr => shape_redirectToIdp cfg o req prev _ tr (Or.inr ⟨rfl, hsid⟩)
  by_cases hcb : matchesCallback cfg req = true
  · simp only [hcb, if_true]
    unfold retrieveTokens
    simp only
    split
    · exact RespShape.denied _ (Or.inl rfl) _
    split
    · exact RespShape.denied _ (Or.inl rfl) _
    split
    · exact RespShape.denied _ (Or.inl rfl) _
    intro r
    cases r with
    | auth ra =>
      cases ra with
      | err => exact RespShape.sessionError _
      | ok oa =>
        cases oa with
        | none => exact RespShape.expired _
        | some a =>
          simp only
          split
          · exact RespShape.denied _ (Or.inl rfl) _
          intro ans
          cases ans with
          | idp ia =>
            cases ia with
            | body b =>
              simp only
              split
              · exact RespShape.denied _ (Or.inl rfl) _
              apply shape_validate
              · intro tr'; exact RespShape.denied _ (Or.inr (Or.inl rfl)) _
              · intro tr'; exact RespShape.denied _ (Or.inl rfl) _
              · intro r
                cases r with
                | done bb =>
                  cases bb with
                  | false => exact RespShape.sessionError _
                  | true =>
                    intro t
                    cases t with
                    | time now =>
                      intro r2
                      cases r2 with
                      | done b2 =>
                        cases b2 with
                        | false => exact RespShape.sessionError _
                        | true => exact RespShape.back a { idToken := b.idToken, accessToken := b.accessToken, refreshToken := b.refreshToken, accessExp := accessExpiry now b.expiresIn } _ (by simp) (by simp) (by simp)
                      | _ => exact RespShape.sessionError _
                    | _ => exact RespShape.sessionError _
                | _ => exact RespShape.sessionError _
            | status n => exact RespShape.denied _ (Or.inr (Or.inr rfl)) _
            | _ => exact RespShape.denied _ (Or.inr (Or.inl rfl)) _
          | _ => exact RespShape.denied _ (Or.inr (Or.inl rfl)) _
    | _ => exact RespShape.sessionError _
  simp only [hcb, Bool.false_eq_true, if_false]
  intro r
  cases r with
  | tok rt =>
    cases rt with
    | err => exact RespShape.sessionError _
    | ok ot =>
      cases ot with
      | none => exact hR _
      | some t =>
        simp only
        cases ha : o.attrs t.idToken with
        | none => exact RespShape.denied _ (Or.inr (Or.inl rfl)) _
        | some a =>
          simp only
          intro tm
          cases tm with
          | time now =>
            simp only
            split
            · exact RespShape.ok _ _
            split
            · exact hR _
            unfold refreshPath
            intro ans
            cases ans with
            | idp ia =>
              cases ia with
              | body b =>
                simp only
                split
                · exact hR _
                intro tm2
                cases tm2 with
                | time now2 =>
                  simp only
                  intro ra
                  cases ra with
                  | auth raa =>
                    cases raa with
                    | err => exact hR _
                    | ok authAns =>
                      simp only
                      apply shape_validate
                      · intro tr'; exact hR _
                      · intro tr'; exact hR _
                      · intro rs
                        cases rs with
                        | done bs =>
                          cases bs with
                          | false => exact RespShape.sessionError _
                          | true => exact RespShape.ok _ _
                        | _ => exact RespShape.sessionError _
                  | _ => exact hR _
                | _ => exact RespShape.sessionError _
              | _ => exact hR _
            | _ => exact hR _
          | _ => exact RespShape.sessionError _
  | _ => exact RespShape.sessionError _

end AuthModel
