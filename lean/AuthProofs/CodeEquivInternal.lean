/-
  `BoolStrValue` (internal/boolstr.go) as translated from /repo against the TLS model's `boolStr`: what
  `skip_verify_peer_cert` MEANS - a bool, or a string read by strconv.ParseBool (which is defined in GoLib.lean, not an
  oracle: 1 t T TRUE true True are true, everything else - the six spellings of false, junk, "" - is false).
-/
import AuthModel.Generated.CodeInternal
import AuthModel.Tls
set_option linter.unusedSimpArgs false
namespace AuthModel
open Str Go

/-- the skip-verify setting of the model that a `*structpb.Value` stands for -/
def skipOf (v : Pb.Value) : Tls.Skip :=
  if v.isNil then .unset else
  match v.Kind with
  | .BoolValue b => .bool b
  | .StringValue s => .str s
  | _ => .unset

/-- strconv.ParseBool as the model's oracle -/
def goParseBool : Str → Bool := fun s => (Go.parseBool s).1

theorem code_boolStr (env : Go.Env) (v : Pb.Value) (o : Tls.Oracle) (ho : o.parseBool = goParseBool) :
    Code.BoolStrValue env v = .ok (Tls.boolStr o (skipOf v)) := by
  unfold Code.BoolStrValue skipOf
  have hB : B "" = [] := by decide
  cases hn : v.isNil
  · cases hk : v.Kind with
    | StringValue s =>
      by_cases hs : s = []
      · simp [Pb.Value.GetStringValue, Pb.Value.GetBoolValue, hn, hk, hs, hB, Tls.boolStr, pure, Except.pure]
      · simp [Pb.Value.GetStringValue, Pb.Value.GetBoolValue, hn, hk, hs, hB, Tls.boolStr, pure, Except.pure, ho, goParseBool]
    | _ => simp [Pb.Value.GetStringValue, Pb.Value.GetBoolValue, hn, hk, hB, Tls.boolStr, pure, Except.pure]
  · simp [Pb.Value.GetStringValue, Pb.Value.GetBoolValue, hn, hB, Tls.boolStr, pure, Except.pure]

end AuthModel
