/-
  `BoolStrValue` (internal/boolstr.go) as translated from /repo against the TLS model's `boolStr`: what
  `skip_verify_peer_cert` MEANS - a bool, or a string read by strconv.ParseBool (which is defined in GoLib.lean, not an
  oracle: 1 t T TRUE true True are true, everything else - the six spellings of false, junk, "" - is false).
-/
import AuthModel.Generated.CodeInternal
import AuthModel.Tls
import AuthModel.Config
set_option linter.unusedSimpArgs false
namespace AuthModel
open Str Go

/-- the skip-verify setting of the model that a `*structpb.Value` stands for -/
def skipOf (v : Pb.Value) : Tls.Skip :=
  if v.isNil then .unset else
  match v.Kind with
  | .BoolValue b => .bool b
  | .StringValue s => .str s
  | _ => .unset

/-- strconv.ParseBool as the model's oracle -/
def goParseBool : Str → Bool := fun s => (Go.parseBool s).1

theorem code_boolStr (env : Go.Env) (v : Pb.Value) (o : Tls.Oracle) (ho : o.parseBool = goParseBool) :
    Code.BoolStrValue env v = .ok (Tls.boolStr o (skipOf v)) := by
  unfold Code.BoolStrValue skipOf
  have hB : B "" = [] := by decide
  cases hn : v.isNil
  · cases hk : v.Kind with
    | StringValue s =>
      by_cases hs : s = []
      · simp [Pb.Value.GetStringValue, Pb.Value.GetBoolValue, hn, hk, hs, hB, Tls.boolStr, pure, Except.pure]
      · simp [Pb.Value.GetStringValue, Pb.Value.GetBoolValue, hn, hk, hs, hB, Tls.boolStr, pure, Except.pure, ho, goParseBool]
    | _ => simp [Pb.Value.GetStringValue, Pb.Value.GetBoolValue, hn, hk, hB, Tls.boolStr, pure, Except.pure]
  · simp [Pb.Value.GetStringValue, Pb.Value.GetBoolValue, hn, hB, Tls.boolStr, pure, Except.pure]

/-! ### internal/config.go: isRootPath, isCookieNameToken -/

theorem strIdx_cons_succ (a : UInt8) (t : Str) (k : Nat) : Go.strIdx (a :: t) ((k : Int) + 1) = Go.strIdx t (k : Int) := by
  unfold Go.strIdx
  have h1 : (0 : Int) ≤ (k : Int) + 1 := by omega
  have h2 : (0 : Int) ≤ (k : Int) := by omega
  have h3 : ((k : Int) + 1).toNat = k + 1 := by omega
  simp [h1, h2, h3]

theorem strIdx_cons_zero (a : UInt8) (t : Str) : Go.strIdx (a :: t) (Int.ofNat 0) = .ok a := by
  simp [Go.strIdx]

/-- a counting loop that reads `s[i]` at every index is a loop over the bytes of `s` (and never indexes out of range) -/
theorem forIn_index_loop {σ : Type} (s : Str) (st : σ) (g : UInt8 → σ → Except String (ForInStep σ)) :
    (forIn (m := Except String) ((List.range s.length).map Int.ofNat) st fun i r => (Go.strIdx s i) >>= fun c => g c r)
      = forIn s st g := by
  induction s generalizing st with
  | nil => simp
  | cons a t ih =>
    rw [List.length_cons, List.range_succ_eq_map, List.map_cons, List.map_map]
    simp only [List.forIn_cons, strIdx_cons_zero, bind, Except.bind]
    have : (forIn (List.map (Int.ofNat ∘ Nat.succ) (List.range t.length)) · fun i r => (Go.strIdx (a :: t) i) >>= fun c => g c r)
         = (forIn ((List.range t.length).map Int.ofNat) · fun i r => (Go.strIdx t i) >>= fun c => g c r) := by
      funext st'
      rw [← List.map_map, List.forIn_map, List.forIn_map, List.forIn_map]
      simp [strIdx_cons_succ]
    cases hg : g a st with
    | error e => rfl
    | ok v =>
      cases v with
      | done b => rfl
      | yield b =>
        simp only []
        have h2 := congrFun this b
        simp only [bind, Except.bind] at h2 ih ⊢
        rw [h2, ih]

theorem code_isRootPath (env : Go.Env) (p : Str) : Code.isRootPath env p = .ok (Config.isRootPath p) := by
  unfold Code.isRootPath Config.isRootPath
  have hB : B "" = [] := by decide
  simp [pure, Except.pure, hB]

/-- the per-byte test of `isCookieNameToken` as the Go source writes it -/
def badTokenByte (c : UInt8) : Bool :=
  decide (c ≤ 32) || decide (c ≥ 127) || decide (Go.indexByte (B "()<>@,;:\\\"/[]?={}") c ≥ 0)

theorem badTokenByte_spec : ∀ c : UInt8,
    badTokenByte c = !(decide (32 < c.toNat) && decide (c.toNat < 127) && !(Config.cookieSeparators.contains c)) := by
  intro c
  have h : ∀ n : Fin 256, badTokenByte (UInt8.ofNat n.val) =
      !(decide (32 < (UInt8.ofNat n.val).toNat) && decide ((UInt8.ofNat n.val).toNat < 127) && !(Config.cookieSeparators.contains (UInt8.ofNat n.val))) := by
    decide +kernel
  have := h ⟨c.toNat, c.toNat_lt⟩
  simpa using this

theorem forIn_all_bytes (s : Str) (bad : UInt8 → Bool) :
    (forIn (m := Except String) s ((none, ()) : Option Bool × Unit) fun c _ =>
        if bad c = true then Except.ok (ForInStep.done (some false, ())) else Except.ok (ForInStep.yield (none, ())))
      = .ok (if s.any bad then (some false, ()) else (none, ())) := by
  induction s with
  | nil => simp [pure, Except.pure]
  | cons a t ih =>
    simp only [List.forIn_cons, List.any_cons]
    by_cases h : bad a = true
    · simp [h, bind, Except.bind, pure, Except.pure]
    · have h' : bad a = false := by simpa using h
      simp [h', bind, Except.bind]
      simpa using ih

theorem code_isCookieNameToken (env : Go.Env) (s : Str) :
    Code.isCookieNameToken env s = .ok (Config.isCookieNameToken s) := by
  unfold Code.isCookieNameToken
  simp only [Go.range, Go.len, Int.toNat_natCast]
  have hloop := forIn_index_loop s ((none, ()) : Option Bool × Unit) (fun c _ =>
    if badTokenByte c = true then Except.ok (ForInStep.done (some false, ())) else Except.ok (ForInStep.yield (none, ())))
  simp only [badTokenByte, pure, Except.pure] at hloop ⊢
  erw [hloop]
  have hall := forIn_all_bytes s badTokenByte
  simp only [badTokenByte] at hall
  erw [hall]
  unfold Config.isCookieNameToken
  by_cases h : s.any badTokenByte = true
  · have hno : s.all (fun c => decide (32 < c.toNat) && decide (c.toNat < 127) && !(Config.cookieSeparators.contains c)) = false := by
      rw [List.any_eq_true] at h
      obtain ⟨c, hc, hb⟩ := h
      rw [badTokenByte_spec] at hb
      apply Bool.eq_false_iff.mpr
      intro hall2
      rw [List.all_eq_true] at hall2
      have := hall2 c hc
      rw [this] at hb
      exact absurd hb (by decide)
    clear hloop hall
    simp [h, bind, Except.bind]
    simpa using hno
  · have h' : s.any badTokenByte = false := by simpa using h
    have hyes : s.all (fun c => decide (32 < c.toNat) && decide (c.toNat < 127) && !(Config.cookieSeparators.contains c)) = true := by
      rw [List.all_eq_true]
      intro c hc
      have hb : badTokenByte c = false := by
        cases hb : badTokenByte c
        · rfl
        · exact absurd (List.any_eq_true.mpr ⟨c, hc, hb⟩) (by simp [h'])
      rw [badTokenByte_spec] at hb
      simpa using hb
    clear hloop hall
    simp [h', bind, Except.bind]
    simpa using hyes

end AuthModel
