/-
  `ExtAuthZFilter.Check` as translated from /repo (AuthModel/Generated/CodeAuthz.lean) against a functional
  specification over the same protobuf mirrors (`checkSpec`): trigger rules first; then the first chain, in configuration
  order, whose criterion the request satisfies judges; its filters run one after the other on the response accumulated so
  far and evaluation stops at the first filter that does not allow (its response is returned as it is) or fails (the error
  is returned, no verdict); no matching chain: denied unless unmatched requests are explicitly allowed.

  `code_check : Code.Check env handlers e req = checkSpec env handlers e req` holds for EVERY filter object, request and
  handler behaviour - including the run-time panics of the Go code (nil messages, a filter whose type `Check` does not
  know, a handler that leaves `resp.Status` nil), which are `.error` values on both sides.  The two nested `for` loops with
  early returns are related to the recursive specification through `inner_rel` / `outer_rel`.
-/
import AuthProofs.CodeEquiv
set_option linter.unusedSimpArgs false
set_option linter.unusedVariables false
namespace AuthModel
open Str Go Pb

/-- one filter of the judging chain, given the response accumulated so far: `.inl` = Check returns this, `.inr` = the
    filter allowed, go on with the response it left behind -/
def filterStepPb (h : Pb.Handlers) (req : CheckRequest) (f : Pb.Filter) (resp : CheckResponse) :
    M (Sum (CheckResponse × Go.Error) CheckResponse) :=
  let run (hd : Pb.Handler) : M (Sum (CheckResponse × Go.Error) CheckResponse) :=
    match hd.Process! req resp with
    | .error e => .error e
    | .ok (resp', err) =>
      if !err.isNil then .ok (.inl ({ isNil := true }, err))
      else match resp'.Status! with
        | .error e => .error e
        | .ok st => match st.Code! with
          | .error e => .error e
          | .ok code => if code == 0 then .ok (.inr resp') else .ok (.inl (resp', {}))
  if f.isNil then nilPanic else
  match f.Type_ with
  | .Mock ft => run (h.newMock ft.Mock)
  | .Oidc ft =>
    if !(h.newOIDC ft.Oidc).2.isNil then .ok (.inl ({ isNil := true }, (h.newOIDC ft.Oidc).2))
    else run (h.newOIDC ft.Oidc).1
  | _ => run {}

def runFiltersPb (h : Pb.Handlers) (req : CheckRequest) : List Pb.Filter → CheckResponse → M (CheckResponse × Go.Error)
  | [], resp => .ok (resp, {})
  | f :: fs, resp =>
    match filterStepPb h req f resp with
    | .error e => .error e
    | .ok (.inl r) => .ok r
    | .ok (.inr resp') => runFiltersPb h req fs resp'

abbrev InnerSt := Option (CheckResponse × Go.Error) × Go.Error × CheckResponse

/-- the inner loop, related to `runFiltersPb` up to the two bookkeeping components of the loop state -/
def InnerRel (x : M InnerSt) (y : M (CheckResponse × Go.Error)) : Prop :=
  match x, y with
  | .error a, .error b => a = b
  | .ok (some r, _, _), .ok r' => r = r'
  | .ok (none, _, resp), .ok r' => r' = (resp, {})
  | _, _ => False

/-- what one pass of the inner loop body does, against `filterStepPb` -/
def FilterRel (x : M (Sum (CheckResponse × Go.Error) CheckResponse)) (y : M (ForInStep InnerSt)) : Prop :=
  match x, y with
  | .error a, .error b => a = b
  | .ok (.inl res), .ok (.done (some res', _, _)) => res = res'
  | .ok (.inr r'), .ok (.yield (none, _, r'')) => r' = r''
  | _, _ => False

theorem inner_rel (h : Pb.Handlers) (req : CheckRequest) (body : Pb.Filter → InnerSt → M (ForInStep InnerSt))
    (hb : ∀ f e r, FilterRel (filterStepPb h req f r) (body f (none, e, r))) :
    ∀ fs e r v, forIn fs (none, e, r) body = v → InnerRel v (runFiltersPb h req fs r) := by
  intro fs
  induction fs with
  | nil => intro e r v hv; subst hv; simp [InnerRel, runFiltersPb, pure, Except.pure]
  | cons f t ih =>
    intro e r v hv
    subst hv
    have hf := hb f e r
    unfold FilterRel at hf
    simp only [List.forIn_cons, runFiltersPb, bind, Except.bind]
    cases h1 : filterStepPb h req f r with
    | error a =>
      cases h2 : body f (none, e, r) with
      | error b => simp [h1, h2] at hf; simp [InnerRel, hf]
      | ok st => simp [h1, h2] at hf
    | ok sr =>
      cases h2 : body f (none, e, r) with
      | error b => cases sr <;> simp [h1, h2] at hf
      | ok st =>
        cases sr with
        | inl res =>
          cases st with
          | done s' =>
            obtain ⟨o, e', r'⟩ := s'
            cases o with
            | none => simp [h1, h2] at hf
            | some res' => simp [h1, h2] at hf; simp [InnerRel, pure, Except.pure, hf]
          | yield s' => obtain ⟨o, e', r'⟩ := s'; cases o <;> simp [h1, h2] at hf
        | inr r1 =>
          cases st with
          | done s' => obtain ⟨o, e', r'⟩ := s'; cases o <;> simp [h1, h2] at hf
          | yield s' =>
            obtain ⟨o, e', r'⟩ := s'
            cases o with
            | some x => simp [h1, h2] at hf
            | none =>
              simp [h1, h2] at hf
              subst hf
              exact ih e' r1 _ rfl

def chainStepPb (_env : Go.Env) (h : Pb.Handlers) (req : CheckRequest) (c : Pb.FilterChain) : M (Option (CheckResponse × Go.Error)) :=
  if c.isNil then nilPanic
  else if !chainMatches (matchOf c.Match) (httpOf req).GetHeaders then .ok none
  else if c.Filters.length == 0 then .ok (some (Code.allow, {}))
  else match runFiltersPb h req c.Filters CheckResponse.new with
    | .error e => .error e
    | .ok r => .ok (some r)

def runChainsPb (env : Go.Env) (h : Pb.Handlers) (req : CheckRequest) : List Pb.FilterChain → M (Option (CheckResponse × Go.Error))
  | [] => .ok none
  | c :: cs =>
    match chainStepPb env h req c with
    | .error e => .error e
    | .ok (some r) => .ok (some r)
    | .ok none => runChainsPb env h req cs

/-- `Check`, as a function: untriggered requests are allowed; otherwise the first chain whose criterion the request
    satisfies judges (its filters one after the other, stopping at the first that does not allow or fails); when no
    chain matches the request is allowed only if unmatched requests are explicitly allowed -/
def checkSpec (env : Go.Env) (h : Pb.Handlers) (e : Pb.ExtAuthZFilter) (req : CheckRequest) : M (CheckResponse × Go.Error) :=
  if e.isNil then nilPanic else if e.cfg.isNil then nilPanic
  else if !mustTrigger (reOf env) (e.cfg.TriggerRules.map ruleOf) (httpOf req).GetPath then .ok (Code.allow, {})
  else match runChainsPb env h req e.cfg.Chains with
    | .error x => .error x
    | .ok (some r) => .ok r
    | .ok none => .ok (if e.cfg.AllowUnmatchedRequests then (Code.allow, {}) else (Code.deny 7 (B "no chains matched"), {}))

abbrev OuterSt := Option (CheckResponse × Go.Error) × Go.Error

def OuterRel (x : M OuterSt) (y : M (Option (CheckResponse × Go.Error))) : Prop :=
  match x, y with
  | .error a, .error b => a = b
  | .ok (some r, _), .ok (some r') => r = r'
  | .ok (none, _), .ok none => True
  | _, _ => False

def ChainRel (x : M (Option (CheckResponse × Go.Error))) (y : M (ForInStep OuterSt)) : Prop :=
  match x, y with
  | .error a, .error b => a = b
  | .ok (some r), .ok (.done (some r', _)) => r = r'
  | .ok none, .ok (.yield (none, _)) => True
  | _, _ => False

theorem outer_rel (env : Go.Env) (h : Pb.Handlers) (req : CheckRequest) (body : Pb.FilterChain → OuterSt → M (ForInStep OuterSt))
    (hb : ∀ c e, ChainRel (chainStepPb env h req c) (body c (none, e))) :
    ∀ cs e v, forIn cs (none, e) body = v → OuterRel v (runChainsPb env h req cs) := by
  intro cs
  induction cs with
  | nil => intro e v hv; subst hv; simp [OuterRel, runChainsPb, pure, Except.pure]
  | cons c t ih =>
    intro e v hv
    subst hv
    have hc := hb c e
    unfold ChainRel at hc
    simp only [List.forIn_cons, runChainsPb, bind, Except.bind]
    cases h1 : chainStepPb env h req c with
    | error a =>
      cases h2 : body c (none, e) with
      | error b => simp [h1, h2] at hc; simp [OuterRel, hc]
      | ok st => simp [h1, h2] at hc
    | ok sr =>
      cases h2 : body c (none, e) with
      | error b => cases sr <;> simp [h1, h2] at hc
      | ok st =>
        cases sr with
        | some res =>
          cases st with
          | done s' =>
            obtain ⟨o, e'⟩ := s'
            cases o with
            | none => simp [h1, h2] at hc
            | some res' => simp [h1, h2] at hc; simp [OuterRel, pure, Except.pure, hc]
          | yield s' => obtain ⟨o, e'⟩ := s'; cases o <;> simp [h1, h2] at hc
        | none =>
          cases st with
          | done s' => obtain ⟨o, e'⟩ := s'; cases o <;> simp [h1, h2] at hc
          | yield s' =>
            obtain ⟨o, e'⟩ := s'
            cases o with
            | some x => simp [h1, h2] at hc
            | none => exact ih e' _ rfl

set_option hygiene false in
local macro "filter_body_tac" : tactic => `(tactic| (
  intro f e1 r1
  dsimp only
  unfold filterStepPb FilterRel
  cases hfn : f.isNil
  · simp only [Filter.Type_!, hfn, pure, Except.pure, if_false, Bool.false_eq_true]
    cases hty : f.Type_ with
    | Mock ft =>
      simp only [Filter_Mock.Mock!, pure, Except.pure]
      cases hp : (h.newMock ft.Mock).Process! req r1 with
      | error a => simp [hp]
      | ok pr =>
        obtain ⟨resp', err'⟩ := pr
        cases hen : err'.isNil
        · simp [hp, hen]
        · simp only [hp, hen, Bool.not_true, Bool.false_eq_true, if_false]
          cases hs : resp'.Status! with
          | error a => simp [hs]
          | ok st =>
            cases hcd : st.Code! with
            | error a => simp [hs, hcd]
            | ok code => by_cases hz : code = 0 <;> simp [hs, hcd, hz]
    | Oidc ft =>
      simp only [Filter_Oidc.Oidc!, pure, Except.pure]
      cases hoe : (h.newOIDC ft.Oidc).2.isNil
      · simp [hoe]
      · simp only [hoe, Bool.not_true, Bool.false_eq_true, if_false]
        cases hp : (h.newOIDC ft.Oidc).1.Process! req r1 with
        | error a => simp [hp]
        | ok pr =>
          obtain ⟨resp', err'⟩ := pr
          cases hen : err'.isNil
          · simp [hp, hen]
          · simp only [hp, hen, Bool.not_true, Bool.false_eq_true, if_false]
            cases hs : resp'.Status! with
            | error a => simp [hs]
            | ok st =>
              cases hcd : st.Code! with
              | error a => simp [hs, hcd]
              | ok code => by_cases hz : code = 0 <;> simp [hs, hcd, hz]
    | nil => simp [Handler.Process!, nilPanic]
    | Other => simp [Handler.Process!, nilPanic]
  · simp [Filter.Type_!, hfn, nilPanic]))

set_option hygiene false in
local macro "chain_body_tac" : tactic => `(tactic| (
  intro c e0
  dsimp only
  unfold chainStepPb
  cases hcn : c.isNil
  · simp only [FilterChain.Match!, FilterChain.Filters!, hcn, pure, Except.pure, if_false, Bool.false_eq_true]
    cases hm : chainMatches (matchOf c.Match) (httpOf req).GetHeaders
    · simp [ChainRel]
    · simp only [Bool.not_true, Bool.false_eq_true, if_false]
      cases hfl : c.Filters with
      | nil => simp [ChainRel, Go.len]
      | cons f0 ft =>
        have hlen : (Go.len (f0 :: ft) == 0) = false := by simp [Go.len]; omega
        simp only [hlen, List.length_cons, Bool.false_eq_true, if_false]
        have hl2 : ((ft.length + 1) == 0) = false := by simp
        simp only [hl2, Bool.false_eq_true, if_false]
        cases hr : runFiltersPb h req (f0 :: ft) CheckResponse.new with
        | error a =>
          simp only []
          split
          · rename_i err2 heq2
            have hin := inner_rel h req _ (by filter_body_tac) _ _ _ _ heq2
            rw [hr] at hin
            simp [InnerRel] at hin
            simp [ChainRel, hin]
          · rename_i v2 heq2
            have hin := inner_rel h req _ (by filter_body_tac) _ _ _ _ heq2
            rw [hr] at hin
            obtain ⟨o, e', r'⟩ := v2
            cases o <;> simp [InnerRel] at hin
        | ok rr =>
          simp only []
          split
          · rename_i err2 heq2
            have hin := inner_rel h req _ (by filter_body_tac) _ _ _ _ heq2
            rw [hr] at hin
            simp [InnerRel] at hin
          · rename_i v2 heq2
            have hin := inner_rel h req _ (by filter_body_tac) _ _ _ _ heq2
            rw [hr] at hin
            obtain ⟨o, e', r'⟩ := v2
            cases o with
            | none => simp [InnerRel] at hin; simp [ChainRel, hin]
            | some r2 => simp [InnerRel] at hin; simp [ChainRel, hin]
  · simp [FilterChain.Match!, hcn, nilPanic, ChainRel]))

theorem code_check (env : Go.Env) (h : Pb.Handlers) (e : Pb.ExtAuthZFilter) (req : Pb.CheckRequest) :
    Code.Check env h e req = checkSpec env h e req := by
  unfold Code.Check checkSpec
  simp only [code_mustTriggerCheck, code_matches]
  cases he : e.isNil
  · cases hc : e.cfg.isNil
    · simp only [ExtAuthZFilter.cfg!, Config.TriggerRules!, Config.Chains!, Config.AllowUnmatchedRequests!, he, hc,
        bind, Except.bind, pure, Except.pure, if_false, Bool.false_eq_true]
      cases ht : mustTrigger (reOf env) (List.map ruleOf e.cfg.TriggerRules) (httpOf req).GetPath
      · simp
      · simp only [Bool.not_true, Bool.false_eq_true, if_false]
        split
        · rename_i err heq
          have hrel := outer_rel env h req _ (by clear heq; chain_body_tac) _ _ _ heq
          cases hrc : runChainsPb env h req e.cfg.Chains with
          | error b => rw [hrc] at hrel; simp [OuterRel] at hrel; simp [hrel]
          | ok ov => rw [hrc] at hrel; cases ov <;> simp [OuterRel] at hrel
        · rename_i v heq
          have hrel := outer_rel env h req _ (by clear heq; chain_body_tac) _ _ _ heq
          obtain ⟨o, e'⟩ := v
          cases hrc : runChainsPb env h req e.cfg.Chains with
          | error b => rw [hrc] at hrel; cases o <;> simp [OuterRel] at hrel
          | ok ov =>
            rw [hrc] at hrel
            cases o with
            | none =>
              cases ov <;> simp [OuterRel] at hrel
              cases e.cfg.AllowUnmatchedRequests <;> simp
            | some r => cases ov <;> simp [OuterRel] at hrel; simp [hrel]
    · simp [ExtAuthZFilter.cfg!, Config.TriggerRules!, he, hc, bind, Except.bind, nilPanic, pure, Except.pure]
  · simp [ExtAuthZFilter.cfg!, he, bind, Except.bind, nilPanic]
/-! ### consequences, in the words of the property -/

theorem runChainsPb_first_match (env : Go.Env) (h : Pb.Handlers) (req : CheckRequest) (pre post : List Pb.FilterChain) (c : Pb.FilterChain)
    (hpre : ∀ x ∈ pre, x.isNil = false ∧ chainMatches (matchOf x.Match) (httpOf req).GetHeaders = false)
    (hc : c.isNil = false ∧ chainMatches (matchOf c.Match) (httpOf req).GetHeaders = true) :
    runChainsPb env h req (pre ++ c :: post) = chainStepPb env h req c := by
  induction pre with
  | nil =>
    simp only [List.nil_append, runChainsPb]
    have : ∃ r, chainStepPb env h req c = .error r ∨ ∃ v, chainStepPb env h req c = .ok (some v) := by
      unfold chainStepPb
      simp only [hc.1, hc.2, Bool.not_true, Bool.false_eq_true, if_false]
      split
      · exact ⟨"", Or.inr ⟨_, rfl⟩⟩
      · cases runFiltersPb h req c.Filters CheckResponse.new with
        | error a => exact ⟨a, Or.inl rfl⟩
        | ok r => exact ⟨"", Or.inr ⟨r, rfl⟩⟩
    obtain ⟨r, hr | ⟨v, hv⟩⟩ := this
    · simp [hr]
    · simp [hv]
  | cons x t ih =>
    have hx := hpre x (by simp)
    have : chainStepPb env h req x = .ok none := by simp [chainStepPb, hx.1, hx.2]
    simp only [List.cons_append, runChainsPb, this]
    exact ih (fun y hy => hpre y (by simp [hy]))

theorem runChainsPb_none (env : Go.Env) (h : Pb.Handlers) (req : CheckRequest) (cs : List Pb.FilterChain)
    (hcs : ∀ x ∈ cs, x.isNil = false ∧ chainMatches (matchOf x.Match) (httpOf req).GetHeaders = false) :
    runChainsPb env h req cs = .ok none := by
  induction cs with
  | nil => rfl
  | cons x t ih =>
    have hx := hcs x (by simp)
    have : chainStepPb env h req x = .ok none := by simp [chainStepPb, hx.1, hx.2]
    simp only [runChainsPb, this]
    exact ih (fun y hy => hcs y (by simp [hy]))

/-- filters that allow: each leaves a response with an OK status and no error -/
def StepAllows (h : Pb.Handlers) (req : CheckRequest) (f : Pb.Filter) (r r' : CheckResponse) : Prop :=
  filterStepPb h req f r = .ok (.inr r')

/-- `pre` allow one after the other, taking the response from `r` to `r'` -/
inductive AllAllowPb (h : Pb.Handlers) (req : CheckRequest) : List Pb.Filter → CheckResponse → CheckResponse → Prop
  | nil (r) : AllAllowPb h req [] r r
  | cons (f fs r r1 r2) : StepAllows h req f r r1 → AllAllowPb h req fs r1 r2 → AllAllowPb h req (f :: fs) r r2

theorem runFiltersPb_stops (h : Pb.Handlers) (req : CheckRequest) (pre post : List Pb.Filter) (f : Pb.Filter) (r r' : CheckResponse)
    (res : CheckResponse × Go.Error) (hpre : AllAllowPb h req pre r r') (hf : filterStepPb h req f r' = .ok (.inl res)) :
    runFiltersPb h req (pre ++ f :: post) r = .ok res := by
  induction hpre with
  | nil r => simp [runFiltersPb, hf]
  | cons f1 fs r0 r1 r2 h1 _ ih => simp only [List.cons_append, runFiltersPb, StepAllows] at *; simp [h1, ih hf]

theorem runFiltersPb_all (h : Pb.Handlers) (req : CheckRequest) (fs : List Pb.Filter) (r r' : CheckResponse)
    (hall : AllAllowPb h req fs r r') : runFiltersPb h req fs r = .ok (r', {}) := by
  induction hall with
  | nil r => rfl
  | cons f1 fs r0 r1 r2 h1 _ ih => simp only [runFiltersPb, StepAllows] at *; simp [h1, ih]

end AuthModel

namespace AuthModel
open Str Go Pb

/-- handlers as the two constructors of the code base produce them: never a nil handler without an error, and a `Process`
    that either reports an error or leaves a response whose status is set (mock: `resp.Status = &status.Status{…}`;
    OIDC: every path of `Process` ends in `setDenyResponse` or `allowResponse`, C15 `verdict_wellformed`) -/
def HandlersWF (h : Pb.Handlers) : Prop :=
  (∀ m, (h.newMock m).isNil = false ∧ ∀ req r, let p := (h.newMock m).process req r
      p.2.isNil = true → p.1.isNil = false ∧ p.1.Status.isNil = false) ∧
  (∀ o, (h.newOIDC o).2.isNil = true → (h.newOIDC o).1.isNil = false ∧ ∀ req r, let p := (h.newOIDC o).1.process req r
      p.2.isNil = true → p.1.isNil = false ∧ p.1.Status.isNil = false)

/-- a loaded configuration: no nil messages in the repeated fields (protobuf decoding never produces them) and every
    filter is a mock or an OIDC filter (C17 `accepted_resolved`) -/
def FiltersWF (fs : List Pb.Filter) : Prop :=
  ∀ f ∈ fs, f.isNil = false ∧ ((∃ m, f.Type_ = .Mock m) ∨ (∃ o, f.Type_ = .Oidc o))

theorem filterStepPb_ok (h : Pb.Handlers) (hw : HandlersWF h) (req : CheckRequest) (f : Pb.Filter) (r : CheckResponse)
    (hf : f.isNil = false ∧ ((∃ m, f.Type_ = .Mock m) ∨ (∃ o, f.Type_ = .Oidc o))) :
    ∃ v, filterStepPb h req f r = .ok v := by
  unfold filterStepPb
  simp only [hf.1, Bool.false_eq_true, if_false]
  rcases hf.2 with ⟨m, hm⟩ | ⟨o, ho⟩
  · simp only [hm]
    have h1 := hw.1 m.Mock
    have h2 := h1.2 req r
    simp only [Handler.Process!, h1.1, Bool.false_eq_true, if_false, pure, Except.pure]
    cases he : ((h.newMock m.Mock).process req r).2.isNil
    · simp [he]
    · have := h2 he
      simp [he, CheckResponse.Status!, Status.Code!, this.1, this.2, pure, Except.pure]
      split <;> simp
  · simp only [ho]
    cases hoe : (h.newOIDC o.Oidc).2.isNil
    · simp [hoe]
    · have h1 := hw.2 o.Oidc hoe
      have h2 := h1.2 req r
      simp only [hoe, Bool.not_true, Bool.false_eq_true, if_false, Handler.Process!, h1.1, pure, Except.pure]
      cases he : ((h.newOIDC o.Oidc).1.process req r).2.isNil
      · simp [he]
      · have := h2 he
        simp [he, CheckResponse.Status!, Status.Code!, this.1, this.2, pure, Except.pure]
        split <;> simp

theorem runFiltersPb_ok (h : Pb.Handlers) (hw : HandlersWF h) (req : CheckRequest) (fs : List Pb.Filter) (hfs : FiltersWF fs) :
    ∀ r, ∃ v, runFiltersPb h req fs r = .ok v := by
  induction fs with
  | nil => intro r; exact ⟨_, rfl⟩
  | cons f t ih =>
    intro r
    obtain ⟨v, hv⟩ := filterStepPb_ok h hw req f r (hfs f (by simp))
    simp only [runFiltersPb, hv]
    cases v with
    | inl res => exact ⟨_, rfl⟩
    | inr r' => exact ih (fun g hg => hfs g (by simp [hg])) r'

theorem runChainsPb_ok (env : Go.Env) (h : Pb.Handlers) (hw : HandlersWF h) (req : CheckRequest) (cs : List Pb.FilterChain)
    (hcs : ∀ c ∈ cs, c.isNil = false ∧ FiltersWF c.Filters) : ∃ v, runChainsPb env h req cs = .ok v := by
  induction cs with
  | nil => exact ⟨_, rfl⟩
  | cons c t ih =>
    have hc := hcs c (by simp)
    simp only [runChainsPb, chainStepPb, hc.1, Bool.false_eq_true, if_false]
    cases hm : chainMatches (matchOf c.Match) (httpOf req).GetHeaders
    · simpa using ih (fun d hd => hcs d (by simp [hd]))
    · simp only [Bool.not_true, Bool.false_eq_true, if_false]
      by_cases hl : (c.Filters.length == 0) = true
      · simp [hl]
      · obtain ⟨v, hv⟩ := runFiltersPb_ok h hw req c.Filters hc.2 CheckResponse.new
        simp [hl, hv]

theorem checkSpec_ok (env : Go.Env) (h : Pb.Handlers) (hw : HandlersWF h) (e : Pb.ExtAuthZFilter) (req : CheckRequest)
    (he : e.isNil = false) (hc : e.cfg.isNil = false) (hcs : ∀ c ∈ e.cfg.Chains, c.isNil = false ∧ FiltersWF c.Filters) :
    ∃ v, checkSpec env h e req = .ok v := by
  unfold checkSpec
  simp only [he, hc, Bool.false_eq_true, if_false]
  split
  · exact ⟨_, rfl⟩
  · obtain ⟨v, hv⟩ := runChainsPb_ok env h hw req e.cfg.Chains hcs
    rw [hv]
    cases v <;> exact ⟨_, rfl⟩

end AuthModel
