import AuthProofs.Paths
set_option linter.unusedSimpArgs false
set_option linter.unusedVariables false
namespace AuthModel
open Oidc

/-- an ID token passed `isValidIDToken`: it parses, the nonce clause holds, the audience contains the client id,
    the key lookup succeeded and the signature verifies under the configured key set -/
def Validated (cfg : Cfg) (o : Oracles) (tok expected : Str) (required : Bool) : Prop :=
  ∃ a, o.attrs tok = some a ∧ nonceAccepted a expected required = true ∧ cfg.clientId ∈ a.aud ∧ o.sigOK tok = true

theorem allPaths_validate {P : Trace → Resp → Prop} (cfg : Cfg) (o : Oracles) (tok en : Str) (nr : Bool)
    (fail : Nat → Prog) (ok : Prog) (tr : Trace)
    (hf1 : ∀ tr', AllPaths P (fail cInternal) tr') (hf2 : ∀ tr', AllPaths P (fail cInvalidArgument) tr')
    (hok : Validated cfg o tok en nr → AllPaths P ok ((.keys, .keys true) :: tr)) :
    AllPaths P (validateIdToken cfg o tok en nr fail ok) tr := by
  unfold validateIdToken
  cases ha : o.attrs tok with
  | none => exact hf1 _
  | some a =>
    simp only
    by_cases hn : nonceAccepted a en nr = true
    · simp only [hn, Bool.not_true, Bool.false_eq_true, if_false]
      by_cases haud : a.aud.contains cfg.clientId = true
      · simp only [haud, Bool.not_true, Bool.false_eq_true, if_false]
        intro res
        cases res with
        | keys b =>
          cases b with
          | false => exact hf1 _
          | true =>
            simp only
            by_cases hs : o.sigOK tok = true
            · simp only [hs, if_true]
              exact hok ⟨a, ha, hn, by simpa using haud, hs⟩
            · simp only [hs]; exact hf1 _
        | _ => exact hf1 _
      · simp only [haud]; exact hf2 _
    · simp only [hn]; exact hf2 _

theorem neverOK_validate (cfg : Cfg) (o : Oracles) (tok en : Str) (nr : Bool) (fail : Nat → Prog) (ok : Prog)
    (hf1 : NeverOK (fail cInternal)) (hf2 : NeverOK (fail cInvalidArgument)) (hok : NeverOK ok) :
    NeverOK (validateIdToken cfg o tok en nr fail ok) := by
  unfold validateIdToken
  cases o.attrs tok with
  | none => exact hf1
  | some a =>
    simp only
    by_cases hn : nonceAccepted a en nr = true
    · simp only [hn, Bool.not_true, Bool.false_eq_true, if_false]
      by_cases haud : a.aud.contains cfg.clientId = true
      · simp only [haud, Bool.not_true, Bool.false_eq_true, if_false]
        intro res
        cases res with
        | keys b =>
          cases b with
          | false => exact hf1
          | true =>
            simp only
            by_cases hs : o.sigOK tok = true
            · simp only [hs, if_true]; exact hok
            · simp only [hs]; exact hf1
        | _ => exact hf1
      · simp only [haud]; exact hf2
    · simp only [hn]; exact hf2

theorem neverOK_deny (c : Nat) (h : c ≠ cOK) : NeverOK (.ret (deny c)) := by simpa [NeverOK, deny] using h

/-- the callback never answers OK: its best outcome is the redirect back to the original URL -/
theorem neverOK_retrieveTokens (cfg : Cfg) (o : Oracles) (req : Req) (sid : Str) : NeverOK (retrieveTokens cfg o req sid) := by
  unfold retrieveTokens
  simp only
  split
  · simp [NeverOK, deny, cInvalidArgument, cOK]
  · split
    · simp [NeverOK, deny, cInvalidArgument, cOK]
    · split
      · simp [NeverOK, deny, cInvalidArgument, cOK]
      · intro r
        cases r with
        | auth ra =>
          cases ra with
          | err => simp [NeverOK, sessErr, cUnauthenticated, cOK]
          | ok oa =>
            cases oa with
            | none => simp [NeverOK, expired400, cUnauthenticated, cOK]
            | some a =>
              simp only
              split
              · simp [NeverOK, deny, cInvalidArgument, cOK]
              · intro ans
                cases ans with
                | idp ia =>
                  cases ia with
                  | body b =>
                    simp only
                    split
                    · simp [NeverOK, deny, cInvalidArgument, cOK]
                    · apply neverOK_validate
                      · simp [NeverOK, deny, cInternal, cOK]
                      · simp [NeverOK, deny, cInvalidArgument, cOK]
                      · intro r
                        cases r with
                        | done b =>
                          cases b with
                          | false => simp [NeverOK, sessErr, cUnauthenticated, cOK]
                          | true =>
                            intro t
                            cases t with
                            | time now =>
                              intro r2
                              cases r2 with
                              | done b2 => cases b2 <;> simp [NeverOK, sessErr, found, cUnauthenticated, cOK]
                              | _ => simp [NeverOK, sessErr, cUnauthenticated, cOK]
                            | _ => simp [NeverOK, sessErr, cUnauthenticated, cOK]
                        | _ => simp [NeverOK, sessErr, cUnauthenticated, cOK]
                  | _ => simp [NeverOK, deny, cUnknown, cInternal, cOK]
                | _ => simp [NeverOK, deny, cInternal, cOK]
        | _ => simp [NeverOK, sessErr, cUnauthenticated, cOK]

end AuthModel

namespace AuthModel
open Oidc

/-- an environment answer that reports a failure of the store, the token endpoint or the key source -/
def IsFailure : ARes → Prop
  | .done false => True
  | .tok .err => True
  | .auth .err => True
  | .idp (.body _) => False
  | .idp _ => True
  | .keys false => True
  | _ => False

/-- What justifies an OK answer for request `req`: the cookie names a session `sid`, the store returned tokens `t` for
    it during this check, and either `t` is unexpired at the clock reading of the check (fresh), or `t` carries a
    refresh token, the token endpoint answered this check's refresh request with a well-formed body, the merged
    tokens passed `isValidIDToken`, were stored successfully under `sid`, and are what is forwarded (refreshed). -/
def Justified (cfg : Cfg) (o : Oracles) (req : Req) (prev : Headers) (tr : Trace) (r : Resp) : Prop :=
  let sid := sessionIdFromCookie cfg req.cookie
  req.http = true ∧ sid ≠ [] ∧
  ∃ t a now, o.attrs t.idToken = some a ∧
    ( (tokensExpired cfg a t now = false ∧ r = allow cfg prev t ∧
        tr = [(Act.getTok sid, ARes.tok (.ok (some t))), (Act.now, ARes.time now)])
    ∨ (tokensExpired cfg a t now = true ∧ t.refreshToken ≠ [] ∧
        ∃ b now2 authAns,
          validRefreshResponse b = true ∧
          Validated cfg o (mergeTokens o t b now2).idToken (match authAns with | some x => x.nonce | none => []) false ∧
          r = allow cfg prev (mergeTokens o t b now2) ∧
          tr = [(Act.getTok sid, ARes.tok (.ok (some t))), (Act.now, ARes.time now),
                (Act.idp (.refresh cfg.tokenUri t.refreshToken cfg.clientId cfg.clientSecret), ARes.idp (.body b)),
                (Act.now, ARes.time now2), (Act.getAuth sid, ARes.auth (.ok authAns)), (Act.keys, ARes.keys true),
                (Act.setTok sid (mergeTokens o t b now2), ARes.done true)]) )

theorem mem_rev_cons {α} (x y : α) (l : List α) (h : x ∈ l.reverse) : x ∈ (y :: l).reverse := by
  simp at h ⊢; exact Or.inl h

theorem mem_rev_head {α} (x : α) (l : List α) : x ∈ (x :: l).reverse := by simp

/-- FAIL CLOSED, single check, any environment: on every path of `Process` an OK answer is justified. -/
theorem process_ok_justified (cfg : Cfg) (o : Oracles) (req : Req) (prev : Headers) :
    AllPaths (fun tr r => r.code = cOK → Justified cfg o req prev tr r) (process cfg o req prev) [] := by
  unfold process
  by_cases hhttp : req.http = true
  · simp only [hhttp, Bool.not_true, Bool.false_eq_true, if_false]
    by_cases hlo : matchesLogout cfg req = true
    · simp only [hlo, if_true]
      split
      · intro r
        cases r with
        | done b => cases b <;> (intro hc; simp [sessErr, logoutResp, redirectWithCookie, cUnauthenticated, cOK] at hc)
        | _ => intro hc; simp [sessErr, cUnauthenticated, cOK] at hc
      · intro hc; simp [logoutResp, redirectWithCookie, cUnauthenticated, cOK] at hc
    · simp only [hlo, Bool.false_eq_true, if_false]
      by_cases hsid : sessionIdFromCookie cfg req.cookie = []
      · simp only [hsid, if_true]
        exact allPaths_of_neverOK (neverOK_redirectToIdp cfg o req []) _
      · simp only [hsid, if_false]
        by_cases hcb : matchesCallback cfg req = true
        · simp only [hcb, if_true]
          exact allPaths_of_neverOK (neverOK_retrieveTokens cfg o req _) _
        · simp only [hcb, Bool.false_eq_true, if_false]
          intro r
          cases r with
          | tok rt =>
            cases rt with
            | err => intro hc; simp [sessErr, cUnauthenticated, cOK] at hc
            | ok ot =>
              cases ot with
              | none => exact allPaths_of_neverOK (neverOK_redirectToIdp cfg o req _) _
              | some t =>
                simp only
                cases ha : o.attrs t.idToken with
                | none => intro hc; simp [deny, cInternal, cOK] at hc
                | some a =>
                  simp only
                  intro tm
                  cases tm with
                  | time now =>
                    simp only
                    by_cases hexp : tokensExpired cfg a t now = true
                    · simp only [hexp, Bool.not_true, Bool.false_eq_true, if_false]
                      by_cases hrt : t.refreshToken = []
                      · simp only [hrt, if_true]
                        exact allPaths_of_neverOK (neverOK_redirectToIdp cfg o req _) _
                      · simp only [hrt, if_false]
                        -- the refresh path
                        unfold refreshPath
                        intro ans
                        cases ans with
                        | idp ia =>
                          cases ia with
                          | body b =>
                            simp only
                            by_cases hv : validRefreshResponse b = true
                            · simp only [hv, Bool.not_true, Bool.false_eq_true, if_false]
                              intro tm2
                              cases tm2 with
                              | time now2 =>
                                simp only
                                intro ra
                                cases ra with
                                | auth raa =>
                                  cases raa with
                                  | err => exact allPaths_of_neverOK (neverOK_redirectToIdp cfg o req _) _
                                  | ok authAns =>
                                    simp only
                                    apply allPaths_validate
                                    · intro tr'; exact allPaths_of_neverOK (neverOK_redirectToIdp cfg o req _) _
                                    · intro tr'; exact allPaths_of_neverOK (neverOK_redirectToIdp cfg o req _) _
                                    · intro hval rs
                                      cases rs with
                                      | done bs =>
                                        cases bs with
                                        | false => intro hc; simp [sessErr, cUnauthenticated, cOK] at hc
                                        | true =>
                                          intro _
                                          exact ⟨hhttp, hsid, t, a, now, ha, Or.inr ⟨hexp, hrt, b, now2, authAns, hv, hval, rfl, by simp⟩⟩
                                      | _ => intro hc; simp [sessErr, cUnauthenticated, cOK] at hc
                                | _ => exact allPaths_of_neverOK (neverOK_redirectToIdp cfg o req _) _
                              | _ => intro hc; simp [sessErr, cUnauthenticated, cOK] at hc
                            · simp only [hv]
                              exact allPaths_of_neverOK (neverOK_redirectToIdp cfg o req _) _
                          | _ => exact allPaths_of_neverOK (neverOK_redirectToIdp cfg o req _) _
                        | _ => exact allPaths_of_neverOK (neverOK_redirectToIdp cfg o req _) _
                    · have hexp' : tokensExpired cfg a t now = false := by simpa using hexp
                      simp only [hexp', Bool.not_false, if_true]
                      intro _
                      exact ⟨hhttp, hsid, t, a, now, ha, Or.inl ⟨hexp', rfl, by simp⟩⟩
                  | _ => intro hc; simp [sessErr, cUnauthenticated, cOK] at hc
          | _ => intro hc; simp [sessErr, cUnauthenticated, cOK] at hc
  · have : req.http = false := by simpa using hhttp
    simp only [this, Bool.not_false, if_true]
    intro hc; simp [deny, cInvalidArgument, cOK] at hc


/-- FAULTS NEVER LEAD TO OK: on a path that ends in OK no store call, token-endpoint call or key lookup failed
    (before or after taking effect - the model does not distinguish, the answer to the handler is the same error). -/
theorem process_fault_never_ok (cfg : Cfg) (o : Oracles) (req : Req) (prev : Headers) :
    AllPaths (fun tr r => r.code = cOK → ∀ x ∈ tr, ¬ IsFailure x.2) (process cfg o req prev) [] := by
  apply allPaths_mono _ (process_ok_justified cfg o req prev)
  intro tr r h hc x hx
  obtain ⟨_, _, t, a, now, _, hcase⟩ := h hc
  rcases hcase with ⟨_, _, htr⟩ | ⟨_, _, b, now2, authAns, _, _, _, htr⟩
  · subst htr; simp at hx; rcases hx with rfl | rfl <;> simp [IsFailure]
  · subst htr; simp at hx
    rcases hx with rfl | rfl | rfl | rfl | rfl | rfl | rfl <;> simp [IsFailure]

end AuthModel
