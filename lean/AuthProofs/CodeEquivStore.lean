/-
  `memoryStore.live` of internal/oidc/memory.go, as translated from the source (Generated/CodeStore.lean), against
  `MemStore.live` of the store model (AuthModel/Store/Memory.lean): the one place where the in-memory store decides
  whether a session is still inside its absolute and idle timeouts (every Get/Set/Clear goes through it).

  The Go map of session pointers is read as a value (`Go.MapOf Session`): `live` itself only looks a session up, reads
  its two timestamps and deletes the entry; it never writes through the pointer it returns.  What its CALLERS do with
  that pointer (`set`, the getters: update `accessed`, store tokens) is the hand-written model tied by the differential
  run, not this file.
-/
import AuthModel.Generated.CodeStore
import AuthModel.Store.Memory
import AuthModel.Store.Redis
set_option linter.unusedSimpArgs false
namespace AuthModel.CodeEquiv
open AuthModel AuthModel.Str

def tokensOf (t : Pb.TokenResponse) : Option Tokens :=
  if t.isNil then none
  else some { idToken := t.IDToken, accessToken := t.AccessToken, refreshToken := t.RefreshToken,
              accessExp := t.AccessTokenExpiresAt.unixNano }

def authOf (a : Pb.AuthorizationState) : Option AuthState :=
  if a.isNil then none
  else some { state := a.State, nonce := a.Nonce, requestedUrl := a.RequestedURL, codeVerifier := a.CodeVerifier }

/-- the model's session record for a `*session`; a zero `time.Time` (never stored: `newSession(clock.Now())`) reads as 0 -/
def sessOf (s : Pb.Session) : MSess :=
  { tokens := tokensOf s.tokenResponse, auth := authOf s.authorizationState,
    added := s.added.unixNano.getD 0, accessed := s.accessed.unixNano.getD 0 }

/-- what a `*session` returned by the code stands for: nil is "absent" -/
def sessOpt (s : Pb.Session) : Option MSess := if s.isNil then none else some (sessOf s)

/-- the model store a `*memoryStore` stands for -/
def storeOf (m : Pb.MemoryStore) : MemStore :=
  { abs := m.absoluteSessionTimeout, idle := m.idleSessionTimeout,
    sessions := fun id => match m.sessions.find? (·.1 == id) with
      | some kv => some (sessOf kv.2)
      | none => none }

/-- what the store's own code maintains: no nil pointers in the map, and every session carries the clock readings it
    was created and last accessed at (`newSession(m.clock.Now())`, `s.accessed = m.clock.Now()`) -/
def StoreWF (m : Pb.MemoryStore) : Prop :=
  m.isNil = false ∧ ∀ kv ∈ m.sessions, kv.2.isNil = false ∧ kv.2.added.unixNano.isSome ∧ kv.2.accessed.unixNano.isSome

theorem find_delete {α : Type} (m : Go.MapOf α) (id k : Str) :
    (Go.MapOf.delete m id).find? (·.1 == k) = if k = id then none else m.find? (·.1 == k) := by
  unfold Go.MapOf.delete
  induction m with
  | nil => simp
  | cons kv t ih =>
    by_cases h1 : kv.1 = id
    · by_cases h2 : k = id
      · simp [List.filter_cons, h1, h2] at ih ⊢ <;> exact ih
      · have : ¬ id = k := fun h => h2 h.symm
        simp [List.filter_cons, List.find?_cons, h1, h2, this] at ih ⊢ <;> exact ih
    · by_cases h2 : k = id
      · have : ¬ kv.1 = k := by rw [h2]; exact h1
        simp [List.filter_cons, List.find?_cons, h1, h2, this] at ih ⊢ <;> exact ih
      · by_cases h3 : kv.1 = k
        · simp [List.filter_cons, List.find?_cons, h1, h2, h3]
        · simp [List.filter_cons, List.find?_cons, h1, h2, h3] at ih ⊢ <;> exact ih

theorem find_mem {α : Type} (m : Go.MapOf α) (k : Str) (kv : Str × α) (h : m.find? (·.1 == k) = some kv) : kv ∈ m :=
  List.mem_of_find?_eq_some h

theorem before_add (a d now : Int) :
    Go.Time.before (Go.Time.add { unixNano := some a } d) { unixNano := some now } = decide (a + d < now) := by
  simp [Go.Time.before, Go.Time.add]

/-- THE CODE's `live` is the model's `live`: same answer (absent / the session), same store afterwards (an expired
    session is deleted, nothing else changes), no panic, and the store stays well-formed -/
theorem code_live (env : Go.Env) (m : Pb.MemoryStore) (id : Str) (now : Int)
    (hwf : StoreWF m) (hnow : env.now.unixNano = some now) :
    ∃ s m', Code.live env m id = .ok (s, m') ∧
      sessOpt s = ((storeOf m).live now id).2 ∧
      (storeOf m').abs = (storeOf m).abs ∧ (storeOf m').idle = (storeOf m).idle ∧
      (∀ k, (storeOf m').sessions k = ((storeOf m).live now id).1.sessions k) ∧
      StoreWF m' := by
  obtain ⟨hm, hs⟩ := hwf
  have henv : env.now = { unixNano := some now } := by cases h : env.now; simp_all
  unfold Code.live
  simp only [bind, Except.bind, pure, Except.pure, Pb.MemoryStore.sessions!, hm, Bool.false_eq_true, if_false,
    Go.MapOf.get, Pb.storeClockNow, Pb.MemoryStore.absoluteSessionTimeout!, Pb.MemoryStore.idleSessionTimeout!, Go.derefNil]
  cases hf : m.sessions.find? (·.1 == id) with
  | none =>
    refine ⟨{ isNil := true }, m, by simp, ?_, rfl, rfl, ?_, ⟨hm, hs⟩⟩
    · simp [sessOpt, MemStore.live, storeOf, hf]
    · intro k; simp [MemStore.live, storeOf, hf]
  | some kv =>
    obtain ⟨h1, h2, h3⟩ := hs kv (find_mem _ _ _ hf)
    obtain ⟨a, ha⟩ := Option.isSome_iff_exists.mp h2
    obtain ⟨c, hc⟩ := Option.isSome_iff_exists.mp h3
    have hadd : kv.2.added = { unixNano := some a } := by cases h : kv.2.added; simp_all
    have hacc : kv.2.accessed = { unixNano := some c } := by cases h : kv.2.accessed; simp_all
    have hexp : (storeOf m).expired now (sessOf kv.2) =
        ((decide (m.absoluteSessionTimeout > 0) && decide (a + m.absoluteSessionTimeout < now)) ||
         (decide (m.idleSessionTimeout > 0) && decide (c + m.idleSessionTimeout < now))) := by
      simp [MemStore.expired, storeOf, sessOf, ha, hc]
    have hlive : (storeOf m).live now id =
        if (storeOf m).expired now (sessOf kv.2) then ({ storeOf m with sessions := upd (storeOf m).sessions id none }, none)
        else (storeOf m, some (sessOf kv.2)) := by
      simp [MemStore.live, storeOf, hf]
    simp only [h1, Bool.false_eq_true, if_false, Pb.Session.added!, Pb.Session.accessed!, pure, Except.pure, henv, hadd, hacc, before_add]
    rw [hlive, hexp]
    by_cases e1 : m.absoluteSessionTimeout > 0 <;> by_cases e2 : a + m.absoluteSessionTimeout < now <;>
      by_cases e3 : m.idleSessionTimeout > 0 <;> by_cases e4 : c + m.idleSessionTimeout < now <;>
      simp only [e1, e2, e3, e4, decide_true, decide_false, if_true, if_false, Bool.and_true, Bool.and_false, Bool.or_true, Bool.or_false,
        Bool.true_and, Bool.false_and, Bool.true_or, Bool.false_or, Bool.false_eq_true] <;>
      first
        | (refine ⟨kv.2, m, rfl, ?_, rfl, rfl, fun _ => rfl, ⟨hm, hs⟩⟩
           simp [sessOpt, h1])
        | (refine ⟨{ isNil := true }, { absoluteSessionTimeout := m.absoluteSessionTimeout, idleSessionTimeout := m.idleSessionTimeout, sessions := Go.MapOf.delete m.sessions id }, rfl, by simp [sessOpt], rfl, rfl, ?_, ⟨rfl, ?_⟩⟩
           · intro k
             simp only [storeOf, find_delete, upd]
             by_cases hk : k = id <;> simp [hk]
           · intro kv' hkv'
             exact hs kv' (List.mem_filter.mp hkv').1)

/-- consequently (model-level reading on the code): a session past its absolute timeout is never returned by the code -/
theorem code_live_absolute (env : Go.Env) (m : Pb.MemoryStore) (id : Str) (now : Int)
    (hwf : StoreWF m) (hnow : env.now.unixNano = some now) (s : MSess)
    (hs : (storeOf m).sessions id = some s) (habs : m.absoluteSessionTimeout > 0) (hlate : s.added + m.absoluteSessionTimeout < now) :
    ∃ r m', Code.live env m id = .ok (r, m') ∧ r.isNil = true ∧ (storeOf m').sessions id = none := by
  obtain ⟨r, m', h1, h2, _, _, h5, _⟩ := code_live env m id now hwf hnow
  have hex : (storeOf m).expired now s = true := by
    have : (storeOf m).abs = m.absoluteSessionTimeout := rfl
    simp [MemStore.expired, this, habs, hlate]
  have hl : (storeOf m).live now id = ({ storeOf m with sessions := upd (storeOf m).sessions id none }, none) := by
    simp [MemStore.live, hs, hex]
  refine ⟨r, m', h1, ?_, ?_⟩
  · rw [hl] at h2
    unfold sessOpt at h2
    cases hr : r.isNil <;> simp_all
  · rw [h5 id, hl]; simp [upd]

/-- and the same for the idle timeout -/
theorem code_live_idle (env : Go.Env) (m : Pb.MemoryStore) (id : Str) (now : Int)
    (hwf : StoreWF m) (hnow : env.now.unixNano = some now) (s : MSess)
    (hs : (storeOf m).sessions id = some s) (hidle : m.idleSessionTimeout > 0) (hlate : s.accessed + m.idleSessionTimeout < now) :
    ∃ r m', Code.live env m id = .ok (r, m') ∧ r.isNil = true ∧ (storeOf m').sessions id = none := by
  obtain ⟨r, m', h1, h2, _, _, h5, _⟩ := code_live env m id now hwf hnow
  have hex : (storeOf m).expired now s = true := by
    have : (storeOf m).idle = m.idleSessionTimeout := rfl
    simp [MemStore.expired, this, hidle, hlate]
  have hl : (storeOf m).live now id = ({ storeOf m with sessions := upd (storeOf m).sessions id none }, none) := by
    simp [MemStore.live, hs, hex]
  refine ⟨r, m', h1, ?_, ?_⟩
  · rw [hl] at h2
    unfold sessOpt at h2
    cases hr : r.isNil <;> simp_all
  · rw [h5 id, hl]; simp [upd]

/-! ### `newSession`, and the conversions of the Redis store's scanned records (redis.go) -/

/-- THE CODE's `newSession(t)`: a non-nil session without tokens or login state, created and last accessed at `t` - the
    record `MemStore.set` starts a new session from, and what makes `StoreWF` hold for a session created at a clock reading -/
theorem code_newSession (env : Go.Env) (t : Go.Time) :
    ∃ s, Code.newSession env t = .ok s ∧ s.isNil = false ∧ s.added = t ∧ s.accessed = t ∧
      (sessOf s).tokens = none ∧ (sessOf s).auth = none := by
  refine ⟨{ added := t, accessed := t }, rfl, rfl, rfl, rfl, ?_, ?_⟩ <;> simp [sessOf, tokensOf, authOf]

/-- what scanning the answer of HMGET into a `redisToken` yields for a hash: each member in its own field, an absent
    member as the zero value (go-redis `Scan`, hand-written) -/
def scanTok (h : RHash) : Pb.RedisToken :=
  { IDToken := h.idToken.getD [], AccessToken := h.accessToken.getD [], RefreshToken := h.refreshToken.getD [],
    AccessTokenExpiresAt := { unixNano := h.accessExp }, TimeAdded := { unixNano := h.timeAdded } }

def scanAuth (h : RHash) : Pb.RedisAuthState :=
  { State := h.state.getD [], Nonce := h.nonce.getD [], RequestedURL := h.requestedUrl.getD [],
    CodeVerifier := h.codeVerifier.getD [], TimeAdded := { unixNano := h.timeAdded } }

/-- THE CODE's `redisToken.TokenResponse()`: every stored member lands in its own field of the token response (the
    creation time is not part of it) - the model's `Redis.tokensOf` -/
theorem code_redis_token (env : Go.Env) (h : RHash) :
    ∃ t, Code.TokenResponse env (scanTok h) = .ok t ∧ tokensOf t = some (Redis.tokensOf h) := by
  refine ⟨_, rfl, ?_⟩
  simp [tokensOf, Redis.tokensOf, scanTok, Pb.RedisToken.IDToken!, Pb.RedisToken.AccessToken!,
    Pb.RedisToken.RefreshToken!, Pb.RedisToken.AccessTokenExpiresAt!]

/-- THE CODE's `redisAuthState.AuthorizationState()` is the model's `Redis.authOf` -/
theorem code_redis_auth (env : Go.Env) (h : RHash) :
    ∃ a, Code.AuthorizationState env (scanAuth h) = .ok a ∧ authOf a = some (Redis.authOf h) := by
  refine ⟨_, rfl, ?_⟩
  simp [authOf, Redis.authOf, scanAuth, Pb.RedisAuthState.State!, Pb.RedisAuthState.Nonce!,
    Pb.RedisAuthState.RequestedURL!, Pb.RedisAuthState.CodeVerifier!]


/-! ### examples: a store with one session, created at 100 and last used at 150; absolute 1000, idle 100 -/

def exStore : Pb.MemoryStore :=
  { absoluteSessionTimeout := 1000, idleSessionTimeout := 100,
    sessions := [(B "s1", { added := { unixNano := some 100 }, accessed := { unixNano := some 150 } })] }

example : StoreWF exStore := by
  refine ⟨rfl, ?_⟩
  intro kv h
  simp [exStore] at h
  subst h; simp

/-- inside both timeouts: returned, store unchanged -/
example : (Code.live { now := { unixNano := some 250 } } exStore (B "s1")).map (fun r => (r.1.isNil, r.2.sessions.length)) = .ok (false, 1) := by decide
/-- exactly at the idle limit (150 + 100 = 250 is not before 250): still live; one nanosecond later: gone and deleted -/
example : (Code.live { now := { unixNano := some 251 } } exStore (B "s1")).map (fun r => (r.1.isNil, r.2.sessions.length)) = .ok (true, 0) := by decide
/-- a nil store panics (never constructed: NewMemoryStore) -/
example : Code.live {} { isNil := true } (B "s1") = .error "invalid memory address or nil pointer dereference" := by decide

end AuthModel.CodeEquiv
