import AuthModel.Tls
set_option linter.unusedSimpArgs false
set_option linter.unusedVariables false
namespace AuthModel
namespace Tls

/-- TRUST DECISION for settings not yet in the pool -/
theorem load_fresh (o : Oracle) (st : State) (s : Settings) (hnew : lookupPool st.pool (keyOf o s) = none) :
    (load o st s).2 =
      if s.caInline = [] ∧ s.caFile = [] ∧ s.skip = .unset then .noConfig
      else if s.caInline ≠ [] then (if o.pemOk s.caInline then .cfg { insecure := false, extra := some s.caInline } else .error)
      else if s.caFile ≠ [] then
        (match st.files s.caFile with
         | none => .error
         | some data => if data ≠ [] then (if o.pemOk data then .cfg { insecure := false, extra := some data } else .error)
                        else .cfg { insecure := false, extra := none })
      else .cfg { insecure := boolStr o s.skip, extra := none } := by
  unfold load
  by_cases h0 : s.caInline = [] ∧ s.caFile = [] ∧ s.skip = .unset
  · simp [h0]
  · simp only [h0, if_false, hnew]
    by_cases h1 : s.caInline = []
    · simp only [h1, ne_eq, not_true_eq_false, if_false]
      by_cases h2 : s.caFile = []
      · simp [h2, load.finish]
      · simp only [h2, ne_eq, not_false_eq_true, if_true]
        unfold watchFile
        simp only [show (keyOf o s).caFile = s.caFile from rfl, show (keyOf o s).interval = s.interval from rfl]
        cases hf : st.files s.caFile with
        | none => simp
        | some data =>
          simp only
          by_cases hi : s.interval ≤ 0 <;> simp only [hi, if_true, if_false] <;>
            (unfold load.finish; by_cases hd : data = [] <;> by_cases hp : o.pemOk data = true <;> simp [hd, hp])
    · simp only [h1, ne_eq, not_false_eq_true, if_true]
      unfold load.finish
      by_cases hp : o.pemOk s.caInline = true <;> simp [h1, hp]

/-- a CA (inline or file) wins over skip-verify: verification is never switched off when a CA is given -/
theorem ca_wins_over_skip (o : Oracle) (st : State) (s : Settings) (t : Trust) (hnew : lookupPool st.pool (keyOf o s) = none)
    (hca : s.caInline ≠ [] ∨ s.caFile ≠ []) (h : (load o st s).2 = .cfg t) : t.insecure = false := by
  rw [load_fresh o st s hnew] at h
  have h0 : ¬(s.caInline = [] ∧ s.caFile = [] ∧ s.skip = .unset) := by
    rintro ⟨a, b, _⟩; rcases hca with h | h <;> contradiction
  simp only [h0, if_false] at h
  by_cases h1 : s.caInline = []
  · have h2 : s.caFile ≠ [] := by rcases hca with h | h; exact absurd h1 h; exact h
    simp only [h1, ne_eq, not_true_eq_false, if_false, h2, not_false_eq_true, if_true] at h
    cases hf : st.files s.caFile with
    | none => simp [hf] at h
    | some data =>
      simp only [hf] at h
      by_cases hd : data = [] <;> by_cases hp : o.pemOk data = true <;> simp [hd, hp] at h <;> (subst h; rfl)
  · simp only [h1, ne_eq, not_false_eq_true, if_true] at h
    by_cases hp : o.pemOk s.caInline = true <;> simp [hp] at h
    subst h; rfl

/-- verification is skipped only when explicitly requested and no CA is given -/
theorem insecure_only_if_requested (o : Oracle) (st : State) (s : Settings) (t : Trust) (hnew : lookupPool st.pool (keyOf o s) = none)
    (h : (load o st s).2 = .cfg t) (hi : t.insecure = true) :
    s.caInline = [] ∧ s.caFile = [] ∧ boolStr o s.skip = true := by
  by_cases hca : s.caInline ≠ [] ∨ s.caFile ≠ []
  · have := ca_wins_over_skip o st s t hnew hca h
    rw [this] at hi; cases hi
  · have h1 : s.caInline = [] := by
      cases hc : s.caInline with
      | nil => rfl
      | cons a b => exact absurd (Or.inl (by simp [hc])) hca
    have h2 : s.caFile = [] := by
      cases hc : s.caFile with
      | nil => rfl
      | cons a b => exact absurd (Or.inr (by simp [hc])) hca
    refine ⟨h1, h2, ?_⟩
    rw [load_fresh o st s hnew] at h
    by_cases h0 : s.skip = .unset
    · simp [h1, h2, h0] at h
    · simp [h1, h2, h0] at h
      subst h; exact hi

/-- IDENTICAL SETTINGS SHARE ONE CONFIGURATION: once an entry exists, loading the same settings returns it and
    changes nothing (no second entry, no second watcher) -/
theorem pool_shares (o : Oracle) (st : State) (s : Settings) (t : Trust) (h : lookupPool st.pool (keyOf o s) = some t)
    (hne : ¬(s.caInline = [] ∧ s.caFile = [] ∧ s.skip = .unset)) :
    load o st s = (st, .cfg t) := by
  unfold load; simp [hne, h]

/-- A SUPERSEDED WATCHER STOPS: after `WatchFile` for (settings, file) every earlier watcher with that id is dead -/
theorem superseded_stops (st : State) (s : Key) (w : Watcher) (hw : w ∈ st.watchers) (hid : w.id = (s, s.caFile)) :
    ∃ w' ∈ (watchFile st s).1.watchers, w'.id = w.id ∧ w'.data = w.data ∧ w'.alive = false := by
  have hkill : ({ w with alive := false } : Watcher) ∈ st.watchers.map (fun w => if w.id = (s, s.caFile) then { w with alive := false } else w) := by
    apply List.mem_map.mpr
    exact ⟨w, hw, by simp [hid]⟩
  unfold watchFile
  cases st.files s.caFile with
  | none => exact ⟨_, hkill, rfl, rfl, rfl⟩
  | some data =>
    simp only
    split
    · exact ⟨_, hkill, rfl, rfl, rfl⟩
    · exact ⟨{ w with alive := false }, by simp only [List.mem_append]; exact Or.inl hkill, rfl, rfl, rfl⟩

/-- ... and watchers of OTHER settings on the same file are left alone (the defect repaired in 6ef1ffe) -/
theorem other_settings_keep_their_watcher (st : State) (s : Key) (w : Watcher) (hw : w ∈ st.watchers)
    (hid : w.id ≠ (s, s.caFile)) : w ∈ (watchFile st s).1.watchers := by
  have hkeep : w ∈ st.watchers.map (fun w => if w.id = (s, s.caFile) then { w with alive := false } else w) := by
    apply List.mem_map.mpr
    exact ⟨w, hw, by simp [hid]⟩
  unfold watchFile
  cases st.files s.caFile with
  | none => exact hkeep
  | some data =>
    simp only
    split
    · exact hkeep
    · simp only [List.mem_append]; exact Or.inl hkeep

/-- ROTATION REACHES THE POOL ENTRY: the callback replaces the extra roots of exactly that entry (and only when the new
    content parses) -/
theorem updateCA_entry (o : Oracle) (pool : List (Key × Trust)) (s : Key) (t : Trust) (data : Str)
    (h : lookupPool pool s = some t) (hp : o.pemOk data = true) :
    lookupPool (updateCA o pool s data) s = some { t with extra := some data } := by
  unfold updateCA lookupPool at *
  simp only [hp, if_true]
  induction pool with
  | nil => simp at h
  | cons e es ih =>
    by_cases he : e.1 = s
    · simp [List.find?_cons, he] at h ⊢
      subst h; rfl
    · simp only [List.find?_cons, he, decide_false] at h
      simp only [List.map_cons, he, if_false, List.find?_cons, decide_false]
      exact ih h

theorem updateCA_other (o : Oracle) (pool : List (Key × Trust)) (s s' : Key) (data : Str) (hne : s' ≠ s) :
    lookupPool (updateCA o pool s data) s' = lookupPool pool s' := by
  unfold updateCA lookupPool
  split
  · induction pool with
    | nil => rfl
    | cons e es ih =>
      by_cases he : e.1 = s
      · have : e.1 ≠ s' := by rw [he]; exact fun h => hne h.symm
        simp only [List.map_cons, he, if_true, List.find?_cons]
        have h1 : decide (s = s') = false := by simpa using fun h => hne h.symm
        have h2 : decide (e.1 = s') = false := by simpa using this
        simp only [h1, h2]
        exact ih
      · simp only [List.map_cons, he, if_false, List.find?_cons]
        split
        · rfl
        · exact ih
  · rfl

theorem updateCA_unparsable (o : Oracle) (pool : List (Key × Trust)) (s : Key) (data : Str) (hp : o.pemOk data = false) :
    updateCA o pool s data = pool := by simp [updateCA, hp]

end Tls
end AuthModel
