import AuthProofs.StrLemmas
set_option linter.unusedSimpArgs false
namespace AuthModel
open Str

theorem goSlice_ok (s : Str) (lo hi : Nat) (h1 : lo ≤ hi) (h2 : hi ≤ s.length) :
    goSlice s lo hi = some ((s.take hi).drop lo) := by
  simp [goSlice, h1, h2]

/-- The index/slice formulation of `GetPathQueryFragment` (the Go source) never goes out of bounds and
    computes the `cut` formulation. -/
theorem pqfLit_eq (s : Str) : pqfLit s = some (pqf s) := by
  unfold pqfLit pqf
  simp only [Str.cut_eq_index]
  cases hh : indexOf 35 s with
  | none =>
    simp only [Str.cut_eq_index]
    cases hi : indexOf 63 s with
    | none => simp
    | some i =>
      have hlt := Str.indexOf_lt hi
      simp [goSlice, Nat.le_of_lt hlt, Nat.succ_le_of_lt hlt, Option.bind]
  | some h =>
    have hlt := Str.indexOf_lt hh
    simp only [goSlice_ok s 0 h (Nat.zero_le _) (Nat.le_of_lt hlt), Option.map, List.drop_zero,
      Str.cut_eq_index]
    cases hi : indexOf 63 (s.take h) with
    | none =>
      simp [goSlice, Nat.le_of_lt hlt, Nat.succ_le_of_lt hlt, Option.bind]
    | some i =>
      have hil := Str.indexOf_lt hi
      have hih : i < h := by simp at hil; omega
      have h1 : i ≤ s.length := by omega
      have h2 : i + 1 ≤ h := by omega
      have h3 : h ≤ s.length := by omega
      have h4 : h + 1 ≤ s.length := by omega
      simp [goSlice, h1, h2, h3, h4, Option.bind, List.take_take, Nat.min_eq_left (Nat.le_of_lt hih)]

end AuthModel
