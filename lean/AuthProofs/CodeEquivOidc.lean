/-
  Equivalence of the mechanically translated helper functions of internal/authz/oidc.go and internal/http/http.go
  (AuthModel/Generated/CodeOidc.lean, CodeHttp.lean - regenerated from /repo on every run) with the definitions of the
  hand-written handler model (AuthModel/Oidc/Handler.lean) that the property theorems are about: cookie name, Set-Cookie
  assembly, cookie parsing and session-id lookup, logout/callback path matching, header encoding of the forwarded
  tokens, the two token-response validators.  Each theorem: the translated function does not panic (under the stated
  non-nil hypotheses, which the call sites guarantee) and returns the model's value.
-/
import AuthModel.Generated.CodeOidc
import AuthProofs.CodeEquiv
import AuthModel.Oidc.Handler
set_option linter.unusedSimpArgs false
namespace AuthModel
open Str Go Oidc

theorem code_getCookieName (env : Go.Env) (c : Pb.OIDCConfig) (cfg : Cfg) (h : cfg.cookiePrefix = c.GetCookieNamePrefix) :
    Code.getCookieName env c = .ok (cookieName cfg) := by
  unfold Code.getCookieName cookieName
  by_cases hp : c.GetCookieNamePrefix = []
  · simp [h, hp, pure, Except.pure, B, Code.defaultCookieName, defaultCookieName]
  · simp [h, hp, pure, Except.pure, B, Code.prefixCookieName, Code.suffixCookieName, cookiePrefixConst, cookieSuffixConst]

theorem code_encodeHeaderValue (env : Go.Env) (p v : Str) :
    Code.encodeHeaderValue env p v = .ok (encodeHeaderValue p v) := by
  unfold Code.encodeHeaderValue encodeHeaderValue
  by_cases hp : p = [] <;> simp [hp, pure, Except.pure, B]

def bodyOf (r : Pb.IdpTokensResponse) : IdpBody :=
  { idToken := r.IDToken, accessToken := r.AccessToken, refreshToken := r.RefreshToken, expiresIn := r.ExpiresIn, tokenType := r.TokenType }

theorem code_validRefresh (env : Go.Env) (r : Pb.IdpTokensResponse) (hn : r.isNil = false) :
    Code.isValidIDPRefreshTokenResponse env r = .ok (validRefreshResponse (bodyOf r)) := by
  unfold Code.isValidIDPRefreshTokenResponse validRefreshResponse bodyOf isBearer
  simp [bind, Except.bind, pure, Except.pure, Pb.IdpTokensResponse.TokenType!, Pb.IdpTokensResponse.ExpiresIn!, hn, Go.equalFold]
  have hb : (B "Bearer").toLowerAscii = B "bearer" := by decide
  rw [hb]
  by_cases h1 : r.TokenType.toLowerAscii = B "bearer"
  · by_cases h2 : r.ExpiresIn < 0
    · have : ¬ (0 ≤ r.ExpiresIn) := by omega
      simp [h1, h2, this]
    · have : 0 ≤ r.ExpiresIn := by omega
      simp [h1, h2, this]
  · simp [h1]

theorem code_validNew (env : Go.Env) (c : Pb.OIDCConfig) (r : Pb.IdpTokensResponse) (cfg : Cfg) (hn : r.isNil = false)
    (hc : cfg.access.isSome = !c.GetAccessToken.isNil) :
    Code.isValidIDPNewTokensResponse env c r = .ok (validNewResponse cfg (bodyOf r)) := by
  unfold Code.isValidIDPNewTokensResponse validNewResponse bodyOf isBearer
  simp [bind, Except.bind, pure, Except.pure, Pb.IdpTokensResponse.TokenType!, Pb.IdpTokensResponse.ExpiresIn!,
    Pb.IdpTokensResponse.AccessToken!, hn, Go.equalFold, hc]
  have hb : (B "Bearer").toLowerAscii = B "bearer" := by decide
  rw [hb]
  by_cases h1 : r.TokenType.toLowerAscii = B "bearer"
  · by_cases h2 : r.ExpiresIn < 0
    · have : ¬ (0 ≤ r.ExpiresIn) := by omega
      simp [h1, h2, this]
    · have : 0 ≤ r.ExpiresIn := by omega
      cases h3 : c.GetAccessToken.isNil <;> by_cases h4 : r.AccessToken = [] <;> simp [h1, h2, this, h3, h4, B]
  · simp [h1]

/-- the token set of the model that a `*oidc.TokenResponse` stands for, as far as header encoding looks at it -/
theorem code_encodeTokens (env : Go.Env) (o : Pb.OidcHandler) (t : Pb.TokenResponse) (cfg : Cfg) (tok : Tokens)
    (ho : o.isNil = false) (hc : o.config.isNil = false) (ht : t.isNil = false)
    (hid : cfg.idHeader = o.config.IdToken.GetHeader) (hpre : cfg.idPreamble = o.config.IdToken.GetPreamble)
    (hacc : cfg.access = if o.config.AccessToken.isNil then none else some (o.config.AccessToken.Header, o.config.AccessToken.Preamble))
    (h1 : tok.idToken = t.IDToken) (h2 : tok.accessToken = t.AccessToken) :
    Code.encodeTokensToHeaders env o t = .ok (encodeTokens cfg tok) := by
  unfold Code.encodeTokensToHeaders encodeTokens
  simp [bind, Except.bind, pure, Except.pure, Pb.OidcHandler.config!, Pb.OIDCConfig.IdToken!, Pb.TokenResponse.IDToken!,
    Pb.TokenResponse.AccessToken!, Pb.OIDCConfig.GetIdToken, Pb.OIDCConfig.GetAccessToken,
    ho, hc, ht, code_encodeHeaderValue, hid, hpre, hacc, h1, h2, Go.Map.set, Go.Map.empty]
  cases h3 : o.config.AccessToken.isNil
  · have hah : o.config.AccessToken.GetHeader = o.config.AccessToken.Header := by simp [Pb.TokenConfig.GetHeader, h3]
    have hap : o.config.AccessToken.GetPreamble = o.config.AccessToken.Preamble := by simp [Pb.TokenConfig.GetPreamble, h3]
    rw [hah, hap]
    generalize o.config.IdToken.GetHeader = ih
    generalize o.config.AccessToken.Header = ah
    by_cases h4 : t.AccessToken = []
    · simp [h4, B]
    · by_cases h5 : ih = ah
      · simp [h4, h5, B]
      · have h5' : ¬ ah = ih := fun h => h5 h.symm
        simp [h4, h5, h5', B]
  · simp [h3]

/-- the request of the model that an envoy HTTP request stands for, as far as the path matchers look at it -/
theorem code_matchesLogout (env : Go.Env) (c : Pb.OIDCConfig) (h : Pb.AttributeContext_HttpRequest) (cfg : Cfg) (req : Req)
    (hl : cfg.logout = if c.GetLogout.isNil then none else some (c.GetLogout.Path, c.GetLogout.RedirectUri))
    (hp : req.path = h.GetPath) :
    Code.matchesLogoutPath env c h = .ok (matchesLogout cfg req) := by
  unfold Code.matchesLogoutPath matchesLogout pathOf
  cases hn : c.GetLogout.isNil
  · simp [hn, hl, hp, code_pqf, bind, Except.bind, pure, Except.pure, Pb.LogoutConfig.GetPath]
    by_cases hq : (pqf h.GetPath).fst = c.GetLogout.Path <;> simp [hq]
  · simp [hn, hl, pure, Except.pure]

theorem code_matchesCallback (env : Go.Env) (c : Pb.OIDCConfig) (h : Pb.AttributeContext_HttpRequest) (cfg : Cfg) (req : Req)
    (u : Go.URL) (e : Bool) (hu : env.urlParseOracle c.GetCallbackUri = (u, e)) (hun : u.isNil = false)
    (h1 : cfg.cbScheme = u.Scheme) (h2 : cfg.cbHost = u.hostname) (h3 : cfg.cbPort = u.port) (h4 : cfg.cbPath = u.escapedPath)
    (hp : req.path = h.GetPath) (hh : req.host = h.GetHost) :
    Code.matchesCallbackPath env c h = .ok (matchesCallback cfg req) := by
  unfold Code.matchesCallbackPath matchesCallback pathOf
  simp [code_pqf, bind, Except.bind, pure, Except.pure, Go.Env.urlParse, hu, hun, Go.URL.Port!, Go.URL.Hostname!,
    Go.URL.Scheme!, Go.URL.Path!, Go.URL.EscapedPath!, h1, h2, h3, h4, hp, hh]
  have hB : B "" = [] := by decide
  have hC : B ":" = [58] := by decide
  rw [hB, hC]
  by_cases hp0 : u.port = []
  · simp only [hp0, if_true]
    split <;> rename_i hc
    · simp [hc.1]; rcases hc.2 with ((h|h)|h) <;> simp [h]
    · simp only [not_and, not_or] at hc
      by_cases hq : (pqf h.GetPath).fst = u.escapedPath
      · have := hc hq; simp [hq]; simp_all
      · simp [hq]
  · simp only [hp0, if_false]
    split <;> rename_i hc
    · simp [hc.1]; rcases hc.2 with ((h|h)|h) <;> simp_all
    · simp only [not_and, not_or] at hc
      by_cases hq : (pqf h.GetPath).fst = u.escapedPath
      · have := hc hq; simp [hq]; simp_all
      · simp [hq]

theorem forIn_append (ds : List Str) (sep acc : Str) :
    (forIn (m := Except String) ds acc fun d r => Except.ok (ForInStep.yield (r ++ (sep ++ d))))
      = .ok (acc ++ (ds.map fun d => sep ++ d).flatten) := by
  induction ds generalizing acc with
  | nil => simp [pure, Except.pure]
  | cons d t ih => simp [List.forIn_cons, bind, Except.bind, ih, List.append_assoc]

theorem code_encodeCookie (env : Go.Env) (n v : Str) (ds : List Str) :
    Code.EncodeCookieHeader env n v ds = .ok (encodeCookie n v ds) := by
  unfold Code.EncodeCookieHeader encodeCookie
  have hB : B "; " = [59, 32] := by decide
  have hE : B "=" = [61] := by decide
  have h := forIn_append ds [59, 32] (n ++ 61 :: v)
  simp only [List.cons_append, List.nil_append] at h
  simp [bind, Except.bind, pure, Except.pure, hB, hE, h]

theorem code_cookieDirectives_neg (env : Go.Env) (t : Int) (h : t < 0) :
    Code.getCookieDirectives env t = .ok cookieDirectives := by
  unfold Code.getCookieDirectives
  have : ¬ (0 ≤ t) := by omega
  simp [pure, Except.pure, this, cookieDirectives, Code.HeaderSetCookieHTTPOnly, Code.HeaderSetCookieSecure, Code.HeaderSetCookieSameSiteLax]

theorem code_cookieDirectives_nonneg (env : Go.Env) (t : Int) (h : 0 ≤ t) :
    Code.getCookieDirectives env t = .ok (cookieDirectives ++ [B "Max-Age=" ++ Str.ofNat (Go.Duration.secondsInt t).toNat]) := by
  unfold Code.getCookieDirectives
  have hs : 0 ≤ Go.Duration.secondsInt t := by unfold Go.Duration.secondsInt; exact Int.tdiv_nonneg h (by omega)
  have hn : ¬ (Go.Duration.secondsInt t < 0) := by omega
  have hm : Code.HeaderSetCookieMaxAge ++ B "=" = B "Max-Age=" := by decide
  simp [pure, Except.pure, h, cookieDirectives, Code.HeaderSetCookieHTTPOnly, Code.HeaderSetCookieSecure,
    Code.HeaderSetCookieSameSiteLax, Go.itoa, hn, ← List.append_assoc, hm]

/-- `generateSetCookieHeader` is the model's `setCookie`: a negative timeout gives no Max-Age, a non-negative one
    `Max-Age=<whole seconds>` -/
theorem code_setCookie (env : Go.Env) (n v : Str) (t : Int) :
    Code.generateSetCookieHeader env n v t =
      .ok (setCookie n v (if t < 0 then none else some (Go.Duration.secondsInt t).toNat)) := by
  unfold Code.generateSetCookieHeader setCookie
  by_cases h : t < 0
  · simp [code_cookieDirectives_neg env t h, code_encodeCookie, bind, Except.bind, pure, Except.pure, h]
  · have h' : 0 ≤ t := by omega
    simp [code_cookieDirectives_nonneg env t h', code_encodeCookie, bind, Except.bind, pure, Except.pure, h]

/-- the Go map built by inserting the pairs of an association list in order -/
def mapOfList (l : List (Str × Str)) (m : Go.Map := []) : Go.Map := l.foldl (fun m kv => Go.Map.set m kv.1 kv.2) m

theorem map_get_nil (k : Str) : Go.Map.get [] k = [] := rfl
theorem map_get_cons (k1 v1 : Str) (t : Go.Map) (k : Str) :
    Go.Map.get ((k1, v1) :: t) k = if k1 == k then v1 else Go.Map.get t k := by
  unfold Go.Map.get
  by_cases h : (k1 == k) = true
  · simp [List.find?, h]
  · have h' : (k1 == k) = false := by simpa using h
    simp [List.find?, h']

theorem map_get_set (m : Go.Map) (k v k' : Str) :
    Go.Map.get (Go.Map.set m k v) k' = if k == k' then v else Go.Map.get m k' := by
  induction m with
  | nil => simp [Go.Map.set, map_get_cons, map_get_nil]
  | cons a t ih =>
    obtain ⟨ka, va⟩ := a
    unfold Go.Map.set
    by_cases h1 : ka = k
    · subst h1
      by_cases h2 : ka = k' <;> simp [map_get_cons, h2]
    · have h1' : (ka == k) = false := by simpa using h1
      simp only [h1']
      by_cases h2 : ka = k'
      · subst h2
        have : (k == ka) = false := by simpa using fun h => h1 h.symm
        simp [map_get_cons, this]
      · have h2' : (ka == k') = false := by simpa using h2
        simp [map_get_cons, h2', ih]

theorem forIn_fold {α σ : Type} (cs : List α) (acc : σ) (body : α → σ → Except String (ForInStep σ)) (g : σ → α → σ)
    (h : ∀ c s, body c s = .ok (.yield (g s c))) : forIn cs acc body = .ok (cs.foldl g acc) := by
  induction cs generalizing acc with
  | nil => simp [pure, Except.pure]
  | cons c t ih => simp [List.forIn_cons, h, bind, Except.bind, ih]

theorem decode_step (parts : List Str) (s : Go.Map) :
    (if (Go.len parts != 2) = true then (pure (ForInStep.yield s) : Except String (ForInStep Go.Map))
     else do
       let a ← Go.idx parts 0
       let b ← Go.idx parts 1
       pure (ForInStep.yield (Go.Map.set s a b)))
    = .ok (ForInStep.yield (match (match parts with | [n, v] => some (n, v) | _ => none : Option (Str × Str)) with
        | some kv => Go.Map.set s kv.1 kv.2 | none => s)) := by
  rcases parts with _ | ⟨n, _ | ⟨v, _ | ⟨w, r⟩⟩⟩ <;>
    simp [Go.len, Go.idx, bind, Except.bind, pure, Except.pure]
  omega

def cookieItem (c : Str) : Option (Str × Str) :=
  match splitOn 61 c.trimSpace with
  | [n, v] => some (n, v)
  | _ => none

theorem foldl_filterMap_set (cs : List Str) (acc : Go.Map) :
    cs.foldl (fun s c => match cookieItem c with | some kv => Go.Map.set s kv.1 kv.2 | none => s) acc
      = (cs.filterMap cookieItem).foldl (fun m kv => Go.Map.set m kv.1 kv.2) acc := by
  induction cs generalizing acc with
  | nil => rfl
  | cons c t ih =>
    simp only [List.foldl_cons, List.filterMap_cons]
    cases cookieItem c <;> simp [ih]

theorem code_decodeCookies (env : Go.Env) (hdr : Str) :
    Code.DecodeCookiesHeader env hdr = .ok (mapOfList (decodeCookies hdr)) := by
  unfold Code.DecodeCookiesHeader
  dsimp only
  rw [forIn_fold _ _ _ (fun s c => match cookieItem c with | some kv => Go.Map.set s kv.1 kv.2 | none => s)]
  · simp only [bind, Except.bind, pure, Except.pure, Go.split1, foldl_filterMap_set]
    rfl
  · intro c s
    unfold cookieItem
    simp only [Go.split1]
    exact decode_step _ _

theorem lookupLast_cons (k1 v1 : Str) (t : List (Str × Str)) (k : Str) :
    lookupLast ((k1, v1) :: t) k = match lookupLast t k with
      | some v => some v
      | none => if k1 == k then some v1 else none := by
  unfold lookupLast
  simp only [List.reverse_cons, List.find?_append]
  cases h : List.find? (fun x => x.fst == k) t.reverse with
  | some kv => simp
  | none =>
    by_cases hk : (k1 == k) = true
    · simp [List.find?, hk]
    · have hk' : (k1 == k) = false := by simpa using hk
      simp [List.find?, hk']

theorem map_get_mapOfList (l : List (Str × Str)) (m : Go.Map) (k : Str) :
    Go.Map.get (mapOfList l m) k = match lookupLast l k with
      | some v => v
      | none => Go.Map.get m k := by
  induction l generalizing m with
  | nil => simp [mapOfList, lookupLast]
  | cons a t ih =>
    obtain ⟨k1, v1⟩ := a
    have := ih (Go.Map.set m k1 v1)
    simp only [mapOfList, List.foldl_cons] at this ⊢
    rw [this, lookupLast_cons, map_get_set]
    cases lookupLast t k <;> simp
    split <;> simp_all

theorem forIn_find_first (m : Go.Map) (k : Str) :
    (forIn (m := Except String) (Go.Map.entries m) ((none, ()) : Option Str × Unit) fun x _ =>
        if x.1 = k then Except.ok (ForInStep.done (some x.2, ())) else Except.ok (ForInStep.yield (none, ())))
      = .ok ((m.find? (·.1 == k)).map (·.2), ()) := by
  unfold Go.Map.entries
  induction m with
  | nil => simp [pure, Except.pure]
  | cons a t ih =>
    simp only [List.forIn_cons, List.find?]
    by_cases h : a.1 = k
    · simp [h, bind, Except.bind, pure, Except.pure]
    · have h' : (a.1 == k) = false := by simpa using h
      simp [h, h', bind, Except.bind]
      simpa using ih

theorem forIn_find_first' (m : Go.Map) (k : Str) :
    (forIn (m := Except String) (Go.Map.entries m) ((none, ()) : Option Str × Unit) fun x _ =>
        if (x.1 == k) = true then Except.ok (ForInStep.done (some x.2, ())) else Except.ok (ForInStep.yield (none, ())))
      = .ok ((m.find? (·.1 == k)).map (·.2), ()) := by
  have := forIn_find_first m k
  simpa using this

theorem map_get_eq_find (m : Go.Map) (k : Str) :
    Go.Map.get m k = ((m.find? (·.1 == k)).map (·.2)).getD [] := by
  unfold Go.Map.get
  cases List.find? (fun x => x.fst == k) m <;> rfl

theorem code_sessionIdFromCookie (env : Go.Env) (headers : Go.Map) (c : Pb.OIDCConfig) (cfg : Cfg)
    (h : cfg.cookiePrefix = c.GetCookieNamePrefix) :
    Code.getSessionIDFromCookie env headers c = .ok (sessionIdFromCookie cfg (Go.Map.get headers (B "cookie"))) := by
  unfold Code.getSessionIDFromCookie sessionIdFromCookie
  simp only [code_getCookieName env c cfg h, code_decodeCookies, bind, Except.bind, pure, Except.pure, Code.HeaderCookie]
  have hB : B "" = [] := by decide
  by_cases hv : Go.Map.get headers (B "cookie") = []
  · simp [hv, hB]
  · simp only [hv, hB, if_false]
    rw [forIn_find_first']
    have h1 := map_get_mapOfList (decodeCookies (Go.Map.get headers (B "cookie"))) [] (cookieName cfg)
    rw [map_get_eq_find] at h1
    simp only [map_get_nil] at h1
    have hbeq : (Go.Map.get headers (B "cookie") == []) = false := by simpa using hv
    simp only [hbeq]
    cases hf : Option.map (fun x => x.snd)
        (List.find? (fun x => x.fst == cookieName cfg) (mapOfList (decodeCookies (Go.Map.get headers (B "cookie"))))) with
    | none =>
      rw [hf] at h1
      cases hl : lookupLast (decodeCookies (Go.Map.get headers (B "cookie"))) (cookieName cfg) with
      | none => simp
      | some v => rw [hl] at h1; simp at h1; simp [← h1]
    | some r =>
      rw [hf] at h1
      cases hl : lookupLast (decodeCookies (Go.Map.get headers (B "cookie"))) (cookieName cfg) with
      | none => rw [hl] at h1; simp at h1; simp [h1]
      | some v => rw [hl] at h1; simp at h1; simp [h1]
set_option linter.unusedVariables false in
theorem code_tokensExpired (env : Go.Env) (o : Pb.OidcHandler) (t : Pb.TokenResponse) (cfg : Cfg) (a : TokAttrs) (tok : Tokens)
    (now : Int) (jt : Go.JwtToken)
    (ho : o.isNil = false) (hc : o.config.isNil = false) (ht : t.isNil = false)
    (hp : env.parseTokenOracle t.IDToken = (jt, false)) (hj : jt.isNil = false) (hexp : jt.exp.unixNano = some a.exp)
    (hnow : env.now.unixNano = some now)
    (hacc : cfg.access.isSome = !o.config.GetAccessToken.isNil)
    (h2 : tok.accessToken = t.AccessToken) (h3 : tok.accessExp = t.AccessTokenExpiresAt.unixNano) :
    Code.areRequiredTokensExpired env o t = .ok (tokensExpired cfg a tok now, {}) := by
  unfold Code.areRequiredTokensExpired tokensExpired
  simp only [Pb.parseIDToken, Pb.clockNow, Go.Env.parseToken, hp, ho, hc, ht, hj, bind, Except.bind, pure, Except.pure,
    Go.JwtToken.Expiration!, Pb.OidcHandler.config!, Pb.TokenResponse.AccessToken!, Pb.TokenResponse.AccessTokenExpiresAt!,
    Go.Time.IsZero!, Go.Time.before, hexp, hnow, hacc, h2, h3, if_false, Bool.false_eq_true, Bool.not_false]
  have hB : B "" = [] := by decide
  rw [hB]
  by_cases h1 : a.exp < now
  · simp [h1]
  · cases h4 : o.config.GetAccessToken.isNil
    · by_cases h5 : t.AccessToken = []
      · simp [h1, h4, h5]
      · cases h6 : t.AccessTokenExpiresAt.unixNano with
        | none => simp [h1, h4, h5, h6]
        | some ex => by_cases h7 : ex < now <;> simp [h1, h4, h5, h6, h7]
    · simp [h1, h4]

theorem code_tokensExpired_unparsable (env : Go.Env) (o : Pb.OidcHandler) (t : Pb.TokenResponse) (jt : Go.JwtToken)
    (ht : t.isNil = false) (hp : env.parseTokenOracle t.IDToken = (jt, true)) :
    Code.areRequiredTokensExpired env o t = .ok (false, { isNil := false }) := by
  unfold Code.areRequiredTokensExpired
  simp [Pb.parseIDToken, Go.Env.parseToken, hp, ht, bind, Except.bind, pure, Except.pure]

end AuthModel
