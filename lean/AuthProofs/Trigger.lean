import AuthModel.Trigger
import AuthProofs.StrLemmas
set_option linter.unusedSimpArgs false
namespace AuthModel
open Str

/-- The documented rule, as a proposition about the *path component* `p`. -/
def RuleSatisfied (re : ReOracle) (r : TriggerRule) (p : Str) : Prop :=
  (∀ e ∈ r.excluded, stringMatch re e p = false) ∧
  (r.included = [] ∨ ∃ i ∈ r.included, stringMatch re i p = true)

def Triggered (re : ReOracle) (rules : List TriggerRule) (p : Str) : Prop :=
  rules = [] ∨ p = [] ∨ ∃ r ∈ rules, RuleSatisfied re r p

theorem matchTriggerRule_iff (re : ReOracle) (r : TriggerRule) (p : Str) :
    matchTriggerRule re r p = true ↔ RuleSatisfied re r p := by
  unfold matchTriggerRule RuleSatisfied
  by_cases hex : r.excluded.any (stringMatch re · p) = true
  · simp only [hex, if_true]
    constructor
    · intro h; cases h
    · intro ⟨h, _⟩
      rcases List.any_eq_true.mp hex with ⟨e, he, hm⟩
      rw [h e he] at hm; cases hm
  · have hall : ∀ e ∈ r.excluded, stringMatch re e p = false := by
      intro e he
      cases hm : stringMatch re e p with
      | false => rfl
      | true => exact absurd (List.any_eq_true.mpr ⟨e, he, hm⟩) hex
    simp only [hex, if_false]
    cases hinc : r.included with
    | nil => simp; exact hall
    | cons i is =>
      simp only [List.isEmpty_cons, if_false]
      constructor
      · intro h
        refine ⟨hall, Or.inr ?_⟩
        rcases List.any_eq_true.mp h with ⟨x, hx, hm⟩
        exact ⟨x, hx, hm⟩
      · intro ⟨_, h⟩
        rcases h with h | ⟨x, hx, hm⟩
        · cases h
        · exact List.any_eq_true.mpr ⟨x, hx, hm⟩

theorem mustTrigger_iff (re : ReOracle) (rules : List TriggerRule) (target : Str) :
    mustTrigger re rules target = true ↔ Triggered re rules (pathOf target) := by
  unfold mustTrigger Triggered
  simp only
  cases rules with
  | nil => simp
  | cons r rs =>
    cases hp : pathOf target with
    | nil => simp
    | cons a p =>
      simp only [List.isEmpty_cons, Bool.or_self, if_false, reduceCtorEq, false_or]
      rw [List.any_eq_true]
      constructor
      · intro ⟨x, hx, hm⟩; exact ⟨x, hx, (matchTriggerRule_iff re x _).mp hm⟩
      · intro ⟨x, hx, hm⟩; exact ⟨x, hx, (matchTriggerRule_iff re x _).mpr hm⟩

/-- `mustTrigger` depends on the target only through its path component. -/
theorem mustTrigger_path_only (re : ReOracle) (rules : List TriggerRule) (t₁ t₂ : Str)
    (h : pathOf t₁ = pathOf t₂) : mustTrigger re rules t₁ = mustTrigger re rules t₂ := by
  unfold mustTrigger; simp only [h]

end AuthModel
