import AuthModel.Secret
set_option linter.unusedSimpArgs false
set_option linter.unusedVariables false
namespace AuthModel
namespace Secret

theorem setAt_length (fs : List FilterS) (i : Nat) (v : FilterS) : (setAt fs i v).length = fs.length := by
  induction fs generalizing i with
  | nil => rfl
  | cons f fs ih => cases i <;> simp [setAt, ih]

theorem setAt_get (fs : List FilterS) (i j : Nat) (v : FilterS) (hi : i < fs.length) :
    (setAt fs i v)[j]? = if j = i then some v else fs[j]? := by
  induction fs generalizing i j with
  | nil => simp at hi
  | cons f fs ih =>
    cases i with
    | zero => cases j <;> simp [setAt]
    | succ i =>
      cases j with
      | zero => simp [setAt]
      | succ j =>
        simp only [setAt, List.getElem?_cons_succ]
        rw [ih i j (by simpa using hi)]
        simp

theorem setAt_get_oob (fs : List FilterS) (i j : Nat) (v : FilterS) (hi : fs.length ≤ i) : (setAt fs i v)[j]? = fs[j]? := by
  induction fs generalizing i j with
  | nil => rfl
  | cons f fs ih =>
    cases i with
    | zero => simp at hi
    | succ i => cases j <;> simp [setAt, ih i _ (by simpa using hi)]

theorem foldl_setAt_get (targets : List Nat) (fs : List FilterS) (v : FilterS) (j : Nat) (hj : j < fs.length) :
    (targets.foldl (fun fs i => setAt fs i v) fs)[j]? = if j ∈ targets then some v else fs[j]? := by
  induction targets generalizing fs with
  | nil => simp
  | cons t ts ih =>
    simp only [List.foldl_cons]
    rw [ih (setAt fs t v) (by rw [setAt_length]; exact hj)]
    by_cases hjt : j ∈ ts
    · simp [hjt]
    · simp only [hjt, if_false, List.mem_cons, or_false]
      by_cases ht : t < fs.length
      · rw [setAt_get fs t j v ht]
      · rw [setAt_get_oob fs t j v (by omega)]
        have : j ≠ t := by omega
        simp [this]

/-- EXACTLY THE REFERENCING FILTERS: after a reconcile that carries a non-empty value, every filter indexed under the
    reconciled key holds that value as its literal secret, every other filter is untouched -/
theorem reconcile_updates_exactly (st : State) (reqNs reqName v : Str) (hv : v ≠ []) (j : Nat) (hj : j < st.filters.length) :
    (reconcile st reqNs reqName (.data (some v))).filters[j]? =
      if (keyOf reqNs reqName, j) ∈ st.index then some (some (.literal v)) else st.filters[j]? := by
  unfold reconcile
  simp only
  by_cases he : ((st.index.filter (·.1 == keyOf reqNs reqName)).map (·.2)).isEmpty = true
  · simp only [he, if_true]
    have : (keyOf reqNs reqName, j) ∉ st.index := by
      intro hm
      have : j ∈ (st.index.filter (·.1 == keyOf reqNs reqName)).map (·.2) :=
        List.mem_map.mpr ⟨(keyOf reqNs reqName, j), List.mem_filter.mpr ⟨hm, by simp⟩, rfl⟩
      rw [List.isEmpty_iff] at he
      rw [he] at this
      cases this
    simp [this]
  · simp only [he, hv, if_false, Bool.false_eq_true]
    rw [foldl_setAt_get _ _ _ j hj]
    have : (j ∈ (st.index.filter (·.1 == keyOf reqNs reqName)).map (·.2)) ↔ (keyOf reqNs reqName, j) ∈ st.index := by
      constructor
      · intro h
        obtain ⟨x, hx, rfl⟩ := List.mem_map.mp h
        obtain ⟨hx1, hx2⟩ := List.mem_filter.mp hx
        have : x.1 = keyOf reqNs reqName := by simpa using hx2
        rw [← this]; exact hx1
      · intro h
        exact List.mem_map.mpr ⟨(keyOf reqNs reqName, j), List.mem_filter.mpr ⟨h, by simp⟩, rfl⟩
    by_cases hm : (keyOf reqNs reqName, j) ∈ st.index <;> simp [hm, this]

/-- everything else leaves the configuration untouched: unknown key (other namespace, unrelated name), object not found,
    object being deleted, key absent, value empty -/
theorem reconcile_ignores (st : State) (reqNs reqName : Str) (l : Lookup)
    (h : (∀ i, (keyOf reqNs reqName, i) ∉ st.index) ∨ l = .notFound ∨ l = .deleting ∨ l = .data none ∨ l = .data (some [])) :
    reconcile st reqNs reqName l = st := by
  unfold reconcile
  simp only
  rcases h with h | h | h | h | h
  · have : ((st.index.filter (·.1 == keyOf reqNs reqName)).map (·.2)).isEmpty = true := by
      rw [List.isEmpty_iff, List.map_eq_nil_iff, List.filter_eq_nil_iff]
      intro x hx hk
      have : x.1 = keyOf reqNs reqName := by simpa using hk
      exact h x.2 (by rw [← this]; exact hx)
    simp [this]
  all_goals (subst h; split <;> simp)

/-- the index built at start-up survives every reconcile (also the flip of the oneof from reference to literal), so a
    rotated Secret keeps reaching the same filters -/
theorem reconcile_keeps_index (st : State) (reqNs reqName : Str) (l : Lookup) :
    (reconcile st reqNs reqName l).index = st.index ∧ (reconcile st reqNs reqName l).ns = st.ns := by
  unfold reconcile
  simp only
  split
  · exact ⟨rfl, rfl⟩
  · split <;> first | exact ⟨rfl, rfl⟩ | (split <;> exact ⟨rfl, rfl⟩)

/-- cross-namespace references are refused -/
theorem refuse_cross_namespace (ns : Str) (fs : List FilterS) (i : Nat)
    (h : ∃ rns name, some (Src.ref rns name) ∈ fs ∧ name ≠ [] ∧ rns ≠ [] ∧ rns ≠ ns) : loadSecrets ns fs i = none := by
  induction fs generalizing i with
  | nil => obtain ⟨_, _, hm, _⟩ := h; simp at hm
  | cons f fs ih =>
    obtain ⟨rns, name, hm, hn, h1, h2⟩ := h
    simp only [List.mem_cons] at hm
    unfold loadSecrets
    rcases hm with hm | hm
    · subst hm
      simp [hn, h1, h2]
    · have := ih (i + 1) ⟨rns, name, hm, hn, h1, h2⟩
      cases f with
      | none => simpa using this
      | some s =>
        cases s with
        | none => simpa using this
        | literal _ => simpa using this
        | ref r n =>
          simp only
          split
          · exact this
          · split
            · rfl
            · simp [this]

/-- the index contains exactly the positions of the filters that reference a name, under the CURRENT namespace -/
theorem index_sound (ns : Str) (fs : List FilterS) (i : Nat) (idx : List (Str × Nat)) (h : loadSecrets ns fs i = some idx) :
    ∀ k j, (k, j) ∈ idx ↔ ∃ rns name, fs[j - i]? = some (some (Src.ref rns name)) ∧ i ≤ j ∧ name ≠ [] ∧ k = keyOf ns name := by
  induction fs generalizing i idx with
  | nil =>
    simp [loadSecrets] at h; subst h
    intro k j; simp
  | cons f fs ih =>
    intro k j
    unfold loadSecrets at h
    have step : ∀ idx', loadSecrets ns fs (i + 1) = some idx' →
        ((k, j) ∈ idx' ↔ ∃ rns name, (f :: fs)[j - i]? = some (some (Src.ref rns name)) ∧ i + 1 ≤ j ∧ name ≠ [] ∧ k = keyOf ns name) := by
      intro idx' h'
      rw [ih (i + 1) idx' h' k j]
      constructor
      · rintro ⟨rns, name, hg, hle, hn, hk⟩
        refine ⟨rns, name, ?_, hle, hn, hk⟩
        have : j - i = (j - (i + 1)) + 1 := by omega
        rw [this]; simpa using hg
      · rintro ⟨rns, name, hg, hle, hn, hk⟩
        refine ⟨rns, name, ?_, hle, hn, hk⟩
        have : j - i = (j - (i + 1)) + 1 := by omega
        rw [this] at hg; simpa using hg
    have notHead : ∀ (hf : ∀ rns name, f = some (Src.ref rns name) → name = []),
        (∃ rns name, (f :: fs)[j - i]? = some (some (Src.ref rns name)) ∧ i ≤ j ∧ name ≠ [] ∧ k = keyOf ns name) ↔
        (∃ rns name, (f :: fs)[j - i]? = some (some (Src.ref rns name)) ∧ i + 1 ≤ j ∧ name ≠ [] ∧ k = keyOf ns name) := by
      intro hf
      constructor
      · rintro ⟨rns, name, hg, hle, hn, hk⟩
        by_cases hji : j = i
        · subst hji; simp at hg; exact absurd (hf rns name hg) hn
        · exact ⟨rns, name, hg, by omega, hn, hk⟩
      · rintro ⟨rns, name, hg, hle, hn, hk⟩; exact ⟨rns, name, hg, by omega, hn, hk⟩
    cases f with
    | none =>
      simp only at h
      rw [notHead (by intro _ _ e; cases e)]; exact step idx h
    | some s =>
      cases s with
      | none => simp only at h; rw [notHead (by intro _ _ e; cases e)]; exact step idx h
      | literal _ => simp only at h; rw [notHead (by intro _ _ e; cases e)]; exact step idx h
      | ref r n =>
        simp only at h
        by_cases hn : n = []
        · simp only [hn, if_true] at h
          rw [notHead (by intro _ _ e; injection e with e; injection e with _ e2; rw [← e2]; exact hn)]
          exact step idx h
        · simp only [hn, if_false] at h
          by_cases hx : r ≠ [] ∧ r ≠ ns
          · simp [hx] at h
          · simp only [hx, if_false] at h
            cases hl : loadSecrets ns fs (i + 1) with
            | none => simp [hl] at h
            | some idx' =>
              simp [hl] at h; subst h
              simp only [List.mem_cons, Prod.mk.injEq]
              rw [step idx' hl]
              constructor
              · rintro (⟨rfl, rfl⟩ | ⟨rns, name, hg, hle, hnn, hk⟩)
                · exact ⟨r, n, by simp, Nat.le_refl _, hn, rfl⟩
                · exact ⟨rns, name, hg, by omega, hnn, hk⟩
              · rintro ⟨rns, name, hg, hle, hnn, hk⟩
                by_cases hji : j = i
                · subst hji
                  simp at hg
                  obtain ⟨rfl, rfl⟩ := hg
                  exact Or.inl ⟨hk, rfl⟩
                · exact Or.inr ⟨rns, name, hg, by omega, hnn, hk⟩

end Secret
end AuthModel
