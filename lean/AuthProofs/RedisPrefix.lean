import AuthModel.Store.Redis
set_option linter.unusedSimpArgs false
namespace AuthModel
namespace Redis

/-- every token member of `x` is the one of `h`, the one of `t'`, or absent -/
def PrefixInv (h : RHash) (t' : Tokens) (x : RHash) : Prop :=
  (x.idToken = h.idToken ∨ x.idToken = some t'.idToken ∨ x.idToken = none) ∧
  (x.accessToken = h.accessToken ∨ x.accessToken = some t'.accessToken ∨ x.accessToken = none) ∧
  (x.refreshToken = h.refreshToken ∨ x.refreshToken = some t'.refreshToken ∨ x.refreshToken = none) ∧
  (x.accessExp = h.accessExp ∨ x.accessExp = t'.accessExp ∨ x.accessExp = none)

theorem norm_inv (h : RHash) (t' : Tokens) (x : RHash) (hx : PrefixInv h t' x) : PrefixInv h t' (norm x) := by
  unfold norm; split
  · exact hx
  · simp [PrefixInv]

theorem step_inv (h : RHash) (t' : Tokens) (now : Int) (f : RHash → RHash) (hf : f ∈ setTokSteps t' now)
    (x : RHash) (hx : PrefixInv h t' x) : PrefixInv h t' (f x) := by
  obtain ⟨h1, h2, h3, h4⟩ := hx
  unfold setTokSteps at hf
  simp only [List.mem_append, List.mem_singleton] at hf
  rcases hf with ((((hf | hf) | hf) | hf) | hf) | hf
  · subst hf; exact ⟨Or.inr (Or.inl rfl), h2, h3, h4⟩
  · split at hf
    · simp at hf; subst hf; exact ⟨h1, Or.inr (Or.inl rfl), h3, h4⟩
    · simp at hf
  · split at hf
    · simp at hf; subst hf; exact ⟨h1, h2, h3, Or.inr (Or.inl rfl)⟩
    · simp at hf
  · split at hf
    · simp at hf; subst hf; exact ⟨h1, h2, Or.inr (Or.inl rfl), h4⟩
    · simp at hf
  · split at hf
    · simp at hf; subst hf
      apply norm_inv
      refine ⟨h1, ?_, ?_, ?_⟩
      · simp only; split <;> simp [h2]
      · simp only; split <;> simp [h3]
      · simp only; split <;> simp [h4]
    · simp at hf
  · subst hf
    simp only; split <;> exact ⟨h1, h2, h3, h4⟩

theorem foldl_inv (h : RHash) (t' : Tokens) (steps : List (RHash → RHash))
    (hs : ∀ f ∈ steps, ∀ x, PrefixInv h t' x → PrefixInv h t' (f x)) (x : RHash) (hx : PrefixInv h t' x) :
    PrefixInv h t' (runSteps steps x) := by
  unfold runSteps
  induction steps generalizing x with
  | nil => exact hx
  | cons f fs ih =>
    simp only [List.foldl_cons]
    exact ih (fun g hg => hs g (by simp [hg])) _ (hs f (by simp) x hx)

/-- CRASH POINTS: after any prefix of the Redis commands of SetTokenResponse(t') nothing but members of the old and
    the new token set (or absence) is in the hash. -/
theorem prefix_safe (t' : Tokens) (now : Int) (h : RHash) (k : Nat) :
    PrefixInv h t' (runSteps ((setTokSteps t' now).take k) h) := by
  apply foldl_inv
  · intro f hf x hx
    exact step_inv h t' now f (List.mem_of_mem_take hf) x hx
  · exact ⟨Or.inl rfl, Or.inl rfl, Or.inl rfl, Or.inl rfl⟩

end Redis
end AuthModel
