/-
  Equivalence of the MECHANICALLY TRANSLATED Go functions (AuthModel/Generated/Code*.lean, regenerated from /repo
  on every run by tools/factgen/translate.go) with the hand-written model the property theorems are about.

  Each theorem has the form  `Code.f env args = .ok (model …)`: the translated function never panics
  (no slice out of range, no nil dereference, no index out of range) and computes the model's function.
  A change to the Go source changes the generated definition; if the behaviour changes, the proof below no longer
  checks and every property theorem that is transferred to the code through it is reported as unproved.
-/
import AuthModel.Generated.CodeAuthz
import AuthProofs.Splitter
import AuthProofs.Trigger
import AuthProofs.Chain
set_option linter.unusedSimpArgs false
namespace AuthModel
open Str Go

theorem index_some (s : Str) (c : UInt8) (n : Nat) (h : indexOf c s = some n) : Go.index s [c] = (n : Int) := by
  simp [Go.index, Go.indexOfSub_single, h]
theorem index_none (s : Str) (c : UInt8) (h : indexOf c s = none) : Go.index s [c] = -1 := by
  simp [Go.index, Go.indexOfSub_single, h]

theorem B_hash : B "#" = [35] := by decide
theorem B_q : B "?" = [63] := by decide

theorem slice_ok (s : Str) (a b : Int) (lo hi : Nat) (ha : a = lo) (hb : b = hi) (h1 : lo ≤ hi) (h2 : hi ≤ s.length) :
    Go.slice s a b = .ok ((s.take hi).drop lo) := by
  subst ha hb
  have : (0:Int) ≤ lo ∧ (lo:Int) ≤ hi ∧ (hi:Int) ≤ s.length := by omega
  simp [Go.slice, this]

theorem sliceTo_ok (s : Str) (b : Int) (hi : Nat) (hb : b = hi) (h2 : hi ≤ s.length) :
    Go.sliceTo s b = .ok (s.take hi) := by
  simpa [Go.sliceTo] using slice_ok s 0 b 0 hi rfl hb (Nat.zero_le _) h2

theorem sliceFrom_ok (s : Str) (a : Int) (lo : Nat) (ha : a = lo) (h2 : lo ≤ s.length) :
    Go.sliceFrom s a = .ok (s.drop lo) := by
  simpa [Go.sliceFrom] using slice_ok s a s.length lo s.length ha rfl h2 (Nat.le_refl _)

theorem code_pqf (env : Go.Env) (s : Str) : Code.GetPathQueryFragment env s = .ok (pqf s) := by
  unfold Code.GetPathQueryFragment pqf
  simp only [B_hash, B_q, Str.cut_eq_index]
  cases hh : indexOf 35 s with
  | none =>
    rw [index_none _ _ hh]
    cases hi : indexOf 63 s with
    | none => simp [index_none _ _ hi, bind, Except.bind, pure, Except.pure]
    | some i =>
      have hlt := Str.indexOf_lt hi
      rw [index_some _ _ _ hi]
      simp [bind, Except.bind, pure, Except.pure,
        sliceTo_ok s i i rfl (Nat.le_of_lt hlt), sliceFrom_ok s (i + 1) (i + 1) (by omega) (by omega)]
  | some h =>
    have hlt := Str.indexOf_lt hh
    rw [index_some _ _ _ hh]
    simp only [sliceTo_ok s h h rfl (Nat.le_of_lt hlt), bind, Except.bind, pure, Except.pure]
    cases hi : indexOf 63 (s.take h) with
    | none =>
      simp [index_none _ _ hi, sliceTo_ok s h h rfl (Nat.le_of_lt hlt), sliceFrom_ok s (h + 1) (h + 1) (by omega) (by omega)]
    | some i =>
      have hil := Str.indexOf_lt hi
      have hih : i < h := by simp at hil; omega
      simp [index_some _ _ _ hi, sliceTo_ok s i i rfl (by omega),
        slice_ok s (i + 1) h (i + 1) h (by omega) rfl (by omega) (by omega),
        sliceFrom_ok s (h + 1) (h + 1) (by omega) (by omega), List.take_take, Nat.min_eq_left (Nat.le_of_lt hih)]

def reOf (env : Go.Env) : ReOracle := fun pat s => (env.regexpMatchString pat s).1

def smOf (m : Pb.StringMatch) : StringMatch :=
  match m.GetMatchType with
  | .Exact v => .exact v.Exact
  | .Prefix v => .pfx v.Prefix
  | .Suffix v => .sfx v.Suffix
  | .Regex v => .regex v.Regex
  | .nil => .unset

theorem code_stringMatch (env : Go.Env) (m : Pb.StringMatch) (p : Str) :
    Code.stringMatch env m p = .ok (stringMatch (reOf env) (smOf m) p) := by
  unfold Code.stringMatch smOf
  cases h : m.GetMatchType <;> simp [stringMatch, bind, Except.bind, pure, Except.pure, reOf, Go.Env.regexpMatch,
    Pb.StringMatch_Exact.Exact!, Pb.StringMatch_Prefix.Prefix!, Pb.StringMatch_Suffix.Suffix!, Pb.StringMatch_Regex.Regex!,
    Go.hasPrefix, Go.hasSuffix]



theorem forIn_any {α β : Type} (xs : List α) (f : α → Bool) (v : β) :
    (forIn (m := Except String) xs ((none, ()) : Option β × Unit) fun x _ =>
        if f x = true then Except.ok (ForInStep.done (some v, ())) else Except.ok (ForInStep.yield (none, ())))
      = .ok (if xs.any f then (some v, ()) else (none, ())) := by
  induction xs with
  | nil => simp [pure, Except.pure]
  | cons a t ih =>
    simp only [List.forIn_cons, List.any_cons]
    by_cases h : f a = true
    · simp [h, bind, Except.bind, pure, Except.pure]
    · have h' : f a = false := by simpa using h
      simp [h', bind, Except.bind, pure, Except.pure]
      simpa using ih

def ruleOf (r : Pb.TriggerRule) : TriggerRule :=
  if r.isNil then { excluded := [], included := [.unset] }
  else { excluded := r.ExcludedPaths.map smOf, included := r.IncludedPaths.map smOf }

theorem code_matchTriggerRule (env : Go.Env) (r : Pb.TriggerRule) (p : Str) :
    Code.matchTriggerRule env r p = .ok (matchTriggerRule (reOf env) (ruleOf r) p) := by
  unfold Code.matchTriggerRule
  unfold ruleOf matchTriggerRule
  cases hn : r.isNil
  · simp [bind, Except.bind, pure, Except.pure, Pb.TriggerRule.GetExcludedPaths, Pb.TriggerRule.GetIncludedPaths, hn, List.any_map, Go.len, code_stringMatch, forIn_any]
    by_cases h1 : ∃ x, x ∈ r.ExcludedPaths ∧ stringMatch (reOf env) (smOf x) p = true
    · simp [h1]
    · by_cases h2 : r.IncludedPaths = []
      · simp [h1, h2]
      · by_cases h3 : ∃ x, x ∈ r.IncludedPaths ∧ stringMatch (reOf env) (smOf x) p = true
        · simp [h1, h2, h3]
        · simp [h1, h2, h3]
          intro x hx
          cases hb : stringMatch (reOf env) (smOf x) p
          · rfl
          · exact absurd ⟨x, hx, hb⟩ h3
  · simp [pure, Except.pure, stringMatch, hn]

def httpOf (req : Pb.CheckRequest) : Pb.AttributeContext_HttpRequest := req.GetAttributes.GetRequest.GetHttp

theorem code_mustTriggerCheck (env : Go.Env) (rules : List Pb.TriggerRule) (req : Pb.CheckRequest) :
    Code.mustTriggerCheck env rules req = .ok (mustTrigger (reOf env) (rules.map ruleOf) (httpOf req).GetPath) := by
  unfold Code.mustTriggerCheck mustTrigger pathOf httpOf
  simp only [code_pqf, code_matchTriggerRule]
  simp [bind, Except.bind, pure, Except.pure, Go.len, forIn_any]
  by_cases h1 : rules = []
  · simp [h1]
  · by_cases h2 : (pqf req.GetAttributes.GetRequest.GetHttp.GetPath).fst = []
    · simp [h2]
    · by_cases h3 : ∃ x, x ∈ rules ∧ matchTriggerRule (reOf env) (ruleOf x) (pqf req.GetAttributes.GetRequest.GetHttp.GetPath).fst = true
      · simp [h1, h2, h3]
      · simp [h1, h2, h3]
        intro x hx
        cases hb : matchTriggerRule (reOf env) (ruleOf x) (pqf req.GetAttributes.GetRequest.GetHttp.GetPath).fst
        · rfl
        · exact absurd ⟨x, hx, hb⟩ h3


/-- the chain criterion of the model that a protobuf `Match` pointer stands for -/
def matchOf (m : Pb.Match) : Option Match :=
  if m.isNil then none else some { header := m.Header, equality := m.GetEquality, pfx := m.GetPrefix }

theorem mapGet_eq_headerValue (m : Go.Map) (k : Str) : Go.Map.get m k = headerValue m k := by
  unfold Go.Map.get headerValue
  cases List.find? (fun x => x.fst == k) m <;> rfl

theorem code_matches (env : Go.Env) (m : Pb.Match) (req : Pb.CheckRequest) :
    Code.matches_ env m req = .ok (chainMatches (matchOf m) (httpOf req).GetHeaders) := by
  unfold Code.matches_ matchOf chainMatches httpOf
  cases hn : m.isNil
  · cases hc : m.Criteria with
    | Equality v =>
      by_cases hv : v = []
      · simp [bind, Except.bind, pure, Except.pure, Pb.Match.Header!, hn, hc, hv, mapGet_eq_headerValue, Go.toLower,
          Go.hasPrefix, Pb.Match.GetEquality, Pb.Match.GetPrefix, B]
      · simp [bind, Except.bind, pure, Except.pure, Pb.Match.Header!, hn, hc, hv, mapGet_eq_headerValue, Go.toLower,
          Go.hasPrefix, Pb.Match.GetEquality, Pb.Match.GetPrefix, B]
    | _ =>
      simp [bind, Except.bind, pure, Except.pure, Pb.Match.Header!, hn, hc, mapGet_eq_headerValue, Go.toLower,
        Go.hasPrefix, Pb.Match.GetEquality, Pb.Match.GetPrefix, B]
  · simp [pure, Except.pure, hn]

end AuthModel
