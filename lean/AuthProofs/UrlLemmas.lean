import AuthModel.Url
import AuthProofs.StrLemmas
set_option linter.unusedSimpArgs false
namespace AuthModel
open Str

theorem unhex_upperHex_hi : ∀ b : UInt8, unhex (upperHex (b >>> 4)) = some (b >>> 4) :=
  forall_byte (by decide +kernel)

theorem unhex_upperHex_lo : ∀ b : UInt8, unhex (upperHex (b &&& 15)) = some (b &&& 15) :=
  forall_byte (by decide +kernel)

theorem nibbles : ∀ b : UInt8, ((b >>> 4) <<< 4 ||| (b &&& 15)) = b := forall_byte (by decide +kernel)

theorem unreserved_not_special : ∀ b : UInt8, unreserved b = true → b ≠ 37 ∧ b ≠ 43 :=
  forall_byte (by decide +kernel)

theorem queryUnescape_cons_ne (b : UInt8) (s : Str) (h : b ≠ 37) :
    queryUnescape (b :: s) = match queryUnescape s with
      | some r => some ((if b = 43 then 32 else b) :: r)
      | none => none := by
  rw [queryUnescape.eq_def]
  split <;> first | (simp_all; done) | (rename_i heq; simp at heq; obtain ⟨rfl, rfl⟩ := heq; rfl)

/-- every byte string survives `QueryEscape` followed by `QueryUnescape` -/
theorem queryUnescape_queryEscape (s : Str) : queryUnescape (queryEscape s) = some s := by
  induction s with
  | nil => simp [queryEscape, queryUnescape]
  | cons b s ih =>
    unfold queryEscape
    by_cases h32 : b = 32
    · subst h32
      simp only [if_true]
      rw [queryUnescape_cons_ne 43 _ (by decide), ih]
      simp
    · simp only [h32, if_false]
      by_cases hu : unreserved b = true
      · have := unreserved_not_special b hu
        simp only [hu, if_true]
        rw [queryUnescape_cons_ne b _ this.1, ih]
        simp [this.2]
      · simp only [hu]
        simp [queryUnescape, unhex_upperHex_hi, unhex_upperHex_lo, ih, nibbles]

/-- bytes produced by `QueryEscape`: unreserved, `+`, `%` or upper-case hex digits - never `&`, `=`, `;`, `#`, `?` or space -/
def escSafe (b : UInt8) : Bool := unreserved b || b == 43 || b == 37

theorem upperHex_safe_hi : ∀ b : UInt8, escSafe (upperHex (b >>> 4)) = true := forall_byte (by decide +kernel)
theorem upperHex_safe_lo : ∀ b : UInt8, escSafe (upperHex (b &&& 15)) = true := forall_byte (by decide +kernel)

theorem queryEscape_safe (s : Str) : ∀ b ∈ queryEscape s, escSafe b = true := by
  induction s with
  | nil => simp [queryEscape]
  | cons c s ih =>
    unfold queryEscape
    intro b hb
    by_cases h32 : c = 32
    · simp [h32] at hb
      rcases hb with rfl | hb
      · decide
      · exact ih b hb
    · simp only [h32, if_false] at hb
      by_cases hu : unreserved c = true
      · simp only [hu, if_true] at hb
        simp at hb
        rcases hb with rfl | hb
        · simp [escSafe, hu]
        · exact ih b hb
      · simp only [hu] at hb
        simp at hb
        rcases hb with rfl | rfl | rfl | hb
        · decide
        · exact upperHex_safe_hi c
        · exact upperHex_safe_lo c
        · exact ih b hb

theorem escSafe_not_sep : ∀ b : UInt8, escSafe b = true → b ≠ 38 ∧ b ≠ 61 ∧ b ≠ 59 ∧ b ≠ 35 ∧ b ≠ 63 ∧ b ≠ 32 :=
  forall_byte (by decide +kernel)

end AuthModel
