import AuthModel.Store.Memory
set_option linter.unusedSimpArgs false
set_option linter.unusedVariables false
namespace AuthModel
namespace MemStore

/-- what the memory store stands for at time `now`: its live sessions, as entries of the plain map -/
def absM (m : MemStore) (now : Int) : SpecMap := fun id =>
  match m.sessions id with
  | none => none
  | some s => if m.expired now s then none else some { auth := s.auth, tokens := s.tokens, created := s.added }

theorem upd_same {α} (m : Str → α) (k : Str) (v : α) : upd m k v k = v := by simp [upd]
theorem upd_other {α} (m : Str → α) (k k' : Str) (v : α) (h : k' ≠ k) : upd m k v k' = m k' := by simp [upd, h]

theorem live_abs (m : MemStore) (now : Int) (id : Str) : (m.live now id).1.abs = m.abs ∧ (m.live now id).1.idle = m.idle := by
  unfold live
  split
  · simp
  · split <;> simp

/-- `live` does not change what the store stands for at `now`, and returns the abstract entry's source -/
theorem live_absM (m : MemStore) (now : Int) (id : Str) : absM (m.live now id).1 now = absM m now := by
  funext k
  unfold live
  cases hs : m.sessions id with
  | none => simp
  | some s =>
    by_cases he : m.expired now s = true
    · simp only [he, if_true]
      unfold absM
      by_cases hk : k = id
      · subst hk; simp [upd, hs, he]
      · simp [upd, hk, expired]
    · simp [he]

theorem live_snd (m : MemStore) (now : Int) (id : Str) :
    (m.live now id).2 = match m.sessions id with
      | none => none
      | some s => if m.expired now s then none else some s := by
  unfold live
  cases hs : m.sessions id with
  | none => rfl
  | some s => by_cases he : m.expired now s = true <;> simp [he]

theorem live_sessions_id (m : MemStore) (now : Int) (id : Str) :
    (m.live now id).1.sessions id = (m.live now id).2 := by
  unfold live
  cases hs : m.sessions id with
  | none => simp [hs]
  | some s => by_cases he : m.expired now s = true <;> simp [he, upd, hs]

theorem live_sessions_other (m : MemStore) (now : Int) (id k : Str) (h : k ≠ id) :
    (m.live now id).1.sessions k = m.sessions k := by
  unfold live
  cases hs : m.sessions id with
  | none => simp
  | some s => by_cases he : m.expired now s = true <;> simp [he, upd, h]

/-- a session whose last access is `now` and which was live at `now` (or is new) is not expired at `now` -/
theorem not_expired_touched (m : MemStore) (now : Int) (s : MSess) (h : m.expired now s = false) (f : MSess → MSess)
    (hadded : (f { s with accessed := now }).added = s.added) (hacc : (f { s with accessed := now }).accessed = now) :
    m.expired now (f { s with accessed := now }) = false := by
  unfold expired at *
  simp only [hadded, hacc]
  simp only [Bool.or_eq_false_iff, Bool.and_eq_false_iff, decide_eq_false_iff_not] at h ⊢
  omega

theorem not_expired_new (m : MemStore) (now : Int) (s : MSess) (ha : s.added = now) (hc : s.accessed = now) :
    m.expired now s = false := by
  unfold expired
  simp only [ha, hc, Bool.or_eq_false_iff, Bool.and_eq_false_iff, decide_eq_false_iff_not]
  omega

end MemStore
end AuthModel

namespace AuthModel
namespace MemStore

def toSess (s : MSess) : Sess := { auth := s.auth, tokens := s.tokens, created := s.added }

theorem absM_id (m : MemStore) (now : Int) (id : Str) : absM m now id = ((m.live now id).2).map toSess := by
  rw [live_snd]
  unfold absM
  cases hs : m.sessions id with
  | none => rfl
  | some s => by_cases he : m.expired now s = true <;> simp [he, toSess]

theorem expired_congr (m m' : MemStore) (h1 : m'.abs = m.abs) (h2 : m'.idle = m.idle) (now : Int) (s : MSess) :
    m'.expired now s = m.expired now s := by
  unfold expired; rw [h1, h2]

/-- generic effect of `set` on the abstraction -/
theorem set_absM (m : MemStore) (now : Int) (id : Str) (f : MSess → MSess)
    (hf : ∀ s, (f s).added = s.added ∧ (f s).accessed = s.accessed) (k : Str) :
    absM (m.set now id f) now k =
      if k = id then
        some (toSess (f (match (m.live now id).2 with
          | some s => { s with accessed := now }
          | none => { tokens := none, auth := none, added := now, accessed := now })))
      else absM m now k := by
  have habs := live_abs m now id
  have hlive := live_absM m now id
  unfold set
  have hsid0 := live_sessions_id m now id
  have hsnd0 := live_snd m now id
  generalize hl1 : (m.live now id).1 = m1 at *
  generalize hl2 : (m.live now id).2 = os at *
  simp only at habs hlive ⊢
  by_cases hk : k = id
  · subst hk
    simp only [if_true]
    cases os with
    | none =>
      simp only
      unfold absM
      simp only [upd, if_true]
      have := not_expired_new m1 now (f { tokens := none, auth := none, added := now, accessed := now })
        ((hf _).1) ((hf _).2)
      simp only [expired] at this ⊢
      simp [this, toSess]
    | some s =>
      simp only
      have hs : m1.sessions k = some s := hsid0
      have hne : m.expired now s = false := by
        have := hsnd0
        cases hms : m.sessions k with
        | none => rw [hms] at this; cases this
        | some s0 =>
          rw [hms] at this
          by_cases he : m.expired now s0 = true
          · simp [he] at this
          · simp only [he] at this
            simp only [Bool.false_eq_true, if_false, Option.some.injEq] at this
            subst this
            simpa using he
      have hne1 : m1.expired now s = false := by rw [expired_congr m m1 habs.1 habs.2]; exact hne
      have := not_expired_touched m1 now s hne1 f
        (by simpa using (hf { s with accessed := now }).1) (by simpa using (hf { s with accessed := now }).2)
      unfold absM
      simp only [upd, if_true]
      simp only [expired] at this ⊢
      simp [this, toSess]
  · simp only [hk, if_false]
    rw [← hlive]
    cases os <;> (unfold absM; simp [upd, hk, expired])

theorem setTok_refines (m : MemStore) (now : Int) (id : Str) (t : Tokens) :
    absM (m.setTok now id t) now = Spec.setTok (absM m now) id t now := by
  funext k
  unfold setTok
  rw [set_absM m now id (fun s => { s with tokens := some t }) (fun s => ⟨rfl, rfl⟩) k]
  unfold Spec.setTok upd
  by_cases hk : k = id
  · simp only [hk, if_true]
    rw [absM_id]
    cases (m.live now id).2 <;> simp [toSess]
  · simp [hk]

theorem setAuth_refines (m : MemStore) (now : Int) (id : Str) (a : AuthState) :
    absM (m.setAuth now id a) now = Spec.setAuth (absM m now) id a now := by
  funext k
  unfold setAuth
  rw [set_absM m now id (fun s => { s with auth := some a }) (fun s => ⟨rfl, rfl⟩) k]
  unfold Spec.setAuth upd
  by_cases hk : k = id
  · simp only [hk, if_true]
    rw [absM_id]
    cases (m.live now id).2 <;> simp [toSess]
  · simp [hk]

end MemStore
end AuthModel

namespace AuthModel
namespace MemStore

/-- generic effect of a "touch" (`getTok`, `getAuth`, `clearAuth`) that rewrites the live session with `g` -/
theorem touch_absM (m : MemStore) (now : Int) (id : Str) (g : MSess → MSess)
    (hg : ∀ s, (g s).added = s.added ∧ (g s).accessed = now) (k : Str)
    (m' : MemStore)
    (hm' : m' = match (m.live now id).2 with
      | none => (m.live now id).1
      | some s => { (m.live now id).1 with sessions := upd (m.live now id).1.sessions id (some (g s)) }) :
    absM m' now k =
      if k = id then ((m.live now id).2).map (fun s => toSess (g s)) else absM m now k := by
  have habs := live_abs m now id
  have hlive := live_absM m now id
  have hsid := live_sessions_id m now id
  have hsnd := live_snd m now id
  rcases hl : m.live now id with ⟨m1, os⟩
  rw [hl] at habs hlive hm' hsid hsnd
  simp only at habs hlive hm' hsid hsnd
  subst hm'
  by_cases hk : k = id
  · subst hk
    simp only [if_true]
    cases os with
    | none =>
      simp only [Option.map]
      unfold absM; rw [hsid]
    | some s =>
      simp only [Option.map]
      have hne : m.expired now s = false := by
        cases hms : m.sessions k with
        | none => rw [hms] at hsnd; cases hsnd
        | some s0 =>
          rw [hms] at hsnd
          by_cases he : m.expired now s0 = true
          · simp [he] at hsnd
          · simp only [he] at hsnd
            simp only [Bool.false_eq_true, if_false, Option.some.injEq] at hsnd
            subst hsnd; simpa using he
      have hne1 : m1.expired now s = false := by rw [expired_congr m m1 habs.1 habs.2]; exact hne
      have hge : m1.expired now (g s) = false := by
        have h1 := (hg s).1
        have h2 := (hg s).2
        unfold expired at hne1 ⊢
        rw [h1, h2]
        simp only [Bool.or_eq_false_iff, Bool.and_eq_false_iff, decide_eq_false_iff_not] at hne1 ⊢
        omega
      unfold absM
      simp only [upd, if_true]
      simp only [expired] at hge ⊢
      simp [hge, toSess]
  · simp only [hk, if_false]
    rw [← hlive]
    cases os <;> (unfold absM; simp [upd, hk, expired])

theorem getTok_refines (m : MemStore) (now : Int) (id : Str) :
    (m.getTok now id).2 = Spec.getTok (absM m now) id ∧ absM (m.getTok now id).1 now = absM m now := by
  constructor
  · unfold getTok Spec.getTok
    rw [absM_id]
    cases h : (m.live now id).2 <;> simp [toSess, h]
  · funext k
    rw [touch_absM m now id (fun s => { s with accessed := now }) (fun s => ⟨rfl, rfl⟩) k (m.getTok now id).1
      (by unfold getTok; cases h : (m.live now id).2 <;> simp [h])]
    by_cases hk : k = id
    · subst hk; simp only [if_true]; rw [absM_id]
      cases (m.live now k).2 <;> simp [toSess]
    · simp [hk]

theorem getAuth_refines (m : MemStore) (now : Int) (id : Str) :
    (m.getAuth now id).2 = Spec.getAuth (absM m now) id ∧ absM (m.getAuth now id).1 now = absM m now := by
  constructor
  · unfold getAuth Spec.getAuth
    rw [absM_id]
    cases h : (m.live now id).2 <;> simp [toSess, h]
  · funext k
    rw [touch_absM m now id (fun s => { s with accessed := now }) (fun s => ⟨rfl, rfl⟩) k (m.getAuth now id).1
      (by unfold getAuth; cases h : (m.live now id).2 <;> simp [h])]
    by_cases hk : k = id
    · subst hk; simp only [if_true]; rw [absM_id]
      cases (m.live now k).2 <;> simp [toSess]
    · simp [hk]

theorem clearAuth_refines (m : MemStore) (now : Int) (id : Str) :
    absM (m.clearAuth now id) now = Spec.clearAuth (absM m now) id := by
  funext k
  rw [touch_absM m now id (fun s => { s with accessed := now, auth := none }) (fun s => ⟨rfl, rfl⟩) k (m.clearAuth now id)
    (by unfold clearAuth; cases h : (m.live now id).2 <;> simp [h])]
  unfold Spec.clearAuth
  have hid := absM_id m now id
  cases hl : (m.live now id).2 with
  | none =>
    rw [hl] at hid; simp only [Option.map] at hid
    simp only [hid, Option.map]
    by_cases hk : k = id
    · subst hk; simp [hid]
    · simp [hk]
  | some s =>
    rw [hl] at hid; simp only [Option.map] at hid
    simp only [hid, Option.map]
    by_cases hk : k = id
    · subst hk; simp [upd, toSess]
    · simp [upd, hk]

theorem remove_refines (m : MemStore) (now : Int) (id : Str) :
    absM (m.remove id) now = Spec.remove (absM m now) id := by
  funext k
  unfold remove Spec.remove absM
  by_cases hk : k = id
  · simp [upd, hk]
  · simp [upd, hk, expired]

theorem sweepCond_eq_expired (m : MemStore) (now : Int) (s : MSess) :
    ((decide (m.abs > 0) && decide (s.added < now - m.abs)) || (decide (m.idle > 0) && decide (s.accessed < now - m.idle)))
      = m.expired now s := by
  unfold expired
  rw [Bool.eq_iff_iff]
  simp only [Bool.or_eq_true, Bool.and_eq_true, decide_eq_true_eq]
  omega

/-- sweeping changes nothing that is still live: `RemoveAllExpired` is invisible through the abstraction -/
theorem removeAllExpired_invisible (m : MemStore) (now : Int) : absM (m.removeAllExpired now) now = absM m now := by
  funext k
  unfold removeAllExpired absM
  simp only [sweepCond_eq_expired]
  cases hs : m.sessions k with
  | none => simp
  | some s =>
    simp only
    by_cases he : m.expired now s = true
    · simp [he]
    · simp only [he]
      simp only [Bool.false_eq_true, if_false]
      have : ({ m with sessions := fun id => match m.sessions id with
            | none => none
            | some s => if m.expired now s = true then none else some s } : MemStore).expired now s = m.expired now s := rfl
      simp only [expired] at this he ⊢
      simp [he]

end MemStore
end AuthModel
