import AuthModel.Store.Redis
set_option linter.unusedSimpArgs false
set_option linter.unusedVariables false
namespace AuthModel
namespace Redis

/-- what a Redis hash stands for in the plain session map -/
def decode (parses : Str → Bool) (h : RHash) : Option Sess :=
  if !hasFields h then none else some {
    auth := if h.state.getD [] = [] ∨ h.nonce.getD [] = [] ∨ h.requestedUrl.getD [] = [] ∨ h.codeVerifier.getD [] = []
            then none else some (authOf h),
    tokens := if h.idToken.getD [] = [] ∨ parses (h.idToken.getD []) = false then none else some (tokensOf h),
    created := h.timeAdded.getD 0 }

/-- invariant of keys written by the store when no timeout is configured -/
def RInv (h : RHash) : Prop := (hasFields h = true → h.timeAdded.isSome = true) ∧ h.expireAt = none

theorem RInv_empty : RInv {} := by simp [RInv, hasFields]

theorem visible_of_noTTL (now : Int) (h : RHash) (hi : h.expireAt = none) : visible now h = h := by
  simp [visible, hi]

theorem not_hasFields_eq (h : RHash) (hf : hasFields h = false) (he : h.expireAt = none) : h = {} := by
  cases h
  simp only [hasFields, Bool.or_eq_false_iff, Option.isSome_eq_false_iff, Option.isNone_iff_eq_none] at hf
  simp_all

/-- input guard: what the handler stores -/
def TokOK (parses : Str → Bool) (t : Tokens) : Prop := t.idToken ≠ [] ∧ parses t.idToken = true
def AuthOK (a : AuthState) : Prop := a.state ≠ [] ∧ a.nonce ≠ [] ∧ a.requestedUrl ≠ [] ∧ a.codeVerifier ≠ []

theorem refresh_noTimeout (now : Int) (ta : Option Int) (h : RHash) (hta : h.timeAdded.isSome = true) :
    refresh 0 0 now ta h = (h, true) := by
  unfold refresh refreshTA
  cases ta with
  | some t => simp
  | none =>
    cases hh : h.timeAdded with
    | none => simp [hh] at hta
    | some t => simp

theorem setTok_refines (parses : Str → Bool) (now : Int) (t : Tokens) (h : RHash)
    (hi : RInv h) (ht : TokOK parses t) :
    (setTok 0 0 now t h).2 = true ∧ RInv (setTok 0 0 now t h).1 ∧
    decode parses (setTok 0 0 now t h).1 = some (match decode parses h with
      | none => { auth := none, tokens := some t, created := now }
      | some s => { s with tokens := some t }) := by
  obtain ⟨hta, hex⟩ := hi
  obtain ⟨hid, hp⟩ := ht
  unfold setTok
  rw [visible_of_noTTL now h hex]
  rcases t with ⟨tid, tacc, tref, texp⟩
  simp only at hid hp
  rcases h with ⟨i, a, r, e, s, n, u, c, ta, ex⟩
  simp only at hex; subst hex
  by_cases hf : hasFields ⟨i, a, r, e, s, n, u, c, ta, none⟩ = true
  · have := hta hf
    cases ta with
    | none => simp at this
    | some ta =>
      by_cases h1 : tacc = [] <;> by_cases h2 : tref = [] <;> cases texp <;>
        simp [setTokSteps, runSteps, refresh, refreshTA, norm, hasFields, h1, h2, RInv, decode, tokensOf, authOf, hid, hp]
  · have hf' : hasFields ⟨i, a, r, e, s, n, u, c, ta, none⟩ = false := by simpa using hf
    have := not_hasFields_eq _ hf' rfl
    simp only [RHash.mk.injEq] at this
    obtain ⟨rfl, rfl, rfl, rfl, rfl, rfl, rfl, rfl, rfl, _⟩ := this
    by_cases h1 : tacc = [] <;> by_cases h2 : tref = [] <;> cases texp <;>
      simp [setTokSteps, runSteps, refresh, refreshTA, norm, hasFields, h1, h2, RInv, decode, tokensOf, authOf, hid, hp]

theorem setAuth_refines (parses : Str → Bool) (now : Int) (a : AuthState) (h : RHash)
    (hi : RInv h) (ha : AuthOK a) :
    (setAuth 0 0 now a h).2 = true ∧ RInv (setAuth 0 0 now a h).1 ∧
    decode parses (setAuth 0 0 now a h).1 = some (match decode parses h with
      | none => { auth := some a, tokens := none, created := now }
      | some s => { s with auth := some a }) := by
  obtain ⟨hta, hex⟩ := hi
  obtain ⟨h1, h2, h3, h4⟩ := ha
  unfold setAuth
  rw [visible_of_noTTL now h hex]
  rcases a with ⟨as, an, au, ac⟩
  simp only at h1 h2 h3 h4
  rcases h with ⟨i, a, r, e, s, n, u, c, ta, ex⟩
  simp only at hex; subst hex
  by_cases hf : hasFields ⟨i, a, r, e, s, n, u, c, ta, none⟩ = true
  · have := hta hf
    cases ta with
    | none => simp at this
    | some ta =>
      simp [setAuthSteps, runSteps, refresh, refreshTA, hasFields, RInv, decode, tokensOf, authOf, h1, h2, h3, h4]
  · have hf' : hasFields ⟨i, a, r, e, s, n, u, c, ta, none⟩ = false := by simpa using hf
    have := not_hasFields_eq _ hf' rfl
    simp only [RHash.mk.injEq] at this
    obtain ⟨rfl, rfl, rfl, rfl, rfl, rfl, rfl, rfl, rfl, _⟩ := this
    simp [setAuthSteps, runSteps, refresh, refreshTA, hasFields, RInv, decode, tokensOf, authOf, h1, h2, h3, h4]

theorem getTok_refines (parses : Str → Bool) (now : Int) (h : RHash) (hi : RInv h) :
    getTok parses 0 0 now h = (h, .ok ((decode parses h).bind (·.tokens))) := by
  obtain ⟨hta, hex⟩ := hi
  unfold getTok
  rw [visible_of_noTTL now h hex]
  simp only
  by_cases hid : h.idToken.getD [] = []
  · simp only [hid, if_true, decide_true]
    simp only [decode, hid]
    cases hasFields h <;> simp
  · simp only [hid, if_false]
    by_cases hp : parses (h.idToken.getD []) = true
    · have hf : hasFields h = true := by
        cases hh : h.idToken with
        | none => simp [hh] at hid
        | some x => simp [hasFields, hh]
      rw [refresh_noTimeout now h.timeAdded h (hta hf)]
      simp [hp, decode, hf, hid]
    · have hp' : parses (h.idToken.getD []) = false := by simpa using hp
      simp only [hp', Bool.not_false, if_true]
      simp only [decode, hp']
      cases hasFields h <;> simp

theorem getAuth_refines (parses : Str → Bool) (now : Int) (h : RHash) (hi : RInv h) :
    getAuth 0 0 now h = (h, .ok ((decode parses h).bind (·.auth))) := by
  obtain ⟨hta, hex⟩ := hi
  unfold getAuth
  rw [visible_of_noTTL now h hex]
  simp only
  by_cases hc : h.state.getD [] = [] ∨ h.nonce.getD [] = [] ∨ h.requestedUrl.getD [] = [] ∨ h.codeVerifier.getD [] = []
  · simp only [hc, if_true]
    simp only [decode, hc]
    cases hasFields h <;> simp
  · have hf : hasFields h = true := by
      cases hh : h.state with
      | none => simp [hh] at hc
      | some x => simp [hasFields, hh]
    simp only [hc, if_false]
    rw [refresh_noTimeout now h.timeAdded h (hta hf)]
    simp [decode, hf, hc]

/-- clearing the login state of an existing session keeps tokens and creation time -/
theorem clearAuth_refines (parses : Str → Bool) (now : Int) (h : RHash) (hi : RInv h) (hf : hasFields h = true) :
    (clearAuth 0 0 now h).2 = true ∧ RInv (clearAuth 0 0 now h).1 ∧
    decode parses (clearAuth 0 0 now h).1 = (decode parses h).map (fun s => { s with auth := none }) := by
  obtain ⟨hta, hex⟩ := hi
  have := hta hf
  unfold clearAuth
  rw [visible_of_noTTL now h hex]
  rcases h with ⟨i, a, r, e, s, n, u, c, ta, ex⟩
  simp only at hex; subst hex
  cases ta with
  | none => simp at this
  | some ta =>
    simp [refresh, refreshTA, norm, hasFields, RInv, decode, tokensOf, authOf]

/-- named allowance (i): on an absent id the Redis store deletes the key and reports `ErrRedis` -/
theorem clearAuth_absent (now : Int) : clearAuth 0 0 now {} = ({}, false) := by
  simp [clearAuth, visible, norm, hasFields, refresh, refreshTA]

theorem remove_refines (parses : Str → Bool) (h : RHash) : decode parses (remove h) = none ∧ RInv (remove h) := by
  simp [remove, decode, hasFields, RInv]

theorem decode_empty (parses : Str → Bool) : decode parses {} = none := by simp [decode, hasFields]

end Redis
end AuthModel
