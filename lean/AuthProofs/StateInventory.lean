/-
  F8 obligations: the regenerated state inventory IS the classified expectation (AuthModel/StateExpect.lean).
-/
import AuthModel.Generated.State
import AuthModel.StateExpect
namespace AuthModel
open StateExpect

theorem state_server : Generated.stateServer = names server := by decide +kernel
theorem state_authz : Generated.stateAuthz = names authz := by decide +kernel
theorem state_oidc : Generated.stateOidc = names oidc := by decide +kernel
theorem state_http : Generated.stateHttp = names http := by decide +kernel
theorem state_internal : Generated.stateInternal = names internal := by decide +kernel
theorem state_k8s : Generated.stateK8s = names k8s := by decide +kernel

/-- the OIDC handler, the mock handler and the HTTP helpers have no mutable state of their own -/
theorem authz_http_stateless : ofClass "state" authz = [] ∧ ofClass "state" http = [] := by decide +kernel

/-- of the server package only the listeners/servers themselves are mutable; `ExtAuthZFilter` holds configuration and
    collaborators only -/
theorem server_mutable_state :
    ofClass "state" server = ["healthServer.server", "healthServer.l", "Server.server"] := by decide +kernel

/-- the only state of the `oidc` package that outlives a check: the discovery cache, the JWKS cache, the in-memory
    session map with its entries, the factory's stores.  In particular the Redis store has none. -/
theorem oidc_mutable_state :
    ofClass "state" oidc =
      ["var discovery.go:wellKnownConfigs", "var discovery.go:wellKnownConfigsMu", "DefaultJWKSProvider.cache",
       "DefaultJWKSProvider.started", "memoryStore.mu", "memoryStore.sessions", "session.tokenResponse",
       "session.authorizationState", "session.added", "session.accessed", "sessionStoreFactory.redis",
       "sessionStoreFactory.memory"] := by decide +kernel

theorem internal_mutable_state :
    ofClass "state" internal =
      ["FileWatcher.mu", "FileWatcher.watchers", "watcher.ctx", "watcher.cancel", "watcher.data", "tlsConfigPool.mu",
       "tlsConfigPool.configs"] ∧ ofClass "state" k8s = ["SecretController.secrets"] := by decide +kernel

/-- NO HIDDEN STATE ON THE CHECK PATH.  The regenerated inventory of package-level variables and struct fields of
    internal/server, internal/authz, internal/http and internal/oidc is the classified expectation, and in it the
    handlers, the filter, the HTTP helpers and the Redis store own no mutable state; what outlives a check is the
    in-memory session map, the discovery cache, the JWKS cache and the factory's stores - nothing else. -/
def CheckPathInventory : Prop :=
  Generated.stateServer = names server ∧ Generated.stateAuthz = names authz ∧ Generated.stateHttp = names http ∧
  Generated.stateOidc = names oidc ∧ ofClass "state" authz = [] ∧ ofClass "state" http = [] ∧
  ofClass "state" server = ["healthServer.server", "healthServer.l", "Server.server"] ∧
  ofClass "state" oidc =
      ["var discovery.go:wellKnownConfigs", "var discovery.go:wellKnownConfigsMu", "DefaultJWKSProvider.cache",
       "DefaultJWKSProvider.started", "memoryStore.mu", "memoryStore.sessions", "session.tokenResponse",
       "session.authorizationState", "session.added", "session.accessed", "sessionStoreFactory.redis",
       "sessionStoreFactory.memory"]

theorem check_path_inventory : CheckPathInventory :=
  ⟨state_server, state_authz, state_http, state_oidc, authz_http_stateless.1, authz_http_stateless.2,
   server_mutable_state, oidc_mutable_state⟩

/-- the same for the session stores alone (internal/oidc) -/
def StoreInventory : Prop :=
  Generated.stateOidc = names oidc ∧
  ofClass "state" oidc =
      ["var discovery.go:wellKnownConfigs", "var discovery.go:wellKnownConfigsMu", "DefaultJWKSProvider.cache",
       "DefaultJWKSProvider.started", "memoryStore.mu", "memoryStore.sessions", "session.tokenResponse",
       "session.authorizationState", "session.added", "session.accessed", "sessionStoreFactory.redis",
       "sessionStoreFactory.memory"]
theorem store_inventory : StoreInventory := ⟨state_oidc, oidc_mutable_state⟩

/-- the filter (internal/server): trigger rules and chain selection keep nothing between requests -/
def FilterInventory : Prop :=
  Generated.stateServer = names server ∧
  ofClass "state" server = ["healthServer.server", "healthServer.l", "Server.server"]
theorem filter_inventory : FilterInventory := ⟨state_server, server_mutable_state⟩

/-- loader, TLS pool, file watcher (package internal) and the secret controller (internal/k8s) -/
def InfraInventory : Prop :=
  Generated.stateInternal = names internal ∧ Generated.stateK8s = names k8s ∧ Generated.stateHttp = names http ∧
  ofClass "state" internal =
      ["FileWatcher.mu", "FileWatcher.watchers", "watcher.ctx", "watcher.cancel", "watcher.data", "tlsConfigPool.mu",
       "tlsConfigPool.configs"] ∧ ofClass "state" k8s = ["SecretController.secrets"]
theorem infra_inventory : InfraInventory :=
  ⟨state_internal, state_k8s, state_http, internal_mutable_state.1, internal_mutable_state.2⟩

end AuthModel
