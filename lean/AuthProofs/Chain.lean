import AuthModel.Chain
set_option linter.unusedSimpArgs false
namespace AuthModel
open Str

/-- every filter of `fs`, run in order from `r`, answered OK and the last one left `out` -/
def AllAllow : List Filter → Resp → Resp → Prop
  | [], r, out => out = r
  | f :: fs, r, out => ∃ r', f r = some r' ∧ r'.code = cOK ∧ AllAllow fs r' out

/-- Reference evaluator, written independently of the loops of `Check`. -/
def judge (allowUnmatched : Bool) (chains : List Chain) (hdrs : Headers) : Option Resp :=
  match chains.find? (fun c => chainMatches c.criterion hdrs) with
  | none => some (if allowUnmatched then allowResp else noChainResp)
  | some c => if c.filters.isEmpty then some allowResp else runFilters c.filters Resp.empty

theorem runChains_eq_judge (au : Bool) (chains : List Chain) (hdrs : Headers) :
    runChains au hdrs chains = judge au chains hdrs := by
  induction chains with
  | nil => simp [runChains, judge]
  | cons c cs ih =>
    unfold runChains judge
    by_cases h : chainMatches c.criterion hdrs = true
    · simp [h, List.find?_cons]
    · simp only [h, List.find?_cons]
      simp only [Bool.false_eq_true, if_false]
      rw [ih]; rfl

theorem runChains_first_match (au : Bool) (hdrs : Headers) (pre post : List Chain) (c : Chain)
    (hpre : ∀ x ∈ pre, chainMatches x.criterion hdrs = false)
    (hc : chainMatches c.criterion hdrs = true) :
    runChains au hdrs (pre ++ c :: post) =
      if c.filters.isEmpty then some allowResp else runFilters c.filters Resp.empty := by
  induction pre with
  | nil => simp [runChains, hc]
  | cons x xs ih =>
    have hx := hpre x (by simp)
    simp only [List.cons_append, runChains, hx]
    simp only [Bool.false_eq_true, if_false]
    exact ih (fun y hy => hpre y (by simp [hy]))

theorem runChains_no_match (au : Bool) (hdrs : Headers) (chains : List Chain)
    (h : ∀ x ∈ chains, chainMatches x.criterion hdrs = false) :
    runChains au hdrs chains = some (if au then allowResp else noChainResp) := by
  induction chains with
  | nil => simp [runChains]
  | cons x xs ih =>
    have hx := h x (by simp)
    simp only [runChains, hx]
    simp only [Bool.false_eq_true, if_false]
    exact ih (fun y hy => h y (by simp [hy]))

theorem runFilters_ok_allAllow (fs : List Filter) (r out : Resp)
    (h : runFilters fs r = some out) (hok : out.code = cOK) : AllAllow fs r out := by
  induction fs generalizing r with
  | nil => simp [runFilters] at h; simp [AllAllow, h]
  | cons f fs ih =>
    unfold runFilters at h
    cases hf : f r with
    | none => simp [hf] at h
    | some r' =>
      simp only [hf] at h
      by_cases hc : (r'.code == cOK) = true
      · simp only [hc, if_true] at h
        exact ⟨r', hf, by simpa using hc, ih r' h⟩
      · simp only [hc] at h
        simp only [Bool.false_eq_true, if_false, Option.some.injEq] at h
        subst h
        exact absurd (by simpa using hok) hc

theorem runFilters_stops (pre post : List Filter) (f : Filter) (r r' d : Resp)
    (hpre : AllAllow pre r r') (hf : f r' = some d) (hd : d.code ≠ cOK) :
    runFilters (pre ++ f :: post) r = some d := by
  induction pre generalizing r with
  | nil =>
    simp only [AllAllow] at hpre; subst hpre
    have : (d.code == cOK) = false := by simpa using hd
    simp [runFilters, hf, this]
  | cons g gs ih =>
    rcases hpre with ⟨r1, hg, hok, hrest⟩
    have : (r1.code == cOK) = true := by simpa using hok
    simp only [List.cons_append, runFilters, hg, this, if_true]
    exact ih r1 hrest

theorem runFilters_error (pre post : List Filter) (f : Filter) (r r' : Resp)
    (hpre : AllAllow pre r r') (hf : f r' = none) :
    runFilters (pre ++ f :: post) r = none := by
  induction pre generalizing r with
  | nil =>
    simp only [AllAllow] at hpre; subst hpre
    simp [runFilters, hf]
  | cons g gs ih =>
    rcases hpre with ⟨r1, hg, hok, hrest⟩
    have : (r1.code == cOK) = true := by simpa using hok
    simp only [List.cons_append, runFilters, hg, this, if_true]
    exact ih r1 hrest

theorem toLowerAscii_idem (s : Str) : toLowerAscii (toLowerAscii s) = toLowerAscii s := by
  unfold toLowerAscii
  rw [List.map_map]
  apply List.map_congr_left
  intro b _
  exact forall_byte_chain b
where
  forall_byte_chain : ∀ b : UInt8,
      ((fun b : UInt8 => if 65 ≤ b ∧ b ≤ 90 then b + 32 else b) ∘
        (fun b : UInt8 => if 65 ≤ b ∧ b ≤ 90 then b + 32 else b)) b =
      (fun b : UInt8 => if 65 ≤ b ∧ b ≤ 90 then b + 32 else b) b := by
    intro b
    have h : ∀ n : Fin 256,
        ((fun b : UInt8 => if 65 ≤ b ∧ b ≤ 90 then b + 32 else b) ∘
          (fun b : UInt8 => if 65 ≤ b ∧ b ≤ 90 then b + 32 else b)) (UInt8.ofNat n.val) =
        (fun b : UInt8 => if 65 ≤ b ∧ b ≤ 90 then b + 32 else b) (UInt8.ofNat n.val) := by
      decide +kernel
    have := h ⟨b.toNat, b.toNat_lt⟩
    simpa using this

end AuthModel
