import AuthModel.Store.RedisCmd
set_option linter.unusedSimpArgs false
set_option linter.unusedVariables false
namespace AuthModel
namespace RedisCmd
open Redis

/-! ### generic facts about `run` -/

/-- a run in which no command got an error reply is the fault-free run -/
theorem run_unfaulted {α : Type} (now : Int) (p : RP α) :
    ∀ (fs : List Fault) (h : RHash), (run now fs p h).faulted = false → run now fs p h = run now [] p h := by
  induction p with
  | ret a => intro fs h _; cases fs <;> simp [run]
  | cmd c k ih =>
    intro fs h hf
    cases fs with
    | nil => rfl
    | cons f fs =>
      cases f with
      | none =>
        simp only [run] at hf ⊢
        rw [ih _ fs _ hf]
      | lost a => simp [run] at hf

/-- the fault-free run reports no fault -/
theorem run_nil_unfaulted {α : Type} (now : Int) (p : RP α) : ∀ h, (run now [] p h).faulted = false := by
  induction p with
  | ret a => intro h; simp [run]
  | cmd c k ih => intro h; simp only [run]; exact ih _ _

/-- `Strict bad p`: whenever some command of `p` gets an error reply, `p` returns `bad` -/
def Strict {α : Type} (bad : α → Prop) (p : RP α) : Prop :=
  ∀ now fs h, (run now fs p h).faulted = true → bad (run now fs p h).res

/-- `Always bad p`: `p` returns `bad` whatever happens -/
def Always {α : Type} (bad : α → Prop) (p : RP α) : Prop := ∀ now fs h, bad (run now fs p h).res

theorem always_ret {α : Type} {bad : α → Prop} {a : α} (h : bad a) : Always bad (.ret a) := by
  intro now fs s; cases fs <;> simpa [run] using h

theorem always_cmd {α : Type} {bad : α → Prop} {c : Cmd} {k : Reply → RP α} (hk : ∀ r, Always bad (k r)) :
    Always bad (.cmd c k) := by
  intro now fs s
  cases fs with
  | nil => simp only [run]; exact hk _ now [] _
  | cons f fs =>
    cases f with
    | none => simp only [run]; exact hk _ now fs _
    | lost a => simp only [run]; exact hk _ now fs _

theorem strict_ret {α : Type} {bad : α → Prop} {a : α} : Strict bad (.ret a) := by
  intro now fs s hf; cases fs <;> simp [run] at hf

theorem strict_cmd {α : Type} {bad : α → Prop} {c : Cmd} {k : Reply → RP α}
    (hk : ∀ r, Strict bad (k r)) (hfail : Always bad (k .fail)) : Strict bad (.cmd c k) := by
  intro now fs s hf
  cases fs with
  | nil => simp only [run] at hf ⊢; exact hk _ now [] _ hf
  | cons f fs =>
    cases f with
    | none => simp only [run] at hf ⊢; exact hk _ now fs _ hf
    | lost a => simp only [run]; exact hfail now fs _

theorem strict_of_always {α : Type} {bad : α → Prop} {p : RP α} (h : Always bad p) : Strict bad p :=
  fun now fs s _ => h now fs s

/-! ### the store methods are strict: a failed command is never reported as success -/

def isFail (b : Bool) : Prop := b = false
def isErr {α : Type} (r : SRes α) : Prop := r = .err

theorem expirePart_strict (abs idle now ta : Int) : Strict isFail (expirePart abs idle now ta) := by
  unfold expirePart
  split
  · exact strict_ret
  · apply strict_cmd
    · intro r; cases r <;> exact strict_ret
    · exact always_ret rfl

theorem delAndFail_always : Always isFail delAndFail :=
  always_cmd fun _ => always_ret rfl

theorem refreshP_strict (abs idle now : Int) (ta : Option Int) : Strict isFail (refreshP abs idle now ta) := by
  unfold refreshP
  cases ta with
  | some t => exact expirePart_strict abs idle now t
  | none =>
    apply strict_cmd
    · intro r
      cases r with
      | done => exact strict_of_always delAndFail_always
      | fail => exact strict_of_always delAndFail_always
      | hash h =>
        simp only
        cases h.timeAdded with
        | none => exact strict_of_always delAndFail_always
        | some t => exact expirePart_strict abs idle now t
    · exact delAndFail_always

theorem must_strict {c : Cmd} {next : RP Bool} (hn : Strict isFail next) : Strict isFail (must c false next) := by
  unfold must
  apply strict_cmd
  · intro r; cases r
    · exact hn
    · exact hn
    · exact strict_ret
  · exact always_ret rfl

theorem seqP_strict (cs : List Cmd) {next : RP Bool} (hn : Strict isFail next) : Strict isFail (seqP cs next) := by
  induction cs with
  | nil => exact hn
  | cons c cs ih => exact must_strict ih

theorem setTokP_strict (abs idle now : Int) (t : Tokens) : Strict isFail (setTokP abs idle now t) :=
  seqP_strict _ (refreshP_strict abs idle now none)

theorem setAuthP_strict (abs idle now : Int) (a : AuthState) : Strict isFail (setAuthP abs idle now a) :=
  seqP_strict _ (refreshP_strict abs idle now none)

theorem clearAuthP_strict (abs idle now : Int) : Strict isFail (clearAuthP abs idle now) :=
  seqP_strict _ (refreshP_strict abs idle now none)

theorem removeP_strict : Strict isFail removeP := by
  unfold removeP
  apply strict_cmd
  · intro r; cases r <;> exact strict_ret
  · exact always_ret rfl

theorem liftRes_run {α : Type} (a : α) (now : Int) (p : RP Bool) :
    ∀ fs h, (run now fs (liftRes a p) h).state = (run now fs p h).state ∧
            (run now fs (liftRes a p) h).faulted = (run now fs p h).faulted ∧
            (run now fs (liftRes a p) h).issued = (run now fs p h).issued ∧
            (run now fs (liftRes a p) h).res = cond (run now fs p h).res (.ok a) .err := by
  induction p with
  | ret b => intro fs h; cases fs <;> simp [liftRes, run]
  | cmd c k ih =>
    intro fs h
    cases fs with
    | nil => simp only [liftRes, run]; have := ih (c.exec now h).2 [] (c.exec now h).1; simp [this]
    | cons f fs =>
      cases f with
      | none => simp only [liftRes, run]; have := ih (c.exec now h).2 fs (c.exec now h).1; simp [this]
      | lost ap => simp only [liftRes, run]; have := ih .fail fs (if ap then c.eff now h else h); simp [this]

theorem liftRes_strict {α : Type} (a : α) {p : RP Bool} (hp : Strict isFail p) : Strict isErr (liftRes a p) := by
  intro now fs h hf
  obtain ⟨_, h2, _, h4⟩ := liftRes_run a now p fs h
  rw [h2] at hf
  have := hp now fs h hf
  simp only [isFail] at this
  simp [isErr, h4, this]

theorem getTokP_strict (parses : Str → Bool) (abs idle now : Int) : Strict isErr (getTokP parses abs idle now) := by
  unfold getTokP
  apply strict_cmd
  · intro r
    cases r with
    | done => exact strict_ret
    | fail => exact strict_ret
    | hash h =>
      simp only
      split
      · exact strict_ret
      · split
        · exact strict_ret
        · exact liftRes_strict _ (refreshP_strict _ _ _ _)
  · exact always_ret rfl

theorem getAuthP_strict (abs idle now : Int) : Strict isErr (getAuthP abs idle now) := by
  unfold getAuthP
  apply strict_cmd
  · intro r
    cases r with
    | done => exact strict_ret
    | fail => exact strict_ret
    | hash h =>
      simp only
      split
      · exact strict_ret
      · exact liftRes_strict _ (refreshP_strict _ _ _ _)
  · exact always_ret rfl

/-! ### without faults the command programs are the functional model of `Store/Redis.lean` -/

theorem run_nil_ret {α : Type} (now : Int) (a : α) (h : RHash) :
    run now [] (.ret a : RP α) h = { state := h, res := a, faulted := false, issued := [] } := rfl

theorem expirePart_nil (abs idle now ta : Int) (h : RHash) :
    ((run now [] (expirePart abs idle now ta) h).state, (run now [] (expirePart abs idle now ta) h).res)
      = refreshTA abs idle now (some ta) h := by
  unfold expirePart refreshTA
  split
  · simp [run]
  · simp [run, Cmd.exec, Cmd.eff, Cmd.isRead]

theorem refreshP_nil (abs idle now : Int) (ta : Option Int) (h : RHash) :
    ((run now [] (refreshP abs idle now ta) h).state, (run now [] (refreshP abs idle now ta) h).res)
      = refresh abs idle now ta h := by
  unfold refreshP refresh
  cases ta with
  | some t => simpa using expirePart_nil abs idle now t h
  | none =>
    simp only [run, Cmd.exec, Cmd.eff, Cmd.isRead]
    cases hta : h.timeAdded with
    | some t => simpa [hta] using expirePart_nil abs idle now t h
    | none => simp [hta, delAndFail, run, refreshTA, Cmd.exec, Cmd.eff, Cmd.isRead]

theorem seqP_nil (now : Int) (cs : List Cmd) (next : RP Bool) (h : RHash) :
    (run now [] (seqP cs next) h).state = (run now [] next (runSteps (cs.map (Cmd.eff now)) h)).state ∧
    (run now [] (seqP cs next) h).res = (run now [] next (runSteps (cs.map (Cmd.eff now)) h)).res := by
  induction cs generalizing h with
  | nil => simp [seqP, runSteps]
  | cons c cs ih =>
    have := ih (c.eff now h)
    cases hr : c.isRead <;> simp [seqP, must, run, Cmd.exec, hr, runSteps, List.foldl] at this ⊢ <;> exact this

theorem setTokCmds_steps (t : Tokens) (now : Int) :
    (setTokCmds t now).map (Cmd.eff now) = setTokSteps t now := by
  unfold setTokCmds setTokSteps
  rcases t with ⟨i, a, r, e⟩
  by_cases h1 : a = [] <;> by_cases h3 : r = [] <;> cases e <;>
    simp [h1, h3] <;> (repeat' apply And.intro) <;> (try funext h) <;> simp [Cmd.eff, h1, h3]

theorem setTokP_nil (abs idle now : Int) (t : Tokens) (h : RHash) :
    ((run now [] (setTokP abs idle now t) (visible now h)).state, (run now [] (setTokP abs idle now t) (visible now h)).res)
      = setTok abs idle now t h := by
  obtain ⟨h1, h2⟩ := seqP_nil now (setTokCmds t now) (refreshP abs idle now none) (visible now h)
  unfold setTokP setTok
  rw [h1, h2, setTokCmds_steps]
  exact refreshP_nil ..

theorem setAuthSteps_eq (a : AuthState) (now : Int) :
    ([.hmsetAuth a, .hsetnxTimeAdded now] : List Cmd).map (Cmd.eff now) = setAuthSteps a now := by
  simp only [setAuthSteps, List.map]
  congr 1

theorem setAuthP_nil (abs idle now : Int) (a : AuthState) (h : RHash) :
    ((run now [] (setAuthP abs idle now a) (visible now h)).state, (run now [] (setAuthP abs idle now a) (visible now h)).res)
      = setAuth abs idle now a h := by
  obtain ⟨h1, h2⟩ := seqP_nil now [.hmsetAuth a, .hsetnxTimeAdded now] (refreshP abs idle now none) (visible now h)
  unfold setAuthP setAuth
  rw [h1, h2, setAuthSteps_eq]
  exact refreshP_nil ..

theorem clearAuthP_nil (abs idle now : Int) (h : RHash) :
    ((run now [] (clearAuthP abs idle now) (visible now h)).state, (run now [] (clearAuthP abs idle now) (visible now h)).res)
      = clearAuth abs idle now h := by
  obtain ⟨h1, h2⟩ := seqP_nil now [.hdelAuth] (refreshP abs idle now none) (visible now h)
  unfold clearAuthP clearAuth
  rw [h1, h2]
  simp only [List.map, runSteps, List.foldl, Cmd.eff]
  exact refreshP_nil ..

theorem removeP_nil (now : Int) (h : RHash) :
    (run now [] removeP h).state = remove h ∧ (run now [] removeP h).res = true := by
  simp [removeP, run, Cmd.exec, Cmd.eff, Cmd.isRead, remove]

theorem getTokP_nil (parses : Str → Bool) (abs idle now : Int) (h : RHash) :
    ((run now [] (getTokP parses abs idle now) (visible now h)).state, (run now [] (getTokP parses abs idle now) (visible now h)).res)
      = getTok parses abs idle now h := by
  unfold getTokP getTok
  simp only [run, Cmd.exec, Cmd.eff, Cmd.isRead, ↓reduceIte]
  generalize visible now h = v
  by_cases h1 : v.idToken.getD [] = []
  · simp [h1, run]
  · by_cases h2 : parses (v.idToken.getD []) = true
    · obtain ⟨l1, _, _, l4⟩ := liftRes_run (some (tokensOf v)) now (refreshP abs idle now v.timeAdded) [] v
      have hr := refreshP_nil abs idle now v.timeAdded v
      simp only [h1, h2, if_false, Bool.not_true, Bool.false_eq_true, ↓reduceIte, l1, l4, ← hr]
      cases (run now [] (refreshP abs idle now v.timeAdded) v).res <;> simp
    · simp [h1, h2, run]

theorem getAuthP_nil (abs idle now : Int) (h : RHash) :
    ((run now [] (getAuthP abs idle now) (visible now h)).state, (run now [] (getAuthP abs idle now) (visible now h)).res)
      = getAuth abs idle now h := by
  unfold getAuthP getAuth
  simp only [run, Cmd.exec, Cmd.eff, Cmd.isRead, ↓reduceIte]
  generalize visible now h = v
  by_cases h1 : v.state.getD [] = [] ∨ v.nonce.getD [] = [] ∨ v.requestedUrl.getD [] = [] ∨ v.codeVerifier.getD [] = []
  · simp [h1, run]
  · obtain ⟨l1, _, _, l4⟩ := liftRes_run (some (authOf v)) now (refreshP abs idle now v.timeAdded) [] v
    have hr := refreshP_nil abs idle now v.timeAdded v
    simp only [h1, if_false, ↓reduceIte, l1, l4, ← hr]
    cases (run now [] (refreshP abs idle now v.timeAdded) v).res <;> simp

/-! ### what a fault can and cannot do -/

/-- RemoveSession: reported success means the DEL was applied - the key is gone, whatever failed around it -/
theorem removeP_ok_erases (now : Int) (fs : List Fault) (h : RHash) (hok : (run now fs removeP h).res = true) :
    (run now fs removeP h).state = {} := by
  unfold removeP at *
  cases fs with
  | nil => simp [run, Cmd.exec, Cmd.eff, Cmd.isRead]
  | cons f fs =>
    cases f with
    | none => cases fs <;> simp [run, Cmd.exec, Cmd.eff, Cmd.isRead]
    | lost a => cases fs <;> simp [run] at hok

/-- a read under faults never fabricates: tokens returned are the ones in the (visible) hash -/
theorem getTokP_sound (parses : Str → Bool) (abs idle now : Int) (fs : List Fault) (h : RHash) (t : Tokens)
    (hok : (run now fs (getTokP parses abs idle now) h).res = .ok (some t)) :
    t = tokensOf h ∧ h.idToken.getD [] ≠ [] ∧ parses (h.idToken.getD []) = true := by
  have hs := getTokP_strict parses abs idle now now fs h
  have hnf : (run now fs (getTokP parses abs idle now) h).faulted = false := by
    cases hf : (run now fs (getTokP parses abs idle now) h).faulted with
    | false => rfl
    | true => have := hs hf; simp [isErr, hok] at this
  rw [run_unfaulted now _ fs h hnf] at hok
  unfold getTokP at hok
  simp only [run, Cmd.exec, Cmd.eff, Cmd.isRead, ↓reduceIte] at hok
  by_cases h1 : h.idToken.getD [] = []
  · simp [h1, run] at hok
  · by_cases h2 : parses (h.idToken.getD []) = true
    · simp only [h1, h2, if_false, Bool.not_true, Bool.false_eq_true] at hok
      obtain ⟨_, _, _, l4⟩ := liftRes_run (some (tokensOf h)) now (refreshP abs idle now h.timeAdded) [] h
      rw [l4] at hok
      cases hr : (run now [] (refreshP abs idle now h.timeAdded) h).res <;> simp [hr] at hok
      exact ⟨hok.symm, h1, h2⟩
    · simp [h1, h2, run] at hok

end RedisCmd
end AuthModel
