import AuthModel.Store.Ops
import AuthProofs.Memory
import AuthProofs.Redis
set_option linter.unusedSimpArgs false
set_option linter.unusedVariables false
namespace AuthModel
open MemStore

/-- with no timeouts configured nothing ever expires -/
theorem expired_noTimeout (m : MemStore) (h0 : m.abs = 0) (h1 : m.idle = 0) (now : Int) (s : MSess) :
    m.expired now s = false := by
  simp [MemStore.expired, h0, h1]

theorem absM_noTimeout (m : MemStore) (h0 : m.abs = 0) (h1 : m.idle = 0) (now now' : Int) : absM m now = absM m now' := by
  funext k
  unfold absM
  cases m.sessions k with
  | none => rfl
  | some s => simp [expired_noTimeout m h0 h1]

theorem memStep_timeouts (m : MemStore) (now : Int) (op : SOp) :
    (memStep m now op).1.abs = m.abs ∧ (memStep m now op).1.idle = m.idle := by
  have hl := fun id => MemStore.live_abs m now id
  cases op with
  | setTok id t => simp only [memStep, MemStore.setTok, MemStore.set]; cases h : (m.live now id).2 <;> simp [h, hl id]
  | setAuth id a => simp only [memStep, MemStore.setAuth, MemStore.set]; cases h : (m.live now id).2 <;> simp [h, hl id]
  | getTok id => simp only [memStep, MemStore.getTok]; cases h : (m.live now id).2 <;> simp [h, hl id]
  | getAuth id => simp only [memStep, MemStore.getAuth]; cases h : (m.live now id).2 <;> simp [h, hl id]
  | clearAuth id => simp only [memStep, MemStore.clearAuth]; cases h : (m.live now id).2 <;> simp [h, hl id]
  | remove id => exact ⟨rfl, rfl⟩

/-- one step of the memory store is one step of the plain map (timeouts off) -/
theorem memStep_refines (m : MemStore) (now : Int) (op : SOp) :
    (memStep m now op).2 = (specStep false (absM m now) now op).2 ∧
    absM (memStep m now op).1 now = (specStep false (absM m now) now op).1 := by
  cases op with
  | setTok id t => exact ⟨rfl, setTok_refines m now id t⟩
  | getTok id => exact ⟨by simp [memStep, specStep, (getTok_refines m now id).1], (getTok_refines m now id).2⟩
  | setAuth id a => exact ⟨rfl, setAuth_refines m now id a⟩
  | getAuth id => exact ⟨by simp [memStep, specStep, (getAuth_refines m now id).1], (getAuth_refines m now id).2⟩
  | clearAuth id => exact ⟨by simp [memStep, specStep], clearAuth_refines m now id⟩
  | remove id => exact ⟨rfl, remove_refines m now id⟩

/-- ALL HISTORIES (memory, timeouts off): the outputs are those of the plain map. -/
theorem memory_history_refines (m : MemStore) (h0 : m.abs = 0) (h1 : m.idle = 0) (spec : SpecMap)
    (habs : ∀ now, absM m now = spec) (ops : List (Int × SOp)) :
    runOps memStep m ops = runOps (specStep false) spec ops := by
  induction ops generalizing m spec with
  | nil => rfl
  | cons x rest ih =>
    obtain ⟨now, op⟩ := x
    have hr := memStep_refines m now op
    have ht := memStep_timeouts m now op
    simp only [runOps]
    rw [← habs now]
    rw [hr.1]
    congr 1
    apply ih
    · rw [ht.1]; exact h0
    · rw [ht.2]; exact h1
    · intro now'
      rw [absM_noTimeout _ (by rw [ht.1]; exact h0) (by rw [ht.2]; exact h1) now' now]
      exact hr.2

/-- input guard of a history: only well-formed token sets and login states are written -/
def WFOp (parses : Str → Bool) : SOp → Prop
  | .setTok _ t => Redis.TokOK parses t
  | .setAuth _ a => Redis.AuthOK a
  | _ => True

def absR (parses : Str → Bool) (srv : Str → RHash) : SpecMap := fun id => Redis.decode parses (srv id)

theorem upd_decode (parses : Str → Bool) (srv : Str → RHash) (id : Str) (h' : RHash) (v : Option Sess)
    (hv : Redis.decode parses h' = v) :
    absR parses (upd srv id h') = upd (absR parses srv) id v := by
  funext k; unfold absR upd
  by_cases hk : k = id <;> simp [hk, hv]

theorem upd_self {α} (m : Str → α) (id : Str) : upd m id (m id) = m := by
  funext k; unfold upd; by_cases hk : k = id <;> simp [hk]

/-- one step of the Redis store is one step of the plain map (timeouts off, guarded inputs) -/
theorem redisStep_refines (parses : Str → Bool) (srv : Str → RHash) (now : Int) (op : SOp)
    (hinv : ∀ id, Redis.RInv (srv id)) (hwf : WFOp parses op) :
    (redisStep parses 0 0 srv now op).2 = (specStep true (absR parses srv) now op).2 ∧
    absR parses (redisStep parses 0 0 srv now op).1 = (specStep true (absR parses srv) now op).1 ∧
    (∀ id, Redis.RInv ((redisStep parses 0 0 srv now op).1 id)) := by
  have hinvUpd : ∀ id h', Redis.RInv h' → ∀ k, Redis.RInv (upd srv id h' k) := by
    intro id h' hh k; unfold upd; by_cases hk : k = id <;> simp [hk, hh, hinv k]
  cases op with
  | setTok id t =>
    obtain ⟨hok, hi, hd⟩ := Redis.setTok_refines parses now t (srv id) (hinv id) hwf
    refine ⟨by simp [redisStep, specStep, hok, okOut], ?_, hinvUpd id _ hi⟩
    simp only [redisStep, specStep]
    rw [upd_decode parses srv id _ _ hd]
    rfl
  | setAuth id a =>
    obtain ⟨hok, hi, hd⟩ := Redis.setAuth_refines parses now a (srv id) (hinv id) hwf
    refine ⟨by simp [redisStep, specStep, hok, okOut], ?_, hinvUpd id _ hi⟩
    simp only [redisStep, specStep]
    rw [upd_decode parses srv id _ _ hd]
    rfl
  | getTok id =>
    have h := Redis.getTok_refines parses now (srv id) (hinv id)
    refine ⟨by simp [redisStep, specStep, h, Spec.getTok, absR], ?_, ?_⟩
    · simp only [redisStep, specStep, h, upd_self]
    · intro k; simp only [redisStep, h, upd_self]; exact hinv k
  | getAuth id =>
    have h := Redis.getAuth_refines parses now (srv id) (hinv id)
    refine ⟨by simp [redisStep, specStep, h, Spec.getAuth, absR], ?_, ?_⟩
    · simp only [redisStep, specStep, h, upd_self]
    · intro k; simp only [redisStep, h, upd_self]; exact hinv k
  | remove id =>
    have h := Redis.remove_refines parses (srv id)
    refine ⟨rfl, ?_, hinvUpd id _ h.2⟩
    simp only [redisStep, specStep]
    rw [upd_decode parses srv id _ _ h.1]; rfl
  | clearAuth id =>
    by_cases hf : Redis.hasFields (srv id) = true
    · obtain ⟨hok, hi, hd⟩ := Redis.clearAuth_refines parses now (srv id) (hinv id) hf
      have hsome : (absR parses srv id).isSome = true := by simp [absR, Redis.decode, hf]
      refine ⟨?_, ?_, hinvUpd id _ hi⟩
      · cases hh : absR parses srv id with
        | none => simp [hh] at hsome
        | some s => simp [redisStep, specStep, hok, okOut, hh]
      · simp only [redisStep, specStep]
        rw [upd_decode parses srv id _ _ hd]
        unfold Spec.clearAuth
        cases hh : absR parses srv id with
        | none => simp [hh] at hsome
        | some s => simp [absR] at hh; simp [hh, absR]
    · have hf' : Redis.hasFields (srv id) = false := by simpa using hf
      have he := Redis.not_hasFields_eq (srv id) hf' (hinv id).2
      have hnone : absR parses srv id = none := by simp [absR, he, Redis.decode_empty]
      have hc := Redis.clearAuth_absent now
      refine ⟨?_, ?_, ?_⟩
      · simp [redisStep, specStep, he, hc, okOut, hnone]
      · simp only [redisStep, specStep, he, hc]
        unfold Spec.clearAuth
        rw [hnone]
        simp only
        rw [← he, upd_self]
      · intro k; simp only [redisStep, he, hc]; rw [← he, upd_self]; exact hinv k

/-- ALL HISTORIES (Redis, timeouts off, guarded inputs): the outputs are those of the plain map. -/
theorem redis_history_refines (parses : Str → Bool) (srv : Str → RHash) (spec : SpecMap)
    (hinv : ∀ id, Redis.RInv (srv id)) (habs : absR parses srv = spec)
    (ops : List (Int × SOp)) (hwf : ∀ x ∈ ops, WFOp parses x.2) :
    runOps (redisStep parses 0 0) srv ops = runOps (specStep true) spec ops := by
  induction ops generalizing srv spec with
  | nil => rfl
  | cons x rest ih =>
    obtain ⟨now, op⟩ := x
    obtain ⟨h1, h2, h3⟩ := redisStep_refines parses srv now op hinv (hwf (now, op) (by simp))
    simp only [runOps]
    subst habs
    rw [h1]
    congr 1
    exact ih _ _ h3 h2 (fun y hy => hwf y (by simp [hy]))

end AuthModel
