import AuthModel.Http
set_option linter.unusedSimpArgs false
namespace AuthModel
open Str

theorem forall_byte {P : UInt8 → Prop} (h : ∀ n : Fin 256, P (UInt8.ofNat n.val)) : ∀ b, P b := by
  intro b
  have := h ⟨b.toNat, b.toNat_lt⟩
  simpa using this

namespace Str

theorem hasPrefix_append (p rest : Str) : hasPrefix (p ++ rest) p = true := by
  induction p with
  | nil => cases rest <;> simp [hasPrefix]
  | cons a p ih => simp [hasPrefix, ih]

theorem cut_fst (c : UInt8) (s : Str) : (cut c s).1 = s.takeWhile (· ≠ c) := by
  induction s with
  | nil => simp [cut]
  | cons a s ih =>
    unfold cut
    by_cases h : a = c
    · simp [h]
    · simp [h]
      simpa using ih

theorem cut_eq_index (c : UInt8) (s : Str) :
    cut c s = match indexOf c s with
      | none => (s, none)
      | some i => (s.take i, some (s.drop (i + 1))) := by
  induction s with
  | nil => simp [cut, indexOf]
  | cons a s ih =>
    unfold cut indexOf
    by_cases h : a = c
    · simp [h]
    · simp only [h, if_false]
      rw [ih]
      cases hi : indexOf c s <;> simp

theorem indexOf_lt {c : UInt8} {s : Str} {i : Nat} (h : indexOf c s = some i) : i < s.length := by
  induction s generalizing i with
  | nil => simp [indexOf] at h
  | cons a s ih =>
    unfold indexOf at h
    by_cases hc : a = c
    · simp [hc] at h; subst h; simp
    · simp only [hc, if_false] at h
      cases hi : indexOf c s with
      | none => simp [hi] at h
      | some j =>
        simp [hi] at h
        subst h
        have := ih hi
        simp; omega

theorem cut_append_of_not_mem {c : UInt8} {p : Str} (q : Str) (h : c ∉ p) :
    cut c (p ++ c :: q) = (p, some q) := by
  induction p with
  | nil => simp [cut]
  | cons x xs ih =>
    have hx : x ≠ c := fun e => h (by simp [e])
    have hxs : c ∉ xs := fun m => h (by simp [m])
    simp [cut, hx, ih hxs]

theorem cut_of_not_mem {c : UInt8} {p : Str} (h : c ∉ p) : cut c p = (p, none) := by
  induction p with
  | nil => simp [cut]
  | cons x xs ih =>
    have hx : x ≠ c := fun e => h (by simp [e])
    have hxs : c ∉ xs := fun m => h (by simp [m])
    simp [cut, hx, ih hxs]

end Str

/-- the path component is the longest prefix free of `?` and `#` -/
theorem pathOf_eq_takeWhile (s : Str) : pathOf s = s.takeWhile (fun b => b ≠ 63 ∧ b ≠ 35) := by
  unfold pathOf pqf
  simp only
  have h1 := Str.cut_fst 35 s
  have h2 := Str.cut_fst 63 (cut 35 s).1
  rcases hc : cut 35 s with ⟨bh, fr⟩
  rw [hc] at h1 h2
  simp only at h1 h2
  rcases hq : cut 63 bh with ⟨p, q⟩
  rw [hq] at h2
  simp only at h2 ⊢
  rw [h2, h1]
  clear hc hq h1 h2
  induction s with
  | nil => simp
  | cons a s ih =>
    by_cases h35 : a = 35
    · simp [h35]
    · by_cases h63 : a = 63
      · simp [h63]
      · simp [h35, h63]
        simpa using ih

theorem pathOf_append_sep (p r : Str) (x : UInt8) (hx : x = 63 ∨ x = 35)
    (hp : ∀ b ∈ p, b ≠ 63 ∧ b ≠ 35) : pathOf (p ++ x :: r) = p := by
  rw [pathOf_eq_takeWhile]
  induction p with
  | nil => rcases hx with h | h <;> simp [h]
  | cons a p ih =>
    have ha := hp a (by simp)
    have := ih (fun b hb => hp b (by simp [hb]))
    simp [ha.1, ha.2]
    simpa using this

theorem pathOf_of_clean (p : Str) (hp : ∀ b ∈ p, b ≠ 63 ∧ b ≠ 35) : pathOf p = p := by
  rw [pathOf_eq_takeWhile]
  induction p with
  | nil => simp
  | cons a p ih =>
    have ha := hp a (by simp)
    have := ih (fun b hb => hp b (by simp [hb]))
    simp [ha.1, ha.2]
    simpa using this

/-- the path component itself contains neither `?` nor `#` -/
theorem mem_takeWhile_imp {α} {p : α → Bool} {l : List α} {x : α} (h : x ∈ l.takeWhile p) : p x = true := by
  induction l with
  | nil => simp at h
  | cons a l ih =>
    by_cases ha : p a = true
    · simp [ha] at h
      rcases h with h | h
      · subst h; exact ha
      · exact ih h
    · simp [ha] at h

theorem pathOf_clean (s : Str) : ∀ b ∈ pathOf s, b ≠ 63 ∧ b ≠ 35 := by
  rw [pathOf_eq_takeWhile]
  intro b hb
  have := mem_takeWhile_imp hb
  simpa using this

end AuthModel
