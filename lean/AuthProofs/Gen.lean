import AuthModel.Gen
import AuthModel.Generated.Facts
set_option linter.unusedSimpArgs false
namespace AuthModel
namespace Gen

theorem draw_append (s t : Str) (n : Nat) (o r : Str) (h : draw s n = some (o, r)) : draw (s ++ t) n = some (o, r ++ t) := by
  induction s generalizing n o r with
  | nil =>
    cases n with
    | zero => simp [draw] at h ⊢; obtain ⟨rfl, rfl⟩ := h; cases t <;> simp [draw]
    | succ n => simp [draw] at h
  | cons b s ih =>
    cases n with
    | zero => simp [draw] at h ⊢; obtain ⟨rfl, rfl⟩ := h; simp
    | succ n =>
      simp only [List.cons_append, draw] at h ⊢
      by_cases hb : b.toNat < limit
      · simp only [hb, if_true] at h ⊢
        cases hd : draw s n with
        | none => simp [hd] at h
        | some x =>
          obtain ⟨o', r'⟩ := x
          simp [hd] at h
          obtain ⟨rfl, rfl⟩ := h
          simp [ih n o' r' hd]
      · simp only [hb, if_false] at h ⊢
        exact ih (n + 1) o r h

/-- the session id is a function of the segment of the stream it consumes; everything that is disclosed (nonce, state,
    verifier and hence the code challenge) is a function of the stream AFTER that segment -/
theorem genAll_split (seg rest : Str) (sid : Str) (h : draw seg 64 = some (sid, [])) :
    genAll (seg ++ rest) = (publicPart rest).map fun p =>
      { sid := sid, nonce := p.1, state := p.2.1, verifierBytes := p.2.2.1, rest := p.2.2.2 } := by
  have h1 := draw_append seg rest 64 sid [] h
  simp only [List.nil_append] at h1
  unfold genAll publicPart
  simp only [h1, Option.bind_eq_bind, Option.bind_some, Option.pure_def]
  cases hn : draw rest 32 with
  | none => simp
  | some x =>
    obtain ⟨nonce, r2⟩ := x
    simp only [Option.bind_some]
    cases hs : draw r2 32 with
    | none => simp
    | some y =>
      obtain ⟨state, r3⟩ := y
      simp only [Option.bind_some]
      by_cases hl : r3.length < 32 <;> simp [hl]

/-- INDEPENDENCE: for any stream and ANY other 64-character id producible from some segment, replacing the session id's
    segment yields that other id with exactly the same public values. An observer of nonce, state, verifier/challenge
    (and of the time, which is not an input at all) therefore learns nothing that distinguishes the two ids. -/
theorem sid_independent_of_public (seg seg' rest : Str) (sid sid' : Str)
    (h : draw seg 64 = some (sid, [])) (h' : draw seg' 64 = some (sid', [])) :
    (genAll (seg ++ rest)).map (fun i => (i.nonce, i.state, i.verifierBytes)) =
      (genAll (seg' ++ rest)).map (fun i => (i.nonce, i.state, i.verifierBytes)) ∧
    (genAll (seg ++ rest)).map (·.sid) = (publicPart rest).map (fun _ => sid) ∧
    (genAll (seg' ++ rest)).map (·.sid) = (publicPart rest).map (fun _ => sid') := by
  rw [genAll_split seg rest sid h, genAll_split seg' rest sid' h']
  cases publicPart rest <;> simp

/-- every id over the charset is reachable: bytes below 62 select their own character -/
theorem draw_indices (idx : Str) (h : ∀ b ∈ idx, b.toNat < 62) :
    draw idx idx.length = some (idx.map charOf, []) := by
  induction idx with
  | nil => simp [draw]
  | cons b s ih =>
    have hb : b.toNat < limit := by have := h b (by simp); unfold limit; omega
    simp [draw, hb, ih (fun x hx => h x (by simp [hx]))]

/-- NO MODULO BIAS: every character is selected by exactly 4 of the 248 accepted byte values -/
theorem draw_uniform : ∀ v : Fin 62,
    ((List.range 256).filter fun b => decide (b < limit) && decide (b % 62 = v.val)).length = 4 := by decide

/-- the charset has 62 distinct characters -/
theorem charset_nodup : charset.length = 62 ∧ charset.Nodup := by decide

theorem charset_matches_source : charset = Generated.charset := by decide

theorem limit_formula : limit = 256 - 256 % charset.length := by decide

end Gen
end AuthModel
