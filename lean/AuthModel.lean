import AuthModel.Str
import AuthModel.Http
import AuthModel.Resp
import AuthModel.Trigger
import AuthModel.Chain
