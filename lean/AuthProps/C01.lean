/-
  C01  Fail-closed: OK only for a live session with fresh or just-refreshed tokens.
  Model: AuthModel.Oidc.process (interaction tree of Process), AuthModel.check (chain loop).
  `AllPaths P prog []` quantifies over EVERY environment: any store content and answer (so: after any history), any
  injected fault, any token-endpoint answer, any key-source behaviour, any clock reading.
-/
import AuthProofs.StateInventory
import AuthProofs.Ladder
import AuthProofs.CodeEquivOidc
import AuthProofs.CodeEquivCheck
import AuthProofs.Chain
import AuthProofs.Redis
import AuthProofs.RedisPrefix
namespace AuthProps.C01
open AuthModel AuthModel.Oidc

/-- every OK of `Process` is justified: session cookie present, tokens read from the store under that id during this
    check, and either unexpired at check time and forwarded as they are, or expired with a refresh token and renewed by
    this check's refresh exchange (well-formed answer, merged token validated, stored successfully), in which case
    the merged tokens are forwarded. The exact sequence of actions and answers on the path is part of the statement. -/
theorem ok_justified (cfg : Cfg) (o : Oracles) (req : Req) (prev : Headers) :
    AllPaths (fun tr r => r.code = cOK → Justified cfg o req prev tr r) (process cfg o req prev) [] :=
  process_ok_justified cfg o req prev

/-- any failure of the session store, the token endpoint or the key source at any point of the check (the fault
    schedule is universally quantified: singly, in pairs, any number) means the answer is not OK -/
theorem fault_never_ok (cfg : Cfg) (o : Oracles) (req : Req) (prev : Headers) :
    AllPaths (fun tr r => r.code = cOK → ∀ x ∈ tr, ¬ IsFailure x.2) (process cfg o req prev) [] :=
  process_fault_never_ok cfg o req prev

/-- the executable sequential semantics (the one compared with the implementation) is one of those paths -/
theorem run_ok_justified (cfg : Cfg) (o : Oracles) (req : Req) (prev : Headers) (w : StoreW) (now : Int) (sc : Script)
    (faults : List Nat) :
    (traceOfRun w now sc (process cfg o req prev) faults []).2.1.code = cOK →
      Justified cfg o req prev (traceOfRun w now sc (process cfg o req prev) faults []).2.2
        (traceOfRun w now sc (process cfg o req prev) faults []).2.1 :=
  run_satisfies w now sc _ faults [] (process_ok_justified cfg o req prev)

theorem run_matches_driver (cfg : Cfg) (o : Oracles) (req : Req) (prev : Headers) (w : StoreW) (now : Int) (sc : Script)
    (faults : List Nat) :
    (traceOfRun w now sc (process cfg o req prev) faults []).2.1 = (runProg w now sc (process cfg o req prev) faults []).2.1 :=
  traceOfRun_resp w now sc _ faults [] []

/-- no cookie, the callback and the logout never answer OK -/
theorem no_cookie_never_ok (cfg : Cfg) (o : Oracles) (req : Req) : NeverOK (redirectToIdp cfg o req []) :=
  neverOK_redirectToIdp cfg o req []
theorem callback_never_ok (cfg : Cfg) (o : Oracles) (req : Req) (sid : Str) : NeverOK (retrieveTokens cfg o req sid) :=
  neverOK_retrieveTokens cfg o req sid

/-- through `Check`: a triggered request is answered OK only if every filter of the judging chain answered OK; a handler
    error gives no verdict -/
theorem chain_ok_needs_all (fs : List Filter) (r out : Resp)
    (h : runFilters fs r = some out) (hok : out.code = cOK) : AllAllow fs r out :=
  runFilters_ok_allAllow fs r out h hok

/-- crash points inside a Redis write: after ANY prefix of the commands of SetTokenResponse(t') over a hash holding
    tokens t, every token member the hash holds is the one of t or the one of t' - nothing else can be manufactured -/
theorem redis_prefix_safe (t' : Tokens) (now : Int) (h : RHash) (k : Nat) :
    Redis.PrefixInv h t' (Redis.runSteps ((Redis.setTokSteps t' now).take k) h) :=
  Redis.prefix_safe t' now h k

/- Non-vacuity. The hypotheses of `ok_justified` are met by real paths: the differential run of every check executes
   the model on thousands of request lines and hundreds of them end in OK through both justified shapes (see
   "answer:ok" and "refresh-success" in the evidence). A cheap kernel-checked instance of a path of the tree: -/
example (cfg : Cfg) (o : Oracles) : process cfg o { http := false } = .ret (deny cInvalidArgument) := rfl
example (cfg : Cfg) (o : Oracles) (sid : Str) (t : Tokens) (a : TokAttrs) (now : Int) :
    Justified cfg o { http := true, cookie := [] } [] [] (allow cfg [] t) → False := by
  intro h; exact h.2.1 (by simp [sessionIdFromCookie])

/-- NO HIDDEN STATE: the model treats a check as a function of (configuration, request, store answers, clock, IdP and key-source answers, entropy); that is a faithful reading of the code only if nothing else survives from one check to the next. Regenerated on every run: every package-level variable and struct field of internal/server, internal/authz, internal/http, internal/oidc is the classified expectation, and handlers, filter, HTTP helpers and the Redis store own no mutable state (no verdict cache, handler cache, object pool, single-flight group or per-process copy of session data). -/
theorem no_hidden_state : CheckPathInventory := check_path_inventory

/-! ### The expiry test and the filter loop as translated from /repo -/

/-- `areRequiredTokensExpired` AS TRANSLATED FROM THE GO SOURCE on this run is the model's `tokensExpired`: the stored
    tokens count as expired when the ID token's `exp` lies before now, or - with access-token forwarding configured, an
    access token held and its expiry KNOWN (not the zero time) - when that expiry lies before now; an ID token that does
    not parse is an error, never "not expired". The fresh branch of `ok_justified` rests on exactly this test. -/
theorem code_expiry_test (env : Go.Env) (o : Pb.OidcHandler) (t : Pb.TokenResponse) (cfg : Cfg) (a : TokAttrs) (tok : Tokens)
    (now : Int) (jt : Go.JwtToken)
    (ho : o.isNil = false) (hc : o.config.isNil = false) (ht : t.isNil = false) (hj : jt.isNil = false)
    (hexp : jt.exp.unixNano = some a.exp) (hnow : env.now.unixNano = some now)
    (hacc : cfg.access.isSome = !o.config.GetAccessToken.isNil)
    (h2 : tok.accessToken = t.AccessToken) (h3 : tok.accessExp = t.AccessTokenExpiresAt.unixNano) :
    (env.parseTokenOracle t.IDToken = (jt, false) →
      Code.areRequiredTokensExpired env o t = .ok (tokensExpired cfg a tok now, {})) ∧
    (∀ jt', env.parseTokenOracle t.IDToken = (jt', true) →
      Code.areRequiredTokensExpired env o t = .ok (false, { isNil := false })) :=
  ⟨fun hp => code_tokensExpired env o t cfg a tok now jt ho hc ht hp hj hexp hnow hacc h2 h3,
   fun jt' hp => code_tokensExpired_unparsable env o t jt' ht hp⟩

/-- On the translated `Check`: a triggered request whose first matching chain has filters is answered with what that
    chain's filter loop returns, and that loop returns an allowing response only if EVERY filter of the chain allowed
    (`runFiltersPb` ends in `.ok (r', {})` with all steps `.inr`): see C08 `code_first_match_wins`, `code_all_allow`,
    `code_stops_at_first_denial`. Here: a handler construction error or a `Process` error gives an error and NO verdict. -/
theorem code_handler_error_no_verdict (h : Pb.Handlers) (req : Pb.CheckRequest) (f : Pb.Filter) (o : Pb.Filter_Oidc)
    (r : Pb.CheckResponse) (post : List Pb.Filter)
    (hf : f.isNil = false) (hty : f.Type_ = .Oidc o) (herr : (h.newOIDC o.Oidc).2.isNil = false) :
    runFiltersPb h req (f :: post) r = .ok ({ isNil := true }, (h.newOIDC o.Oidc).2) := by
  simp [runFiltersPb, filterStepPb, hf, hty, herr]

example : Code.areRequiredTokensExpired { parseTokenOracle := fun _ => ({ exp := ⟨some 100⟩ }, false), now := ⟨some 101⟩ }
    { config := {} } { IDToken := B "x" } = .ok (true, {}) := by decide
example : Code.areRequiredTokensExpired { parseTokenOracle := fun _ => ({ exp := ⟨some 100⟩ }, false), now := ⟨some 100⟩ }
    { config := { AccessToken := { isNil := false } } } { IDToken := B "x", AccessToken := B "at" } = .ok (false, {}) := by decide

end AuthProps.C01

#print axioms AuthProps.C01.ok_justified
#print axioms AuthProps.C01.fault_never_ok
#print axioms AuthProps.C01.run_ok_justified
#print axioms AuthProps.C01.run_matches_driver
#print axioms AuthProps.C01.no_cookie_never_ok
#print axioms AuthProps.C01.callback_never_ok
#print axioms AuthProps.C01.chain_ok_needs_all
#print axioms AuthProps.C01.redis_prefix_safe
#print axioms AuthProps.C01.no_hidden_state
#print axioms AuthProps.C01.code_expiry_test
#print axioms AuthProps.C01.code_handler_error_no_verdict
