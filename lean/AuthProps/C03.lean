/-
  C03  Login completes: one pass through the IdP ends in OK on the original URL.
  `replay prog answers` runs a check against a fixed list of environment answers; the three steps of a login are three
  such runs whose answers are what an honest world gives: the store returns what was stored (C12), the provider is
  standards-compliant (`CompliantAnswer`), the key source works.
-/
import AuthProofs.CodeEquivOidc
import AuthProofs.StateInventory
import AuthProofs.Login
import AuthProofs.Cookie
namespace AuthProps.C03
open AuthModel AuthModel.Oidc

/-- LOGIN COMPLETES. For every configuration, every originally requested URL, every generated (sid, nonce, state,
    verifier), every compliant token response (any capitalisation of Bearer, with or without expires_in, with or
    without refresh token, string or array audience containing the client id):
    (1) the first request is redirected to the provider with the new session cookie and the login state stored;
    (2) the callback carrying the issued state and any code makes exactly one token request, clears the login state,
        stores the provider's tokens and redirects to exactly the URL stored at (1);
    (3) the original URL presented with the cookie is answered OK with the provider's tokens injected. -/
theorem login_completes (cfg : Cfg) (o : Oracles) (req1 req2 : Req) (sid nonce state verifier code : Str)
    (b : IdpBody) (now now' : Int) (params : List (Str × Str)) (at_ : TokAttrs)
    -- step 1: an HTTP request without session cookie, not on the logout path
    (h1 : req1.http = true) (h1lo : matchesLogout cfg req1 = false) (h1c : sessionIdFromCookie cfg req1.cookie = [])
    -- step 2: the browser follows the provider's redirect to the callback URI with the cookie it was given
    (h2 : req2.http = true) (h2lo : matchesLogout cfg req2 = false) (h2c : sessionIdFromCookie cfg req2.cookie = sid)
    (hs : sid ≠ []) (h2cb : matchesCallback cfg req2 = true)
    (hq : parseQuery (queryOf req2.path) = (params, true)) (hne : params.isEmpty = false)
    (hst : valuesGet params (B "state") = state) (hsne : state ≠ [])
    (hcode : valuesGet params (B "code") = code) (hcne : code ≠ [])
    (hb : CompliantAnswer cfg o b nonce)
    -- step 3: the original request again, now with the cookie (it is not the callback), while the tokens are valid
    (req3 : Req) (h3 : req3.http = true) (h3lo : matchesLogout cfg req3 = false) (h3c : sessionIdFromCookie cfg req3.cookie = sid)
    (h3cb : matchesCallback cfg req3 = false)
    (hat : o.attrs b.idToken = some at_) (hexp : now' ≤ at_.exp)
    (hacc : b.expiresIn > 0 → now' ≤ now + b.expiresIn * 1000000000 - 5) :
    let a : AuthState := { state := state, nonce := nonce, requestedUrl := requestedUrl req1, codeVerifier := verifier }
    let t : Tokens := { idToken := b.idToken, accessToken := b.accessToken, refreshToken := b.refreshToken,
                        accessExp := accessExpiry now b.expiresIn }
    replay (process cfg o req1) [.gen sid nonce state verifier, .done true] =
      some (redirectWithCookie (authLocation cfg o state nonce verifier) (setCookie (cookieName cfg) sid none),
            [.gen, .setAuth sid a]) ∧
    replay (process cfg o req2) [.auth (.ok (some a)), .idp (.body b), .keys true, .done true, .time now, .done true] =
      some (found (requestedUrl req1),
            [.getAuth sid, .idp (.code cfg.tokenUri code cfg.callbackUri verifier cfg.clientId cfg.clientSecret),
             .keys, .clearAuth sid, .now, .setTok sid t]) ∧
    replay (process cfg o req3) [.tok (.ok (some t)), .time now'] = some (allow cfg [] t, [.getTok sid, .now]) := by
  intro a t
  refine ⟨first_visit cfg o req1 sid nonce state verifier h1 h1lo h1c, ?_, ?_⟩
  · exact callback_completes cfg o req2 sid code a b now params h2 h2lo h2c hs h2cb hq hne hst hsne hcode hcne hb
  · exact authenticated_request_ok cfg o req3 [] sid t at_ now' h3 h3lo h3c hs h3cb hat
      (stored_tokens_valid_while_provider_says cfg at_ b now now' hexp hacc)

/-- NO RE-AUTHENTICATION WHILE VALID: any number of further requests - at any later times inside the lifetime the
    provider announced - are answered OK without any token request and without a redirect -/
theorem no_reauth_while_valid (cfg : Cfg) (o : Oracles) (sid : Str) (hs : sid ≠ []) (t : Tokens) (at_ : TokAttrs)
    (hat : o.attrs t.idToken = some at_) (later : List (Req × Int))
    (hall : ∀ x ∈ later, x.1.http = true ∧ matchesLogout cfg x.1 = false ∧ sessionIdFromCookie cfg x.1.cookie = sid ∧
        matchesCallback cfg x.1 = false ∧ tokensExpired cfg at_ t x.2 = false) :
    ∀ x ∈ later, replay (process cfg o x.1) [.tok (.ok (some t)), .time x.2] = some (allow cfg [] t, [.getTok sid, .now]) := by
  intro x hx
  obtain ⟨h1, h2, h3, h4, h5⟩ := hall x hx
  exact authenticated_request_ok cfg o x.1 [] sid t at_ x.2 h1 h2 h3 hs h4 hat h5

/-- a token response WITHOUT expires_in does not expire the access token (the defect repaired in dc8f8fa) -/
theorem no_expires_in_no_expiry (now : Int) : accessExpiry now 0 = none := by simp [accessExpiry]

/-- the cookie the browser was given is read back as the same session id (token-charset cookie prefix) -/
theorem cookie_read_back (cfg : Cfg) (sid : Str) (hp : ∀ b ∈ cfg.cookiePrefix, tokByte b = true)
    (hsid : ∀ b ∈ sid, tokByte b = true) :
    sessionIdFromCookie cfg (cookieName cfg ++ [61] ++ sid) = sid := by
  apply sessionId_roundtrip cfg sid (cookieName_tok cfg hp) hsid
  unfold cookieName; split <;> simp [cookiePrefixConst, defaultCookieName, B]

/-- the provider may answer with any capitalisation of the token type -/
example : isBearer (B "Bearer") = true ∧ isBearer (B "bearer") = true ∧ isBearer (B "BEARER") = true ∧ isBearer (B "mac") = false := by decide

/-- NO HIDDEN STATE: the model treats a check as a function of (configuration, request, store answers, clock, IdP and key-source answers, entropy); that is a faithful reading of the code only if nothing else survives from one check to the next. Regenerated on every run: every package-level variable and struct field of internal/server, internal/authz, internal/http, internal/oidc is the classified expectation, and handlers, filter, HTTP helpers and the Redis store own no mutable state (no verdict cache, handler cache, object pool, single-flight group or per-process copy of session data). -/
theorem no_hidden_state : CheckPathInventory := check_path_inventory

/-- ON THE CODE AS TRANSLATED FROM /repo: the session cookie the service sets on the login redirect
    (`generateSetCookieHeader` with the negative timeout) starts with `name=sid;`, and a browser that sends `name=sid` back
    is recognised: `getSessionIDFromCookie` (with `DecodeCookiesHeader`) returns exactly that session id. Without this a
    login could never complete - the callback would look like a first visit. -/
theorem code_cookie_read_back (env : Go.Env) (c : Pb.OIDCConfig) (cfg : Cfg) (sid : Str)
    (h : cfg.cookiePrefix = c.GetCookieNamePrefix) (hp : ∀ b ∈ cfg.cookiePrefix, tokByte b = true)
    (hsid : ∀ b ∈ sid, tokByte b = true) :
    Code.getSessionIDFromCookie env [(B "cookie", cookieName cfg ++ [61] ++ sid)] c = .ok sid := by
  have h1 := code_sessionIdFromCookie env [(B "cookie", cookieName cfg ++ [61] ++ sid)] c cfg h
  have h2 : Go.Map.get [(B "cookie", cookieName cfg ++ [61] ++ sid)] (B "cookie") = cookieName cfg ++ [61] ++ sid := by
    simp [Go.Map.get, List.find?]
  rw [h1, h2, cookie_read_back cfg sid hp hsid]

end AuthProps.C03

#print axioms AuthProps.C03.login_completes
#print axioms AuthProps.C03.no_reauth_while_valid
#print axioms AuthProps.C03.no_expires_in_no_expiry
#print axioms AuthProps.C03.cookie_read_back
#print axioms AuthProps.C03.no_hidden_state
#print axioms AuthProps.C03.code_cookie_read_back
