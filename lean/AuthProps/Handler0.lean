import AuthModel.Oidc.Run
