/-
  C16  Concurrent checks and background updates are free of data races.
  PARTIAL. Not "the binary has no race", but (i) a theorem about lock-based executions and (ii) its instantiation on
  an access table REGENERATED from the source on every run; every other runtime write to shared state is classified
  in a hand-written expectation table, so a new shared write or a removed lock breaks an obligation here. The dynamic
  race detector run (thorough tier) is the search for a concrete race and the validation of the table.
-/
import AuthProofs.Lockset
import AuthModel.Generated.Facts
namespace AuthProps.C16
open AuthModel AuthModel.Lockset

/-- LOCKSET SOUNDNESS: in any well-formed trace of acquire/release/read/write events (any number of threads, locks and
    events), two accesses by different threads made while holding one common lock are ordered by happens-before
    (program order ∪ unlock→lock). So a location all of whose accesses hold a common lock has no data race. -/
theorem lockset_sound (tr : List Ev) (hwf : WF tr) (L i j : Nat) (ei ej : Ev) (hij : i < j)
    (hi : tr[i]? = some ei) (hj : tr[j]? = some ej) (hai : ei.loc.isSome) (haj : ej.loc.isSome)
    (hgi : holders (tr.take i) L = some ei.tid) (hgj : holders (tr.take j) L = some ej.tid) : HB tr i j :=
  Lockset.lockset_sound tr hwf L i j ei ej hij hi hj hai haj hgi hgj

/-- helpers that document "the caller must hold the lock" -/
def lockRequiredHelpers : List (String × String) := [("memoryStore", "live")]

/-- LOCK DISCIPLINE (regenerated access table): every read/write of a mutex-guarded map field (memoryStore.sessions,
    tlsConfigPool.configs, FileWatcher.watchers) happens with the struct's mutex held, or inside a helper documented as
    lock-required, ALL of whose call sites hold the mutex. -/
theorem lock_discipline :
    (Generated.lockTable.all fun e =>
      if e.2.2.2.1 == "call" then
        -- a call of a lock-required helper must hold the lock
        !(lockRequiredHelpers.any fun h => h.1 == e.1 && ("call:" ++ h.2) == e.2.2.1) || e.2.2.2.2
      else
        e.2.2.2.2 || lockRequiredHelpers.any fun h => h.1 == e.1 && h.2 == e.2.1) = true := by decide

/-- the package-level discovery cache is only touched under its mutex (repaired in 9b87d58) -/
theorem package_maps_guarded :
    Generated.packageMaps = [("oidc/discovery.go", "wellKnownConfigs")] ∧
    (Generated.packageMapAccess.all fun e => e.2.2.2.2) = true := by decide

/-- EVERY other runtime write through shared configuration objects, classified. A new one changes this list and
    breaks the obligation.
      loadWellKnownConfig: 5 writes into the shared OIDCConfig on every check with discovery  - KNOWN RACE (finding)
      SecretController.Reconcile: ClientSecretConfig while checks read it                     - KNOWN RACE (finding)
      LoadTLSConfig: fields of a tls.Config not yet published to the pool                     - construction-local
      updateCA: RootCAs of a tls.Config that live transports read                             - KNOWN RACE (finding) -/
theorem shared_writes_classified :
    Generated.sharedConfigWrites =
      [("authz/oidc.go:loadWellKnownConfig", "cfg.AuthorizationUri"), ("authz/oidc.go:loadWellKnownConfig", "cfg.TokenUri"),
       ("authz/oidc.go:loadWellKnownConfig", "cfg.JwksConfig"), ("authz/oidc.go:loadWellKnownConfig", "cfg.GetJwksFetcher().JwksUri"),
       ("authz/oidc.go:loadWellKnownConfig", "cfg.GetLogout().RedirectUri"),
       ("k8s/secret_controller.go:SecretController.Reconcile", "oidcConfig.ClientSecretConfig"),
       ("tls.go:tlsConfigPool.LoadTLSConfig", "tlsConfig.InsecureSkipVerify"), ("tls.go:tlsConfigPool.LoadTLSConfig", "tlsConfig.RootCAs"),
       ("tls.go:tlsConfigPool.updateCA", "tlsConfig.RootCAs")] := by decide

/-- Where a `*tls.Config` is installed into an `http.Transport`. net/http assigns `TLSClientConfig.NextProtos` on the
    first round trip of EVERY transport (`onceSetNextProtoDefaults`: "Server.ServeTLS clones the tls.Config before
    modifying it. Transport doesn't."), so the one site below - which installs the POOLED config, uncloned, into the
    transport built for each check - is a KNOWN RACE (finding C16-pooled-tlsconfig-nextprotos). A second site, or a
    changed right-hand side, breaks this obligation. -/
theorem tls_config_aliases_classified :
    Generated.tlsConfigAliases = [("http/http.go:NewHTTPClient", "tlsPool.LoadTLSConfig(cfg)")] := by decide

/-- single-threaded by construction: start-up phases (before any check is served) and the lock-required helper -/
def startupOrHelper : List (String × String) :=
  [("k8s/secret_controller.go", "SecretController.loadSecrets"), ("oidc/session.go", "sessionStoreFactory.PreRun"),
   ("oidc/memory.go", "memoryStore.live")]

/-- EVERY write to a map that hangs off a struct field, anywhere under internal/ (regenerated): it happens with a mutex
    held, in a constructor, in a start-up phase, or in the lock-required helper (whose callers `lock_discipline` covers).
    A cache added to a long-lived object - e.g. handlers memoised per chain in the ext_authz filter - and filled
    without a lock shows up here. -/
theorem field_maps_guarded :
    (Generated.fieldMapWrites.all fun e => e.2.2.2.2 || startupOrHelper.any fun h => h.1 == e.1 && h.2 == e.2.1) = true := by
  decide

/-- the Redis store keeps no mutable state of its own (no field is assigned outside the constructor) -/
theorem redis_store_stateless : Generated.redisFieldWrites = [] := by decide

/- Non-vacuity: a two-thread trace in which both accesses to location 7 hold lock 1 -/
def trX : List Ev := [.acq 1 1, .wr 1 7, .rel 1 1, .acq 2 1, .rd 2 7, .rel 2 1]
example : WF trX := by
  intro i
  match i with
  | 0 | 1 | 2 | 3 | 4 | 5 => simp [trX, holders, step]
  | (n + 6) => simp [trX]
example : holders (trX.take 1) 1 = some 1 ∧ holders (trX.take 4) 1 = some 2 := by decide

end AuthProps.C16

#print axioms AuthProps.C16.lockset_sound
#print axioms AuthProps.C16.lock_discipline
#print axioms AuthProps.C16.package_maps_guarded
#print axioms AuthProps.C16.shared_writes_classified
#print axioms AuthProps.C16.tls_config_aliases_classified
#print axioms AuthProps.C16.field_maps_guarded
#print axioms AuthProps.C16.redis_store_stateless
