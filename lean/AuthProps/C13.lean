/-
  C13  Redirects are well-formed and restore the originally requested URL.
  Url.lean ports Go's QueryEscape / QueryUnescape / ParseQuery / Values.Encode.
-/
import AuthProofs.StateInventory
import AuthProofs.Ladder
import AuthProofs.UrlLemmas
import AuthModel.Generated.Facts
import AuthProofs.CodeEquivResp
namespace AuthProps.C13
open AuthModel AuthModel.Oidc AuthModel.Str

/-- every byte string - reserved characters, non-ASCII, anything - survives escape then unescape -/
theorem unescape_escape (s : Str) : queryUnescape (queryEscape s) = some s := queryUnescape_queryEscape s

/-- an escaped value contains none of `&`, `=`, `;`, `#`, `?`, space: it cannot break out of its parameter -/
theorem escape_clean (s : Str) : ∀ b ∈ queryEscape s, b ≠ 38 ∧ b ≠ 61 ∧ b ≠ 59 ∧ b ≠ 35 ∧ b ≠ 63 ∧ b ≠ 32 :=
  fun b hb => escSafe_not_sep b (queryEscape_safe s b hb)

/-- the login Location is the configured authorization endpoint, then `?` - or `&` when the endpoint already has a
    query of its own, which is thereby retained - then exactly the eight parameters, keys sorted as Values.Encode does -/
theorem authorization_location (cfg : Cfg) (o : Oracles) (state nonce verifier : Str) :
    authLocation cfg o state nonce verifier =
      cfg.authUri ++ (if containsByte 63 cfg.authUri then [38] else [63]) ++
      encodeSorted [(B "client_id", cfg.clientId), (B "code_challenge", o.s256 verifier),
        (B "code_challenge_method", B "S256"), (B "nonce", nonce), (B "redirect_uri", cfg.callbackUri),
        (B "response_type", B "code"), (B "scope", Str.join [32] cfg.scopes), (B "state", state)] := rfl

/-- each parameter decodes back to its exact value -/
theorem parameter_roundtrip (k v : Str) :
    (queryUnescape (queryEscape k), queryUnescape (queryEscape v)) = (some k, some v) := by
  simp [queryUnescape_queryEscape]

/-- what is stored at the login redirect as the URL to return to is scheme://host + path [+ ?query] of that request -/
theorem requested_url_stored (cfg : Cfg) (o : Oracles) (req : Req) (prev : Headers) :
    AllActs (WriteOK cfg o req) (process cfg o req prev) [] :=
  process_writes cfg o req prev

theorem requested_url_def (req : Req) :
    requestedUrl req = req.scheme ++ B "://" ++ req.host ++ req.path ++ (if req.query ≠ [] then [63] ++ req.query else []) := rfl

/-- after a successful login the Location is, byte for byte, the `requestedUrl` member of the login state the store
    returned for the presented session (with C12: the one stored by the redirect that created it) -/
theorem post_login_location (cfg : Cfg) (o : Oracles) (req : Req) (prev : Headers) :
    AllPaths (RespShape cfg o req prev) (process cfg o req prev) [] :=
  process_shapes cfg o req prev

/-- every answer with HTTP status 302 starts with the no-cache headers -/
theorem redirects_no_cache (loc cookie : Str) :
    (∃ rest, (match (found loc).http with | .denied d => d.headers | _ => []) = stdHeaders ++ rest) ∧
    (∃ rest, (match (redirectWithCookie loc cookie).http with | .denied d => d.headers | _ => []) = stdHeaders ++ rest) :=
  ⟨⟨_, rfl⟩, ⟨_, rfl⟩⟩

theorem no_cache_headers_match_source : stdHeaders = Generated.stdHeaders := by decide

example : queryEscape (B "a b&c=d/~?") = B "a+b%26c%3Dd%2F~%3F" := by decide

/-! ### the same, about the code as translated from the source (Generated/CodeOidc.lean) -/

/-- THE CODE's redirect answers: `newDenyResponse` then `setRedirect` (then, with a new session or at logout,
    `setSetCookieHeader`) then `setDenyResponse(…, Unauthenticated)` - composed as the call sites of oidc.go compose them -
    cannot panic on a non-nil response and ARE the model's `found` / `redirectWithCookie`: HTTP 302, the no-cache pair
    first, then Location (then Set-Cookie) -/
theorem code_redirects_no_cache (env : Go.Env) (resp : Pb.CheckResponse) (loc cookie : Str) (hr : resp.isNil = false) :
    (∃ r, (do let d ← Code.newDenyResponse env
              let d ← Code.setRedirect env d loc
              Code.setDenyResponse env resp d 16) = .ok r ∧
      CodeEquiv.respOf r = { code := cUnauthenticated, http := .denied { status := 302, headers := stdHeaders ++ [(B "location", loc)] } }) ∧
    (∃ r, (do let d ← Code.newDenyResponse env
              let d ← Code.setRedirect env d loc
              let d ← Code.setSetCookieHeader env d cookie
              Code.setDenyResponse env resp d 16) = .ok r ∧
      CodeEquiv.respOf r = { code := cUnauthenticated, http := .denied { status := 302, headers := stdHeaders ++ [(B "location", loc), (B "set-cookie", cookie)] } }) :=
  ⟨CodeEquiv.code_found env resp loc hr, CodeEquiv.code_redirectWithCookie env resp loc cookie hr⟩

/-- the package-level `standardResponseHeaders` of the code is the no-cache pair -/
theorem code_standard_headers : CodeEquiv.hdrsOf Code.standardResponseHeaders = [(B "cache-control", B "no-cache"), (B "pragma", B "no-cache")] := by decide

/-- `setRedirect` only appends: whatever headers the denial had, it still has -/
theorem code_redirect_keeps_headers (env : Go.Env) (d : Pb.DeniedHttpResponse) (loc : Str) (hd : d.isNil = false) :
    ∀ d', Code.setRedirect env d loc = .ok d' → ∀ h ∈ (CodeEquiv.deniedOf d).headers, h ∈ (CodeEquiv.deniedOf d').headers :=
  CodeEquiv.code_redirect_keeps_headers env d loc hd


/-- NO HIDDEN STATE: the model treats a check as a function of (configuration, request, store answers, clock, IdP and key-source answers, entropy); that is a faithful reading of the code only if nothing else survives from one check to the next. Regenerated on every run: every package-level variable and struct field of internal/server, internal/authz, internal/http, internal/oidc is the classified expectation, and handlers, filter, HTTP helpers and the Redis store own no mutable state (no verdict cache, handler cache, object pool, single-flight group or per-process copy of session data). -/
theorem no_hidden_state : CheckPathInventory := check_path_inventory

end AuthProps.C13

#print axioms AuthProps.C13.unescape_escape
#print axioms AuthProps.C13.escape_clean
#print axioms AuthProps.C13.authorization_location
#print axioms AuthProps.C13.parameter_roundtrip
#print axioms AuthProps.C13.requested_url_stored
#print axioms AuthProps.C13.requested_url_def
#print axioms AuthProps.C13.post_login_location
#print axioms AuthProps.C13.redirects_no_cache
#print axioms AuthProps.C13.no_cache_headers_match_source
#print axioms AuthProps.C13.no_hidden_state
#print axioms AuthProps.C13.code_redirects_no_cache
#print axioms AuthProps.C13.code_standard_headers
#print axioms AuthProps.C13.code_redirect_keeps_headers
