/-
  C19  Kubernetes client-secret changes reach exactly the filters that reference them.
-/
import AuthProofs.StateInventory
import AuthProofs.Secret
import AuthProofs.Ladder
import AuthModel.Generated.Facts
namespace AuthProps.C19
open AuthModel AuthModel.Secret

/-- after the reconcile of `ns/name` whose Secret carries a non-empty `client-secret`, every filter indexed under that
    key has that value as its (literal) secret and every other filter is unchanged -/
theorem reconcile_updates_exactly (st : State) (reqNs reqName v : Str) (hv : v ≠ []) (j : Nat) (hj : j < st.filters.length) :
    (reconcile st reqNs reqName (.data (some v))).filters[j]? =
      if (keyOf reqNs reqName, j) ∈ st.index then some (some (.literal v)) else st.filters[j]? :=
  Secret.reconcile_updates_exactly st reqNs reqName v hv j hj

/-- the index built at start-up is exactly: filter j ↦ "currentNamespace/name" for the filters with a named reference -/
theorem index_sound (ns : Str) (fs : List FilterS) (idx : List (Str × Nat)) (h : loadSecrets ns fs 0 = some idx) :
    ∀ k j, (k, j) ∈ idx ↔ ∃ rns name, fs[j]? = some (some (Src.ref rns name)) ∧ name ≠ [] ∧ k = keyOf ns name := by
  intro k j
  have := Secret.index_sound ns fs 0 idx h k j
  simpa using this

/-- Secrets in other namespaces / with unrelated names (not in the index), Secrets not found, being deleted, lacking
    the key or holding an empty value leave the configuration untouched -/
theorem reconcile_ignores (st : State) (reqNs reqName : Str) (l : Lookup)
    (h : (∀ i, (keyOf reqNs reqName, i) ∉ st.index) ∨ l = .notFound ∨ l = .deleting ∨ l = .data none ∨ l = .data (some [])) :
    reconcile st reqNs reqName l = st :=
  Secret.reconcile_ignores st reqNs reqName l h

/-- a Secret of ANOTHER namespace is never in the index: all keys are "currentNamespace/..." -/
theorem other_namespace_not_indexed (ns : Str) (fs : List FilterS) (idx : List (Str × Nat)) (h : loadSecrets ns fs 0 = some idx)
    (k : Str) (j : Nat) (hk : (k, j) ∈ idx) : ∃ name, k = keyOf ns name := by
  obtain ⟨_, name, _, _, hkk⟩ := (index_sound ns fs idx h k j).mp hk
  exact ⟨name, hkk⟩

/-- cross-namespace references are refused at start-up -/
theorem refuse_cross_namespace (ns : Str) (fs : List FilterS)
    (h : ∃ rns name, some (Src.ref rns name) ∈ fs ∧ name ≠ [] ∧ rns ≠ [] ∧ rns ≠ ns) : loadSecrets ns fs 0 = none :=
  Secret.refuse_cross_namespace ns fs 0 h

/-- rotation: the index and the namespace survive every reconcile, so over any history of events a filter keeps being
    reached by the Secret it originally referenced -/
theorem rotation_stable (st : State) (events : List (Str × Str × Lookup)) :
    (events.foldl (fun s e => reconcile s e.1 e.2.1 e.2.2) st).index = st.index := by
  induction events generalizing st with
  | nil => rfl
  | cons e es ih => simp only [List.foldl_cons]; rw [ih]; exact (Secret.reconcile_keeps_index st e.1 e.2.1 e.2.2).1

/-- every token request carries the secret the configuration holds at that moment (C04/C11 request theorems) -/
theorem token_request_uses_current (cfg : Cfg) (o : Oracles) (req : Req) (prev : Headers) :
    AllActs (IdpReqOK cfg o req) (Oidc.process cfg o req prev) [] :=
  process_idp_requests cfg o req prev

theorem secret_key_matches_source : Generated.clientSecretKey = "client-secret" := by decide

/- Non-vacuity -/
def fsX : List FilterS := [some (.ref [] (B "s1")), none, some (.ref (B "ns") (B "s2")), some (.ref [] (B "s1")), some (.literal (B "x"))]
example : loadSecrets (B "ns") fsX 0 = some [(B "ns/s1", 0), (B "ns/s2", 2), (B "ns/s1", 3)] := by decide
example : (reconcile { ns := B "ns", index := [(B "ns/s1", 0), (B "ns/s2", 2), (B "ns/s1", 3)], filters := fsX } (B "ns") (B "s1") (.data (some (B "v")))).filters
    = [some (.literal (B "v")), none, some (.ref (B "ns") (B "s2")), some (.literal (B "v")), some (.literal (B "x"))] := by decide
example : loadSecrets (B "ns") [some (.ref (B "other") (B "s"))] 0 = none := by decide

/-- NO HIDDEN STATE: regenerated inventory of package internal (loader, TLS pool, file watcher), internal/http and internal/k8s: the only mutable state is the watcher table, the pool map and the secret index. -/
theorem no_hidden_state_infra : InfraInventory := infra_inventory

/-- NO HIDDEN STATE: the model treats a check as a function of (configuration, request, store answers, clock, IdP and key-source answers, entropy); that is a faithful reading of the code only if nothing else survives from one check to the next. Regenerated on every run: every package-level variable and struct field of internal/server, internal/authz, internal/http, internal/oidc is the classified expectation, and handlers, filter, HTTP helpers and the Redis store own no mutable state (no verdict cache, handler cache, object pool, single-flight group or per-process copy of session data). -/
theorem no_hidden_state : CheckPathInventory := check_path_inventory

end AuthProps.C19

#print axioms AuthProps.C19.reconcile_updates_exactly
#print axioms AuthProps.C19.index_sound
#print axioms AuthProps.C19.reconcile_ignores
#print axioms AuthProps.C19.other_namespace_not_indexed
#print axioms AuthProps.C19.refuse_cross_namespace
#print axioms AuthProps.C19.rotation_stable
#print axioms AuthProps.C19.token_request_uses_current
#print axioms AuthProps.C19.secret_key_matches_source
#print axioms AuthProps.C19.no_hidden_state_infra
#print axioms AuthProps.C19.no_hidden_state
