/-
  C11  Refresh keeps the session current or ends it.
-/
import AuthProofs.StateInventory
import AuthProofs.Ladder
import AuthProofs.CodeEquivOidc
namespace AuthProps.C11
open AuthModel AuthModel.Oidc

/-- the refresh request: made only right after the store returned expired tokens with a refresh token for the
    presented session, to the configured token endpoint, with THAT stored refresh token and the client credentials -/
theorem refresh_request (cfg : Cfg) (o : Oracles) (req : Req) (prev : Headers) :
    AllActs (IdpReqOK cfg o req) (process cfg o req prev) [] :=
  process_idp_requests cfg o req prev

/-- the merge: new values replace old, values the provider omitted are kept, a rotated refresh token replaces its
    predecessor, the expiry moves only when a positive expires_in is announced -/
theorem merge_spec (o : Oracles) (old : Tokens) (b : IdpBody) (now : Int) :
    mergeTokens o old b now =
      { idToken := if (o.attrs b.idToken).isSome then b.idToken else old.idToken,
        accessToken := if b.accessToken ≠ [] then b.accessToken else old.accessToken,
        refreshToken := if b.refreshToken ≠ [] then b.refreshToken else old.refreshToken,
        accessExp := if b.expiresIn > 0 then some (now + b.expiresIn * 1000000000 - 5) else old.accessExp } := by
  unfold mergeTokens accessExpiry nsPerSec
  by_cases h : b.expiresIn > 0 <;> simp [h]

theorem rotated_refresh_token_replaces (o : Oracles) (old : Tokens) (b : IdpBody) (now : Int) (h : b.refreshToken ≠ []) :
    (mergeTokens o old b now).refreshToken = b.refreshToken := by simp [mergeTokens, h]

theorem omitted_refresh_token_kept (o : Oracles) (old : Tokens) (b : IdpBody) (now : Int) (h : b.refreshToken = []) :
    (mergeTokens o old b now).refreshToken = old.refreshToken := by simp [mergeTokens, h]

/-- success: what is stored is the merged result, and it is what is forwarded (with C12: it is what later checks read) -/
theorem refresh_success_stores_and_forwards_merged (cfg : Cfg) (o : Oracles) (req : Req) (prev : Headers) :
    AllPaths (fun tr r => r.code = cOK → Justified cfg o req prev tr r) (process cfg o req prev) [] :=
  process_ok_justified cfg o req prev

/-- failure ends the session: on the refresh branch every outcome other than OK and other than a failed save of the
    validated result goes through `redirectToIDP(sid)`, whose first action is RemoveSession(sid) -/
theorem refresh_failure_removes_session (cfg : Cfg) (o : Oracles) (req : Req) (sid : Str) (h : sid ≠ []) :
    ∃ k, redirectToIdp cfg o req sid = .act (.removeSession sid) k := by
  unfold redirectToIdp; simp [h]

theorem refresh_branch_outcomes (cfg : Cfg) (o : Oracles) (req : Req) (prev : Headers) :
    AllPaths (RespShape cfg o req prev) (process cfg o req prev) [] :=
  process_shapes cfg o req prev

example : (mergeTokens { attrs := fun _ => none, sigOK := fun _ => true, s256 := id }
    { idToken := B "old", accessToken := B "a0", refreshToken := B "r0", accessExp := some 7 }
    { idToken := B "junk", accessToken := [], refreshToken := B "r1", expiresIn := 0, tokenType := B "Bearer" } 100)
    = { idToken := B "old", accessToken := B "a0", refreshToken := B "r1", accessExp := some 7 } := by decide

/-- the two token-response validators AS TRANSLATED FROM THE GO SOURCE on this run never panic on a decoded
    (non-nil) answer and are the model's `validRefreshResponse` / `validNewResponse`: token_type is Bearer in any
    capitalisation, expires_in is not negative, and at login an access token is present when forwarding is configured -/
theorem code_response_validators (env : Go.Env) (c : Pb.OIDCConfig) (r : Pb.IdpTokensResponse) (cfg : Cfg)
    (hn : r.isNil = false) (hc : cfg.access.isSome = !c.GetAccessToken.isNil) :
    Code.isValidIDPRefreshTokenResponse env r = .ok (validRefreshResponse (bodyOf r)) ∧
    Code.isValidIDPNewTokensResponse env c r = .ok (validNewResponse cfg (bodyOf r)) :=
  ⟨code_validRefresh env r hn, code_validNew env c r cfg hn hc⟩

example : Code.isValidIDPRefreshTokenResponse {} { TokenType := B "bEARER", ExpiresIn := 0 } = .ok true := by decide
example : Code.isValidIDPRefreshTokenResponse {} { TokenType := B "", ExpiresIn := 5 } = .ok false := by decide

/-- NO HIDDEN STATE: the model treats a check as a function of (configuration, request, store answers, clock, IdP and key-source answers, entropy); that is a faithful reading of the code only if nothing else survives from one check to the next. Regenerated on every run: every package-level variable and struct field of internal/server, internal/authz, internal/http, internal/oidc is the classified expectation, and handlers, filter, HTTP helpers and the Redis store own no mutable state (no verdict cache, handler cache, object pool, single-flight group or per-process copy of session data). -/
theorem no_hidden_state : CheckPathInventory := check_path_inventory

end AuthProps.C11

#print axioms AuthProps.C11.refresh_request
#print axioms AuthProps.C11.merge_spec
#print axioms AuthProps.C11.rotated_refresh_token_replaces
#print axioms AuthProps.C11.omitted_refresh_token_kept
#print axioms AuthProps.C11.refresh_success_stores_and_forwards_merged
#print axioms AuthProps.C11.refresh_failure_removes_session
#print axioms AuthProps.C11.refresh_branch_outcomes
#print axioms AuthProps.C11.code_response_validators
#print axioms AuthProps.C11.no_hidden_state
