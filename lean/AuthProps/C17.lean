/-
  C17  Configuration loading: accepted means safe to run, rejected means an error.
  Model: AuthModel.Config.load (the pipeline of LocalConfigFile.Validate after protojson decoding).
-/
import AuthProofs.CodeEquivInternal
import AuthProofs.StateInventory
import AuthProofs.Config
import AuthModel.Generated.Facts
import AuthProofs.CodeEquivUrls
namespace AuthProps.C17
open AuthModel AuthModel.Config

/-- ACCEPTED MEANS RESOLVED: for EVERY decoded document and every URL-parsing oracle, if loading succeeds then there
    is at least one chain, every chain has a name, at least one filter, a well-formed criterion and at most one OIDC
    filter, and every filter is `mock` or an `oidc` filter that is fully resolved (`Resolved`: openid scope, non-empty
    callback URI, colon-free non-empty client id, a client-secret source, an ID-token header, endpoints + key source
    or a discovery URI, a logout path that is non-empty, non-root and different from the callback path). No override
    and no untyped filter survives. -/
theorem accepted_resolved (u : UrlOracle) (doc : Doc) (l : Loaded) (h : load u doc = some l) :
    l.chains ≠ [] ∧
    ∀ c ∈ l.chains, c.name ≠ [] ∧ c.filters ≠ [] ∧ (c.filters.filter isOidcLike).length ≤ 1 ∧
      (∀ m, c.criterion = some m → m.header ≠ [] ∧ m.criterionSet = true ∧ m.value ≠ []) ∧
      ∀ f ∈ c.filters, (∃ a, f = .mock a) ∨ (∃ d, f = .oidc d ∧ Resolved u d) :=
  load_resolved u doc l h

/-- the callback URI of a merged filter is the default's or the override's, both of which passed the URL checks
    (parseable, non-root) before the merge -/
theorem merged_callback_was_checked (d o : OidcDoc) :
    (merge d o).callbackUri = d.callbackUri ∨ (merge d o).callbackUri = o.callbackUri := merge_callback d o

theorem url_check_meaning (u : UrlOracle) (d : OidcDoc) (h : validateOidcUrls u d = true) (hc : d.callbackUri ≠ []) :
    ∃ p, u.parse d.callbackUri = some p ∧ isRootPath p = false := by
  unfold validateOidcUrls at h
  simp only [Bool.and_eq_true, Bool.or_eq_true, beq_iff_eq, Bool.not_eq_true', Bool.and_eq_false_iff, bne_eq_false_iff_eq] at h
  obtain ⟨⟨⟨⟨⟨⟨⟨_, _⟩, _⟩, _⟩, hcb⟩, _⟩, _⟩, hroot⟩ := h
  rcases hcb with hcb | hcb
  · exact absurd hcb hc
  · cases hp : u.parse d.callbackUri with
    | none => simp [hp] at hcb
    | some p =>
      refine ⟨p, rfl, ?_⟩
      rcases hroot with hroot | hroot
      · exact absurd hroot hc
      · simpa [hp] using hroot

/-- overrides are merged over the default field by field -/
theorem merge_fieldwise (d o : OidcDoc) :
    (merge d o).clientId = (if o.clientId ≠ [] then o.clientId else d.clientId) ∧
    (merge d o).callbackUri = (if o.callbackUri ≠ [] then o.callbackUri else d.callbackUri) ∧
    (merge d o).authorizationUri = (if o.authorizationUri ≠ [] then o.authorizationUri else d.authorizationUri) ∧
    (merge d o).tokenUri = (if o.tokenUri ≠ [] then o.tokenUri else d.tokenUri) ∧
    (merge d o).configurationUri = (if o.configurationUri ≠ [] then o.configurationUri else d.configurationUri) ∧
    (merge d o).cookiePrefix = (if o.cookiePrefix ≠ [] then o.cookiePrefix else d.cookiePrefix) ∧
    (merge d o).scopes = d.scopes ++ o.scopes ∧
    (o.secret = .unset → (merge d o).secret = d.secret) ∧
    (∀ s, o.secret = .literal s → (merge d o).secret = .literal s) :=
  Config.merge_fieldwise d o

/-- the openid scope is always present after defaulting, and nothing else changes -/
theorem scope_defaulting (d : OidcDoc) :
    scopeOpenid ∈ (applyDefaults d).scopes ∧ (∀ s ∈ d.scopes, s ∈ (applyDefaults d).scopes) := by
  unfold applyDefaults
  split
  · rename_i h; exact ⟨by simpa using h, fun s hs => hs⟩
  · exact ⟨by simp, fun s hs => by simp [hs]⟩

/-- rejected means an error (never a partially loaded configuration) -/
theorem rejected_is_error (u : UrlOracle) (doc : Doc)
    (h : doc.listenPort = doc.healthPort ∨ validateUrls u doc = false ∨ overrideChecks doc = false) :
    load u doc = none := load_rejects u doc h

/-- a filter without a type (formerly a nil dereference inside Validate) is carried through the merge untouched and
    rejected by the final validation -/
theorem untyped_filter_rejected (u : UrlOracle) (dflt : Option OidcDoc) :
    resolveFilter u dflt .none = some (.none, true) ∧ validFilter .none = false := ⟨rfl, rfl⟩

theorem scope_constant_matches_source : scopeOpenid = Generated.scopeOIDC := by decide

/- Non-vacuity: a complete document is accepted and resolved -/
def okOidc : OidcDoc :=
  { authorizationUri := B "a", tokenUri := B "t", callbackUri := B "https://h/cb", jwks := .inline (B "k"), clientId := B "c",
    secret := .literal (B "s"), idToken := some ⟨B "authorization", B "Bearer"⟩, logout := some ⟨B "/logout", []⟩ }
def okDoc : Doc :=
  { chains := [{ name := B "n", criterion := none, filters := [.mock true, .oidc okOidc] }], listenAddressIsIP := true,
    listenPort := 8080, healthPort := 10004, logLevelOk := true, default := none }
def uX : UrlOracle := { parse := fun s => if s = B "https://h/cb" then some (B "/cb") else some [], redisOk := fun _ => true }
example : (load uX okDoc).isSome = true := by decide
example : load uX { okDoc with chains := [{ name := B "n", criterion := none, filters := [.none] }] } = none := by decide

/-! ### the URL checks of the loader, about the code as translated from the source (validateURL, hasRootPath,
    validateOIDCConfigURLs of internal/config.go) -/

/-- THE CODE's `validateOIDCConfigURLs`: for EVERY configuration (nil and half-filled ones included) it returns - it
    cannot panic, although `hasRootPath` dereferences the result of `url.Parse` unchecked: its call comes after
    `validateURL` accepted the same string - and it accepts exactly what `urlsAccepted` says: every configured URL
    parses, go-redis accepts the Redis URI after the `tcp://` rewriting, and the callback URI is not a root path.
    An accepted configuration comes back with the Redis URI rewritten and nothing else changed. -/
theorem code_url_validation (env : Go.Env) (c : Pb.OIDCConfig) (hcoh : CodeEquiv.UrlParseCoherent env) :
    ∃ e c', Code.validateOIDCConfigURLs env c = .ok (e, c') ∧ e.isNil = CodeEquiv.urlsAccepted env c ∧
      (e.isNil = true → c' = CodeEquiv.rewritten c) :=
  CodeEquiv.code_validate_urls env c hcoh

/-- accepted means safe to run, as far as URLs go: the callback URI parses and has a non-root path (the callback
    matcher and the logout comparison read it), the token and authorization endpoints parse, and the store factory will
    be handed a Redis URI that go-redis accepts -/
theorem code_accepted_urls_resolved (env : Go.Env) (c : Pb.OIDCConfig) (hcoh : CodeEquiv.UrlParseCoherent env) :
    ∀ e c', Code.validateOIDCConfigURLs env c = .ok (e, c') → e.isNil = true →
      (c.GetCallbackUri = [] ∨ ((env.urlParseOracle c.GetCallbackUri).2 = false ∧
         Config.isRootPath (env.urlParseOracle c.GetCallbackUri).1.Path = false)) ∧
      (c.GetTokenUri = [] ∨ (env.urlParseOracle c.GetTokenUri).2 = false) ∧
      (c.GetAuthorizationUri = [] ∨ (env.urlParseOracle c.GetAuthorizationUri).2 = false) ∧
      (CodeEquiv.redisAfter c = [] ∨ env.redisParseURLOracle (CodeEquiv.redisAfter c) = false) ∧
      c'.GetRedisSessionStoreConfig.GetServerUri = CodeEquiv.redisAfter c :=
  CodeEquiv.code_accepted_urls env c hcoh

/-- the hypotheses are satisfiable and the verdicts are the expected ones: a root callback is rejected, `tcp://` is
    rewritten before go-redis sees the URI -/
example :
    let env : Go.Env := { urlParseOracle := fun s => ({ Path := if s == B "https://app/" then B "/" else B "/cb" }, false),
                          redisParseURLOracle := fun s => !(Str.hasPrefix s (B "redis://")) }
    CodeEquiv.UrlParseCoherent env ∧
    (Code.validateOIDCConfigURLs env { CallbackUri := B "https://app/" }).map (·.1.isNil) = .ok false ∧
    (Code.validateOIDCConfigURLs env { CallbackUri := B "https://app/cb", RedisSessionStoreConfig := { isNil := false, ServerUri := B "tcp://r:6379" } }).map
        (fun r => (r.1.isNil, r.2.GetRedisSessionStoreConfig.GetServerUri)) = .ok (true, B "redis://r:6379") := by
  refine ⟨fun s _ => rfl, by decide, by decide⟩


/-- NO HIDDEN STATE: regenerated inventory of package internal (loader, TLS pool, file watcher), internal/http and internal/k8s: the only mutable state is the watcher table, the pool map and the secret index. -/
theorem no_hidden_state : InfraInventory := infra_inventory

/-- `isCookieNameToken` and `isRootPath` AS TRANSLATED FROM THE GO SOURCE on this run are the loader model's rules: a
    cookie-name prefix is accepted iff every byte is visible US-ASCII and none of the RFC 2616 separators `()<>@,;:\\\"/[]?={}`
    (the counting loop never indexes out of range); a path is root iff it is `/` or empty. All 256 byte values are
    compared by the kernel (`badTokenByte_spec`). -/
theorem code_loader_rules (env : Go.Env) (s : Str) :
    Code.isCookieNameToken env s = .ok (Config.isCookieNameToken s) ∧ Code.isRootPath env s = .ok (Config.isRootPath s) :=
  ⟨code_isCookieNameToken env s, code_isRootPath env s⟩

example : Code.isCookieNameToken {} (B "my-app_2") = .ok true := by decide
example : Code.isCookieNameToken {} (B "x; Domain=e.org") = .ok false := by decide
example : Code.isCookieNameToken {} (B "") = .ok true := by decide

end AuthProps.C17

#print axioms AuthProps.C17.accepted_resolved
#print axioms AuthProps.C17.merged_callback_was_checked
#print axioms AuthProps.C17.url_check_meaning
#print axioms AuthProps.C17.merge_fieldwise
#print axioms AuthProps.C17.scope_defaulting
#print axioms AuthProps.C17.rejected_is_error
#print axioms AuthProps.C17.untyped_filter_rejected
#print axioms AuthProps.C17.scope_constant_matches_source
#print axioms AuthProps.C17.no_hidden_state
#print axioms AuthProps.C17.code_loader_rules
#print axioms AuthProps.C17.code_url_validation
#print axioms AuthProps.C17.code_accepted_urls_resolved
