/-
  C05  Session id renewed at every login redirect; cookie host-locked and protected.
-/
import AuthProofs.StateInventory
import AuthProofs.Ladder
import AuthProofs.CodeEquivOidc
import AuthProofs.CodeEquivInternal
import AuthProofs.StrLemmas
import AuthModel.Generated.Facts
import AuthModel.Config
namespace AuthProps.C05
open AuthModel AuthModel.Oidc AuthModel.Str

/-- every login redirect (the only answers that set a non-expired cookie) carries the id the generator just produced,
    under which the login state was stored successfully, and - if the request presented a session id - only after
    RemoveSession for the presented id succeeded (otherwise the answer is the session error) -/
theorem redirect_renews (cfg : Cfg) (o : Oracles) (req : Req) (prev : Headers) :
    AllPaths (RespShape cfg o req prev) (process cfg o req prev) [] :=
  process_shapes cfg o req prev

/-- tokens and login state are only ever written under ids the service itself issued: login state under the freshly
    generated id (the one sent in the Set-Cookie of that answer), tokens under the presented cookie id after the
    login state stored under that id matched -/
theorem writes_only_under_issued (cfg : Cfg) (o : Oracles) (req : Req) (prev : Headers) :
    AllActs (WriteOK cfg o req) (process cfg o req prev) [] :=
  process_writes cfg o req prev

/-- the cookie name always starts with `__Host-` -/
theorem cookie_name_host_prefix (cfg : Cfg) : hasPrefix (cookieName cfg) (B "__Host-") = true := by
  unfold cookieName
  split
  · simp only [cookiePrefixConst, List.append_assoc]
    exact Str.hasPrefix_append (B "__Host-") _
  · decide

/-- THE COOKIE NAME IS ONE COOKIE NAME. For every prefix the configuration loader accepts (`isCookieNameToken`, part of
    `Resolved` in C17 since c10ccd6) the whole name `__Host-<prefix>-authservice-session-id-cookie` consists of
    cookie-name characters only: no `;`, `=`, space or control character can end the name early or smuggle an
    attribute (Domain, Path ...) into the Set-Cookie header. -/
theorem cookie_name_is_token (cfg : Cfg) (h : Config.isCookieNameToken cfg.cookiePrefix = true) :
    Config.isCookieNameToken (cookieName cfg) = true := by
  unfold cookieName
  split
  · unfold Config.isCookieNameToken at *
    simp only [List.all_append, Bool.and_eq_true]
    exact ⟨⟨by decide, h⟩, by decide⟩
  · decide

/-- shape of every Set-Cookie: name=value; HttpOnly; Secure; SameSite=Lax; Path=/ (+ Max-Age=0 on logout); no Domain -/
theorem set_cookie_shape (name value : Str) :
    setCookie name value none = name ++ [61] ++ value ++ B "; HttpOnly; Secure; SameSite=Lax; Path=/" ∧
    setCookie name value (some 0) = name ++ [61] ++ value ++ B "; HttpOnly; Secure; SameSite=Lax; Path=/; Max-Age=0" := by
  constructor <;> simp [setCookie, encodeCookie, cookieDirectives] <;> decide

/-- the directive list and the name parts of the model ARE the ones in the source (regenerated on every run) -/
theorem directives_match_source : cookieDirectives = Generated.cookieDirectives := by decide
theorem name_parts_match_source :
    cookiePrefixConst = Generated.prefixCookieName ∧ cookieSuffixConst = Generated.suffixCookieName ∧
    defaultCookieName = Generated.defaultCookieName := by decide

/-- logout expires the cookie -/
theorem logout_expires_cookie (cfg : Cfg) (uri : Str) :
    logoutResp cfg uri = redirectWithCookie uri (setCookie (cookieName cfg) (B "deleted") (some 0)) := rfl

/-! ### The cookie functions as translated from /repo (AuthModel/Generated/CodeOidc.lean, CodeHttp.lean) -/

/-- `getCookieName` AS TRANSLATED FROM THE GO SOURCE on this run never panics and returns a name that starts with
    `__Host-`, for every configuration (a nil one included). -/
theorem code_cookie_name_host_prefix (env : Go.Env) (c : Pb.OIDCConfig) :
    ∃ n, Code.getCookieName env c = .ok n ∧ hasPrefix n (B "__Host-") = true := by
  let cfg : Cfg :=
    { clientId := [], clientSecret := [], callbackUri := [], cbScheme := [], cbHost := [], cbPort := [],
      cbPath := [], authUri := [], tokenUri := [], scopes := [], cookiePrefix := c.GetCookieNamePrefix, idHeader := [],
      idPreamble := [], access := none, logout := none }
  exact ⟨_, code_getCookieName env c cfg rfl, cookie_name_host_prefix cfg⟩

/-- `generateSetCookieHeader` (with `getCookieDirectives` and `EncodeCookieHeader`) AS TRANSLATED never panics and
    builds exactly `name=value; HttpOnly; Secure; SameSite=Lax; Path=/`, followed by `; Max-Age=0` for the zero timeout
    the logout answer uses and by nothing for the negative timeout the login redirect uses: no Domain, whatever the
    name and the value are. -/
theorem code_set_cookie_shape (env : Go.Env) (name value : Str) :
    Code.generateSetCookieHeader env name value (-1) =
      .ok (name ++ [61] ++ value ++ B "; HttpOnly; Secure; SameSite=Lax; Path=/") ∧
    Code.generateSetCookieHeader env name value 0 =
      .ok (name ++ [61] ++ value ++ B "; HttpOnly; Secure; SameSite=Lax; Path=/; Max-Age=0") := by
  have h := set_cookie_shape name value
  constructor
  · rw [code_setCookie, ← h.1]; rfl
  · rw [code_setCookie, ← h.2]; rfl

/-- `getSessionIDFromCookie` (with `DecodeCookiesHeader`) AS TRANSLATED never panics - whatever bytes the Cookie
    header holds - and returns what the model's `sessionIdFromCookie` returns: the value of the LAST well-formed
    `name=value` item whose name is the filter's cookie name. -/
theorem code_session_id_from_cookie (env : Go.Env) (headers : Go.Map) (c : Pb.OIDCConfig) (cfg : Cfg)
    (h : cfg.cookiePrefix = c.GetCookieNamePrefix) :
    Code.getSessionIDFromCookie env headers c = .ok (sessionIdFromCookie cfg (Go.Map.get headers (B "cookie"))) :=
  code_sessionIdFromCookie env headers c cfg h

example : Code.getSessionIDFromCookie {} [(B "cookie", B "a=1; __Host-authservice-session-id-cookie=s1; b=2")] {} = .ok (B "s1") := by decide
example : Code.generateSetCookieHeader {} (B "n") (B "v") 0 = .ok (B "n=v; HttpOnly; Secure; SameSite=Lax; Path=/; Max-Age=0") := by decide

/-- NO HIDDEN STATE: the model treats a check as a function of (configuration, request, store answers, clock, IdP and key-source answers, entropy); that is a faithful reading of the code only if nothing else survives from one check to the next. Regenerated on every run: every package-level variable and struct field of internal/server, internal/authz, internal/http, internal/oidc is the classified expectation, and handlers, filter, HTTP helpers and the Redis store own no mutable state (no verdict cache, handler cache, object pool, single-flight group or per-process copy of session data). -/
theorem no_hidden_state : CheckPathInventory := check_path_inventory

/-- On the translated code: a prefix the loader's `isCookieNameToken` accepts gives a cookie name that is a token
    (`cookie_name_is_token`), so nothing in the prefix can end the name or inject an attribute into the Set-Cookie. -/
theorem code_accepted_prefix_is_token (env : Go.Env) (cfg : Cfg)
    (h : Code.isCookieNameToken env cfg.cookiePrefix = .ok true) : Config.isCookieNameToken (cookieName cfg) = true := by
  rw [code_isCookieNameToken] at h
  exact cookie_name_is_token cfg (by simpa using h)

end AuthProps.C05

#print axioms AuthProps.C05.redirect_renews
#print axioms AuthProps.C05.writes_only_under_issued
#print axioms AuthProps.C05.cookie_name_host_prefix
#print axioms AuthProps.C05.cookie_name_is_token
#print axioms AuthProps.C05.set_cookie_shape
#print axioms AuthProps.C05.directives_match_source
#print axioms AuthProps.C05.name_parts_match_source
#print axioms AuthProps.C05.logout_expires_cookie
#print axioms AuthProps.C05.code_cookie_name_host_prefix
#print axioms AuthProps.C05.code_set_cookie_shape
#print axioms AuthProps.C05.code_session_id_from_cookie
#print axioms AuthProps.C05.no_hidden_state
#print axioms AuthProps.C05.code_accepted_prefix_is_token
