/-
  C15  No request, IdP answer or store answer can crash a check.
  Lean functions are total, so totality proves nothing about Go. What is proved: (1) every path of the model ends in
  a well-formed verdict; (2) the Go slice expressions of the splitter stay in bounds; (3) the inventory of
  panic-capable sites regenerated from the source (unchecked type assertions, index/slice expressions, explicit
  panics) is exactly the expected one, each entry discharged by a named argument.
-/
import AuthProofs.StateInventory
import AuthProofs.Ladder
import AuthProofs.Splitter
import AuthProofs.CodeEquiv
import AuthProofs.CodeEquivCheck
import AuthModel.Generated.Facts
import AuthProofs.CodeEquivUrls
namespace AuthProps.C15
open AuthModel AuthModel.Oidc

theorem verdict_wellformed (cfg : Cfg) (o : Oracles) (req : Req) (prev : Headers) :
    AllPaths (fun _ r => WellFormed r) (process cfg o req prev) [] :=
  process_wellformed cfg o req prev

/-- the non-string nonce claim (formerly a panic) is an invalid token -/
theorem nonstring_nonce_is_invalid (a : TokAttrs) (en : Str) (nr : Bool) (h : a.nonce = .other) :
    nonceAccepted a en nr = false := by simp [nonceAccepted, h]

/-- the splitter's slice expressions never go out of bounds -/
theorem splitter_in_bounds (s : Str) : pqfLit s = some (pqf s) := pqfLit_eq s

/-- PANIC-SITE INVENTORY (regenerated). Unchecked type assertions on the Check/Validate paths: exactly two, both on
    values whose dynamic type is fixed by the library (http.DefaultTransport is *http.Transport; proto.Clone returns
    the type of its argument). None in oidc.go any more (the nonce assertion is comma-ok since a7e937d). -/
theorem no_unexpected_type_assertions :
    Generated.typeAssertsNoOk =
      [("http/http.go:NewHTTPClient", "http.DefaultTransport.(*http.Transport)"),
       ("config.go:mergeAndValidateOIDCConfigs", "proto.Clone(cfg.DefaultOidcConfig).(*oidcv1.OIDCConfig)")] := by decide

/-- index/slice expressions: the eight slices of GetPathQueryFragment (in bounds by `splitter_in_bounds`) and
    parts[0], parts[1] guarded by `len(parts) != 2` -/
theorem no_unexpected_index_or_slice :
    Generated.indexSliceSites.map (·.1) =
      ["http/http.go:GetPathQueryFragment", "http/http.go:GetPathQueryFragment", "http/http.go:GetPathQueryFragment",
       "http/http.go:GetPathQueryFragment", "http/http.go:GetPathQueryFragment", "http/http.go:GetPathQueryFragment",
       "http/http.go:GetPathQueryFragment", "http/http.go:GetPathQueryFragment",
       "http/http.go:DecodeCookiesHeader", "http/http.go:DecodeCookiesHeader"] := by decide

theorem no_explicit_panics : Generated.explicitPanics = [] := by decide

/-- On the code AS TRANSLATED FROM THE GO SOURCE on this run (every slice expression, index expression and field
    selection through a pointer is a partial operation of the translation): the request-dependent pure functions of
    the Check path return a value - they do not panic - for EVERY input, including nil messages at every level of the
    request, nil rules, nil criteria and arbitrary bytes. -/
theorem code_trigger_path_never_panics (env : Go.Env) (rules : List Pb.TriggerRule) (m : Pb.Match) (req : Pb.CheckRequest)
    (s : Str) :
    (∃ r, Code.GetPathQueryFragment env s = .ok r) ∧ (∃ b, Code.mustTriggerCheck env rules req = .ok b) ∧
    (∃ b, Code.matches_ env m req = .ok b) :=
  ⟨⟨_, code_pqf env s⟩, ⟨_, code_mustTriggerCheck env rules req⟩, ⟨_, code_matches env m req⟩⟩

/-- THE CODE's URL validation at load time never panics, whatever the configuration: `hasRootPath` dereferences the URL
    `url.Parse` returned without looking at the error, and is safe only because its one call site runs after
    `validateURL` accepted the same string (a reordering breaks this theorem) -/
theorem code_loader_urls_never_panic (env : Go.Env) (c : Pb.OIDCConfig) (hcoh : CodeEquiv.UrlParseCoherent env) :
    ∃ r, Code.validateOIDCConfigURLs env c = .ok r :=
  CodeEquiv.code_validate_urls_total env c hcoh


/-- NO HIDDEN STATE: the model treats a check as a function of (configuration, request, store answers, clock, IdP and key-source answers, entropy); that is a faithful reading of the code only if nothing else survives from one check to the next. Regenerated on every run: every package-level variable and struct field of internal/server, internal/authz, internal/http, internal/oidc is the classified expectation, and handlers, filter, HTTP helpers and the Redis store own no mutable state (no verdict cache, handler cache, object pool, single-flight group or per-process copy of session data). -/
theorem no_hidden_state : CheckPathInventory := check_path_inventory

/-- `ExtAuthZFilter.Check` AS TRANSLATED FROM THE GO SOURCE on this run returns - a verdict or an error, never a panic -
    for EVERY request (absent parts, arbitrary bytes), provided the filter object carries a loaded configuration (no nil
    messages in its repeated fields, every filter a mock or an OIDC filter: C17) and the handlers behave as the two
    handlers of the code base do (an error, or a response whose status is set). The partial operations of the
    translation that this discharges: the selections through `e.cfg`, `c.Match`, `c.Filters`, `f.Type`, the call through
    the interface value `h` (nil when the filter type is unknown), and `resp.Status.Code`. -/
theorem code_check_never_panics (env : Go.Env) (h : Pb.Handlers) (hw : HandlersWF h) (e : Pb.ExtAuthZFilter)
    (req : Pb.CheckRequest) (he : e.isNil = false) (hc : e.cfg.isNil = false)
    (hcs : ∀ c ∈ e.cfg.Chains, c.isNil = false ∧ FiltersWF c.Filters) :
    ∃ v, Code.Check env h e req = .ok v := by
  rw [code_check]; exact checkSpec_ok env h hw e req he hc hcs

/-- and the hypothesis on the filter type is needed: a filter whose type `Check` does not know leaves the handler nil,
    and the call through it is a nil dereference (kernel-evaluated on the translated code) -/
example : Code.Check {} { newMock := fun _ => {}, newOIDC := fun _ => ({}, {}) }
    { cfg := { Chains := [{ Filters := [{ Type_ := .Other }] }] } } {} = .error "invalid memory address or nil pointer dereference" := by decide

end AuthProps.C15

#print axioms AuthProps.C15.verdict_wellformed
#print axioms AuthProps.C15.nonstring_nonce_is_invalid
#print axioms AuthProps.C15.splitter_in_bounds
#print axioms AuthProps.C15.no_unexpected_type_assertions
#print axioms AuthProps.C15.no_unexpected_index_or_slice
#print axioms AuthProps.C15.no_explicit_panics
#print axioms AuthProps.C15.code_trigger_path_never_panics
#print axioms AuthProps.C15.no_hidden_state
#print axioms AuthProps.C15.code_check_never_panics
#print axioms AuthProps.C15.code_loader_urls_never_panic
