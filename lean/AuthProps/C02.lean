/-
  C02  Only IdP-issued, validated tokens are bound to a session and forwarded.
  Oracles: `attrs` (jwt.Parse), `sigOK` (jws.Verify with the configured key set). The theorems hold for every oracle.
-/
import AuthProofs.StateInventory
import AuthProofs.Ladder
import AuthProofs.CodeEquivOidc
import AuthProofs.CodeEquivResp
namespace AuthProps.C02
open AuthModel AuthModel.Oidc

/-- EVERY write of tokens to the session store, on every path of a check, in every environment, is one of two:
    (login) the ID token of THIS check's token-endpoint answer, which passed `isValidIDToken` against the nonce stored
    for the session named by the cookie (nonce required), after the login state was cleared; or (refresh) the merge
    of this check's refresh answer over the stored tokens, whose ID token passed `isValidIDToken`.
    The exact preceding sequence of actions and answers is part of `WriteOK`. -/
theorem bound_only_validated (cfg : Cfg) (o : Oracles) (req : Req) (prev : Headers) :
    AllActs (WriteOK cfg o req) (process cfg o req prev) [] :=
  process_writes cfg o req prev

/-- what "passed isValidIDToken" means: parses, nonce clause, audience contains the client id, key lookup succeeded
    and the signature verifies under the configured key set -/
theorem validated_meaning (cfg : Cfg) (o : Oracles) (tok en : Str) (nr : Bool) :
    validatedB cfg o tok en nr = true ↔
      ∃ a, o.attrs tok = some a ∧ nonceAccepted a en nr = true ∧ cfg.clientId ∈ a.aud ∧ o.sigOK tok = true :=
  validatedB_iff cfg o tok en nr

/-- at login the nonce must be present, a string, and equal to the stored one -/
theorem login_nonce_exact (a : TokAttrs) (expected : Str) :
    nonceAccepted a expected true = true ↔ a.nonce = .str expected := by
  unfold nonceAccepted
  cases h : a.nonce with
  | absent => simp
  | other => simp
  | str n => simp [eq_comm]

/-- the ID token of a refresh result is the new one if it parses, else the stored (already validated) one; the other
    members come from this answer or the previous value -/
theorem merged_provenance (o : Oracles) (old : Tokens) (b : IdpBody) (now : Int) :
    ((mergeTokens o old b now).idToken = b.idToken ∨ (mergeTokens o old b now).idToken = old.idToken) ∧
    ((mergeTokens o old b now).accessToken = b.accessToken ∨ (mergeTokens o old b now).accessToken = old.accessToken) ∧
    ((mergeTokens o old b now).refreshToken = b.refreshToken ∨ (mergeTokens o old b now).refreshToken = old.refreshToken) := by
  unfold mergeTokens
  refine ⟨?_, ?_, ?_⟩ <;> (simp only; split <;> simp)

/-- the tokens injected on OK are exactly the bound ones: the ID token always, the access token when forwarding is
    configured and one is held - each under its configured header and preamble (distinct header names) -/
theorem forwarded_eq_bound (cfg : Cfg) (t : Tokens) (h : ∀ hp, cfg.access = some hp → hp.1 ≠ cfg.idHeader) :
    encodeTokens cfg t =
      (cfg.idHeader, encodeHeaderValue cfg.idPreamble t.idToken) ::
        (match cfg.access with
         | some (hd, pre) => if t.accessToken = [] then [] else [(hd, encodeHeaderValue pre t.accessToken)]
         | none => []) := by
  unfold encodeTokens
  cases hc : cfg.access with
  | none => rfl
  | some hp =>
    obtain ⟨hd, pre⟩ := hp
    have := h (hd, pre) hc
    simp only at this
    simp only
    split <;> simp [this]

/-- the excluded point of `forwarded_eq_bound`: with equal header names the map keeps only the access token
    (recorded as known finding C02-equal-header-names and replayed on the implementation) -/
theorem same_header_drops_id (cfg : Cfg) (t : Tokens) (pre : Str) (h : cfg.access = some (cfg.idHeader, pre))
    (ht : t.accessToken ≠ []) :
    encodeTokens cfg t = [(cfg.idHeader, encodeHeaderValue pre t.accessToken)] := by
  simp [encodeTokens, h, ht]

/-- OK answers carry exactly those headers (after whatever an earlier filter of the chain left) -/
theorem ok_headers (cfg : Cfg) (prev : Headers) (t : Tokens) :
    allow cfg prev t = { code := cOK, http := .ok (prev ++ encodeTokens cfg t) } := rfl

example : nonceAccepted { exp := 0, aud := [], nonce := .str (B "n") } (B "n") true = true := by decide
example : nonceAccepted { exp := 0, aud := [], nonce := .str [] } (B "n") true = false := by decide
example : nonceAccepted { exp := 0, aud := [], nonce := .other } (B "n") false = false := by decide

/-- `encodeTokensToHeaders` (with `encodeHeaderValue`) AS TRANSLATED FROM THE GO SOURCE on this run never panics
    for a live handler and token set and produces exactly the model's `encodeTokens` - the ID token always, the access
    token when forwarding is configured and one is held, each under its configured header and preamble (and, as a Go
    map has one value per key, equal header names keep only the access token: the recorded finding). -/
theorem code_forwarded_headers (env : Go.Env) (o : Pb.OidcHandler) (t : Pb.TokenResponse) (cfg : Cfg) (tok : Tokens)
    (ho : o.isNil = false) (hc : o.config.isNil = false) (ht : t.isNil = false)
    (hid : cfg.idHeader = o.config.IdToken.GetHeader) (hpre : cfg.idPreamble = o.config.IdToken.GetPreamble)
    (hacc : cfg.access = if o.config.AccessToken.isNil then none
      else some (o.config.AccessToken.Header, o.config.AccessToken.Preamble))
    (h1 : tok.idToken = t.IDToken) (h2 : tok.accessToken = t.AccessToken) :
    Code.encodeTokensToHeaders env o t = .ok (encodeTokens cfg tok) :=
  code_encodeTokens env o t cfg tok ho hc ht hid hpre hacc h1 h2

example : Code.encodeTokensToHeaders {} { config := { IdToken := { isNil := false, Header := B "authorization", Preamble := B "Bearer" } } }
    { IDToken := B "tok" } = .ok [(B "authorization", B "Bearer tok")] := by decide

/-- THE CODE's `allowResponse`: the forwarded headers are appended to the OK response, after what an earlier filter left -/
theorem code_ok_headers (env : Go.Env) (o : Pb.OidcHandler) (resp : Pb.CheckResponse) (t : Pb.TokenResponse) (cfg : Cfg) (tok : Tokens)
    (hr : resp.isNil = false) (ho : o.isNil = false) (hc : o.config.isNil = false) (ht : t.isNil = false)
    (hid : cfg.idHeader = o.config.IdToken.GetHeader) (hpre : cfg.idPreamble = o.config.IdToken.GetPreamble)
    (hacc : cfg.access = if o.config.AccessToken.isNil then none else some (o.config.AccessToken.Header, o.config.AccessToken.Preamble))
    (h1 : tok.idToken = t.IDToken) (h2 : tok.accessToken = t.AccessToken) :
    ∃ r, Code.allowResponse env o resp t = .ok r ∧ CodeEquiv.respOf r = allow cfg (CodeEquiv.prevOk resp) tok :=
  CodeEquiv.code_allow env o resp t cfg tok hr ho hc ht hid hpre hacc h1 h2


/-- NO HIDDEN STATE: the model treats a check as a function of (configuration, request, store answers, clock, IdP and key-source answers, entropy); that is a faithful reading of the code only if nothing else survives from one check to the next. Regenerated on every run: every package-level variable and struct field of internal/server, internal/authz, internal/http, internal/oidc is the classified expectation, and handlers, filter, HTTP helpers and the Redis store own no mutable state (no verdict cache, handler cache, object pool, single-flight group or per-process copy of session data). -/
theorem no_hidden_state : CheckPathInventory := check_path_inventory

end AuthProps.C02

#print axioms AuthProps.C02.bound_only_validated
#print axioms AuthProps.C02.validated_meaning
#print axioms AuthProps.C02.login_nonce_exact
#print axioms AuthProps.C02.merged_provenance
#print axioms AuthProps.C02.forwarded_eq_bound
#print axioms AuthProps.C02.same_header_drops_id
#print axioms AuthProps.C02.ok_headers
#print axioms AuthProps.C02.code_forwarded_headers
#print axioms AuthProps.C02.no_hidden_state
#print axioms AuthProps.C02.code_ok_headers
