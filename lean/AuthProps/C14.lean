/-
  C14  No credential reaches the user agent.
-/
import AuthProofs.StateInventory
import AuthProofs.Ladder
import AuthProofs.CodeEquivResp
namespace AuthProps.C14
open AuthModel AuthModel.Oidc

/-- the closed list of answers; the only data in a non-OK answer are: fixed constants, the gRPC code, the logout URI,
    the cookie name and the freshly generated session id, the authorization Location (a function of public
    configuration, the generated state and nonce, and the S256 CHALLENGE of the verifier), and the URL the browser
    itself asked for at login -/
theorem answers_are_catalogued (cfg : Cfg) (o : Oracles) (req : Req) (prev : Headers) :
    AllPaths (RespShape cfg o req prev) (process cfg o req prev) [] :=
  process_shapes cfg o req prev

/-- the login Location does not depend on the client secret, and on the verifier only through its S256 challenge -/
theorem location_independent_of_secret (cfg : Cfg) (o : Oracles) (secret' state nonce verifier : Str) :
    authLocation { cfg with clientSecret := secret' } o state nonce verifier = authLocation cfg o state nonce verifier := rfl

theorem location_uses_verifier_only_via_challenge (cfg : Cfg) (o : Oracles) (state nonce v v' : Str)
    (h : o.s256 v = o.s256 v') : authLocation cfg o state nonce v = authLocation cfg o state nonce v' := by
  simp [authLocation, authParams, h]

/-- the fixed denials carry no data at all -/
theorem fixed_denials_constant (c : Nat) :
    deny c = { code := c, http := .denied { headers := stdHeaders } } ∧
    sessErr = { code := cUnauthenticated, http := .denied { body := sessionErrorBody } } := ⟨rfl, rfl⟩

/-- non-interference of the secret: the whole interaction tree of a check is the same for two configurations that
    differ only in the client secret, except for the credentials inside the two token-endpoint requests (which go to
    the IdP, not to the browser) - stated on the answers: every answer shape is built without `cfg.clientSecret` -/
theorem cookie_and_logout_independent_of_secret (cfg : Cfg) (secret' uri : Str) :
    logoutResp { cfg with clientSecret := secret' } uri = logoutResp cfg uri := rfl

/-- an OK answer adds exactly the token headers of C02 (after what an earlier filter left), no body -/
theorem ok_adds_only_tokens (cfg : Cfg) (prev : Headers) (t : Tokens) :
    allow cfg prev t = { code := cOK, message := [], http := .ok (prev ++ encodeTokens cfg t) } := rfl

/-! ### the same, about the code as translated from the source (Generated/CodeOidc.lean) -/

/-- THE CODE's fixed denials, composed as the call sites of oidc.go compose them, are the model's `deny code` and `sessErr`:
    the gRPC code, the no-cache pair or the fixed body, nothing else - and whatever HTTP part an earlier filter left on
    the response is replaced, not merged -/
theorem code_fixed_denials (env : Go.Env) (resp : Pb.CheckResponse) (code : Int) (hr : resp.isNil = false) (hc : 0 ≤ code) :
    (∃ r, (do let d ← Code.newDenyResponse env; Code.setDenyResponse env resp d code) = .ok r ∧
      CodeEquiv.respOf r = { code := code.toNat, http := .denied { headers := stdHeaders } }) ∧
    (∃ r, (do let d ← Code.newSessionErrorResponse env; Code.setDenyResponse env resp d 16) = .ok r ∧
      CodeEquiv.respOf r = { code := cUnauthenticated, http := .denied { body := sessionErrorBody } }) :=
  ⟨CodeEquiv.code_deny env resp code hr hc, CodeEquiv.code_sessErr env resp hr⟩

/-- THE CODE's OK answer: gRPC OK, no body, and the headers are what an earlier filter left followed by exactly the
    token headers of `encodeTokensToHeaders` -/
theorem code_ok_adds_only_tokens (env : Go.Env) (o : Pb.OidcHandler) (resp : Pb.CheckResponse) (t : Pb.TokenResponse) (cfg : Cfg) (tok : Tokens)
    (hr : resp.isNil = false) (ho : o.isNil = false) (hc : o.config.isNil = false) (ht : t.isNil = false)
    (hid : cfg.idHeader = o.config.IdToken.GetHeader) (hpre : cfg.idPreamble = o.config.IdToken.GetPreamble)
    (hacc : cfg.access = if o.config.AccessToken.isNil then none else some (o.config.AccessToken.Header, o.config.AccessToken.Preamble))
    (h1 : tok.idToken = t.IDToken) (h2 : tok.accessToken = t.AccessToken) :
    ∃ r, Code.allowResponse env o resp t = .ok r ∧
      CodeEquiv.respOf r = { code := cOK, message := [], http := .ok (CodeEquiv.prevOk resp ++ encodeTokens cfg tok) } :=
  CodeEquiv.code_allow env o resp t cfg tok hr ho hc ht hid hpre hacc h1 h2

example : (Code.allowResponse {} { config := { IdToken := { isNil := false, Header := AuthModel.B "authorization", Preamble := AuthModel.B "Bearer" } } }
      Pb.CheckResponse.new { IDToken := AuthModel.B "tok" }).map CodeEquiv.respOf
    = .ok { code := cOK, http := .ok [(AuthModel.B "authorization", AuthModel.B "Bearer tok")] } := by decide


/-- NO HIDDEN STATE: the model treats a check as a function of (configuration, request, store answers, clock, IdP and key-source answers, entropy); that is a faithful reading of the code only if nothing else survives from one check to the next. Regenerated on every run: every package-level variable and struct field of internal/server, internal/authz, internal/http, internal/oidc is the classified expectation, and handlers, filter, HTTP helpers and the Redis store own no mutable state (no verdict cache, handler cache, object pool, single-flight group or per-process copy of session data). -/
theorem no_hidden_state : CheckPathInventory := check_path_inventory

end AuthProps.C14

#print axioms AuthProps.C14.answers_are_catalogued
#print axioms AuthProps.C14.location_independent_of_secret
#print axioms AuthProps.C14.location_uses_verifier_only_via_challenge
#print axioms AuthProps.C14.fixed_denials_constant
#print axioms AuthProps.C14.cookie_and_logout_independent_of_secret
#print axioms AuthProps.C14.ok_adds_only_tokens
#print axioms AuthProps.C14.no_hidden_state
#print axioms AuthProps.C14.code_fixed_denials
#print axioms AuthProps.C14.code_ok_adds_only_tokens
