/-
  C08  First matching chain judges; every filter in it must allow; unmatched is denied.
-/
import AuthProofs.StateInventory
import AuthProofs.Chain
import AuthProofs.CodeEquiv
import AuthProofs.CodeEquivCheck
namespace AuthProps.C08
open AuthModel AuthModel.Str

/-- `Check`'s chain loop computes the independently written reference evaluator `judge`, for every list of
    chains (any length), any flag and any header map. -/
theorem check_eq_judge (triggered au : Bool) (chains : List Chain) (hdrs : Headers) :
    check triggered au chains hdrs =
      if triggered then judge au chains hdrs else some allowResp := by
  unfold check
  cases triggered <;> simp [runChains_eq_judge]

/-- The first chain (in configuration order) whose criterion is satisfied judges the request; whatever
    chains follow it are never consulted (the answer does not depend on `post`). -/
theorem first_match_wins (au : Bool) (hdrs : Headers) (pre post : List Chain) (c : Chain)
    (hpre : ∀ x ∈ pre, chainMatches x.criterion hdrs = false)
    (hc : chainMatches c.criterion hdrs = true) :
    check true au (pre ++ c :: post) hdrs =
      if c.filters.isEmpty then some allowResp else runFilters c.filters Resp.empty := by
  simp [check, runChains_first_match au hdrs pre post c hpre hc]

/-- A chain without criterion matches everything. -/
theorem no_criterion_matches (hdrs : Headers) : chainMatches none hdrs = true := rfl

/-- The criterion is equality with the header value when an equality is configured, otherwise prefix. -/
theorem criterion_semantics (m : Match) (hdrs : Headers) :
    chainMatches (some m) hdrs =
      if m.equality ≠ [] then headerValue hdrs (toLowerAscii m.header) == m.equality
      else hasPrefix (headerValue hdrs (toLowerAscii m.header)) m.pfx := rfl

/-- The header is looked up under the lower-cased configured name, so the case in which the name is
    configured is irrelevant. -/
theorem configured_name_case_irrelevant (m : Match) (hdrs : Headers) :
    chainMatches (some { m with header := toLowerAscii m.header }) hdrs = chainMatches (some m) hdrs := by
  simp [chainMatches, toLowerAscii_idem]

/-- Allowed only if every filter of the judging chain allowed it. -/
theorem all_must_allow (fs : List Filter) (r out : Resp)
    (h : runFilters fs r = some out) (hok : out.code = cOK) : AllAllow fs r out :=
  runFilters_ok_allAllow fs r out h hok

/-- Evaluation stops at the first denial, whose response is returned as is; the filters after it are not
    run (the result does not depend on `post`). -/
theorem stops_at_first_denial (pre post : List Filter) (f : Filter) (r r' d : Resp)
    (hpre : AllAllow pre r r') (hf : f r' = some d) (hd : d.code ≠ cOK) :
    runFilters (pre ++ f :: post) r = some d :=
  runFilters_stops pre post f r r' d hpre hf hd

/-- A handler error gives an error and no verdict. -/
theorem handler_error_no_verdict (pre post : List Filter) (f : Filter) (r r' : Resp)
    (hpre : AllAllow pre r r') (hf : f r' = none) :
    runFilters (pre ++ f :: post) r = none :=
  runFilters_error pre post f r r' hpre hf

/-- When no chain matches, the request is denied with PermissionDenied unless unmatched requests are
    explicitly allowed. -/
theorem default_deny (au : Bool) (chains : List Chain) (hdrs : Headers)
    (h : ∀ x ∈ chains, chainMatches x.criterion hdrs = false) :
    check true au chains hdrs = some (if au then allowResp else noChainResp) := by
  simp [check, runChains_no_match au hdrs chains h]

/-- A request that does not trigger authentication is allowed without consulting any chain. -/
theorem untriggered_allowed (au : Bool) (chains : List Chain) (hdrs : Headers) :
    check false au chains hdrs = some allowResp := rfl

/- Non-vacuity -/
def adminChain : Chain := { criterion := some ⟨B "X-Tenant", B "admin", []⟩, filters := [mockFilter true, mockFilter false] }
def openChain : Chain := { criterion := none, filters := [mockFilter true] }
example : check true false [adminChain, openChain] [(B "x-tenant", B "admin")] =
    some { code := cPermissionDenied } := by decide
example : check true false [adminChain, openChain] [(B "x-tenant", B "other")] =
    some { code := cOK } := by decide
example : check true false [adminChain] [] = some noChainResp := by decide

/-- `matches` AS TRANSLATED FROM THE GO SOURCE on this run never panics (the only field selection through the
    pointer happens after the nil test) and is the criterion of the model: nil criterion matches everything,
    otherwise equality with - or, when no equality is configured, prefix of - the header looked up under the
    lower-cased configured name. -/
theorem code_matches_spec (env : Go.Env) (m : Pb.Match) (req : Pb.CheckRequest) :
    Code.matches_ env m req = .ok (chainMatches (matchOf m) (httpOf req).GetHeaders) :=
  code_matches env m req

example : Code.matches_ {} { Header := B "X-Tenant", Criteria := .Equality (B "a") }
    { Attributes := { Request := { Http := { Headers := [(B "x-tenant", B "a")] } } } } = .ok true := by decide

/-- NO HIDDEN STATE: trigger rules and chain selection are functions of the request and the configuration: the regenerated inventory of internal/server shows no mutable field in ExtAuthZFilter and no package-level variable besides the two response constructors. -/
theorem no_hidden_state : FilterInventory := filter_inventory

/-! ### `ExtAuthZFilter.Check` as translated from /repo on this run -/

/-- `Check` AS TRANSLATED FROM THE GO SOURCE is the functional specification `checkSpec` - for every filter object,
    request and handler behaviour, panics of the Go code included (they are `.error` on both sides). -/
theorem code_check_eq_spec (env : Go.Env) (h : Pb.Handlers) (e : Pb.ExtAuthZFilter) (req : Pb.CheckRequest) :
    Code.Check env h e req = checkSpec env h e req := code_check env h e req

/-- On the translated code: a request the trigger rules do not select is allowed at once, no chain being consulted. -/
theorem code_untriggered_allowed (env : Go.Env) (h : Pb.Handlers) (e : Pb.ExtAuthZFilter) (req : Pb.CheckRequest)
    (he : e.isNil = false) (hc : e.cfg.isNil = false)
    (ht : mustTrigger (reOf env) (e.cfg.TriggerRules.map ruleOf) (httpOf req).GetPath = false) :
    Code.Check env h e req = .ok (Code.allow, {}) := by
  rw [code_check]; simp [checkSpec, he, hc, ht]

/-- On the translated code: the FIRST chain, in configuration order, whose criterion the request satisfies judges it,
    and the chains after it are never consulted (the answer does not mention `post`): it is allowed at once when the
    chain has no filters, otherwise the answer is that of the chain's filter loop started on an empty response. -/
theorem code_first_match_wins (env : Go.Env) (h : Pb.Handlers) (e : Pb.ExtAuthZFilter) (req : Pb.CheckRequest)
    (pre post : List Pb.FilterChain) (c : Pb.FilterChain)
    (he : e.isNil = false) (hcfg : e.cfg.isNil = false) (hch : e.cfg.Chains = pre ++ c :: post)
    (ht : mustTrigger (reOf env) (e.cfg.TriggerRules.map ruleOf) (httpOf req).GetPath = true)
    (hpre : ∀ x ∈ pre, x.isNil = false ∧ chainMatches (matchOf x.Match) (httpOf req).GetHeaders = false)
    (hc : c.isNil = false ∧ chainMatches (matchOf c.Match) (httpOf req).GetHeaders = true) :
    Code.Check env h e req =
      if c.Filters.length == 0 then .ok (Code.allow, {}) else runFiltersPb h req c.Filters Pb.CheckResponse.new := by
  rw [code_check]
  simp only [checkSpec, he, hcfg, ht, hch, runChainsPb_first_match env h req pre post c hpre hc, chainStepPb, hc.1, hc.2,
    Bool.not_true, Bool.false_eq_true, if_false]
  by_cases hl : (c.Filters.length == 0) = true
  · simp [hl]
  · simp only [hl, if_false]
    cases runFiltersPb h req c.Filters Pb.CheckResponse.new <;> rfl

/-- On the translated code: when no chain's criterion is satisfied the request is denied with PermissionDenied
    "no chains matched", unless unmatched requests are explicitly allowed. -/
theorem code_default_deny (env : Go.Env) (h : Pb.Handlers) (e : Pb.ExtAuthZFilter) (req : Pb.CheckRequest)
    (he : e.isNil = false) (hcfg : e.cfg.isNil = false)
    (ht : mustTrigger (reOf env) (e.cfg.TriggerRules.map ruleOf) (httpOf req).GetPath = true)
    (hcs : ∀ x ∈ e.cfg.Chains, x.isNil = false ∧ chainMatches (matchOf x.Match) (httpOf req).GetHeaders = false) :
    Code.Check env h e req =
      .ok (if e.cfg.AllowUnmatchedRequests then (Code.allow, {}) else (Code.deny 7 (B "no chains matched"), {})) := by
  rw [code_check]
  simp [checkSpec, he, hcfg, ht, runChainsPb_none env h req e.cfg.Chains hcs]

/-- On the translated code: evaluation of the judging chain stops at the first filter that does not allow - its response
    (or, when the handler or its construction failed, the error without a verdict) is returned as it is and the filters
    after it are not run (the answer does not mention `post`). -/
theorem code_stops_at_first_denial (h : Pb.Handlers) (req : Pb.CheckRequest) (pre post : List Pb.Filter) (f : Pb.Filter)
    (r r' : Pb.CheckResponse) (res : Pb.CheckResponse × Go.Error)
    (hpre : AllAllowPb h req pre r r') (hf : filterStepPb h req f r' = .ok (.inl res)) :
    runFiltersPb h req (pre ++ f :: post) r = .ok res :=
  runFiltersPb_stops h req pre post f r r' res hpre hf

/-- On the translated code: when every filter of the judging chain allows, the answer is the response they accumulated. -/
theorem code_all_allow (h : Pb.Handlers) (req : Pb.CheckRequest) (fs : List Pb.Filter) (r r' : Pb.CheckResponse)
    (hall : AllAllowPb h req fs r r') : runFiltersPb h req fs r = .ok (r', {}) :=
  runFiltersPb_all h req fs r r' hall

/- Non-vacuity, evaluated by the kernel on the translated `Check`: two chains (criterion x-app = a / no criterion), mock
   handlers that set the status they are configured with. -/
def mockHandlers : Pb.Handlers :=
  { newMock := fun m => { isNil := false, process := fun _ r => ({ r with Status := { Code := if m.GetAllow then 0 else 7 } }, {}) },
    newOIDC := fun _ => ({ isNil := true }, { isNil := false }) }
def twoChains : Pb.ExtAuthZFilter :=
  { cfg := { Chains := [{ Name := B "a", Match := { Header := B "x-app", Criteria := .Equality (B "a") },
                           Filters := [{ Type_ := .Mock ⟨{ Allow := true }⟩ }, { Type_ := .Mock ⟨{ Allow := false }⟩ }] },
                        { Name := B "rest", Filters := [{ Type_ := .Mock ⟨{ Allow := true }⟩ }] }] } }
def reqWithHeader (v : Str) : Pb.CheckRequest := { Attributes := { Request := { Http := { Path := B "/p", Headers := [(B "x-app", v)] } } } }
example : (Code.Check {} mockHandlers twoChains (reqWithHeader (B "a"))).map (fun r => (r.1.Status.Code, r.2.isNil)) = .ok (7, true) := by decide
example : (Code.Check {} mockHandlers twoChains (reqWithHeader (B "b"))).map (fun r => (r.1.Status.Code, r.2.isNil)) = .ok (0, true) := by decide

end AuthProps.C08

#print axioms AuthProps.C08.check_eq_judge
#print axioms AuthProps.C08.first_match_wins
#print axioms AuthProps.C08.no_criterion_matches
#print axioms AuthProps.C08.criterion_semantics
#print axioms AuthProps.C08.configured_name_case_irrelevant
#print axioms AuthProps.C08.all_must_allow
#print axioms AuthProps.C08.stops_at_first_denial
#print axioms AuthProps.C08.handler_error_no_verdict
#print axioms AuthProps.C08.default_deny
#print axioms AuthProps.C08.untriggered_allowed
#print axioms AuthProps.C08.code_matches_spec
#print axioms AuthProps.C08.no_hidden_state
#print axioms AuthProps.C08.code_check_eq_spec
#print axioms AuthProps.C08.code_untriggered_allowed
#print axioms AuthProps.C08.code_first_match_wins
#print axioms AuthProps.C08.code_default_deny
#print axioms AuthProps.C08.code_stops_at_first_denial
#print axioms AuthProps.C08.code_all_allow
