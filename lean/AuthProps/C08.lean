/-
  C08  First matching chain judges; every filter in it must allow; unmatched is denied.
-/
import AuthProofs.StateInventory
import AuthProofs.Chain
import AuthProofs.CodeEquiv
namespace AuthProps.C08
open AuthModel AuthModel.Str

/-- `Check`'s chain loop computes the independently written reference evaluator `judge`, for every list of
    chains (any length), any flag and any header map. -/
theorem check_eq_judge (triggered au : Bool) (chains : List Chain) (hdrs : Headers) :
    check triggered au chains hdrs =
      if triggered then judge au chains hdrs else some allowResp := by
  unfold check
  cases triggered <;> simp [runChains_eq_judge]

/-- The first chain (in configuration order) whose criterion is satisfied judges the request; whatever
    chains follow it are never consulted (the answer does not depend on `post`). -/
theorem first_match_wins (au : Bool) (hdrs : Headers) (pre post : List Chain) (c : Chain)
    (hpre : ∀ x ∈ pre, chainMatches x.criterion hdrs = false)
    (hc : chainMatches c.criterion hdrs = true) :
    check true au (pre ++ c :: post) hdrs =
      if c.filters.isEmpty then some allowResp else runFilters c.filters Resp.empty := by
  simp [check, runChains_first_match au hdrs pre post c hpre hc]

/-- A chain without criterion matches everything. -/
theorem no_criterion_matches (hdrs : Headers) : chainMatches none hdrs = true := rfl

/-- The criterion is equality with the header value when an equality is configured, otherwise prefix. -/
theorem criterion_semantics (m : Match) (hdrs : Headers) :
    chainMatches (some m) hdrs =
      if m.equality ≠ [] then headerValue hdrs (toLowerAscii m.header) == m.equality
      else hasPrefix (headerValue hdrs (toLowerAscii m.header)) m.pfx := rfl

/-- The header is looked up under the lower-cased configured name, so the case in which the name is
    configured is irrelevant. -/
theorem configured_name_case_irrelevant (m : Match) (hdrs : Headers) :
    chainMatches (some { m with header := toLowerAscii m.header }) hdrs = chainMatches (some m) hdrs := by
  simp [chainMatches, toLowerAscii_idem]

/-- Allowed only if every filter of the judging chain allowed it. -/
theorem all_must_allow (fs : List Filter) (r out : Resp)
    (h : runFilters fs r = some out) (hok : out.code = cOK) : AllAllow fs r out :=
  runFilters_ok_allAllow fs r out h hok

/-- Evaluation stops at the first denial, whose response is returned as is; the filters after it are not
    run (the result does not depend on `post`). -/
theorem stops_at_first_denial (pre post : List Filter) (f : Filter) (r r' d : Resp)
    (hpre : AllAllow pre r r') (hf : f r' = some d) (hd : d.code ≠ cOK) :
    runFilters (pre ++ f :: post) r = some d :=
  runFilters_stops pre post f r r' d hpre hf hd

/-- A handler error gives an error and no verdict. -/
theorem handler_error_no_verdict (pre post : List Filter) (f : Filter) (r r' : Resp)
    (hpre : AllAllow pre r r') (hf : f r' = none) :
    runFilters (pre ++ f :: post) r = none :=
  runFilters_error pre post f r r' hpre hf

/-- When no chain matches, the request is denied with PermissionDenied unless unmatched requests are
    explicitly allowed. -/
theorem default_deny (au : Bool) (chains : List Chain) (hdrs : Headers)
    (h : ∀ x ∈ chains, chainMatches x.criterion hdrs = false) :
    check true au chains hdrs = some (if au then allowResp else noChainResp) := by
  simp [check, runChains_no_match au hdrs chains h]

/-- A request that does not trigger authentication is allowed without consulting any chain. -/
theorem untriggered_allowed (au : Bool) (chains : List Chain) (hdrs : Headers) :
    check false au chains hdrs = some allowResp := rfl

/- Non-vacuity -/
def adminChain : Chain := { criterion := some ⟨B "X-Tenant", B "admin", []⟩, filters := [mockFilter true, mockFilter false] }
def openChain : Chain := { criterion := none, filters := [mockFilter true] }
example : check true false [adminChain, openChain] [(B "x-tenant", B "admin")] =
    some { code := cPermissionDenied } := by decide
example : check true false [adminChain, openChain] [(B "x-tenant", B "other")] =
    some { code := cOK } := by decide
example : check true false [adminChain] [] = some noChainResp := by decide

/-- `matches` AS TRANSLATED FROM THE GO SOURCE on this run never panics (the only field selection through the
    pointer happens after the nil test) and is the criterion of the model: nil criterion matches everything,
    otherwise equality with - or, when no equality is configured, prefix of - the header looked up under the
    lower-cased configured name. -/
theorem code_matches_spec (env : Go.Env) (m : Pb.Match) (req : Pb.CheckRequest) :
    Code.matches_ env m req = .ok (chainMatches (matchOf m) (httpOf req).GetHeaders) :=
  code_matches env m req

example : Code.matches_ {} { Header := B "X-Tenant", Criteria := .Equality (B "a") }
    { Attributes := { Request := { Http := { Headers := [(B "x-tenant", B "a")] } } } } = .ok true := by decide

/-- NO HIDDEN STATE: trigger rules and chain selection are functions of the request and the configuration: the regenerated inventory of internal/server shows no mutable field in ExtAuthZFilter and no package-level variable besides the two response constructors. -/
theorem no_hidden_state : FilterInventory := filter_inventory

end AuthProps.C08

#print axioms AuthProps.C08.check_eq_judge
#print axioms AuthProps.C08.first_match_wins
#print axioms AuthProps.C08.no_criterion_matches
#print axioms AuthProps.C08.criterion_semantics
#print axioms AuthProps.C08.configured_name_case_irrelevant
#print axioms AuthProps.C08.all_must_allow
#print axioms AuthProps.C08.stops_at_first_denial
#print axioms AuthProps.C08.handler_error_no_verdict
#print axioms AuthProps.C08.default_deny
#print axioms AuthProps.C08.untriggered_allowed
#print axioms AuthProps.C08.code_matches_spec
#print axioms AuthProps.C08.no_hidden_state
