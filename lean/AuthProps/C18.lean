/-
  C18  OIDC filters are isolated from one another.
  On the unchanged tree the statement does NOT hold in general (shared stores; recorded as known findings). What is
  proved: the handler uses its own filter's configuration only; filters that resolve to DIFFERENT stores are
  isolated; and every cross-filter acceptance has the recorded shape (same store + the session id presented under
  the other filter's cookie name), so that any other leak is still reported.
-/
import AuthProofs.StateInventory
import AuthModel.Factory
import AuthProofs.Ladder
import AuthProofs.FailClosed
namespace AuthProps.C18
open AuthModel AuthModel.Oidc AuthModel.Factory

/-- a check of filter `g` reads and writes only through `g`'s own configuration: cookie name, endpoints, client id and
    secret, token headers are `cfg`'s (the interaction tree is a function of `cfg`, the oracles and the request) -/
theorem own_config_governs (cfg : Cfg) (o : Oracles) (req : Req) (prev : Headers) :
    AllActs (IdpReqOK cfg o req) (process cfg o req prev) [] ∧ AllActs (WriteOK cfg o req) (process cfg o req prev) [] :=
  ⟨process_idp_requests cfg o req prev, process_writes cfg o req prev⟩

/-- ISOLATION BY STORE: `g` answers OK only if ITS store returned tokens under the id presented under ITS cookie name.
    If `f` and `g` resolve to different stores, nothing `f` wrote is in `g`'s store, so no session created through `f`
    is honoured by `g`, however the client names its cookies. -/
theorem ok_needs_tokens_in_own_store (cfg : Cfg) (o : Oracles) (req : Req) (prev : Headers) :
    AllPaths (fun tr r => r.code = cOK →
      ∃ t, (Act.getTok (sessionIdFromCookie cfg req.cookie), ARes.tok (.ok (some t))) ∈ tr) (process cfg o req prev) [] := by
  apply allPaths_mono _ (process_ok_justified cfg o req prev)
  intro tr r h hc
  obtain ⟨_, _, t, a, now, _, hcase⟩ := h hc
  rcases hcase with ⟨_, _, htr⟩ | ⟨_, _, b, now2, authAns, _, _, _, htr⟩ <;> exact ⟨t, by simp [htr]⟩

/-- CHARACTERISATION of every cross-filter acceptance (the recorded findings), contrapositive form: whenever the store
    that `g` resolves to does not return tokens for the id presented under `g`'s cookie name - which is necessarily so
    when the session was created through a filter that resolves to a DIFFERENT store - `g` does not answer OK. Hence a
    session of `f ≠ g` is honoured by `g` only if both resolve to the same store and the client presented `f`'s
    session id under `g`'s cookie name. -/
theorem cross_filter_characterisation (cfg : Cfg) (o : Oracles) (req : Req) (prev : Headers) :
    AllPaths (fun tr r =>
      (∀ t, (Act.getTok (sessionIdFromCookie cfg req.cookie), ARes.tok (.ok (some t))) ∉ tr) → r.code ≠ cOK)
      (process cfg o req prev) [] := by
  apply allPaths_mono _ (ok_needs_tokens_in_own_store cfg o req prev)
  intro tr r h hno hc
  obtain ⟨t, ht⟩ := h hc
  exact hno t ht

/-- which store a filter gets: its Redis URI if one is configured (stores are shared per URI), else the one shared
    in-memory store -/
theorem store_assignment (b : Built) (f : FilterStore) :
    get b f = if b.redis.any (·.1 == f.redisUri) then .redis f.redisUri else .memory := rfl

/-- the in-memory store is constructed with the timeouts of the FIRST non-Redis filter; later filters' timeouts are
    ignored (recorded finding "timeouts of the constructing filter govern") -/
theorem memory_timeouts_first_filter (f : FilterStore) (fs : List FilterStore) (hf : f.redisUri = []) :
    (preRun (f :: fs) { memory := none, redis := [] }).memory = some (f.abs, f.idle) := by
  have keep : ∀ (l : List FilterStore) (b : Built) (v : Nat × Nat), b.memory = some v → (preRun l b).memory = some v := by
    intro l
    induction l with
    | nil => intro b v h; exact h
    | cons x xs ih =>
      intro b v h
      unfold preRun
      split
      · exact ih _ v h
      · simp only [h, Option.isNone_some, Bool.false_eq_true, if_false]; exact ih _ v h
  unfold preRun
  simp only [hf, ne_eq, not_true_eq_false, if_false, Option.isNone_none, if_true]
  exact keep fs _ _ rfl

/- Negative witnesses (kernel-checked): two memory-backed filters share one store, built with the first one's timeouts -/
def fA : FilterStore := { redisUri := [], abs := 0, idle := 0 }
def fB : FilterStore := { redisUri := [], abs := 60, idle := 0 }
def built := preRun [fA, fB] { memory := none, redis := [] }
theorem shared_memory_store : get built fA = get built fB := by decide
theorem second_filter_timeouts_ignored : timeoutsOf built (get built fB) = some (0, 0) := by decide
/-- two different Redis URIs (also: two databases of one server) are different stores -/
example : get (preRun [⟨B "redis://h/0", 0, 0⟩, ⟨B "redis://h/1", 5, 0⟩] { memory := none, redis := [] }) ⟨B "redis://h/0", 0, 0⟩
    ≠ get (preRun [⟨B "redis://h/0", 0, 0⟩, ⟨B "redis://h/1", 5, 0⟩] { memory := none, redis := [] }) ⟨B "redis://h/1", 5, 0⟩ := by decide

/-- NO HIDDEN STATE: the model treats a check as a function of (configuration, request, store answers, clock, IdP and key-source answers, entropy); that is a faithful reading of the code only if nothing else survives from one check to the next. Regenerated on every run: every package-level variable and struct field of internal/server, internal/authz, internal/http, internal/oidc is the classified expectation, and handlers, filter, HTTP helpers and the Redis store own no mutable state (no verdict cache, handler cache, object pool, single-flight group or per-process copy of session data). -/
theorem no_hidden_state : CheckPathInventory := check_path_inventory

end AuthProps.C18

#print axioms AuthProps.C18.own_config_governs
#print axioms AuthProps.C18.ok_needs_tokens_in_own_store
#print axioms AuthProps.C18.cross_filter_characterisation
#print axioms AuthProps.C18.store_assignment
#print axioms AuthProps.C18.memory_timeouts_first_filter
#print axioms AuthProps.C18.shared_memory_store
#print axioms AuthProps.C18.second_filter_timeouts_ignored
#print axioms AuthProps.C18.no_hidden_state
