/-
  C09  Logout is final.
-/
import AuthProofs.StateInventory
import AuthProofs.Ladder
import AuthProofs.CodeEquivOidc
import AuthProofs.StoreSeq
import AuthModel.Oidc.Sched
import AuthProofs.RedisCmd
import AuthProofs.Discovery
import AuthProofs.Finality
namespace AuthProps.C09
open AuthModel AuthModel.Oidc

/-- THE LOGOUT ANSWER. On the logout path: with a session cookie the first and only action is RemoveSession(sid); if it
    succeeds the answer is the 302 to the configured (or discovered, see C17/loadWellKnownConfig) end-session URI with
    the cookie expired; if it fails the answer is the session error - never the success redirect. Without a cookie the
    redirect is sent at once. -/
theorem logout_answer (cfg : Cfg) (o : Oracles) (req : Req) (path uri : Str)
    (hh : req.http = true) (hl : cfg.logout = some (path, uri)) (hp : pathOf req.path = path) :
    process cfg o req =
      if sessionIdFromCookie cfg req.cookie = [] then .ret (logoutResp cfg uri)
      else
        .act (.removeSession (sessionIdFromCookie cfg req.cookie)) fun r =>
          match r with
          | .done true => .ret (logoutResp cfg uri)
          | _ => .ret sessErr := by
  unfold process
  simp only [hh, matchesLogout, hl, hp, Bool.not_true, Bool.false_eq_true, if_false, beq_self_eq_true, if_true]
  by_cases hs : sessionIdFromCookie cfg req.cookie = []
  · simp [hs]
  · simp only [hs, ne_eq, not_false_eq_true, if_true, if_false]
    first | rfl | congr 1

theorem logout_answer_shape (cfg : Cfg) (uri : Str) :
    logoutResp cfg uri =
      { code := cUnauthenticated,
        http := .denied { status := 302,
                          headers := stdHeaders ++ [(B "location", uri),
                                                    (B "set-cookie", setCookie (cookieName cfg) (B "deleted") (some 0))] } } := rfl

/-- every answer that is the logout redirect was preceded, when a session id was presented, by a successful
    RemoveSession for it (part of the answer catalogue) -/
theorem logout_only_after_removal (cfg : Cfg) (o : Oracles) (req : Req) (prev : Headers) :
    AllPaths (RespShape cfg o req prev) (process cfg o req prev) [] :=
  process_shapes cfg o req prev

/-- SEQUENTIAL FINALITY, the three facts it rests on:
    (a) removal erases everything stored under the id (both stores refine this map, C12); -/
theorem removal_erases (m : SpecMap) (sid : Str) :
    Spec.getTok (Spec.remove m sid) sid = none ∧ Spec.getAuth (Spec.remove m sid) sid = none := by
  simp [Spec.remove, Spec.getTok, Spec.getAuth, upd]

/-- (b) an OK requires that the store returned tokens for the presented id during that very check; -/
theorem ok_requires_tokens_read (cfg : Cfg) (o : Oracles) (req : Req) (prev : Headers) :
    AllPaths (fun tr r => r.code = cOK →
      ∃ t, (Act.getTok (sessionIdFromCookie cfg req.cookie), ARes.tok (.ok (some t))) ∈ tr) (process cfg o req prev) [] := by
  apply allPaths_mono _ (process_ok_justified cfg o req prev)
  intro tr r h hc
  obtain ⟨_, _, t, a, now, _, hcase⟩ := h hc
  rcases hcase with ⟨_, _, htr⟩ | ⟨_, _, b, now2, authAns, _, _, _, htr⟩ <;> exact ⟨t, by simp [htr]⟩

/-- (c) within one check, tokens are written under an id only after the store returned login state (callback) or tokens
    (refresh) for that same id in that check; login state is written only under a freshly generated id. So once nothing is
    stored under `sid`, a SEQUENTIAL history cannot bring it back without a new login under a new id. -/
theorem writes_need_prior_read (cfg : Cfg) (o : Oracles) (req : Req) (prev : Headers) :
    AllActs (WriteOK cfg o req) (process cfg o req prev) [] :=
  process_writes cfg o req prev

/-! ### interleavings: the recorded finding, as a kernel-checked witness in the `Sched` semantics

  A: a check on an expired session holding a refresh token.  L: the logout for the same session.
  Schedule:  A reads the tokens | L removes the session and answers | A refreshes, validates, stores, answers OK |
  B (a later request with the old cookie) is answered OK. -/

def cfgW : Cfg :=
  { clientId := B "c", clientSecret := B "s", callbackUri := B "https://h/cb", cbScheme := B "https",
    cbHost := B "h", cbPort := [], cbPath := B "/cb", authUri := B "https://i/a", tokenUri := B "https://i/t",
    scopes := [B "openid"], cookiePrefix := B "p", idHeader := B "authorization", idPreamble := [],
    access := none, logout := some (B "/logout", B "https://i/out") }
def oW : Oracles :=
  { attrs := fun s => if s = B "T0" then some { exp := 100, aud := [B "c"], nonce := .absent }
                      else if s = B "T1" then some { exp := 1000, aud := [B "c"], nonce := .absent } else none,
    sigOK := fun _ => true, s256 := fun v => v }
def cookieW : Str := B "__Host-p-authservice-session-id-cookie=s"
def appW : Req := { http := true, scheme := B "https", host := B "h", path := B "/app", cookie := cookieW }
def logoutW : Req := { http := true, scheme := B "https", host := B "h", path := B "/logout", cookie := cookieW }
def w0 : StoreW := { kind := 0, mem := (MemStore.empty 0 0).setTok 0 (B "s") { idToken := B "T0", refreshToken := B "r0" } }
def scA : Script := { idp := .body { idToken := B "T1", accessToken := [], refreshToken := B "r1", expiresIn := 0, tokenType := B "Bearer" } }

def tA0 : Thread := (Thread.spawn 200 scA (process cfgW oW appW)).1
def tL0 : Thread := (Thread.spawn 200 {} (process cfgW oW logoutW)).1
def s1 := tA0.step w0 200                -- A: GetTokenResponse
def s2 := tL0.step s1.1 200              -- L: RemoveSession, answers
def s3 := s1.2.1.step s2.1 200           -- A: token endpoint
def s4 := s3.2.1.step s3.1 200           -- A: GetAuthorizationState
def s5 := s4.2.1.step s4.1 200           -- A: key lookup
def s6 := s5.2.1.step s5.1 200           -- A: SetTokenResponse, answers
def probeB := runProg s6.1 200 {} (process cfgW oW appW) [] []

/-- the logout was answered as successful ... -/
theorem resurrection_logout_answered : s2.2.1.answer = some (logoutResp cfgW (B "https://i/out")) := by decide
/-- ... then the in-flight check is answered OK ... -/
theorem resurrection_inflight_ok : (s6.2.1.answer.map (·.code)) = some cOK := by decide
/-- ... and so is a later request with the logged-out cookie: C09 does not hold for this schedule
    (known finding C09-refresh-after-logout; the harness replays exactly this schedule on the real handler). -/
theorem logout_resurrection : probeB.2.1.code = cOK := by decide

/-! ### every interleaving: the characterisation behind the recorded finding -/

/-- FINALITY, FOR EVERY SCHEDULE, UP TO ONE SHAPE. Any number of checks of one filter run concurrently, interleaved
    in any way at the granularity of store calls, on a store that answers like the session map (sessions may also expire,
    failed writes may or may not have been applied, reads may miss). If the store acknowledged `RemoveSession(sid)` -
    the logout is answered only after that (`logout_only_after_removal`) - and LATER returns tokens for `sid` - an OK
    needs that (`ok_requires_tokens_read`) - then in between some thread wrote tokens under `sid`, and that same thread
    had read `sid` BEFORE the removal: tokens (a refresh in flight across the logout: the recorded finding
    C09-refresh-after-logout) or login state (a login in flight: its callback completes a new interactive login).
    Nothing else can bring a removed session back: whoever starts reading after the removal finds nothing, and login
    state is only written under ids the generator has just produced (`hfresh`: none of them is `sid`, see C06). -/
theorem finality_characterisation (cfg : Cfg) (o : Oracles) (reqOf : Nat → Req) (prevOf : Nat → Headers)
    (m0 mEnd : SpecMap) (pre mid post : List Ev) (eR eB : Ev) (sid : Str) (tB : Tokens)
    (hruns : ∀ t, IsRun (process cfg o (reqOf t) (prevOf t)) (threadTrace (pre ++ eR :: (mid ++ eB :: post)) t))
    (hstore : Reach m0 (pre ++ eR :: (mid ++ eB :: post)) mEnd)
    (hfresh : ∀ e ∈ pre ++ eR :: (mid ++ eB :: post), e.act = .gen → ∀ n s v, e.res ≠ .gen sid n s v)
    (hR : eR.act = .removeSession sid ∧ eR.res = .done true)
    (hB : eB.act = .getTok sid ∧ eB.res = .tok (.ok (some tB))) :
    ∃ mid1 eP mid2 t, mid = mid1 ++ eP :: mid2 ∧ eP.act = .setTok sid t ∧
      (∀ e ∈ mid1, isSetTok sid e.act = false) ∧
      ∃ q ∈ pre, q.tid = eP.tid ∧ isReadSome sid q :=
  late_tokens_shape cfg o reqOf prevOf m0 mEnd pre mid post eR eB sid tB hruns hstore hfresh hR hB

/- Non-vacuity: the witness schedule above, as a global execution of three threads (A = 1, L = 2, B = 3), satisfies
   every hypothesis of `finality_characterisation`. -/
def evsOf (tid : Nat) (l : List (Act × ARes)) : List Ev := l.map fun x => { tid := tid, act := x.1, res := x.2 }
def preW : List Ev := evsOf 1 (Thread.spawn 200 scA (process cfgW oW appW)).2 ++ evsOf 1 s1.2.2
def eRW : Ev := { tid := 2, act := .removeSession (B "s"), res := .done true }
def midW : List Ev := evsOf 1 s3.2.2 ++ evsOf 1 s4.2.2 ++ evsOf 1 s5.2.2 ++ evsOf 1 s6.2.2
def eBW : Ev := { tid := 3, act := .getTok (B "s"),
                  res := .tok (.ok (some { idToken := B "T1", accessToken := [], refreshToken := B "r1", accessExp := none })) }
def trW : List Ev := preW ++ eRW :: (midW ++ eBW :: [])
def m0W : SpecMap := Spec.setTok (fun _ => none) (B "s") { idToken := B "T0", refreshToken := B "r0" } 0
def reqW : Nat → Req := fun t => if t = 2 then logoutW else appW
example : IsRun (process cfgW oW (reqW 1) []) (threadTrace trW 1) ∧ IsRun (process cfgW oW (reqW 2) []) (threadTrace trW 2) ∧
    IsRun (process cfgW oW (reqW 3) []) (threadTrace trW 3) := by decide
example : (trW.filter fun e => e.tid ≠ 1 ∧ e.tid ≠ 2 ∧ e.tid ≠ 3) = [] := by decide   -- no other thread acts
example : ∃ mEnd, Reach m0W trW mEnd := by
  have h : (replay m0W trW).isSome = true := by decide
  cases hr : replay m0W trW with
  | none => simp [hr] at h
  | some m' => exact ⟨m', replay_sound _ _ _ hr⟩
example : eRW.act = .removeSession (B "s") ∧ eRW.res = .done true := ⟨rfl, rfl⟩

/-! ### removal under command-level Redis faults; the end-session URI under endpoint discovery -/
section FaultsAndDiscovery
open RedisCmd Redis

/-- REDIS, COMMAND LEVEL: RemoveSession reports success only if its DEL was answered - and then the key is gone. Any
    failure of the DEL (applied on the server or not) is reported as an error, so the handler (logout_answer) answers
    the session error and not the logout redirect. -/
theorem redis_removal_reported_faithfully (now : Int) (fs : List Fault) (h : RHash) :
    ((run now fs removeP h).faulted = true → (run now fs removeP h).res = false) ∧
    ((run now fs removeP h).res = true → (run now fs removeP h).state = {}) :=
  ⟨removeP_strict now fs h, removeP_ok_erases now fs h⟩

/-- ... and nothing is served from a removed key, whatever fails later: a read of the empty key returns no tokens -/
theorem redis_nothing_after_removal (parses : Str → Bool) (abs idle now now' : Int) (fs fs' : List Fault) (h : RHash)
    (hok : (run now fs removeP h).res = true) (t : Tokens) :
    (run now' fs' (getTokP parses abs idle now') (visible now' (run now fs removeP h).state)).res ≠ .ok (some t) := by
  rw [removeP_ok_erases now fs h hok]
  intro hc
  have := (getTokP_sound parses abs idle now' fs' _ t hc).2.1
  simp [visible] at this

open Discovery in
/-- DISCOVERED END-SESSION URI. When the handler could be built for a configuration with a logout section, the
    redirect uri it will answer logouts with (logout_answer) is the configured one if there is one, and otherwise the
    `end_session_endpoint` of the discovery document - which is then not empty; a configuration that offers neither is
    refused when the handler is built. -/
theorem logout_uri_configured_or_discovered (cache cache' : Cache) (c r : DCfg) (ans : FetchAns) (req : Bool)
    (path uri : Str) (hl : c.logout = some (path, uri)) (h : load cache c ans = (cache', .ok r, req)) :
    (uri ≠ [] → r.logout = some (path, uri)) ∧
    (uri = [] → c.configurationUri ≠ [] →
      ∃ d, lookup cache' c.configurationUri = some d ∧ d.endSessionEndpoint ≠ [] ∧ r.logout = some (path, d.endSessionEndpoint)) := by
  by_cases hu : c.configurationUri = []
  · rw [no_discovery cache c ans hu] at h
    simp only [Prod.mk.injEq, Except.ok.injEq] at h
    obtain ⟨_, rfl, _⟩ := h
    exact ⟨fun _ => hl, fun _ hne => absurd hu hne⟩
  · obtain ⟨d, hc, hp, _⟩ := load_ok cache cache' c r ans req hu h
    obtain ⟨_, _, _, _, _, hlo⟩ := patch_ok c r d hp
    obtain ⟨h1, h2⟩ := hlo path uri hl
    exact ⟨h1, fun he _ => ⟨d, hc, (h2 he).1, (h2 he).2⟩⟩

open Discovery in
/-- a logout section without redirect uri and a document without `end_session_endpoint`: the handler is not built -/
theorem discovery_refuses_logout_without_uri (cache : Cache) (c : DCfg) (d : WellKnown) (ans : FetchAns) (path : Str)
    (hu : c.configurationUri ≠ []) (hl : c.logout = some (path, [])) (he : d.endSessionEndpoint = [])
    (hdoc : lookup cache c.configurationUri = some d ∨ (lookup cache c.configurationUri = none ∧ ans = .doc d)) :
    (load cache c ans).2.1 = .error .missingLogoutRedirect := by
  unfold load getWellKnown
  rcases hdoc with hc | ⟨hc, rfl⟩ <;> simp [hu, hc, patch, hl, he]
end FaultsAndDiscovery

/-- `matchesLogoutPath` and `matchesCallbackPath` AS TRANSLATED FROM THE GO SOURCE on this run are the model's path
    matchers: the logout branch is entered exactly when logout is configured and the PATH COMPONENT of the request
    target equals the configured logout path (query and fragment play no part); the callback matcher never
    dereferences the parsed callback URI when it parsed (which configuration validation guarantees). -/
theorem code_path_matchers (env : Go.Env) (c : Pb.OIDCConfig) (h : Pb.AttributeContext_HttpRequest) (cfg : Cfg) (req : Req)
    (hl : cfg.logout = if c.GetLogout.isNil then none else some (c.GetLogout.Path, c.GetLogout.RedirectUri))
    (hp : req.path = h.GetPath) (hh : req.host = h.GetHost)
    (u : Go.URL) (e : Bool) (hu : env.urlParseOracle c.GetCallbackUri = (u, e)) (hun : u.isNil = false)
    (h1 : cfg.cbScheme = u.Scheme) (h2 : cfg.cbHost = u.hostname) (h3 : cfg.cbPort = u.port) (h4 : cfg.cbPath = u.escapedPath) :
    Code.matchesLogoutPath env c h = .ok (matchesLogout cfg req) ∧
    Code.matchesCallbackPath env c h = .ok (matchesCallback cfg req) :=
  ⟨code_matchesLogout env c h cfg req hl hp, code_matchesCallback env c h cfg req u e hu hun h1 h2 h3 h4 hp hh⟩

example : Code.matchesLogoutPath {} { Logout := { isNil := false, Path := B "/logout" } } { Path := B "/logout?x=1#f" } = .ok true := by decide
example : Code.matchesLogoutPath {} { Logout := { isNil := false, Path := B "/logout" } } { Path := B "/logout/x" } = .ok false := by decide

/-- NO HIDDEN STATE: the model treats a check as a function of (configuration, request, store answers, clock, IdP and key-source answers, entropy); that is a faithful reading of the code only if nothing else survives from one check to the next. Regenerated on every run: every package-level variable and struct field of internal/server, internal/authz, internal/http, internal/oidc is the classified expectation, and handlers, filter, HTTP helpers and the Redis store own no mutable state (no verdict cache, handler cache, object pool, single-flight group or per-process copy of session data). -/
theorem no_hidden_state : CheckPathInventory := check_path_inventory

end AuthProps.C09

#print axioms AuthProps.C09.logout_answer
#print axioms AuthProps.C09.logout_answer_shape
#print axioms AuthProps.C09.logout_only_after_removal
#print axioms AuthProps.C09.removal_erases
#print axioms AuthProps.C09.ok_requires_tokens_read
#print axioms AuthProps.C09.writes_need_prior_read
#print axioms AuthProps.C09.resurrection_logout_answered
#print axioms AuthProps.C09.resurrection_inflight_ok
#print axioms AuthProps.C09.logout_resurrection
#print axioms AuthProps.C09.redis_removal_reported_faithfully
#print axioms AuthProps.C09.redis_nothing_after_removal
#print axioms AuthProps.C09.logout_uri_configured_or_discovered
#print axioms AuthProps.C09.discovery_refuses_logout_without_uri
#print axioms AuthProps.C09.finality_characterisation
#print axioms AuthProps.C09.code_path_matchers
#print axioms AuthProps.C09.no_hidden_state
