/-
  C09  Logout is final.
-/
import AuthProofs.Ladder
import AuthProofs.StoreSeq
import AuthModel.Oidc.Sched
namespace AuthProps.C09
open AuthModel AuthModel.Oidc

/-- THE LOGOUT ANSWER. On the logout path: with a session cookie the first and only action is RemoveSession(sid); if it
    succeeds the answer is the 302 to the configured (or discovered, see C17/loadWellKnownConfig) end-session URI with
    the cookie expired; if it fails the answer is the session error - never the success redirect. Without a cookie the
    redirect is sent at once. -/
theorem logout_answer (cfg : Cfg) (o : Oracles) (req : Req) (path uri : Str)
    (hh : req.http = true) (hl : cfg.logout = some (path, uri)) (hp : pathOf req.path = path) :
    process cfg o req =
      if sessionIdFromCookie cfg req.cookie = [] then .ret (logoutResp cfg uri)
      else
        .act (.removeSession (sessionIdFromCookie cfg req.cookie)) fun r =>
          match r with
          | .done true => .ret (logoutResp cfg uri)
          | _ => .ret sessErr := by
  unfold process
  simp only [hh, matchesLogout, hl, hp, Bool.not_true, Bool.false_eq_true, if_false, beq_self_eq_true, if_true]
  by_cases hs : sessionIdFromCookie cfg req.cookie = []
  · simp [hs]
  · simp only [hs, ne_eq, not_false_eq_true, if_true, if_false]
    first | rfl | congr 1

theorem logout_answer_shape (cfg : Cfg) (uri : Str) :
    logoutResp cfg uri =
      { code := cUnauthenticated,
        http := .denied { status := 302,
                          headers := stdHeaders ++ [(B "location", uri),
                                                    (B "set-cookie", setCookie (cookieName cfg) (B "deleted") (some 0))] } } := rfl

/-- every answer that is the logout redirect was preceded, when a session id was presented, by a successful
    RemoveSession for it (part of the answer catalogue) -/
theorem logout_only_after_removal (cfg : Cfg) (o : Oracles) (req : Req) (prev : Headers) :
    AllPaths (RespShape cfg o req prev) (process cfg o req prev) [] :=
  process_shapes cfg o req prev

/-- SEQUENTIAL FINALITY, the three facts it rests on:
    (a) removal erases everything stored under the id (both stores refine this map, C12); -/
theorem removal_erases (m : SpecMap) (sid : Str) :
    Spec.getTok (Spec.remove m sid) sid = none ∧ Spec.getAuth (Spec.remove m sid) sid = none := by
  simp [Spec.remove, Spec.getTok, Spec.getAuth, upd]

/-- (b) an OK requires that the store returned tokens for the presented id during that very check; -/
theorem ok_requires_tokens_read (cfg : Cfg) (o : Oracles) (req : Req) (prev : Headers) :
    AllPaths (fun tr r => r.code = cOK →
      ∃ t, (Act.getTok (sessionIdFromCookie cfg req.cookie), ARes.tok (.ok (some t))) ∈ tr) (process cfg o req prev) [] := by
  apply allPaths_mono _ (process_ok_justified cfg o req prev)
  intro tr r h hc
  obtain ⟨_, _, t, a, now, _, hcase⟩ := h hc
  rcases hcase with ⟨_, _, htr⟩ | ⟨_, _, b, now2, authAns, _, _, _, htr⟩ <;> exact ⟨t, by simp [htr]⟩

/-- (c) within one check, tokens are written under an id only after the store returned login state (callback) or tokens
    (refresh) for that same id in that check; login state is written only under a freshly generated id. So once nothing is
    stored under `sid`, a SEQUENTIAL history cannot bring it back without a new login under a new id. -/
theorem writes_need_prior_read (cfg : Cfg) (o : Oracles) (req : Req) (prev : Headers) :
    AllActs (WriteOK cfg o req) (process cfg o req prev) [] :=
  process_writes cfg o req prev

/-! ### interleavings: the recorded finding, as a kernel-checked witness in the `Sched` semantics

  A: a check on an expired session holding a refresh token.  L: the logout for the same session.
  Schedule:  A reads the tokens | L removes the session and answers | A refreshes, validates, stores, answers OK |
  B (a later request with the old cookie) is answered OK. -/

def cfgW : Cfg :=
  { clientId := B "c", clientSecret := B "s", callbackUri := B "https://h/cb", cbScheme := B "https",
    cbHost := B "h", cbPort := [], cbPath := B "/cb", authUri := B "https://i/a", tokenUri := B "https://i/t",
    scopes := [B "openid"], cookiePrefix := B "p", idHeader := B "authorization", idPreamble := [],
    access := none, logout := some (B "/logout", B "https://i/out") }
def oW : Oracles :=
  { attrs := fun s => if s = B "T0" then some { exp := 100, aud := [B "c"], nonce := .absent }
                      else if s = B "T1" then some { exp := 1000, aud := [B "c"], nonce := .absent } else none,
    sigOK := fun _ => true, s256 := fun v => v }
def cookieW : Str := B "__Host-p-authservice-session-id-cookie=s"
def appW : Req := { http := true, scheme := B "https", host := B "h", path := B "/app", cookie := cookieW }
def logoutW : Req := { http := true, scheme := B "https", host := B "h", path := B "/logout", cookie := cookieW }
def w0 : StoreW := { kind := 0, mem := (MemStore.empty 0 0).setTok 0 (B "s") { idToken := B "T0", refreshToken := B "r0" } }
def scA : Script := { idp := .body { idToken := B "T1", accessToken := [], refreshToken := B "r1", expiresIn := 0, tokenType := B "Bearer" } }

def tA0 : Thread := (Thread.spawn 200 scA (process cfgW oW appW)).1
def tL0 : Thread := (Thread.spawn 200 {} (process cfgW oW logoutW)).1
def s1 := tA0.step w0 200                -- A: GetTokenResponse
def s2 := tL0.step s1.1 200              -- L: RemoveSession, answers
def s3 := s1.2.1.step s2.1 200           -- A: token endpoint
def s4 := s3.2.1.step s3.1 200           -- A: GetAuthorizationState
def s5 := s4.2.1.step s4.1 200           -- A: key lookup
def s6 := s5.2.1.step s5.1 200           -- A: SetTokenResponse, answers
def probeB := runProg s6.1 200 {} (process cfgW oW appW) [] []

/-- the logout was answered as successful ... -/
theorem resurrection_logout_answered : s2.2.1.answer = some (logoutResp cfgW (B "https://i/out")) := by decide
/-- ... then the in-flight check is answered OK ... -/
theorem resurrection_inflight_ok : (s6.2.1.answer.map (·.code)) = some cOK := by decide
/-- ... and so is a later request with the logged-out cookie: C09 does not hold for this schedule
    (known finding C09-refresh-after-logout; the harness replays exactly this schedule on the real handler). -/
theorem logout_resurrection : probeB.2.1.code = cOK := by decide

end AuthProps.C09

#print axioms AuthProps.C09.logout_answer
#print axioms AuthProps.C09.logout_answer_shape
#print axioms AuthProps.C09.logout_only_after_removal
#print axioms AuthProps.C09.removal_erases
#print axioms AuthProps.C09.ok_requires_tokens_read
#print axioms AuthProps.C09.writes_need_prior_read
#print axioms AuthProps.C09.resurrection_logout_answered
#print axioms AuthProps.C09.resurrection_inflight_ok
#print axioms AuthProps.C09.logout_resurrection
