/-
  C20  IdP TLS trust follows the configuration, including CA rotation.
  PARTIAL: the decision logic, the pool and the watcher state machine are proved; handshake behaviour (crypto/tls,
  x509 chain building) and timer scheduling are trusted / exercised by real handshakes in the differential run.
-/
import AuthProofs.StateInventory
import AuthProofs.Tls
import AuthProofs.CodeEquivInternal
import AuthModel.Generated.Facts
namespace AuthProps.C20
open AuthModel AuthModel.Tls

/-- the trust decision for settings loaded for the first time: nothing configured → library defaults; a CA (inline,
    else from file) → system roots plus that CA with verification ON whatever skip says; only skip → verification
    off iff the bool / the parsed string says so -/
theorem trust_decision (o : Oracle) (st : State) (s : Settings) (hnew : lookupPool st.pool (keyOf o s) = none) :
    (load o st s).2 =
      if s.caInline = [] ∧ s.caFile = [] ∧ s.skip = .unset then .noConfig
      else if s.caInline ≠ [] then (if o.pemOk s.caInline then .cfg { insecure := false, extra := some s.caInline } else .error)
      else if s.caFile ≠ [] then
        (match st.files s.caFile with
         | none => .error
         | some data => if data ≠ [] then (if o.pemOk data then .cfg { insecure := false, extra := some data } else .error)
                        else .cfg { insecure := false, extra := none })
      else .cfg { insecure := boolStr o s.skip, extra := none } :=
  load_fresh o st s hnew

theorem skip_only_when_requested_and_no_ca (o : Oracle) (st : State) (s : Settings) (t : Trust)
    (hnew : lookupPool st.pool (keyOf o s) = none) (h : (load o st s).2 = .cfg t) (hi : t.insecure = true) :
    s.caInline = [] ∧ s.caFile = [] ∧ boolStr o s.skip = true :=
  insecure_only_if_requested o st s t hnew h hi

theorem identical_settings_share (o : Oracle) (st : State) (s : Settings) (t : Trust) (h : lookupPool st.pool (keyOf o s) = some t)
    (hne : ¬(s.caInline = [] ∧ s.caFile = [] ∧ s.skip = .unset)) : load o st s = (st, .cfg t) :=
  pool_shares o st s t h hne

/-- "identical" is identity of MEANING: the pool key is the CA, the file, the interval and the value of skip-verify,
    so settings that spell the same skip-verify value differently (unset / false / "false" / an unparsable string)
    are one entry -/
theorem identical_means_same_key (o : Oracle) (s s' : Settings) :
    keyOf o s = keyOf o s' ↔
      s.caInline = s'.caInline ∧ s.caFile = s'.caFile ∧ boolStr o s.skip = boolStr o s'.skip ∧ s.interval = s'.interval := by
  simp [keyOf]

theorem superseded_watcher_stops (st : State) (s : Key) (w : Watcher) (hw : w ∈ st.watchers) (hid : w.id = (s, s.caFile)) :
    ∃ w' ∈ (watchFile st s).1.watchers, w'.id = w.id ∧ w'.data = w.data ∧ w'.alive = false :=
  superseded_stops st s w hw hid

/-- two different settings naming the same CA file each keep their own live watcher -/
theorem every_user_of_a_file_keeps_its_watcher (st : State) (s : Key) (w : Watcher) (hw : w ∈ st.watchers)
    (hid : w.id ≠ (s, s.caFile)) : w ∈ (watchFile st s).1.watchers :=
  other_settings_keep_their_watcher st s w hw hid

/-- rotation: the callback of a watcher gives exactly its pool entry the new CA (system roots + new content) ... -/
theorem rotation_reaches_entry (o : Oracle) (pool : List (Key × Trust)) (s : Key) (t : Trust) (data : Str)
    (h : lookupPool pool s = some t) (hp : o.pemOk data = true) :
    lookupPool (updateCA o pool s data) s = some { t with extra := some data } :=
  updateCA_entry o pool s t data h hp

/-- ... leaves every other entry alone, and ignores unparsable content -/
theorem rotation_leaves_others (o : Oracle) (pool : List (Key × Trust)) (s s' : Key) (data : Str) (hne : s' ≠ s) :
    lookupPool (updateCA o pool s data) s' = lookupPool pool s' := updateCA_other o pool s s' data hne

theorem unparsable_rotation_ignored (o : Oracle) (pool : List (Key × Trust)) (s : Key) (data : Str)
    (hp : o.pemOk data = false) : updateCA o pool s data = pool := updateCA_unparsable o pool s data hp

/-- lock discipline of the pool and of the watcher table (regenerated): every access to `configs` / `watchers` holds
    the mutex -/
theorem pool_and_watchers_locked :
    (Generated.lockTable.filter fun e => (e.1 == "tlsConfigPool" || e.1 == "FileWatcher") && e.2.2.2.1 != "call").all
      (fun e => e.2.2.2.2) = true := by decide

/- Non-vacuity -/
def oX : Oracle := { parseBool := fun s => s == B "true", pemOk := fun s => s != B "junk" }
def sFile : Settings := { caInline := [], caFile := B "/ca", skip := .str (B "true"), interval := 5 }
def st1 : State := rewrite init (B "/ca") (some (B "CA-A"))
example : (load oX st1 sFile).2 = .cfg { insecure := false, extra := some (B "CA-A") } := by decide
example : lookupPool (tickAll oX (rewrite (load oX st1 sFile).1 (B "/ca") (some (B "CA-B")))).pool (keyOf oX sFile)
    = some { insecure := false, extra := some (B "CA-B") } := by decide
example : (load oX init { caInline := [], caFile := [], skip := .str (B "true"), interval := 0 }).2
    = .cfg { insecure := true, extra := none } := by decide

/-- NO HIDDEN STATE: regenerated inventory of package internal (loader, TLS pool, file watcher), internal/http and internal/k8s: the only mutable state is the watcher table, the pool map and the secret index. -/
theorem no_hidden_state : InfraInventory := infra_inventory

/-- `BoolStrValue` AS TRANSLATED FROM THE GO SOURCE on this run is the model's `boolStr` with strconv.ParseBool as its
    oracle: verification is skipped only for the bool `true` or a string ParseBool reads as true (1 t T TRUE true True);
    unset, null, numbers, the empty string, the spellings of false and junk all mean "verify". Together with
    `skip_only_when_requested_and_no_ca` this is the "only when that is explicitly requested" of the statement. -/
theorem code_skip_verify_meaning (env : Go.Env) (v : Pb.Value) (o : Oracle) (ho : o.parseBool = goParseBool) :
    Code.BoolStrValue env v = .ok (boolStr o (skipOf v)) := code_boolStr env v o ho

example : Code.BoolStrValue {} { Kind := .StringValue (B "true") } = .ok true := by decide
example : Code.BoolStrValue {} { Kind := .StringValue (B "yes") } = .ok false := by decide
example : Code.BoolStrValue {} { Kind := .StringValue (B "") } = .ok false := by decide
example : Code.BoolStrValue {} { isNil := true } = .ok false := by decide
example : Code.BoolStrValue {} { Kind := .BoolValue true } = .ok true := by decide

end AuthProps.C20

#print axioms AuthProps.C20.trust_decision
#print axioms AuthProps.C20.skip_only_when_requested_and_no_ca
#print axioms AuthProps.C20.identical_settings_share
#print axioms AuthProps.C20.identical_means_same_key
#print axioms AuthProps.C20.superseded_watcher_stops
#print axioms AuthProps.C20.every_user_of_a_file_keeps_its_watcher
#print axioms AuthProps.C20.rotation_reaches_entry
#print axioms AuthProps.C20.rotation_leaves_others
#print axioms AuthProps.C20.unparsable_rotation_ignored
#print axioms AuthProps.C20.pool_and_watchers_locked
#print axioms AuthProps.C20.no_hidden_state
#print axioms AuthProps.C20.code_skip_verify_meaning
