/-
  C07  Trigger rules decide on the path alone; no bypass through query or fragment.
  Property theorems only; helper lemmas live in AuthProofs.
-/
import AuthProofs.Trigger
import AuthProofs.Splitter
namespace AuthProps.C07
open AuthModel AuthModel.Str

/-- The decision of `mustTriggerCheck` on a raw request target is exactly the documented function of the
    target's path component: no rules, or empty path, or some rule with no matching excluded pattern and
    (no included patterns or a matching one). For every rule set, every target, every regex semantics. -/
theorem trigger_spec (re : ReOracle) (rules : List TriggerRule) (target : Str) :
    mustTrigger re rules target = true ↔ Triggered re rules (pathOf target) :=
  mustTrigger_iff re rules target

/-- The path component is the longest prefix of the target without `?` and `#`. -/
theorem path_component (target : Str) :
    pathOf target = target.takeWhile (fun b => b ≠ 63 ∧ b ≠ 35) :=
  pathOf_eq_takeWhile target

/-- Nothing appended after `?` changes the decision. -/
theorem query_irrelevant (re : ReOracle) (rules : List TriggerRule) (p rest : Str)
    (hp : ∀ b ∈ p, b ≠ 63 ∧ b ≠ 35) :
    mustTrigger re rules (p ++ 63 :: rest) = mustTrigger re rules p :=
  mustTrigger_path_only re rules _ _ (by rw [pathOf_append_sep p rest 63 (Or.inl rfl) hp, pathOf_of_clean p hp])

/-- Nothing appended after `#` changes the decision. -/
theorem fragment_irrelevant (re : ReOracle) (rules : List TriggerRule) (p rest : Str)
    (hp : ∀ b ∈ p, b ≠ 63 ∧ b ≠ 35) :
    mustTrigger re rules (p ++ 35 :: rest) = mustTrigger re rules p :=
  mustTrigger_path_only re rules _ _ (by rw [pathOf_append_sep p rest 35 (Or.inr rfl) hp, pathOf_of_clean p hp])

/-- `path?query#fragment` is decided like `path`, whatever query and fragment contain. -/
theorem query_fragment_irrelevant (re : ReOracle) (rules : List TriggerRule) (p q f : Str)
    (hp : ∀ b ∈ p, b ≠ 63 ∧ b ≠ 35) :
    mustTrigger re rules (p ++ 63 :: (q ++ 35 :: f)) = mustTrigger re rules p :=
  query_irrelevant re rules p _ hp

/-- Two targets with the same path component get the same decision (the general form). -/
theorem decision_depends_on_path_only (re : ReOracle) (rules : List TriggerRule) (t₁ t₂ : Str)
    (h : pathOf t₁ = pathOf t₂) : mustTrigger re rules t₁ = mustTrigger re rules t₂ :=
  mustTrigger_path_only re rules t₁ t₂ h

/-- The splitter as written in Go (indices and slice expressions) never slices out of bounds and agrees
    with the `cut` formulation used above. -/
theorem splitter_total (s : Str) : pqfLit s = some (pqf s) := pqfLit_eq s

/- Non-vacuity: a concrete protected path, a concrete rule set with an excluded suffix, and the bypass
   attempt of the original defect; hypotheses of the theorems are met by real inputs. -/
def cssRule : TriggerRule := { excluded := [.sfx (B ".css")], included := [] }
example : mustTrigger (fun _ _ => false) [cssRule] (B "/admin") = true := by decide
example : mustTrigger (fun _ _ => false) [cssRule] (B "/admin?x=.css") = true := by decide
example : mustTrigger (fun _ _ => false) [cssRule] (B "/admin#.css") = true := by decide
example : mustTrigger (fun _ _ => false) [cssRule] (B "/site.css") = false := by decide
example : ∀ b ∈ (B "/admin"), b ≠ 63 ∧ b ≠ 35 := by decide

end AuthProps.C07

#print axioms AuthProps.C07.trigger_spec
#print axioms AuthProps.C07.path_component
#print axioms AuthProps.C07.query_irrelevant
#print axioms AuthProps.C07.fragment_irrelevant
#print axioms AuthProps.C07.query_fragment_irrelevant
#print axioms AuthProps.C07.decision_depends_on_path_only
#print axioms AuthProps.C07.splitter_total
