/-
  C07  Trigger rules decide on the path alone; no bypass through query or fragment.
  Property theorems only; helper lemmas live in AuthProofs.
-/
import AuthProofs.StateInventory
import AuthProofs.Trigger
import AuthProofs.Splitter
import AuthProofs.CodeEquiv
namespace AuthProps.C07
open AuthModel AuthModel.Str

/-- The decision of `mustTriggerCheck` on a raw request target is exactly the documented function of the
    target's path component: no rules, or empty path, or some rule with no matching excluded pattern and
    (no included patterns or a matching one). For every rule set, every target, every regex semantics. -/
theorem trigger_spec (re : ReOracle) (rules : List TriggerRule) (target : Str) :
    mustTrigger re rules target = true ↔ Triggered re rules (pathOf target) :=
  mustTrigger_iff re rules target

/-- The path component is the longest prefix of the target without `?` and `#`. -/
theorem path_component (target : Str) :
    pathOf target = target.takeWhile (fun b => b ≠ 63 ∧ b ≠ 35) :=
  pathOf_eq_takeWhile target

/-- Nothing appended after `?` changes the decision. -/
theorem query_irrelevant (re : ReOracle) (rules : List TriggerRule) (p rest : Str)
    (hp : ∀ b ∈ p, b ≠ 63 ∧ b ≠ 35) :
    mustTrigger re rules (p ++ 63 :: rest) = mustTrigger re rules p :=
  mustTrigger_path_only re rules _ _ (by rw [pathOf_append_sep p rest 63 (Or.inl rfl) hp, pathOf_of_clean p hp])

/-- Nothing appended after `#` changes the decision. -/
theorem fragment_irrelevant (re : ReOracle) (rules : List TriggerRule) (p rest : Str)
    (hp : ∀ b ∈ p, b ≠ 63 ∧ b ≠ 35) :
    mustTrigger re rules (p ++ 35 :: rest) = mustTrigger re rules p :=
  mustTrigger_path_only re rules _ _ (by rw [pathOf_append_sep p rest 35 (Or.inr rfl) hp, pathOf_of_clean p hp])

/-- `path?query#fragment` is decided like `path`, whatever query and fragment contain. -/
theorem query_fragment_irrelevant (re : ReOracle) (rules : List TriggerRule) (p q f : Str)
    (hp : ∀ b ∈ p, b ≠ 63 ∧ b ≠ 35) :
    mustTrigger re rules (p ++ 63 :: (q ++ 35 :: f)) = mustTrigger re rules p :=
  query_irrelevant re rules p _ hp

/-- Two targets with the same path component get the same decision (the general form). -/
theorem decision_depends_on_path_only (re : ReOracle) (rules : List TriggerRule) (t₁ t₂ : Str)
    (h : pathOf t₁ = pathOf t₂) : mustTrigger re rules t₁ = mustTrigger re rules t₂ :=
  mustTrigger_path_only re rules t₁ t₂ h

/-- The splitter as written in Go (indices and slice expressions) never slices out of bounds and agrees
    with the `cut` formulation used above. -/
theorem splitter_total (s : Str) : pqfLit s = some (pqf s) := pqfLit_eq s

/- Non-vacuity: a concrete protected path, a concrete rule set with an excluded suffix, and the bypass
   attempt of the original defect; hypotheses of the theorems are met by real inputs. -/
def cssRule : TriggerRule := { excluded := [.sfx (B ".css")], included := [] }
example : mustTrigger (fun _ _ => false) [cssRule] (B "/admin") = true := by decide
example : mustTrigger (fun _ _ => false) [cssRule] (B "/admin?x=.css") = true := by decide
example : mustTrigger (fun _ _ => false) [cssRule] (B "/admin#.css") = true := by decide
example : mustTrigger (fun _ _ => false) [cssRule] (B "/site.css") = false := by decide
example : ∀ b ∈ (B "/admin"), b ≠ 63 ∧ b ≠ 35 := by decide

/-! ### The same statements about the code as translated from /repo (AuthModel/Generated/CodeAuthz.lean) -/

/-- `mustTriggerCheck`, `matchTriggerRule`, `stringMatch` and `GetPathQueryFragment` AS TRANSLATED FROM THE GO SOURCE
    on this run never panic and decide exactly the documented function of the path component of the request's
    `:path`: for every rule list (nil rules included), every request (absent parts included), every regex oracle. -/
theorem code_trigger_spec (env : Go.Env) (rules : List Pb.TriggerRule) (req : Pb.CheckRequest) :
    ∃ b, Code.mustTriggerCheck env rules req = .ok b ∧
      (b = true ↔ Triggered (reOf env) (rules.map ruleOf) (pathOf (httpOf req).GetPath)) :=
  ⟨_, code_mustTriggerCheck env rules req, mustTrigger_iff _ _ _⟩

/-- On the translated code: two requests whose targets have the same path component get the same decision, so
    nothing appended after `?` or `#` changes it. -/
theorem code_decision_depends_on_path_only (env : Go.Env) (rules : List Pb.TriggerRule) (r₁ r₂ : Pb.CheckRequest)
    (h : pathOf (httpOf r₁).GetPath = pathOf (httpOf r₂).GetPath) :
    Code.mustTriggerCheck env rules r₁ = Code.mustTriggerCheck env rules r₂ := by
  rw [code_mustTriggerCheck, code_mustTriggerCheck, mustTrigger_path_only _ _ _ _ h]

/-- On the translated code: the splitter returns (path, query, fragment) of the `cut` formulation for every byte
    string, none of its eight slice expressions going out of bounds. -/
theorem code_splitter (env : Go.Env) (s : Str) : Code.GetPathQueryFragment env s = .ok (pqf s) := code_pqf env s

/- Non-vacuity on the translated code: the bypass attempt of the original defect, evaluated by the kernel. -/
def cssRulePb : Pb.TriggerRule := { ExcludedPaths := [{ MatchType := .Suffix ⟨B ".css"⟩ }] }
def reqWithPath (p : Str) : Pb.CheckRequest := { Attributes := { Request := { Http := { Path := p } } } }
example : Code.mustTriggerCheck {} [cssRulePb] (reqWithPath (B "/admin?x=.css")) = .ok true := by decide
example : Code.mustTriggerCheck {} [cssRulePb] (reqWithPath (B "/site.css")) = .ok false := by decide
example : Code.mustTriggerCheck {} [cssRulePb] { isNil := true } = .ok true := by decide

/-- NO HIDDEN STATE: trigger rules and chain selection are functions of the request and the configuration: the regenerated inventory of internal/server shows no mutable field in ExtAuthZFilter and no package-level variable besides the two response constructors. -/
theorem no_hidden_state : FilterInventory := filter_inventory

end AuthProps.C07

#print axioms AuthProps.C07.trigger_spec
#print axioms AuthProps.C07.path_component
#print axioms AuthProps.C07.query_irrelevant
#print axioms AuthProps.C07.fragment_irrelevant
#print axioms AuthProps.C07.query_fragment_irrelevant
#print axioms AuthProps.C07.decision_depends_on_path_only
#print axioms AuthProps.C07.splitter_total
#print axioms AuthProps.C07.code_trigger_spec
#print axioms AuthProps.C07.code_decision_depends_on_path_only
#print axioms AuthProps.C07.code_splitter
#print axioms AuthProps.C07.no_hidden_state
