/-
  C10  Absolute and idle session timeouts are enforced - both stores.
  Memory: AuthModel.MemStore (timeouts checked by `live` on every access).
  Redis: AuthModel.Redis (key TTL set by EXPIREAT ⌊min(created+abs, now+idle)⌋ on every access).
-/
import AuthProofs.StateInventory
import AuthProofs.MemoryTTL
import AuthProofs.RedisTTL
import AuthProofs.CodeEquivStore
namespace AuthProps.C10
open AuthModel

/-! ### memory store -/

/-- NEVER LATE: tokens are returned at `now` only for a session with `now ≤ created + absolute` and
    `now ≤ last use + idle` (for the configured, i.e. non-zero, limits). Any state, any time. -/
theorem memory_never_late_tokens (m : MemStore) (now : Int) (id : Str) (t : Tokens)
    (h : (m.getTok now id).2 = some t) :
    ∃ s, m.sessions id = some s ∧ s.tokens = some t ∧
      (m.abs > 0 → now ≤ s.added + m.abs) ∧ (m.idle > 0 → now ≤ s.accessed + m.idle) :=
  MemStore.getTok_never_late m now id t h

theorem memory_never_late_login_state (m : MemStore) (now : Int) (id : Str) (a : AuthState)
    (h : (m.getAuth now id).2 = some a) :
    ∃ s, m.sessions id = some s ∧ s.auth = some a ∧
      (m.abs > 0 → now ≤ s.added + m.abs) ∧ (m.idle > 0 → now ≤ s.accessed + m.idle) :=
  MemStore.getAuth_never_late m now id a h

/-- NOT DROPPED INSIDE: a session inside both limits is served; the read counts as a use. -/
theorem memory_not_dropped_inside (m : MemStore) (now : Int) (id : Str) (s : MSess) (hs : m.sessions id = some s)
    (ha : m.abs > 0 → now ≤ s.added + m.abs) (hi : m.idle > 0 → now ≤ s.accessed + m.idle) :
    (m.getTok now id).2 = s.tokens ∧ (m.getTok now id).1.sessions id = some { s with accessed := now } :=
  MemStore.getTok_inside m now id s hs ha hi

/-- ACTIVITY EXTENDS ONLY THE IDLE LIMIT: reads and writes on a live session set `accessed` and never `added`;
    a write on an absent or expired id starts a new session created at that moment. -/
theorem memory_activity_keeps_created (m : MemStore) (now : Int) (id : Str) (t : Tokens) :
    (m.setTok now id t).sessions id = some (match (m.live now id).2 with
      | some s => { s with accessed := now, tokens := some t }
      | none => { tokens := some t, auth := none, added := now, accessed := now }) :=
  MemStore.setTok_session m now id t

/-- zero means "no limit": with both timeouts zero nothing ever expires -/
theorem memory_zero_is_no_limit (m : MemStore) (h0 : m.abs = 0) (h1 : m.idle = 0) (now : Int) (s : MSess) :
    m.expired now s = false := expired_noTimeout m h0 h1 now s

/-- the timeouts do not depend on a clean-up routine: the sweep changes nothing that an access would still serve -/
theorem memory_sweep_not_needed (m : MemStore) (now : Int) :
    MemStore.absM (m.removeAllExpired now) now = MemStore.absM m now := MemStore.removeAllExpired_invisible m now

/-! ### Redis store -/

/-- the expiry written by every access is the smaller of creation+absolute and now+idle (over the non-zero ones) -/
theorem redis_ttl_formula (abs idle now ta : Int) (ha : abs ≥ 0) (hi : idle ≥ 0) (h : ¬(abs = 0 ∧ idle = 0)) :
    Redis.expiryTime abs idle now ta =
      if abs = 0 then now + idle else if idle = 0 then ta + abs else min (ta + abs) (now + idle) :=
  Redis.expiryTime_formula abs idle now ta ha hi h

/-- NEVER LATE (strictly): after an access at `t0` to a key created at `ta`, the server serves the key at `now'`
    only if `now' < ta + absolute` and `now' < t0 + idle`. -/
theorem redis_never_late (abs idle t0 ta now' : Int) (h : RHash)
    (hto : ¬(abs = 0 ∧ idle = 0)) (hf : Redis.hasFields h = true)
    (hv : Redis.hasFields (Redis.visible now' (Redis.refresh abs idle t0 (some ta) h).1) = true) :
    (abs > 0 → now' < ta + abs) ∧ (idle > 0 → now' < t0 + idle) :=
  Redis.never_late_after_refresh abs idle t0 ta now' h hto hf hv

/-- NOT DROPPED INSIDE, one second of granularity aside: one second or more before the computed limit the key is
    still served with all its fields. -/
theorem redis_not_dropped_inside (abs idle t0 ta now' : Int) (h : RHash)
    (hto : ¬(abs = 0 ∧ idle = 0)) (hf : Redis.hasFields h = true) (hge : t0 ≤ now')
    (hin : now' + Redis.sec ≤ Redis.expiryTime abs idle t0 ta) :
    Redis.visible now' (Redis.refresh abs idle t0 (some ta) h).1 =
      { h with expireAt := some (Int.fdiv (Redis.expiryTime abs idle t0 ta) Redis.sec) } :=
  Redis.not_dropped_inside_after_refresh abs idle t0 ta now' h hto hf hge hin

/-- ACTIVITY NEVER MOVES THE CREATION TIME: writes (HSETNX) and reads leave `time_added` of a live key alone, so
    the absolute limit `time_added + absolute` cannot be extended by activity. -/
theorem redis_write_keeps_created (abs idle now : Int) (t : Tokens) (h : RHash) (ta : Int)
    (hta : (Redis.visible now h).timeAdded = some ta) (hf : Redis.hasFields (Redis.setTok abs idle now t h).1 = true) :
    (Redis.setTok abs idle now t h).1.timeAdded = some ta :=
  Redis.setTok_keeps_timeAdded abs idle now t h ta hta hf

theorem redis_login_write_keeps_created (abs idle now : Int) (a : AuthState) (h : RHash) (ta : Int)
    (hta : (Redis.visible now h).timeAdded = some ta) (hf : Redis.hasFields (Redis.setAuth abs idle now a h).1 = true) :
    (Redis.setAuth abs idle now a h).1.timeAdded = some ta :=
  Redis.setAuth_keeps_timeAdded abs idle now a h ta hta hf

theorem redis_read_keeps_created (parses : Str → Bool) (abs idle now : Int) (h : RHash)
    (hf : Redis.hasFields (Redis.getTok parses abs idle now h).1 = true) :
    (Redis.getTok parses abs idle now h).1.timeAdded = (Redis.visible now h).timeAdded :=
  Redis.getTok_keeps_timeAdded parses abs idle now h hf

/-- every write re-arms the TTL from the STORED creation time (the defect repaired in 23fbd53 passed `now`) -/
theorem redis_write_uses_stored_creation (abs idle now : Int) (t : Tokens) (h : RHash) :
    Redis.setTok abs idle now t h =
      Redis.refresh abs idle now none (Redis.runSteps (Redis.setTokSteps t now) (Redis.visible now h)) := rfl

/- Non-vacuity: absolute 10 s, idle 4 s; created at 0, touched at 3 s: served at 6.9 s, gone at 7 s;
   and a memory session created at 0 with absolute 10 s is live at 10 s and expired at 10 s + 1 ns. -/
def hX : RHash := { idToken := some (B "j"), timeAdded := some 0 }
example : Redis.hasFields (Redis.visible 6900000000 (Redis.refresh 10000000000 4000000000 3000000000 (some 0) hX).1) = true := by decide
example : Redis.hasFields (Redis.visible 7000000000 (Redis.refresh 10000000000 4000000000 3000000000 (some 0) hX).1) = false := by decide
def sX : MSess := { tokens := none, auth := none, added := 0, accessed := 0 }
example : (MemStore.empty 10000000000 0).expired 10000000000 sX = false := by decide
example : (MemStore.empty 10000000000 0).expired 10000000001 sX = true := by decide

/-! ### the same, about the code as translated from the source (Generated/CodeStore.lean: `memoryStore.live`) -/

/-- THE CODE's `live` - the function every memory-store access goes through - is the model's `live`: it cannot panic on
    a well-formed store, answers "absent" exactly when the model does, deletes exactly the expired session and keeps
    the store well-formed -/
theorem code_live_is_model (env : Go.Env) (m : Pb.MemoryStore) (id : Str) (now : Int)
    (hwf : CodeEquiv.StoreWF m) (hnow : env.now.unixNano = some now) :
    ∃ s m', Code.live env m id = .ok (s, m') ∧
      CodeEquiv.sessOpt s = ((CodeEquiv.storeOf m).live now id).2 ∧
      (CodeEquiv.storeOf m').abs = (CodeEquiv.storeOf m).abs ∧ (CodeEquiv.storeOf m').idle = (CodeEquiv.storeOf m).idle ∧
      (∀ k, (CodeEquiv.storeOf m').sessions k = ((CodeEquiv.storeOf m).live now id).1.sessions k) ∧
      CodeEquiv.StoreWF m' :=
  CodeEquiv.code_live env m id now hwf hnow

/-- THE CODE never hands out a session past its absolute timeout, and drops it -/
theorem code_never_late_absolute (env : Go.Env) (m : Pb.MemoryStore) (id : Str) (now : Int)
    (hwf : CodeEquiv.StoreWF m) (hnow : env.now.unixNano = some now) (s : MSess)
    (hs : (CodeEquiv.storeOf m).sessions id = some s) (habs : m.absoluteSessionTimeout > 0)
    (hlate : s.added + m.absoluteSessionTimeout < now) :
    ∃ r m', Code.live env m id = .ok (r, m') ∧ r.isNil = true ∧ (CodeEquiv.storeOf m').sessions id = none :=
  CodeEquiv.code_live_absolute env m id now hwf hnow s hs habs hlate

/-- THE CODE never hands out a session past its idle timeout, and drops it -/
theorem code_never_late_idle (env : Go.Env) (m : Pb.MemoryStore) (id : Str) (now : Int)
    (hwf : CodeEquiv.StoreWF m) (hnow : env.now.unixNano = some now) (s : MSess)
    (hs : (CodeEquiv.storeOf m).sessions id = some s) (hidle : m.idleSessionTimeout > 0)
    (hlate : s.accessed + m.idleSessionTimeout < now) :
    ∃ r m', Code.live env m id = .ok (r, m') ∧ r.isNil = true ∧ (CodeEquiv.storeOf m').sessions id = none :=
  CodeEquiv.code_live_idle env m id now hwf hnow s hs hidle hlate

/-- the hypotheses are satisfiable, and the boundary is where the property puts it: at exactly `accessed + idle` the
    session is still served, one nanosecond later it is gone -/
example : CodeEquiv.StoreWF CodeEquiv.exStore ∧
    (Code.live { now := { unixNano := some 250 } } CodeEquiv.exStore (AuthModel.B "s1")).map (fun r => r.1.isNil) = .ok false ∧
    (Code.live { now := { unixNano := some 251 } } CodeEquiv.exStore (AuthModel.B "s1")).map (fun r => r.1.isNil) = .ok true := by
  refine ⟨⟨rfl, ?_⟩, by decide, by decide⟩
  intro kv h
  simp [CodeEquiv.exStore] at h
  subst h; simp

/-- NO HIDDEN STATE: the stores keep nothing but what the model says they keep: regenerated inventory of every package-level variable and struct field of internal/oidc; the Redis store has no mutable field (all its state is server-side), the memory store has its mutex, its map and the four fields of an entry. -/
theorem no_hidden_state : StoreInventory := store_inventory

end AuthProps.C10

#print axioms AuthProps.C10.memory_never_late_tokens
#print axioms AuthProps.C10.memory_never_late_login_state
#print axioms AuthProps.C10.memory_not_dropped_inside
#print axioms AuthProps.C10.memory_activity_keeps_created
#print axioms AuthProps.C10.memory_zero_is_no_limit
#print axioms AuthProps.C10.memory_sweep_not_needed
#print axioms AuthProps.C10.redis_ttl_formula
#print axioms AuthProps.C10.redis_never_late
#print axioms AuthProps.C10.redis_not_dropped_inside
#print axioms AuthProps.C10.redis_write_keeps_created
#print axioms AuthProps.C10.redis_login_write_keeps_created
#print axioms AuthProps.C10.redis_read_keeps_created
#print axioms AuthProps.C10.redis_write_uses_stored_creation
#print axioms AuthProps.C10.no_hidden_state
#print axioms AuthProps.C10.code_live_is_model
#print axioms AuthProps.C10.code_never_late_absolute
#print axioms AuthProps.C10.code_never_late_idle
