/-
  C06  Session ids, state and nonce are unpredictable.
  What a proof can say: information flow - which outputs are functions of which inputs. The unpredictability of
  crypto/rand itself is trusted (PARTIAL).
-/
import AuthProofs.StateInventory
import AuthProofs.Gen
namespace AuthProps.C06
open AuthModel AuthModel.Gen

/-- the session id depends on a segment of the entropy stream that nothing public depends on: replacing that segment
    changes the id to ANY other producible id while nonce, state and verifier (hence the code challenge) stay exactly
    the same. The request time is not an input of the generator at all. -/
theorem sid_independent_of_public (seg seg' rest : Str) (sid sid' : Str)
    (h : draw seg 64 = some (sid, [])) (h' : draw seg' 64 = some (sid', [])) :
    (genAll (seg ++ rest)).map (fun i => (i.nonce, i.state, i.verifierBytes)) =
      (genAll (seg' ++ rest)).map (fun i => (i.nonce, i.state, i.verifierBytes)) ∧
    (genAll (seg ++ rest)).map (·.sid) = (publicPart rest).map (fun _ => sid) ∧
    (genAll (seg' ++ rest)).map (·.sid) = (publicPart rest).map (fun _ => sid') :=
  Gen.sid_independent_of_public seg seg' rest sid sid' h h'

/-- every 64-character id over the charset is producible (so the alternative id above ranges over all of them) -/
theorem every_id_reachable (idx : Str) (h : ∀ b ∈ idx, b.toNat < 62) :
    draw idx idx.length = some (idx.map charOf, []) := draw_indices idx h

/-- no modulo bias: each of the 62 characters is selected by exactly 4 of the 248 accepted byte values, so uniform
    independent bytes give uniform independent characters: 64 x log2(62) = 381 bits per session id -/
theorem draw_uniform : ∀ v : Fin 62,
    ((List.range 256).filter fun b => decide (b < limit) && decide (b % 62 = v.val)).length = 4 := Gen.draw_uniform

theorem charset_distinct : charset.length = 62 ∧ charset.Nodup := charset_nodup

/-! ### obligations over the regenerated source facts (F4) -/

/-- no `math/rand`, the generator draws from `crypto/rand` -/
theorem no_prng_import : ("math/rand" ∈ Generated.sessionImports) = False ∧ ("math/rand/v2" ∈ Generated.sessionImports) = False ∧
    "crypto/rand" ∈ Generated.sessionImports := by decide

/-- the only package-qualified calls on the code paths that produce identifiers: no clock, no seed, no other source -/
theorem generator_calls_exact :
    Generated.generatorCalls = [("GenerateCodeVerifier", "oauth2.GenerateVerifier"), ("generate", "rand.Read")] := by decide

theorem identifier_lengths :
    Generated.genLengths = [("GenerateSessionID", "64"), ("GenerateNonce", "32"), ("GenerateState", "32")] := by decide

theorem charset_matches_source : charset = Generated.charset := Gen.charset_matches_source
theorem limit_formula : limit = 256 - 256 % charset.length := Gen.limit_formula

/- Non-vacuity: 64 accepted bytes produce an id and are consumed exactly; a rejected byte (250) is skipped -/
example : draw [0, 250, 1, 61] 3 = some ([97, 98, 57], []) := by decide
example : ∃ seg sid, seg.length = 64 ∧ draw seg 64 = some (sid, []) :=
  ⟨List.replicate 64 7, (List.replicate 64 7).map charOf, by simp, by
    have := draw_indices (List.replicate 64 7) (by intro b hb; simp at hb; subst hb; decide)
    simpa using this⟩

/-- NO HIDDEN STATE: the model treats a check as a function of (configuration, request, store answers, clock, IdP and key-source answers, entropy); that is a faithful reading of the code only if nothing else survives from one check to the next. Regenerated on every run: every package-level variable and struct field of internal/server, internal/authz, internal/http, internal/oidc is the classified expectation, and handlers, filter, HTTP helpers and the Redis store own no mutable state (no verdict cache, handler cache, object pool, single-flight group or per-process copy of session data). -/
theorem no_hidden_state : CheckPathInventory := check_path_inventory

end AuthProps.C06

#print axioms AuthProps.C06.sid_independent_of_public
#print axioms AuthProps.C06.every_id_reachable
#print axioms AuthProps.C06.draw_uniform
#print axioms AuthProps.C06.charset_distinct
#print axioms AuthProps.C06.no_prng_import
#print axioms AuthProps.C06.generator_calls_exact
#print axioms AuthProps.C06.identifier_lengths
#print axioms AuthProps.C06.charset_matches_source
#print axioms AuthProps.C06.limit_formula
#print axioms AuthProps.C06.no_hidden_state
