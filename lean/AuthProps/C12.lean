/-
  C12  Memory and Redis stores both implement one abstract session map.
  Spec: AuthModel.Spec (a plain map id ↦ {login state, tokens, created}); the two store models are
  AuthModel.MemStore and AuthModel.Redis (command sequences over a hash+TTL server).
-/
import AuthProofs.StateInventory
import AuthProofs.StoreSeq
import AuthProofs.RedisCmd
import AuthProofs.CodeEquivStore
namespace AuthProps.C12
open AuthModel

/-! ### every history, timeouts off: both stores answer exactly like the plain map -/

/-- MEMORY: for every sequence of operations (any length, any ids, any clock readings) the in-memory store
    returns what the plain map returns. -/
theorem memory_refines_spec (ops : List (Int × SOp)) :
    runOps memStep (MemStore.empty 0 0) ops = runOps (specStep false) (fun _ => none) ops :=
  memory_history_refines (MemStore.empty 0 0) rfl rfl (fun _ => none) (fun _ => rfl) ops

/-- REDIS: for every sequence of operations writing only what the handler writes (non-empty, parseable ID token;
    four non-empty login-state members), the Redis store returns what the plain map returns. The single named
    difference to the memory store - clearing the login state of an absent id reports ErrRedis - is part of
    `specStep true`. -/
theorem redis_refines_spec (parses : Str → Bool) (ops : List (Int × SOp)) (hwf : ∀ x ∈ ops, WFOp parses x.2) :
    runOps (redisStep parses 0 0) (fun _ => {}) ops = runOps (specStep true) (fun _ => none) ops :=
  redis_history_refines parses (fun _ => {}) (fun _ => none) (fun _ => Redis.RInv_empty)
    (by funext k; simp [absR, Redis.decode_empty]) ops hwf

/-- hence the two stores are indistinguishable on histories that never clear an absent id -/
theorem stores_agree (parses : Str → Bool) (ops : List (Int × SOp)) (hwf : ∀ x ∈ ops, WFOp parses x.2)
    (h : runOps (specStep true) (fun _ => none) ops = runOps (specStep false) (fun _ => none) ops) :
    runOps memStep (MemStore.empty 0 0) ops = runOps (redisStep parses 0 0) (fun _ => {}) ops := by
  rw [memory_refines_spec, redis_refines_spec parses ops hwf, h]

/-! ### each single operation, timeouts ON (memory): at the instant of the operation the store is the map of
    its live sessions -/

theorem memory_setTok (m : MemStore) (now : Int) (id : Str) (t : Tokens) :
    MemStore.absM (m.setTok now id t) now = Spec.setTok (MemStore.absM m now) id t now := MemStore.setTok_refines m now id t
theorem memory_setAuth (m : MemStore) (now : Int) (id : Str) (a : AuthState) :
    MemStore.absM (m.setAuth now id a) now = Spec.setAuth (MemStore.absM m now) id a now := MemStore.setAuth_refines m now id a
theorem memory_getTok (m : MemStore) (now : Int) (id : Str) :
    (m.getTok now id).2 = Spec.getTok (MemStore.absM m now) id ∧ MemStore.absM (m.getTok now id).1 now = MemStore.absM m now :=
  MemStore.getTok_refines m now id
theorem memory_getAuth (m : MemStore) (now : Int) (id : Str) :
    (m.getAuth now id).2 = Spec.getAuth (MemStore.absM m now) id ∧ MemStore.absM (m.getAuth now id).1 now = MemStore.absM m now :=
  MemStore.getAuth_refines m now id
theorem memory_clearAuth (m : MemStore) (now : Int) (id : Str) :
    MemStore.absM (m.clearAuth now id) now = Spec.clearAuth (MemStore.absM m now) id := MemStore.clearAuth_refines m now id
theorem memory_remove (m : MemStore) (now : Int) (id : Str) :
    MemStore.absM (m.remove id) now = Spec.remove (MemStore.absM m now) id := MemStore.remove_refines m now id
theorem memory_sweep_invisible (m : MemStore) (now : Int) :
    MemStore.absM (m.removeAllExpired now) now = MemStore.absM m now := MemStore.removeAllExpired_invisible m now

/-! ### the clauses of the statement, as facts about the plain map (they transfer through the refinements) -/

theorem read_sees_latest_write (m : SpecMap) (id : Str) (t : Tokens) (now : Int) :
    Spec.getTok (Spec.setTok m id t now) id = some t := by
  simp [Spec.getTok, Spec.setTok, upd]; cases m id <;> rfl

theorem read_sees_latest_login_state (m : SpecMap) (id : Str) (a : AuthState) (now : Int) :
    Spec.getAuth (Spec.setAuth m id a now) id = some a := by
  simp [Spec.getAuth, Spec.setAuth, upd]; cases m id <;> rfl

theorem ids_do_not_interfere (m : SpecMap) (id id' : Str) (t : Tokens) (a : AuthState) (now : Int) (h : id' ≠ id) :
    Spec.setTok m id t now id' = m id' ∧ Spec.setAuth m id a now id' = m id' ∧
    Spec.clearAuth m id id' = m id' ∧ Spec.remove m id id' = m id' := by
  refine ⟨by simp [Spec.setTok, upd, h], by simp [Spec.setAuth, upd, h], ?_, by simp [Spec.remove, upd, h]⟩
  unfold Spec.clearAuth; cases m id <;> simp [upd, h]

theorem remove_erases_everything (m : SpecMap) (id : Str) :
    Spec.remove m id id = none ∧ Spec.getTok (Spec.remove m id) id = none ∧ Spec.getAuth (Spec.remove m id) id = none := by
  simp [Spec.remove, Spec.getTok, Spec.getAuth, upd]

theorem clear_keeps_tokens (m : SpecMap) (id : Str) :
    Spec.getTok (Spec.clearAuth m id) id = Spec.getTok m id ∧ Spec.getAuth (Spec.clearAuth m id) id = none := by
  unfold Spec.clearAuth Spec.getTok Spec.getAuth
  cases h : m id <;> simp [h, upd]

theorem created_fixed_by_first_write (m : SpecMap) (id : Str) (s : Sess) (t : Tokens) (a : AuthState) (now : Int)
    (h : m id = some s) :
    (Spec.setTok m id t now id).map (·.created) = some s.created ∧
    (Spec.setAuth m id a now id).map (·.created) = some s.created ∧
    (Spec.clearAuth m id id).map (·.created) = some s.created := by
  simp [Spec.setTok, Spec.setAuth, Spec.clearAuth, upd, h]

theorem first_write_sets_created (m : SpecMap) (id : Str) (t : Tokens) (now : Int) (h : m id = none) :
    (Spec.setTok m id t now id).map (·.created) = some now := by
  simp [Spec.setTok, upd, h]

/-- Any replica serves any session: a Redis store method is a function of (timeouts, clock reading, server state)
    only - two store instances with the same timeouts are the same function. (That no instance field is written after
    construction is a regenerated source fact, see Generated.Facts.) -/
theorem replica_irrelevant (parses : Str → Bool) (r1 r2 : RedisStore) (h1 : r1.abs = r2.abs) (h2 : r1.idle = r2.idle)
    (srv : Str → RHash) (now : Int) (op : SOp) :
    redisStep parses r1.abs r1.idle srv now op = redisStep parses r2.abs r2.idle srv now op := by
  rw [h1, h2]

/-- named allowance (i): on an absent id Redis reports an error, and leaves nothing behind -/
theorem redis_clear_absent (now : Int) : Redis.clearAuth 0 0 now {} = ({}, false) := Redis.clearAuth_absent now

/- Non-vacuity: a concrete history with writes, reads, a clear and a remove on two ids. -/
def tokX : Tokens := { idToken := B "jwt", accessToken := B "at", refreshToken := [], accessExp := some 5 }
def authX : AuthState := ⟨B "s", B "n", B "u", B "v"⟩
def demoOps : List (Int × SOp) :=
  [(1, .setAuth (B "a") authX), (2, .getAuth (B "a")), (3, .setTok (B "a") tokX), (4, .clearAuth (B "a")),
   (5, .getTok (B "a")), (6, .getAuth (B "a")), (7, .getTok (B "b")), (8, .remove (B "a")), (9, .getTok (B "a"))]
example : runOps (specStep false) (fun _ => none) demoOps =
    [.done, .auth (some authX), .done, .done, .tok (some tokX), .auth none, .tok none, .done, .tok none] := by decide
example : ∀ x ∈ demoOps, WFOp (fun _ => true) x.2 := by
  intro x hx; simp [demoOps] at hx
  rcases hx with h | h | h | h | h | h | h | h | h <;> subst h <;> simp [WFOp, Redis.TokOK, Redis.AuthOK, tokX, authX, B]

/-! ### Redis at the level of commands, with faults (AuthModel/Store/RedisCmd.lean) -/
section Faults
open RedisCmd Redis

/-- REPORTED SUCCESS IS THE FAULT-FREE BEHAVIOUR (command level, any fault script). If a write method of the Redis store
    returns nil although commands may fail - before or after taking effect on the server - then no command failed, and
    state and result are those of the functional model `Store/Redis.lean` the refinement theorems are about. -/
theorem redis_write_success_is_faultfree (abs idle now : Int) (fs : List Fault) (h : RHash) :
    (∀ t, (run now fs (setTokP abs idle now t) (visible now h)).res = true →
        ((run now fs (setTokP abs idle now t) (visible now h)).state, true) = Redis.setTok abs idle now t h) ∧
    (∀ a, (run now fs (setAuthP abs idle now a) (visible now h)).res = true →
        ((run now fs (setAuthP abs idle now a) (visible now h)).state, true) = Redis.setAuth abs idle now a h) ∧
    ((run now fs (clearAuthP abs idle now) (visible now h)).res = true →
        ((run now fs (clearAuthP abs idle now) (visible now h)).state, true) = Redis.clearAuth abs idle now h) := by
  have key : ∀ (p : RP Bool), Strict isFail p → ∀ s, (run now fs p s).res = true → run now fs p s = run now [] p s := by
    intro p hp s hok
    apply run_unfaulted
    cases hf : (run now fs p s).faulted with
    | false => rfl
    | true => have := hp now fs s hf; simp [isFail, hok] at this
  refine ⟨fun t hok => ?_, fun a hok => ?_, fun hok => ?_⟩
  · have e := key _ (setTokP_strict abs idle now t) _ hok
    rw [e] at hok ⊢; rw [← setTokP_nil, hok]
  · have e := key _ (setAuthP_strict abs idle now a) _ hok
    rw [e] at hok ⊢; rw [← setAuthP_nil, hok]
  · have e := key _ (clearAuthP_strict abs idle now) _ hok
    rw [e] at hok ⊢; rw [← clearAuthP_nil, hok]

/-- the same for the reads: an answer other than an error is the fault-free answer -/
theorem redis_read_success_is_faultfree (parses : Str → Bool) (abs idle now : Int) (fs : List Fault) (h : RHash) :
    ((run now fs (getTokP parses abs idle now) (visible now h)).res ≠ .err →
        ((run now fs (getTokP parses abs idle now) (visible now h)).state,
         (run now fs (getTokP parses abs idle now) (visible now h)).res) = Redis.getTok parses abs idle now h) ∧
    ((run now fs (getAuthP abs idle now) (visible now h)).res ≠ .err →
        ((run now fs (getAuthP abs idle now) (visible now h)).state,
         (run now fs (getAuthP abs idle now) (visible now h)).res) = Redis.getAuth abs idle now h) := by
  have key : ∀ {α : Type} (p : RP (SRes α)), Strict isErr p → ∀ s, (run now fs p s).res ≠ .err → run now fs p s = run now [] p s := by
    intro α p hp s hok
    apply run_unfaulted
    cases hf : (run now fs p s).faulted with
    | false => rfl
    | true => exact absurd (hp now fs s hf) hok
  refine ⟨fun hok => ?_, fun hok => ?_⟩
  · rw [key _ (getTokP_strict parses abs idle now) _ hok]; exact getTokP_nil ..
  · rw [key _ (getAuthP_strict abs idle now) _ hok]; exact getAuthP_nil ..

/-- A FAILED COMMAND IS NEVER REPORTED AS SUCCESS: every method of the Redis store, under every fault script -/
theorem redis_fault_is_error (parses : Str → Bool) (abs idle now : Int) (fs : List Fault) (h : RHash) :
    (∀ t, (run now fs (setTokP abs idle now t) h).faulted = true → (run now fs (setTokP abs idle now t) h).res = false) ∧
    (∀ a, (run now fs (setAuthP abs idle now a) h).faulted = true → (run now fs (setAuthP abs idle now a) h).res = false) ∧
    ((run now fs (clearAuthP abs idle now) h).faulted = true → (run now fs (clearAuthP abs idle now) h).res = false) ∧
    ((run now fs removeP h).faulted = true → (run now fs removeP h).res = false) ∧
    ((run now fs (getTokP parses abs idle now) h).faulted = true → (run now fs (getTokP parses abs idle now) h).res = .err) ∧
    ((run now fs (getAuthP abs idle now) h).faulted = true → (run now fs (getAuthP abs idle now) h).res = .err) :=
  ⟨fun t => setTokP_strict abs idle now t now fs h, fun a => setAuthP_strict abs idle now a now fs h,
   clearAuthP_strict abs idle now now fs h, removeP_strict now fs h,
   getTokP_strict parses abs idle now now fs h, getAuthP_strict abs idle now now fs h⟩

/-- the command sequences of the fault-free methods (compared with the commands the real client issues) -/
example : (run 5 [] (setTokP 10 4 5 { idToken := B "i", accessToken := B "a" }) {}).issued
    = ["hset", "hset", "hdel", "hsetnx", "hget", "expireat"] := by decide
end Faults

/-! ### about the code as translated from the source (Generated/CodeStore.lean) -/

/-- THE CODE's `newSession(t)` is the empty session created and last accessed at `t` (what the memory model's `set`
    starts a new session from) -/
theorem code_new_session (env : Go.Env) (t : Go.Time) :
    ∃ s, Code.newSession env t = .ok s ∧ s.isNil = false ∧ s.added = t ∧ s.accessed = t ∧
      (CodeEquiv.sessOf s).tokens = none ∧ (CodeEquiv.sessOf s).auth = none :=
  CodeEquiv.code_newSession env t

/-- THE CODE's conversions of what the Redis store scans out of a hash are the model's `tokensOf` / `authOf`: every
    stored member lands in its own field, for every hash -/
theorem code_redis_records (env : Go.Env) (h : RHash) :
    (∃ t, Code.TokenResponse env (CodeEquiv.scanTok h) = .ok t ∧ CodeEquiv.tokensOf t = some (Redis.tokensOf h)) ∧
    (∃ a, Code.AuthorizationState env (CodeEquiv.scanAuth h) = .ok a ∧ CodeEquiv.authOf a = some (Redis.authOf h)) :=
  ⟨CodeEquiv.code_redis_token env h, CodeEquiv.code_redis_auth env h⟩

/-- THE CODE's `live` agrees with the memory model on every well-formed store (see C10 for the timeout readings) -/
theorem code_live_is_model (env : Go.Env) (m : Pb.MemoryStore) (id : Str) (now : Int)
    (hwf : CodeEquiv.StoreWF m) (hnow : env.now.unixNano = some now) :
    ∃ s m', Code.live env m id = .ok (s, m') ∧
      CodeEquiv.sessOpt s = ((CodeEquiv.storeOf m).live now id).2 ∧
      (∀ k, (CodeEquiv.storeOf m').sessions k = ((CodeEquiv.storeOf m).live now id).1.sessions k) ∧
      CodeEquiv.StoreWF m' := by
  obtain ⟨s, m', h1, h2, _, _, h5, h6⟩ := CodeEquiv.code_live env m id now hwf hnow
  exact ⟨s, m', h1, h2, h5, h6⟩

/-- NO HIDDEN STATE: the stores keep nothing but what the model says they keep: regenerated inventory of every package-level variable and struct field of internal/oidc; the Redis store has no mutable field (all its state is server-side), the memory store has its mutex, its map and the four fields of an entry. -/
theorem no_hidden_state : StoreInventory := store_inventory

end AuthProps.C12

#print axioms AuthProps.C12.memory_refines_spec
#print axioms AuthProps.C12.redis_refines_spec
#print axioms AuthProps.C12.stores_agree
#print axioms AuthProps.C12.memory_setTok
#print axioms AuthProps.C12.memory_setAuth
#print axioms AuthProps.C12.memory_getTok
#print axioms AuthProps.C12.memory_getAuth
#print axioms AuthProps.C12.memory_clearAuth
#print axioms AuthProps.C12.memory_remove
#print axioms AuthProps.C12.memory_sweep_invisible
#print axioms AuthProps.C12.read_sees_latest_write
#print axioms AuthProps.C12.read_sees_latest_login_state
#print axioms AuthProps.C12.ids_do_not_interfere
#print axioms AuthProps.C12.remove_erases_everything
#print axioms AuthProps.C12.clear_keeps_tokens
#print axioms AuthProps.C12.created_fixed_by_first_write
#print axioms AuthProps.C12.first_write_sets_created
#print axioms AuthProps.C12.replica_irrelevant
#print axioms AuthProps.C12.redis_clear_absent
#print axioms AuthProps.C12.redis_write_success_is_faultfree
#print axioms AuthProps.C12.redis_read_success_is_faultfree
#print axioms AuthProps.C12.redis_fault_is_error
#print axioms AuthProps.C12.no_hidden_state
#print axioms AuthProps.C12.code_new_session
#print axioms AuthProps.C12.code_redis_records
#print axioms AuthProps.C12.code_live_is_model
