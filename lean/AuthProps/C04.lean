/-
  C04  Login-flow binding: state, PKCE and client auth tie the code to its session.
-/
import AuthProofs.StateInventory
import AuthProofs.Ladder
import AuthProofs.StoreSeq
import AuthProofs.Finality
import AuthModel.Oidc.Sched
namespace AuthProps.C04
open AuthModel AuthModel.Oidc

/-- EVERY code exchange, on every path of every check in every environment (hence under every interleaving of any
    number of checks: a thread's own actions are a path of its tree), is made by a request on the callback path whose
    FIRST `state` value, parsed with the ported url.ParseQuery (no parse error), is non-empty and equals the `State`
    the store returned for the session named by THAT request's cookie; it carries that session's stored PKCE verifier,
    the configured redirect URI, the first `code` value, and the client id and secret; nothing else precedes it. -/
theorem exchange_requires_state (cfg : Cfg) (o : Oracles) (req : Req) (prev : Headers) :
    AllActs (IdpReqOK cfg o req) (process cfg o req prev) [] :=
  process_idp_requests cfg o req prev

/-- the PKCE challenge sent in the redirect that issued the session is S256 of the verifier stored for it -/
theorem challenge_matches (cfg : Cfg) (o : Oracles) (state nonce verifier : Str) :
    (B "code_challenge", o.s256 verifier) ∈ authParams cfg o state nonce verifier ∧
    (B "code_challenge_method", B "S256") ∈ authParams cfg o state nonce verifier := by
  simp [authParams]

/-- the login state is stored only under the freshly generated id, with the generated state, nonce and verifier -/
theorem state_stored_under_issued_id (cfg : Cfg) (o : Oracles) (req : Req) (prev : Headers) :
    AllActs (WriteOK cfg o req) (process cfg o req prev) [] :=
  process_writes cfg o req prev

/-- A SUCCESSFUL EXCHANGE CONSUMES THE LOGIN STATE (store level): after ClearAuthorizationState the stored login state
    is gone, whatever else the session holds; a later callback for that session reads `none` ... -/
theorem clear_consumes (m : SpecMap) (id : Str) : Spec.getAuth (Spec.clearAuth m id) id = none := by
  unfold Spec.clearAuth Spec.getAuth
  cases h : m id <;> simp [h, upd]

/-- ... and a callback that reads no login state answers 400 "session expired" WITHOUT any token request and without
    storing anything; one that reads a different state answers InvalidArgument, likewise. -/
theorem callback_without_state_no_exchange (cfg : Cfg) (o : Oracles) (req : Req) (sid : Str) :
    ∀ k, retrieveTokens cfg o req sid = .act (.getAuth sid) k → k (.auth (.ok none)) = .ret expired400 := by
  intro k hk
  unfold retrieveTokens at hk
  simp only at hk
  split at hk
  · cases hk
  · split at hk
    · cases hk
    · split at hk
      · cases hk
      · injection hk with _ hk2
        subst hk2
        rfl

/-- callback query robustness: a query that does not parse (bad escape, `;` separator), has no parameters, or lacks a
    non-empty `state` or `code` is answered InvalidArgument before any store or provider action -/
theorem query_robust (cfg : Cfg) (o : Oracles) (req : Req) (sid : Str)
    (h : (parseQuery (queryOf req.path)).2 = false ∨ (parseQuery (queryOf req.path)).1.isEmpty = true ∨
         valuesGet (parseQuery (queryOf req.path)).1 (B "state") = [] ∨
         valuesGet (parseQuery (queryOf req.path)).1 (B "code") = []) :
    retrieveTokens cfg o req sid = .ret (deny cInvalidArgument) := by
  unfold retrieveTokens
  simp only
  rcases h with h | h | h | h
  · simp [h]
  · by_cases h0 : (parseQuery (queryOf req.path)).2 = true <;> simp [h0, h]
  · by_cases h0 : (parseQuery (queryOf req.path)).2 = true <;>
      by_cases h1 : (parseQuery (queryOf req.path)).1.isEmpty = true <;> simp [h0, h1, h]
  · by_cases h0 : (parseQuery (queryOf req.path)).2 = true <;>
      by_cases h1 : (parseQuery (queryOf req.path)).1.isEmpty = true <;> simp [h0, h1, h]

/-- keys are case sensitive and the first value wins -/
example : valuesGet (parseQuery (B "State=x&state=a&state=b")).1 (B "state") = B "a" := by decide
example : (parseQuery (B "code=1;state=2")).2 = false := by decide
example : (parseQuery (B "code=%zz")).2 = false := by decide

/-! ### every interleaving: the login state is single-use up to the overlap window -/

/-- CONSUMPTION, FOR EVERY SCHEDULE. Any number of checks of one filter, interleaved in any way on a store that answers
    like the session map. Once the store has acknowledged `ClearAuthorizationState(sid)` - a callback does that after its
    exchange and validation succeeded (`clear_consumes`) - the ONLY callbacks that can still send a code to the token
    endpoint for `sid` are those that had already read the login state BEFORE the clearing: the overlap window of
    concurrent callbacks, in which the statement is silent. A callback that starts afterwards finds no login state - nobody
    writes login state under an existing id (`hfresh`, C06) - and makes no exchange: a state is single-use. -/
theorem consumed_state_no_later_exchange (cfg : Cfg) (o : Oracles) (reqOf : Nat → Req) (prevOf : Nat → Headers)
    (m0 mEnd : SpecMap) (pre mid post : List Ev) (eC eX : Ev) (sid uri code ru v cid cs : Str)
    (hruns : ∀ t, IsRun (process cfg o (reqOf t) (prevOf t)) (threadTrace (pre ++ eC :: (mid ++ eX :: post)) t))
    (hstore : Reach m0 (pre ++ eC :: (mid ++ eX :: post)) mEnd)
    (hfresh : ∀ e ∈ pre ++ eC :: (mid ++ eX :: post), e.act = .gen → ∀ n s v, e.res ≠ .gen sid n s v)
    (hC : eC.act = .clearAuth sid ∧ eC.res = .done true)
    (hX : eX.act = .idp (.code uri code ru v cid cs)) (hsid : sessionIdFromCookie cfg (reqOf eX.tid).cookie = sid) :
    ∃ q ∈ pre, q.tid = eX.tid ∧ ∃ a, q.act = .getAuth sid ∧ q.res = .auth (.ok (some a)) :=
  exchange_after_consumption_shape cfg o reqOf prevOf m0 mEnd pre mid post eC eX sid uri code ru v cid cs hruns hstore hfresh hC hX hsid

/- Non-vacuity: two callbacks of one login overlap - both read the login state, the first exchanges, validates, clears and
   stores, then the second exchanges. The global execution satisfies every hypothesis of the theorem. -/
def cfgX : Cfg :=
  { clientId := B "c", clientSecret := B "s", callbackUri := B "https://h/cb", cbScheme := B "https",
    cbHost := B "h", cbPort := [], cbPath := B "/cb", authUri := B "https://i/a", tokenUri := B "https://i/t",
    scopes := [B "openid"], cookiePrefix := B "p", idHeader := B "authorization", idPreamble := [],
    access := none, logout := some (B "/logout", B "https://i/out") }
def cbX : Req := { http := true, scheme := B "https", host := B "h", path := B "/cb?code=K&state=ST",
                   cookie := B "__Host-p-authservice-session-id-cookie=s" }
def wX : StoreW := { kind := 0, mem := (MemStore.empty 0 0).setAuth 0 (B "s")
                       { state := B "ST", nonce := B "N", requestedUrl := B "https://h/app", codeVerifier := B "V" } }
def oX : Oracles :=
  { attrs := fun s => if s = B "T1" then some { exp := 1000, aud := [B "c"], nonce := .str (B "N") } else none,
    sigOK := fun _ => true, s256 := fun v => v }
def scX : Script := { idp := .body { idToken := B "T1", accessToken := [], refreshToken := [], expiresIn := 0, tokenType := B "Bearer" } }
def tX : Thread := (Thread.spawn 200 scX (process cfgX oX cbX)).1
def x1 := tX.step wX 200           -- callback 1 reads the login state
def y1 := tX.step x1.1 200         -- callback 2 reads it too (overlap)
def x2 := x1.2.1.step y1.1 200     -- 1: code exchange
def x3 := x2.2.1.step x2.1 200     -- 1: key lookup
def x4 := x3.2.1.step x3.1 200     -- 1: ClearAuthorizationState
def x5 := x4.2.1.step x4.1 200     -- 1: SetTokenResponse, answers
def evsOf (tid : Nat) (l : List (Act × ARes)) : List Ev := l.map fun x => { tid := tid, act := x.1, res := x.2 }
def preX : List Ev := evsOf 1 x1.2.2 ++ evsOf 2 y1.2.2 ++ evsOf 1 x2.2.2 ++ evsOf 1 x3.2.2
def eCX : Ev := { tid := 1, act := .clearAuth (B "s"), res := .done true }
def midX : List Ev := evsOf 1 (x4.2.2.drop 1) ++ evsOf 1 x5.2.2
def eXX : Ev := { tid := 2, act := .idp (.code (B "https://i/t") (B "K") (B "https://h/cb") (B "V") (B "c") (B "s")), res := .idp scX.idp }
def trX : List Ev := preX ++ eCX :: (midX ++ eXX :: [])
def m0X : SpecMap := Spec.setAuth (fun _ => none) (B "s") { state := B "ST", nonce := B "N", requestedUrl := B "https://h/app", codeVerifier := B "V" } 0
example : x4.2.2.head? = some (Act.clearAuth (B "s"), ARes.done true) := by decide
example : IsRun (process cfgX oX cbX) (threadTrace trX 1) ∧ IsRun (process cfgX oX cbX) (threadTrace trX 2) := by decide
example : ∃ mEnd, Reach m0X trX mEnd := by
  have h : (replay m0X trX).isSome = true := by decide
  cases hr : replay m0X trX with
  | none => simp [hr] at h
  | some m' => exact ⟨m', replay_sound _ _ _ hr⟩
example : sessionIdFromCookie cfgX cbX.cookie = B "s" := by decide

/-- NO HIDDEN STATE: the model treats a check as a function of (configuration, request, store answers, clock, IdP and key-source answers, entropy); that is a faithful reading of the code only if nothing else survives from one check to the next. Regenerated on every run: every package-level variable and struct field of internal/server, internal/authz, internal/http, internal/oidc is the classified expectation, and handlers, filter, HTTP helpers and the Redis store own no mutable state (no verdict cache, handler cache, object pool, single-flight group or per-process copy of session data). -/
theorem no_hidden_state : CheckPathInventory := check_path_inventory

end AuthProps.C04

#print axioms AuthProps.C04.exchange_requires_state
#print axioms AuthProps.C04.challenge_matches
#print axioms AuthProps.C04.state_stored_under_issued_id
#print axioms AuthProps.C04.clear_consumes
#print axioms AuthProps.C04.callback_without_state_no_exchange
#print axioms AuthProps.C04.query_robust
#print axioms AuthProps.C04.consumed_state_no_later_exchange
#print axioms AuthProps.C04.no_hidden_state
