/-
  C04  Login-flow binding: state, PKCE and client auth tie the code to its session.
-/
import AuthProofs.Ladder
import AuthProofs.StoreSeq
namespace AuthProps.C04
open AuthModel AuthModel.Oidc

/-- EVERY code exchange, on every path of every check in every environment (hence under every interleaving of any
    number of checks: a thread's own actions are a path of its tree), is made by a request on the callback path whose
    FIRST `state` value, parsed with the ported url.ParseQuery (no parse error), is non-empty and equals the `State`
    the store returned for the session named by THAT request's cookie; it carries that session's stored PKCE verifier,
    the configured redirect URI, the first `code` value, and the client id and secret; nothing else precedes it. -/
theorem exchange_requires_state (cfg : Cfg) (o : Oracles) (req : Req) (prev : Headers) :
    AllActs (IdpReqOK cfg o req) (process cfg o req prev) [] :=
  process_idp_requests cfg o req prev

/-- the PKCE challenge sent in the redirect that issued the session is S256 of the verifier stored for it -/
theorem challenge_matches (cfg : Cfg) (o : Oracles) (state nonce verifier : Str) :
    (B "code_challenge", o.s256 verifier) ∈ authParams cfg o state nonce verifier ∧
    (B "code_challenge_method", B "S256") ∈ authParams cfg o state nonce verifier := by
  simp [authParams]

/-- the login state is stored only under the freshly generated id, with the generated state, nonce and verifier -/
theorem state_stored_under_issued_id (cfg : Cfg) (o : Oracles) (req : Req) (prev : Headers) :
    AllActs (WriteOK cfg o req) (process cfg o req prev) [] :=
  process_writes cfg o req prev

/-- A SUCCESSFUL EXCHANGE CONSUMES THE LOGIN STATE (store level): after ClearAuthorizationState the stored login state
    is gone, whatever else the session holds; a later callback for that session reads `none` ... -/
theorem clear_consumes (m : SpecMap) (id : Str) : Spec.getAuth (Spec.clearAuth m id) id = none := by
  unfold Spec.clearAuth Spec.getAuth
  cases h : m id <;> simp [h, upd]

/-- ... and a callback that reads no login state answers 400 "session expired" WITHOUT any token request and without
    storing anything; one that reads a different state answers InvalidArgument, likewise. -/
theorem callback_without_state_no_exchange (cfg : Cfg) (o : Oracles) (req : Req) (sid : Str) :
    ∀ k, retrieveTokens cfg o req sid = .act (.getAuth sid) k → k (.auth (.ok none)) = .ret expired400 := by
  intro k hk
  unfold retrieveTokens at hk
  simp only at hk
  split at hk
  · cases hk
  · split at hk
    · cases hk
    · split at hk
      · cases hk
      · injection hk with _ hk2
        subst hk2
        rfl

/-- callback query robustness: a query that does not parse (bad escape, `;` separator), has no parameters, or lacks a
    non-empty `state` or `code` is answered InvalidArgument before any store or provider action -/
theorem query_robust (cfg : Cfg) (o : Oracles) (req : Req) (sid : Str)
    (h : (parseQuery (queryOf req.path)).2 = false ∨ (parseQuery (queryOf req.path)).1.isEmpty = true ∨
         valuesGet (parseQuery (queryOf req.path)).1 (B "state") = [] ∨
         valuesGet (parseQuery (queryOf req.path)).1 (B "code") = []) :
    retrieveTokens cfg o req sid = .ret (deny cInvalidArgument) := by
  unfold retrieveTokens
  simp only
  rcases h with h | h | h | h
  · simp [h]
  · by_cases h0 : (parseQuery (queryOf req.path)).2 = true <;> simp [h0, h]
  · by_cases h0 : (parseQuery (queryOf req.path)).2 = true <;>
      by_cases h1 : (parseQuery (queryOf req.path)).1.isEmpty = true <;> simp [h0, h1, h]
  · by_cases h0 : (parseQuery (queryOf req.path)).2 = true <;>
      by_cases h1 : (parseQuery (queryOf req.path)).1.isEmpty = true <;> simp [h0, h1, h]

/-- keys are case sensitive and the first value wins -/
example : valuesGet (parseQuery (B "State=x&state=a&state=b")).1 (B "state") = B "a" := by decide
example : (parseQuery (B "code=1;state=2")).2 = false := by decide
example : (parseQuery (B "code=%zz")).2 = false := by decide

end AuthProps.C04

#print axioms AuthProps.C04.exchange_requires_state
#print axioms AuthProps.C04.challenge_matches
#print axioms AuthProps.C04.state_stored_under_issued_id
#print axioms AuthProps.C04.clear_consumes
#print axioms AuthProps.C04.callback_without_state_no_exchange
#print axioms AuthProps.C04.query_robust
