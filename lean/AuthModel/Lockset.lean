/-
  Lock-based execution traces: events of threads acquiring/releasing mutexes and reading/writing locations.
-/
namespace AuthModel
namespace Lockset

inductive Ev where
  | acq (t l : Nat)
  | rel (t l : Nat)
  | rd (t x : Nat)
  | wr (t x : Nat)
  deriving Repr, BEq, DecidableEq

def Ev.tid : Ev → Nat
  | .acq t _ | .rel t _ | .rd t _ | .wr t _ => t

/-- the location an event accesses, if it is an access -/
def Ev.loc : Ev → Option Nat
  | .rd _ x | .wr _ x => some x
  | _ => none

def step (h : Nat → Option Nat) : Ev → (Nat → Option Nat)
  | .acq t l => fun l' => if l' = l then some t else h l'
  | .rel _ l => fun l' => if l' = l then none else h l'
  | _ => h

/-- who holds each lock after the trace -/
def holders (tr : List Ev) : Nat → Option Nat := tr.foldl step (fun _ => none)

/-- mutex semantics: a lock is acquired only when free and released only by its holder -/
def WF (tr : List Ev) : Prop :=
  ∀ i : Nat, match (tr[i]? : Option Ev) with
    | some (Ev.acq _ l) => holders (tr.take i) l = none
    | some (Ev.rel t l) => holders (tr.take i) l = some t
    | _ => True

/-- happens-before on positions of the trace: program order, and an unlock synchronises-before every later lock of the
    same mutex (the Go memory model's rule for sync.Mutex), closed under transitivity -/
inductive HB (tr : List Ev) : Nat → Nat → Prop
  | po (i j : Nat) (e1 e2 : Ev) (hi : tr[i]? = some e1) (hj : tr[j]? = some e2) (hlt : i < j) (ht : e1.tid = e2.tid) : HB tr i j
  | sync (k m t t' l : Nat) (hk : tr[k]? = some (.rel t l)) (hm : tr[m]? = some (.acq t' l)) (hlt : k < m) : HB tr k m
  | trans (i j k : Nat) (h1 : HB tr i j) (h2 : HB tr j k) : HB tr i k

end Lockset
end AuthModel
