/-
  Line protocol between the Go harness and the Lean driver: tokens, hex strings, canonical printing.
  Everything works on `List Char` to stay independent of the String API.
-/
import AuthModel.Chain
namespace AuthModel.Wire
open AuthModel

abbrev Tok := List Char

def splitC (c : Char) : List Char → List (List Char)
  | [] => [[]]
  | a :: s =>
    if a = c then [] :: splitC c s
    else match splitC c s with
      | [] => [[a]]
      | x :: xs => (a :: x) :: xs

/-- split, but the empty token list for the empty input / "-" -/
def splitList (c : Char) (t : Tok) : List Tok :=
  if t = [] ∨ t = ['-'] then [] else splitC c t

def hexVal (c : Char) : Option Nat :=
  if '0' ≤ c ∧ c ≤ '9' then some (c.toNat - 48)
  else if 'a' ≤ c ∧ c ≤ 'f' then some (c.toNat - 87)
  else none

def unhexAux : List Char → Option Str
  | [] => some []
  | [_] => none
  | a :: b :: r => do
    let x ← hexVal a
    let y ← hexVal b
    let rest ← unhexAux r
    pure (UInt8.ofNat (x * 16 + y) :: rest)

/-- strings travel as `x<hex>` -/
def unhex (t : Tok) : Option Str :=
  match t with
  | 'x' :: r => unhexAux r
  | _ => none

def hexDigitC (n : Nat) : Char := if n < 10 then Char.ofNat (48 + n) else Char.ofNat (87 + n)

def hex (s : Str) : String :=
  String.ofList ('x' :: (s.map fun b => [hexDigitC (b.toNat / 16), hexDigitC (b.toNat % 16)]).flatten)

def natOf (t : Tok) : Option Nat := (String.ofList t).toNat?

def intOf (t : Tok) : Option Int :=
  match t with
  | '-' :: r => (natOf r).map fun n => - (Int.ofNat n)
  | _ => (natOf t).map Int.ofNat

def boolOf (t : Tok) : Option Bool :=
  match t with
  | ['1'] => some true
  | ['0'] => some false
  | _ => none

/-- insertion sort of header pairs by (key, value) bytes, for canonical output -/
def strLe : Str → Str → Bool
  | [], _ => true
  | _ :: _, [] => false
  | a :: s, b :: t => a < b || (a == b && strLe s t)

def pairLe (a b : Str × Str) : Bool := if a.1 == b.1 then strLe a.2 b.2 else strLe a.1 b.1

def insertSorted (x : Str × Str) : List (Str × Str) → List (Str × Str)
  | [] => [x]
  | y :: ys => if pairLe x y then x :: y :: ys else y :: insertSorted x ys

def sortPairs (l : List (Str × Str)) : List (Str × Str) := l.foldr insertSorted []

def showHeaders (sorted : Bool) (h : Headers) : String :=
  let h := if sorted then sortPairs h else h
  if h.isEmpty then "-" else String.intercalate "," (h.map fun kv => hex kv.1 ++ ":" ++ hex kv.2)

/-- canonical rendering of a response. OK headers come out of a Go map (random order): sorted.
    Denied headers are an ordered list: kept in order. -/
def showResp (r : Resp) : String :=
  let http := match r.http with
    | .none => "none"
    | .ok h => "ok:" ++ showHeaders true h
    | .denied d => "denied:" ++ toString d.status ++ ":" ++ showHeaders false d.headers ++ ":" ++ hex d.body
  "code=" ++ toString r.code ++ " msg=" ++ hex r.message ++ " http=" ++ http

def showOptResp : Option Resp → String
  | none => "error"
  | some r => showResp r

/-- k:v,k:v header list -/
def parseHeaders (t : Tok) : Option Headers :=
  (splitList ',' t).mapM fun kv =>
    match splitC ':' kv with
    | [k, v] => do pure ((← unhex k), (← unhex v))
    | _ => none

end AuthModel.Wire
