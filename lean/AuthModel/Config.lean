/-
  Model of internal/config.go: LocalConfigFile.Validate after protojson decoding - port check, URL checks,
  override checks, proto.Merge of an override over the default, per-filter checks, scope defaulting, and the generated
  validation rules (ported from the (validate.rules) annotations of config/v1/*.proto).
  URL parsing (net/url, redis.ParseURL) is an oracle: each OIDC document carries the parse results of its own URIs.
-/
import AuthModel.Str
namespace AuthModel
namespace Config

inductive SecretCfg where
  | unset | literal (s : Str) | ref (ns name : Str)
  deriving Repr, BEq, DecidableEq

inductive JwksCfg where
  | unset | inline (s : Str) | fetcher (uri : Str) (interval : Nat)
  deriving Repr, BEq, DecidableEq

structure TokenCfg where
  header : Str
  preamble : Str
  deriving Repr, BEq, DecidableEq

structure LogoutCfg where
  path : Str
  redirectUri : Str
  deriving Repr, BEq, DecidableEq

/-- a decoded `OIDCConfig` message (the fields that take part in loading) -/
structure OidcDoc where
  configurationUri : Str := []
  authorizationUri : Str := []
  tokenUri : Str := []
  callbackUri : Str := []
  jwks : JwksCfg := .unset
  clientId : Str := []
  secret : SecretCfg := .unset
  scopes : List Str := []
  cookiePrefix : Str := []
  idToken : Option TokenCfg := none
  accessToken : Option TokenCfg := none
  logout : Option LogoutCfg := none
  proxyUri : Str := []
  redisUri : Option Str := none         -- redis_session_store_config { server_uri }
  absTimeout : Nat := 0
  idleTimeout : Nat := 0
  deriving Repr, BEq, DecidableEq

/-- oracle: for a URI string, `none` if url.Parse fails, else `some path` (the path in its ESCAPED form, as the loader
    compares it with the logout path since the escaped-path fix; it is root iff the decoded path is root); and whether redis.ParseURL accepts it -/
structure UrlOracle where
  parse : Str → Option Str
  redisOk : Str → Bool

inductive FilterDoc where
  | none                              -- a filter object without a type
  | mock (allow : Bool)
  | oidc (d : OidcDoc)
  | override (d : OidcDoc)
  deriving Repr, BEq, DecidableEq

structure MatchDoc where
  header : Str
  criterionSet : Bool                 -- the oneof has an arm
  value : Str                         -- prefix or equality
  deriving Repr, BEq, DecidableEq

structure ChainDoc where
  name : Str
  criterion : Option MatchDoc
  filters : List FilterDoc
  deriving Repr, BEq, DecidableEq

structure Doc where
  chains : List ChainDoc
  listenAddressIsIP : Bool            -- oracle: net.ParseIP(listen_address) != nil
  listenPort : Int
  healthPort : Int
  logLevelOk : Bool                   -- log_level ∈ {trace, debug, info, error, critical}
  default : Option OidcDoc
  deriving Repr, BEq, DecidableEq

def isRootPath (p : Str) : Bool := p == B "/" || p == []

/-- `strings.Replace(uri, "tcp://", "redis://", 1)` is applied by the harness-side oracle; here the URI is opaque -/
def validateOidcUrls (u : UrlOracle) (d : OidcDoc) : Bool :=
  let ok (s : Str) : Bool := s == [] || (u.parse s).isSome
  let jwksUri := match d.jwks with | .fetcher uri _ => uri | _ => []
  ok d.proxyUri && ok d.tokenUri && ok d.configurationUri && ok d.authorizationUri && ok d.callbackUri && ok jwksUri &&
  (match d.redisUri with | some r => r == [] || u.redisOk r | none => true) &&
  !(d.callbackUri != [] && (match u.parse d.callbackUri with | some p => isRootPath p | none => false))

def validateUrls (u : UrlOracle) (doc : Doc) : Bool :=
  (match doc.default with | some d => validateOidcUrls u d | none => true) &&
  doc.chains.all fun c => c.filters.all fun f =>
    match f with
    | .oidc d => validateOidcUrls u d
    | .override d => validateOidcUrls u d
    | _ => true

def isOidcLike : FilterDoc → Bool
  | .oidc _ | .override _ => true
  | _ => false

/-- the override loop: `none` = accepted so far -/
def overrideChecks (doc : Doc) : Bool :=
  doc.chains.all fun c =>
    (c.filters.all fun f =>
      match f with
      | .oidc _ => doc.default.isNone
      | .override _ => doc.default.isSome
      | _ => true) &&
    (c.filters.filter isOidcLike).length ≤ 1

def mergeTok (a b : Option TokenCfg) : Option TokenCfg :=
  match a, b with
  | x, none => x
  | none, some y => some y
  | some x, some y => some { header := if y.header ≠ [] then y.header else x.header,
                             preamble := if y.preamble ≠ [] then y.preamble else x.preamble }

/-- `proto.Merge(clone(default), override)`: set scalars overwrite, repeated fields append, messages merge field by
    field, a set oneof arm replaces (same message arm: merges) -/
def merge (d o : OidcDoc) : OidcDoc :=
  let s (x y : Str) : Str := if y ≠ [] then y else x
  { configurationUri := s d.configurationUri o.configurationUri,
    authorizationUri := s d.authorizationUri o.authorizationUri,
    tokenUri := s d.tokenUri o.tokenUri,
    callbackUri := s d.callbackUri o.callbackUri,
    jwks := match d.jwks, o.jwks with
      | x, .unset => x
      | .fetcher u1 i1, .fetcher u2 i2 => .fetcher (s u1 u2) (if i2 ≠ 0 then i2 else i1)
      | _, y => y,
    clientId := s d.clientId o.clientId,
    secret := match d.secret, o.secret with
      | x, .unset => x
      | .ref n1 m1, .ref n2 m2 => .ref (s n1 n2) (s m1 m2)
      | _, y => y,
    scopes := d.scopes ++ o.scopes,
    cookiePrefix := s d.cookiePrefix o.cookiePrefix,
    idToken := mergeTok d.idToken o.idToken,
    accessToken := mergeTok d.accessToken o.accessToken,
    logout := match d.logout, o.logout with
      | x, none => x
      | none, some y => some y
      | some x, some y => some { path := s x.path y.path, redirectUri := s x.redirectUri y.redirectUri },
    proxyUri := s d.proxyUri o.proxyUri,
    redisUri := match d.redisUri, o.redisUri with
      | x, none => x
      | none, some y => some y
      | some x, some y => some (s x y),
    absTimeout := if o.absTimeout ≠ 0 then o.absTimeout else d.absTimeout,
    idleTimeout := if o.idleTimeout ≠ 0 then o.idleTimeout else d.idleTimeout }

def scopeOpenid : Str := B "openid"

/-- `applyOIDCDefaults` -/
def applyDefaults (d : OidcDoc) : OidcDoc :=
  if d.scopes.contains scopeOpenid then d else { d with scopes := d.scopes ++ [scopeOpenid] }

/-- a discovery URI, or authorization + token endpoints and a key source -/
def endpointsOk (d : OidcDoc) : Bool :=
  d.configurationUri ≠ [] ||
    (d.authorizationUri ≠ [] && d.tokenUri ≠ [] &&
      (match d.jwks with | .inline s => s ≠ [] | .fetcher uri _ => uri ≠ [] | .unset => false))

/-- the separators of RFC 2616 tokens (quoted in `isCookieNameToken`, internal/config.go) -/
def cookieSeparators : Str := B "()<>@,;:\\\"/[]?={}"

/-- `isCookieNameToken`: visible US-ASCII without separators (the empty prefix included) -/
def isCookieNameToken (s : Str) : Bool :=
  s.all fun c => decide (32 < c.toNat) && decide (c.toNat < 127) && !(cookieSeparators.contains c)

/-- per-filter step of `mergeAndValidateOIDCConfigs`: the resolved filter and whether an error was recorded;
    `none` = immediate return with an error (root logout path) -/
def resolveFilter (u : UrlOracle) (dflt : Option OidcDoc) (f : FilterDoc) : Option (FilterDoc × Bool) :=
  match f with
  | .mock a => some (.mock a, true)
  | .none => some (.none, true)
  | .oidc d => step d
  | .override o =>
    match dflt with
    | some d => step (merge d o)
    | none => some (.none, false)           -- unreachable after overrideChecks
where
  step (d : OidcDoc) : Option (FilterDoc × Bool) :=
    let urlsOk := endpointsOk d && isCookieNameToken d.cookiePrefix
    let d' := applyDefaults d
    match d'.logout with
    | some lo =>
      if isRootPath lo.path then none
      else
        let cbPath := (u.parse d'.callbackUri).getD []
        some (.oidc d', urlsOk && cbPath != lo.path)
    | none => some (.oidc d', urlsOk)

/-- the generated rules (`ValidateAll`) on a resolved filter -/
def validOidc (d : OidcDoc) : Bool :=
  d.callbackUri ≠ [] && d.clientId ≠ [] && !(d.clientId.contains 58) &&
  (match d.secret with | .literal s => s ≠ [] | .ref _ name => name ≠ [] | .unset => false) &&
  (match d.idToken with | some t => t.header ≠ [] | none => false) &&
  (match d.accessToken with | some t => t.header ≠ [] | none => true) &&
  (match d.logout with | some l => l.path ≠ [] | none => true) &&
  (match d.redisUri with | some r => r ≠ [] | none => true)

def validFilter : FilterDoc → Bool
  | .mock _ => true
  | .oidc d => validOidc d
  | _ => false

def validChain (c : ChainDoc) : Bool :=
  c.name ≠ [] && c.filters.length ≥ 1 &&
  (match c.criterion with | some m => m.header ≠ [] && m.criterionSet && m.value ≠ [] | none => true) &&
  c.filters.all validFilter

/-- the loaded configuration -/
structure Loaded where
  chains : List ChainDoc
  deriving Repr, BEq, DecidableEq

def mapM' {α β} (f : α → Option β) : List α → Option (List β)
  | [] => some []
  | a :: as => match f a, mapM' f as with
    | some b, some bs => some (b :: bs)
    | _, _ => none

/-- `Validate`: `none` = an error is returned -/
def load (u : UrlOracle) (doc : Doc) : Option Loaded :=
  if doc.listenPort = doc.healthPort then none
  else if !validateUrls u doc then none
  else if !overrideChecks doc then none
  else
    match mapM' (fun c => (mapM' (resolveFilter u doc.default) c.filters).map fun fs => (c, fs)) doc.chains with
    | none => none
    | some resolved =>
      if !(resolved.all fun cf => cf.2.all (·.2)) then none
      else
        let chains := resolved.map fun cf => { cf.1 with filters := cf.2.map (·.1) }
        if chains.length ≥ 1 && doc.listenAddressIsIP && decide (doc.listenPort < 65536) && decide (doc.healthPort < 65536) &&
           doc.logLevelOk && chains.all validChain
        then some { chains := chains } else none

end Config
end AuthModel
