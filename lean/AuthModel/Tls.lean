/-
  Model of internal/tls.go (+ file.go, boolstr.go): the trust decision of LoadTLSConfig, the pool keyed by the
  settings, the file watchers keyed by (settings id, path), CA rotation.
  CA material is abstract: a `Str` content; `pemOk` (oracle) says whether AppendCertsFromPEM accepts it.
-/
import AuthModel.Str
namespace AuthModel
namespace Tls

inductive Skip where
  | unset | bool (b : Bool) | str (s : Str)
  deriving Repr, BEq, DecidableEq

structure Settings where
  caInline : Str
  caFile : Str
  skip : Skip
  interval : Int            -- refresh interval, ns (≤ 0: no watching)
  deriving Repr, BEq, DecidableEq

/-- what a connection trusts: the system roots, plus `extra` when present; or nothing is verified at all -/
structure Trust where
  insecure : Bool
  extra : Option Str        -- content of the CA added to the system roots
  deriving Repr, BEq, DecidableEq

structure Oracle where
  parseBool : Str → Bool     -- strconv.ParseBool (false on error)
  pemOk : Str → Bool         -- AppendCertsFromPEM succeeds

/-- `BoolStrValue` -/
def boolStr (o : Oracle) : Skip → Bool
  | .unset => false
  | .bool b => b
  | .str s => if s ≠ [] then o.parseBool s else false

/-- what the pool is keyed by: `encodeConfig(config).hash()` - the CA, the file, the refresh interval and the MEANING
    of skip-verify (`BoolStrValue`), not its spelling: unset, false, "false" and an unparsable string are one key -/
structure Key where
  caInline : Str
  caFile : Str
  skip : Bool
  interval : Int
  deriving Repr, BEq, DecidableEq

def keyOf (o : Oracle) (s : Settings) : Key :=
  { caInline := s.caInline, caFile := s.caFile, skip := boolStr o s.skip, interval := s.interval }

structure Watcher where
  id : Key × Str             -- (pool entry, path): the reader ID after 6ef1ffe
  alive : Bool
  data : Str
  deriving Repr, BEq, DecidableEq

structure State where
  pool : List (Key × Trust)
  watchers : List Watcher
  files : Str → Option Str   -- path ↦ content (none: unreadable)

inductive LoadResult where
  | noConfig                 -- nil *tls.Config: library defaults (system roots)
  | cfg (t : Trust)
  | error
  deriving Repr, BEq, DecidableEq

def lookupPool (p : List (Key × Trust)) (s : Key) : Option Trust :=
  (p.find? (fun e => decide (e.1 = s))).map (·.2)

/-- `WatchFile`: supersede the watcher with the same id, read the file, start a new watcher if interval > 0 -/
def watchFile (st : State) (s : Key) : State × Option Str :=
  let wid := (s, s.caFile)
  let ws := st.watchers.map fun w => if w.id = wid then { w with alive := false } else w
  match st.files s.caFile with
  | none => ({ st with watchers := ws }, none)
  | some data =>
    if s.interval ≤ 0 then ({ st with watchers := ws }, some data)
    else ({ st with watchers := ws ++ [{ id := wid, alive := true, data := data }] }, some data)

/-- `LoadTLSConfig` -/
def load (o : Oracle) (st : State) (s : Settings) : State × LoadResult :=
  if s.caInline = [] ∧ s.caFile = [] ∧ s.skip = .unset then (st, .noConfig)
  else match lookupPool st.pool (keyOf o s) with
    | some t => (st, .cfg t)
    | none =>
      if s.caInline ≠ [] then finish st (keyOf o s) s.caInline false
      else if s.caFile ≠ [] then
        match watchFile st (keyOf o s) with
        | (st', none) => (st', .error)
        | (st', some data) => finish st' (keyOf o s) data false
      else finish st (keyOf o s) [] (boolStr o s.skip)
where
  finish (st : State) (s : Key) (ca : Str) (insecure : Bool) : State × LoadResult :=
    if ca ≠ [] then
      if o.pemOk ca then
        let t : Trust := { insecure := insecure, extra := some ca }
        ({ st with pool := st.pool ++ [(s, t)] }, .cfg t)
      else (st, .error)
    else
      let t : Trust := { insecure := insecure, extra := none }
      ({ st with pool := st.pool ++ [(s, t)] }, .cfg t)

/-- `updateCA(id, data)` -/
def updateCA (o : Oracle) (pool : List (Key × Trust)) (s : Key) (data : Str) : List (Key × Trust) :=
  if o.pemOk data then pool.map fun e => if e.1 = s then (e.1, { e.2 with extra := some data }) else e
  else pool

/-- one tick of every live watcher: re-read, and on a content change invoke the callback -/
def tickAll (o : Oracle) (st : State) : State :=
  st.watchers.foldl (fun acc w =>
    if !w.alive then acc
    else match st.files w.id.2 with
      | none => acc
      | some data =>
        if data = w.data then acc
        else { acc with
                pool := updateCA o acc.pool w.id.1 data,
                watchers := acc.watchers.map fun w' => if w'.id = w.id ∧ w'.alive = true then { w' with data := data } else w' }) st

def rewrite (st : State) (path : Str) (content : Option Str) : State :=
  { st with files := fun p => if p = path then content else st.files p }

/-- the certificates of a CA content: a PEM bundle holds several, here named `A+B` (every block of it is trusted) -/
def certsOf (content : Str) : List Str := Str.splitOn 43 content

/-- does a client built from this load result accept a server whose certificate chains to `serverCA`
    (`none`: a certificate no configured CA and no system root vouches for)? -/
def accepts (t : LoadResult) (serverCA : Option Str) : Bool :=
  match t with
  | .noConfig => false
  | .error => false
  | .cfg t => t.insecure || (match t.extra, serverCA with | some e, some c => (certsOf e).contains c | _, _ => false)

def init : State := { pool := [], watchers := [], files := fun _ => none }

end Tls
end AuthModel
