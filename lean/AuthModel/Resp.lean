/-
  The observable part of an envoy CheckResponse.
-/
import AuthModel.Str
namespace AuthModel

/-- gRPC status codes used by the service. -/
def cOK : Nat := 0
def cUnknown : Nat := 2
def cInvalidArgument : Nat := 3
def cPermissionDenied : Nat := 7
def cInternal : Nat := 13
def cUnauthenticated : Nat := 16

abbrev Headers := List (Str × Str)

structure Denied where
  status : Nat := 0          -- HTTP status of the denied response, 0 = not set (Envoy then uses 403)
  headers : Headers := []
  body : Str := []
  deriving Repr, BEq, DecidableEq

inductive HttpResp where
  | none
  | ok (headers : Headers)
  | denied (d : Denied)
  deriving Repr, BEq, DecidableEq

structure Resp where
  code : Nat := 0
  message : Str := []
  http : HttpResp := .none
  deriving Repr, BEq, DecidableEq

/-- `resp.Status == nil` is read as code 0 by the Go getters; the empty response of `Check` -/
def Resp.empty : Resp := {}

def Resp.isOK (r : Resp) : Bool := r.code == cOK

end AuthModel
