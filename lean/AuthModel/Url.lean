/-
  Ports of Go's net/url query functions used by the handler: QueryEscape, QueryUnescape, ParseQuery,
  Values.Encode (for the fixed key sets the handler uses), Values.Get.
-/
import AuthModel.Str
namespace AuthModel
open Str

/-- `shouldEscape(c, encodeQueryComponent)` negated: bytes left as they are by `QueryEscape` -/
def unreserved (b : UInt8) : Bool :=
  (97 ≤ b && b ≤ 122) || (65 ≤ b && b ≤ 90) || (48 ≤ b && b ≤ 57) || b == 45 || b == 95 || b == 46 || b == 126

def upperHex (n : UInt8) : UInt8 := if n < 10 then 48 + n else 55 + n

/-- `url.QueryEscape` -/
def queryEscape : Str → Str
  | [] => []
  | b :: s =>
    if b = 32 then 43 :: queryEscape s
    else if unreserved b then b :: queryEscape s
    else 37 :: upperHex (b >>> 4) :: upperHex (b &&& 15) :: queryEscape s

/-- `url.QueryUnescape`; `none` is the EscapeError -/
def queryUnescape : Str → Option Str
  | [] => some []
  | 37 :: h :: l :: s =>
    match unhex h, unhex l, queryUnescape s with
    | some x, some y, some r => some ((x <<< 4 ||| y) :: r)
    | _, _, _ => none
  | [37] => none
  | [37, _] => none
  | b :: s =>
    match queryUnescape s with
    | some r => some ((if b = 43 then 32 else b) :: r)
    | none => none

/-- `url.ParseQuery`: `(values in order of appearance, ok)`; `ok = false` iff Go returns a non-nil error.
    Go keeps parsing after an error; only the presence of the error matters to the handler. -/
def parseQuery (q : Str) : List (Str × Str) × Bool :=
  (splitOn 38 q).foldl (fun (acc : List (Str × Str) × Bool) (kv : Str) =>
    if kv = [] then acc
    else if containsByte 59 kv then (acc.1, false)            -- "invalid semicolon separator in query"
    else
      let (k, v) := cut 61 kv
      match queryUnescape k with
      | none => (acc.1, false)
      | some k' =>
        match queryUnescape (v.getD []) with
        | none => (acc.1, false)
        | some v' => (acc.1 ++ [(k', v')], acc.2)) ([], true)

/-- `Values.Get`: first value for the key, "" if none -/
def valuesGet (vs : List (Str × Str)) (k : Str) : Str :=
  match vs.find? (·.1 == k) with
  | some kv => kv.2
  | none => []

/-- `Values.Encode` for a list of single-valued pairs ALREADY SORTED by key (all call sites use fixed key sets) -/
def encodeSorted (kvs : List (Str × Str)) : Str :=
  Str.join [38] (kvs.map fun kv => queryEscape kv.1 ++ [61] ++ queryEscape kv.2)

end AuthModel
