/-
  Types of the OIDC handler model: resolved configuration, request, oracles, external actions.
-/
import AuthModel.Resp
import AuthModel.Http
import AuthModel.Url
import AuthModel.Store.Types
namespace AuthModel

/-- a resolved OIDC filter configuration, as the handler sees it -/
structure Cfg where
  clientId : Str
  clientSecret : Str
  callbackUri : Str
  cbScheme : Str            -- url.Parse(callbackUri): Scheme, Hostname(), Port(), EscapedPath() (oracle, supplied by the harness)
  cbHost : Str
  cbPort : Str
  cbPath : Str
  authUri : Str
  tokenUri : Str
  scopes : List Str
  cookiePrefix : Str
  idHeader : Str
  idPreamble : Str
  access : Option (Str × Str)      -- (header, preamble) when access-token forwarding is configured
  logout : Option (Str × Str)      -- (path, redirect uri) when logout is configured
  deriving Repr, BEq, DecidableEq

structure Req where
  http : Bool                       -- the CheckRequest carries an HTTP request
  scheme : Str := []
  host : Str := []
  path : Str := []                  -- the :path pseudo header (path?query#fragment)
  query : Str := []
  cookie : Str := []                -- headers["cookie"], "" if absent
  deriving Repr, BEq, DecidableEq

inductive NonceClaim where
  | absent | str (s : Str) | other
  deriving Repr, BEq, DecidableEq

/-- what `jwt.Parse` (without validation) makes of a token string -/
structure TokAttrs where
  exp : Int                          -- `exp` claim as a time in ns (zero time = very negative number)
  aud : List Str
  nonce : NonceClaim
  deriving Repr, BEq, DecidableEq

/-- library behaviour the model does not contain -/
structure Oracles where
  attrs : Str → Option TokAttrs      -- `none`: the string does not parse as a JWT
  sigOK : Str → Bool                 -- jws.Verify against the configured key set
  s256 : Str → Str                   -- oauth2.S256ChallengeFromVerifier

/-- body of a 200 answer of the token endpoint after `json.Unmarshal` -/
structure IdpBody where
  idToken : Str
  accessToken : Str
  refreshToken : Str
  expiresIn : Int
  tokenType : Str
  deriving Repr, BEq, DecidableEq

inductive IdpAns where
  | transportErr                     -- client.Do failed / body unreadable
  | status (n : Nat)                 -- non-200
  | undecodable                      -- json.Unmarshal error, or JSON `null`
  | body (b : IdpBody)
  deriving Repr, BEq, DecidableEq

/-- a request to the token endpoint (form fields as a structure; the wire encoding is compared by the harness) -/
inductive IdpReq where
  | code (uri code redirectUri verifier clientId clientSecret : Str)     -- authorization_code grant, Basic auth
  | refresh (uri refreshToken clientId clientSecret : Str)               -- refresh_token grant, credentials in the form
  deriving Repr, BEq, DecidableEq

/-- one external action of a check -/
inductive Act where
  | removeSession (id : Str)
  | getTok (id : Str)
  | setTok (id : Str) (t : Tokens)
  | getAuth (id : Str)
  | setAuth (id : Str) (a : AuthState)
  | clearAuth (id : Str)
  | idp (r : IdpReq)
  | keys
  | gen
  | now
  deriving Repr, BEq, DecidableEq

/-- what the environment answers to an action -/
inductive ARes where
  | done (ok : Bool)                          -- store writes
  | tok (r : SRes (Option Tokens))
  | auth (r : SRes (Option AuthState))
  | idp (a : IdpAns)
  | keys (ok : Bool)
  | gen (sid nonce state verifier : Str)
  | time (t : Int)
  deriving Repr, BEq, DecidableEq

/-- a check as an interaction tree: it either answers, or performs one action and continues with the result -/
inductive Prog where
  | ret (r : Resp)
  | act (a : Act) (k : ARes → Prog)

end AuthModel
