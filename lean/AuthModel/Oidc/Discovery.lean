/-
  Endpoint discovery: internal/oidc/discovery.go `GetWellKnownConfig` (process-wide cache by URL) and
  internal/authz/oidc.go `loadWellKnownConfig` (patches the OIDC configuration before the handler is built).
  The result is the configuration the handler of `Oidc/Handler.lean` runs with.
-/
import AuthModel.Oidc.Types
namespace AuthModel
namespace Discovery

/-- the members of the discovery document the code uses -/
structure WellKnown where
  authorizationEndpoint : Str
  tokenEndpoint : Str
  jwksUri : Str
  endSessionEndpoint : Str
  deriving Repr, BEq, DecidableEq

/-- answer of the discovery endpoint to one GET -/
inductive FetchAns where
  | transportErr
  | status (n : Nat)          -- non-200
  | undecodable
  | doc (d : WellKnown)
  deriving Repr, BEq, DecidableEq

abbrev Cache := List (Str × WellKnown)

def lookup (c : Cache) (url : Str) : Option WellKnown := (c.find? (·.1 = url)).map (·.2)

/-- `GetWellKnownConfig`: a cached document is returned without a request; only a decoded 200 answer is cached.
    Returns the cache, the result and whether a request was made. -/
def getWellKnown (c : Cache) (url : Str) (ans : FetchAns) : Cache × Option WellKnown × Bool :=
  match lookup c url with
  | some d => (c, some d, false)
  | none =>
    match ans with
    | .doc d => ((url, d) :: c, some d, true)
    | _ => (c, none, true)

/-- how signing keys are configured -/
inductive Jwks where
  | unset
  | static (keys : Str)
  | fetcher (uri : Str) (intervalSec : Nat) (skipVerify : Bool)
  deriving Repr, BEq, DecidableEq

/-- the part of the OIDC configuration discovery reads or writes -/
structure DCfg where
  configurationUri : Str
  authUri : Str
  tokenUri : Str
  jwks : Jwks
  logout : Option (Str × Str)      -- (path, redirect uri)
  deriving Repr, BEq, DecidableEq

inductive DErr where
  | fetch                          -- the document could not be obtained
  | missingLogoutRedirect          -- logout configured without redirect uri and none advertised
  deriving Repr, BEq, DecidableEq

/-- `loadWellKnownConfig` once the document is known -/
def patch (c : DCfg) (d : WellKnown) : Except DErr DCfg :=
  let c1 := { c with
    authUri := d.authorizationEndpoint,
    tokenUri := d.tokenEndpoint,
    jwks := match c.jwks with
      | .fetcher _ i s => .fetcher d.jwksUri i s
      | _ => .fetcher d.jwksUri 0 false }
  match c.logout with
  | some (path, redirect) =>
    if redirect = [] then
      if d.endSessionEndpoint = [] then .error .missingLogoutRedirect
      else .ok { c1 with logout := some (path, d.endSessionEndpoint) }
    else .ok c1
  | none => .ok c1

/-- `loadWellKnownConfig` -/
def load (cache : Cache) (c : DCfg) (ans : FetchAns) : Cache × Except DErr DCfg × Bool :=
  if c.configurationUri = [] then (cache, .ok c, false)
  else
    match getWellKnown cache c.configurationUri ans with
    | (cache', some d, req) => (cache', patch c d, req)
    | (cache', none, req) => (cache', .error .fetch, req)

/-- the endpoints of a handler configuration replaced by the resolved ones -/
def applyTo (cfg : Cfg) (r : DCfg) : Cfg :=
  { cfg with authUri := r.authUri, tokenUri := r.tokenUri, logout := r.logout }

def ofCfg (cfg : Cfg) (configurationUri : Str) (jwks : Jwks) : DCfg :=
  { configurationUri := configurationUri, authUri := cfg.authUri, tokenUri := cfg.tokenUri, jwks := jwks, logout := cfg.logout }

end Discovery
end AuthModel
