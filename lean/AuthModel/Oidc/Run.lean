/-
  Sequential semantics of a check: the interaction tree is run to completion against a world
  (store model, clock, scripted generator / token endpoint / key source, fault schedule).
-/
import AuthModel.Oidc.Handler
import AuthModel.Store.Memory
import AuthModel.Store.Redis
namespace AuthModel
open Str

/-- the session store of a world: the memory model or the Redis model -/
structure StoreW where
  kind : Nat := 0                 -- 0 memory, 1 redis
  mem : MemStore := MemStore.empty 0 0
  abs : Int := 0
  idle : Int := 0
  red : Str → RHash := fun _ => {}
  parses : Str → Bool := fun _ => false

namespace StoreW

def setTok (w : StoreW) (now : Int) (id : Str) (t : Tokens) : StoreW × Bool :=
  if w.kind = 0 then ({ w with mem := w.mem.setTok now id t }, true)
  else let (h, ok) := Redis.setTok w.abs w.idle now t (w.red id); ({ w with red := upd w.red id h }, ok)

def setAuth (w : StoreW) (now : Int) (id : Str) (a : AuthState) : StoreW × Bool :=
  if w.kind = 0 then ({ w with mem := w.mem.setAuth now id a }, true)
  else let (h, ok) := Redis.setAuth w.abs w.idle now a (w.red id); ({ w with red := upd w.red id h }, ok)

def getTok (w : StoreW) (now : Int) (id : Str) : StoreW × SRes (Option Tokens) :=
  if w.kind = 0 then let (m, r) := w.mem.getTok now id; ({ w with mem := m }, .ok r)
  else let (h, r) := Redis.getTok w.parses w.abs w.idle now (w.red id); ({ w with red := upd w.red id h }, r)

def getAuth (w : StoreW) (now : Int) (id : Str) : StoreW × SRes (Option AuthState) :=
  if w.kind = 0 then let (m, r) := w.mem.getAuth now id; ({ w with mem := m }, .ok r)
  else let (h, r) := Redis.getAuth w.abs w.idle now (w.red id); ({ w with red := upd w.red id h }, r)

def clearAuth (w : StoreW) (now : Int) (id : Str) : StoreW × Bool :=
  if w.kind = 0 then ({ w with mem := w.mem.clearAuth now id }, true)
  else let (h, ok) := Redis.clearAuth w.abs w.idle now (w.red id); ({ w with red := upd w.red id h }, ok)

def remove (w : StoreW) (id : Str) : StoreW × Bool :=
  if w.kind = 0 then ({ w with mem := w.mem.remove id }, true)
  else ({ w with red := upd w.red id (Redis.remove (w.red id)) }, true)

end StoreW

/-- scripted environment of ONE check -/
structure Script where
  gen : Str × Str × Str × Str := ([], [], [], [])
  idp : IdpAns := .transportErr
  keysOk : Bool := true
  faults : List Nat := []          -- per store call, in order: 0 ok, 1 fails before taking effect, 2 fails after

/-- a store action under a fault: 1 = not executed, error; 2 = executed, error reported -/
def withFault {α : Type} (fault : Nat) (w : StoreW) (run : StoreW → StoreW × α) (err : α) : StoreW × α :=
  if fault = 1 then (w, err)
  else
    let (w', r) := run w
    if fault = 2 then (w', err) else (w', r)

def isStoreAct : Act → Bool
  | .removeSession _ | .getTok _ | .setTok _ _ | .getAuth _ | .setAuth _ _ | .clearAuth _ => true
  | _ => false

/-- perform one action in the world -/
def perform (w : StoreW) (now : Int) (sc : Script) (fault : Nat) : Act → StoreW × ARes
  | .removeSession id => let (w', ok) := withFault fault w (fun w => w.remove id) false; (w', .done ok)
  | .getTok id => let (w', r) := withFault fault w (fun w => w.getTok now id) .err; (w', .tok r)
  | .setTok id t => let (w', ok) := withFault fault w (fun w => w.setTok now id t) false; (w', .done ok)
  | .getAuth id => let (w', r) := withFault fault w (fun w => w.getAuth now id) .err; (w', .auth r)
  | .setAuth id a => let (w', ok) := withFault fault w (fun w => w.setAuth now id a) false; (w', .done ok)
  | .clearAuth id => let (w', ok) := withFault fault w (fun w => w.clearAuth now id) false; (w', .done ok)
  | .idp _ => (w, .idp sc.idp)
  | .keys => (w, .keys sc.keysOk)
  | .gen => (w, .gen sc.gen.1 sc.gen.2.1 sc.gen.2.2.1 sc.gen.2.2.2)
  | .now => (w, .time now)

/-- run a check to completion; returns the final store, the response and the list of actions performed -/
def runProg (w : StoreW) (now : Int) (sc : Script) : Prog → List Nat → List Act → StoreW × Resp × List Act
  | .ret r, _, tr => (w, r, tr.reverse)
  | .act a k, faults, tr =>
    let fault := if isStoreAct a then faults.headD 0 else 0
    let faults' := if isStoreAct a then faults.tail else faults
    let (w', res) := perform w now sc fault a
    runProg w' now sc (k res) faults' (a :: tr)

end AuthModel
