/-
  Interleaved semantics: several checks in flight against one world. A scheduler step picks a thread and performs
  its next external action atomically (the granularity at which the memory store's mutex and a Redis round trip make
  things atomic); clock reads and generator draws are thread-local and happen eagerly with the preceding step.
-/
import AuthModel.Oidc.Run
namespace AuthModel

structure Thread where
  prog : Prog
  script : Script
  faults : List Nat

/-- clock reads and generator draws are not scheduling points -/
def isInternal : Act → Bool
  | .now | .gen => true
  | _ => false

/-- run the internal actions a thread performs before it reaches its next scheduling point (or its answer) -/
def settle (now : Int) (sc : Script) : Prog → List (Act × ARes) → Prog × List (Act × ARes)
  | .ret r, acc => (.ret r, acc.reverse)
  | .act a k, acc =>
    if isInternal a then
      let res : ARes := match a with
        | .now => .time now
        | _ => .gen sc.gen.1 sc.gen.2.1 sc.gen.2.2.1 sc.gen.2.2.2
      settle now sc (k res) ((a, res) :: acc)
    else (.act a k, acc.reverse)

/-- one scheduler step of a thread: its next external action, then whatever is internal after it.
    Returns the new store, the thread, and the (action, answer) pairs performed. -/
def Thread.step (w : StoreW) (now : Int) (t : Thread) : StoreW × Thread × List (Act × ARes) :=
  match t.prog with
  | .ret _ => (w, t, [])
  | .act a k =>
    let fault := if isStoreAct a then t.faults.headD 0 else 0
    let faults' := if isStoreAct a then t.faults.tail else t.faults
    let (w', res) := perform w now t.script fault a
    let (p', more) := settle now t.script (k res) []
    (w', { t with prog := p', faults := faults' }, (a, res) :: more)

def Thread.answer (t : Thread) : Option Resp :=
  match t.prog with
  | .ret r => some r
  | _ => none

/-- a new thread: the check started and ran up to its first scheduling point -/
def Thread.spawn (now : Int) (sc : Script) (p : Prog) : Thread × List (Act × ARes) :=
  let (p', acts) := settle now sc p []
  ({ prog := p', script := sc, faults := sc.faults }, acts)

end AuthModel
