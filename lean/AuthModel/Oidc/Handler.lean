/-
  Model of internal/authz/oidc.go: Process, redirectToIDP, retrieveTokens, refreshToken, the validators,
  header encoding, cookie functions, path matchers - as an interaction tree (`Prog`): one node per external
  action (store call, token-endpoint call, key lookup, generator, clock), pure decisions in between.
-/
import AuthModel.Oidc.Types
namespace AuthModel
open Str

namespace Oidc

/-! ### constants of the implementation (tied to the source by Generated/Facts.lean obligations) -/

def stdHeaders : Headers := [(B "cache-control", B "no-cache"), (B "pragma", B "no-cache")]
def sessionErrorBody : Str := B "There was an error accessing your session data. Try again later."
def expiredBody : Str := B "Oops, your session has expired. Please try again."
def cookiePrefixConst : Str := B "__Host-"
def cookieSuffixConst : Str := B "-authservice-session-id-cookie"
def defaultCookieName : Str := B "__Host-authservice-session-id-cookie"
def cookieDirectives : List Str := [B "HttpOnly", B "Secure", B "SameSite=Lax", B "Path=/"]

/-! ### responses -/

def deny (code : Nat) : Resp := { code := code, http := .denied { headers := stdHeaders } }
def sessErr : Resp := { code := cUnauthenticated, http := .denied { body := sessionErrorBody } }
def expired400 : Resp :=
  { code := cUnauthenticated, http := .denied { status := 400, headers := stdHeaders, body := expiredBody } }
def found (loc : Str) : Resp :=
  { code := cUnauthenticated, http := .denied { status := 302, headers := stdHeaders ++ [(B "location", loc)] } }
def redirectWithCookie (loc cookie : Str) : Resp :=
  { code := cUnauthenticated,
    http := .denied { status := 302, headers := stdHeaders ++ [(B "location", loc), (B "set-cookie", cookie)] } }

/-! ### cookies -/

def cookieName (cfg : Cfg) : Str :=
  if cfg.cookiePrefix ≠ [] then cookiePrefixConst ++ cfg.cookiePrefix ++ cookieSuffixConst else defaultCookieName

/-- `generateSetCookieHeader(name, value, timeout)`; `maxAge = none` is the negative timeout (no Max-Age) -/
def setCookie (name value : Str) (maxAge : Option Nat) : Str :=
  encodeCookie name value (cookieDirectives ++ match maxAge with
    | some n => [B "Max-Age=" ++ Str.ofNat n]
    | none => [])

/-- `getSessionIDFromCookie` -/
def sessionIdFromCookie (cfg : Cfg) (cookieHdr : Str) : Str :=
  if cookieHdr = [] then [] else (lookupLast (decodeCookies cookieHdr) (cookieName cfg)).getD []

/-! ### path matchers -/

def matchesLogout (cfg : Cfg) (req : Req) : Bool :=
  match cfg.logout with
  | none => false
  | some (p, _) => pathOf req.path == p

def matchesCallback (cfg : Cfg) (req : Req) : Bool :=
  let hostAndPort := if cfg.cbPort ≠ [] then cfg.cbHost ++ [58] ++ cfg.cbPort else cfg.cbHost
  let hostMatches := req.host == hostAndPort ||
    (cfg.cbScheme == B "https" && cfg.cbPort == B "443" && req.host == cfg.cbHost) ||
    (cfg.cbScheme == B "http" && cfg.cbPort == B "80" && req.host == cfg.cbHost)
  pathOf req.path == cfg.cbPath && hostMatches

/-! ### tokens -/

def encodeHeaderValue (preamble value : Str) : Str := if preamble ≠ [] then preamble ++ [32] ++ value else value

/-- `encodeTokensToHeaders`: a Go map, so an access-token header equal to the ID-token header overwrites it -/
def encodeTokens (cfg : Cfg) (t : Tokens) : Headers :=
  let idh := (cfg.idHeader, encodeHeaderValue cfg.idPreamble t.idToken)
  match cfg.access with
  | none => [idh]
  | some (h, p) =>
    if t.accessToken = [] then [idh]
    else if h = cfg.idHeader then [(h, encodeHeaderValue p t.accessToken)]
    else [idh, (h, encodeHeaderValue p t.accessToken)]

/-- `allowResponse`: appends to the OK headers an earlier filter of the chain may have left -/
def allow (cfg : Cfg) (prev : Headers) (t : Tokens) : Resp :=
  { code := cOK, http := .ok (prev ++ encodeTokens cfg t) }

/-- `areRequiredTokensExpired` once the ID token parsed: `exp` before now, or a known access-token expiry before now -/
def tokensExpired (cfg : Cfg) (a : TokAttrs) (t : Tokens) (now : Int) : Bool :=
  decide (a.exp < now) ||
  (cfg.access.isSome && t.accessToken ≠ [] && match t.accessExp with
    | some e => decide (e < now)
    | none => false)

def nsPerSec : Int := 1000000000

/-- `now.Add(time.Duration(expiresIn)*time.Second - 5)` when `expires_in > 0`, else unset -/
def accessExpiry (now expiresIn : Int) : Option Int :=
  if expiresIn > 0 then some (now + expiresIn * nsPerSec - 5) else none

/-- `strings.EqualFold(s, "Bearer")` (ASCII; "Bearer" has no special folding except K/S which it lacks) -/
def isBearer (s : Str) : Bool := toLowerAscii s == B "bearer"

def validNewResponse (cfg : Cfg) (b : IdpBody) : Bool :=
  isBearer b.tokenType && decide (b.expiresIn ≥ 0) && !(cfg.access.isSome && b.accessToken = [])

def validRefreshResponse (b : IdpBody) : Bool := isBearer b.tokenType && decide (b.expiresIn ≥ 0)

/-- the nonce clause of `isValidIDToken` (after the comma-ok fix: a non-string nonce is invalid) -/
def nonceAccepted (a : TokAttrs) (expected : Str) (required : Bool) : Bool :=
  match a.nonce with
  | .absent => !required
  | .other => false
  | .str n => !((required || (n ≠ [] && expected ≠ [])) && n ≠ expected)

/-- `isValidIDToken`: `fail code` or, when all checks up to the key lookup pass, continue with `ok` after the lookup -/
def validateIdToken (cfg : Cfg) (o : Oracles) (idToken expectedNonce : Str) (nonceRequired : Bool)
    (fail : Nat → Prog) (ok : Prog) : Prog :=
  match o.attrs idToken with
  | none => fail cInternal
  | some a =>
    if !nonceAccepted a expectedNonce nonceRequired then fail cInvalidArgument
    else if !(a.aud.contains cfg.clientId) then fail cInvalidArgument
    else .act .keys fun r =>
      match r with
      | .keys true => if o.sigOK idToken then ok else fail cInternal
      | _ => fail cInternal

/-! ### redirect to the identity provider -/

def authParams (cfg : Cfg) (o : Oracles) (state nonce verifier : Str) : List (Str × Str) :=
  [(B "client_id", cfg.clientId), (B "code_challenge", o.s256 verifier), (B "code_challenge_method", B "S256"),
   (B "nonce", nonce), (B "redirect_uri", cfg.callbackUri), (B "response_type", B "code"),
   (B "scope", Str.join [32] cfg.scopes), (B "state", state)]

def authLocation (cfg : Cfg) (o : Oracles) (state nonce verifier : Str) : Str :=
  cfg.authUri ++ (if containsByte 63 cfg.authUri then [38] else [63]) ++ encodeSorted (authParams cfg o state nonce verifier)

def requestedUrl (req : Req) : Str :=
  req.scheme ++ B "://" ++ req.host ++ req.path ++ (if req.query ≠ [] then [63] ++ req.query else [])

def redirectAfterRemoval (cfg : Cfg) (o : Oracles) (req : Req) : Prog :=
  .act .gen fun g =>
    match g with
    | .gen sid nonce state verifier =>
      .act (.setAuth sid { state := state, nonce := nonce, requestedUrl := requestedUrl req, codeVerifier := verifier }) fun r =>
        match r with
        | .done true => .ret (redirectWithCookie (authLocation cfg o state nonce verifier) (setCookie (cookieName cfg) sid none))
        | _ => .ret sessErr
    | _ => .ret sessErr

/-- `redirectToIDP(old)` -/
def redirectToIdp (cfg : Cfg) (o : Oracles) (req : Req) (old : Str) : Prog :=
  if old ≠ [] then
    .act (.removeSession old) fun r =>
      match r with
      | .done true => redirectAfterRemoval cfg o req
      | _ => .ret sessErr
  else redirectAfterRemoval cfg o req

/-! ### callback -/

def retrieveTokens (cfg : Cfg) (o : Oracles) (req : Req) (sid : Str) : Prog :=
  let (params, ok) := parseQuery (queryOf req.path)
  if !ok then .ret (deny cInvalidArgument)
  else if params.isEmpty then .ret (deny cInvalidArgument)
  else
    let st := valuesGet params (B "state")
    let code := valuesGet params (B "code")
    if st = [] ∨ code = [] then .ret (deny cInvalidArgument)
    else .act (.getAuth sid) fun r =>
      match r with
      | .auth (.ok none) => .ret expired400
      | .auth (.ok (some a)) =>
        if st ≠ a.state then .ret (deny cInvalidArgument)
        else .act (.idp (.code cfg.tokenUri code cfg.callbackUri a.codeVerifier cfg.clientId cfg.clientSecret)) fun ans =>
          match ans with
          | .idp (.body b) =>
            if !validNewResponse cfg b then .ret (deny cInvalidArgument)
            else validateIdToken cfg o b.idToken a.nonce true (fun c => .ret (deny c))
              (.act (.clearAuth sid) fun r =>
                match r with
                | .done true =>
                  .act .now fun t =>
                    match t with
                    | .time now =>
                      .act (.setTok sid { idToken := b.idToken, accessToken := b.accessToken,
                                          refreshToken := b.refreshToken, accessExp := accessExpiry now b.expiresIn }) fun r =>
                        match r with
                        | .done true => .ret (found a.requestedUrl)
                        | _ => .ret sessErr
                    | _ => .ret sessErr
                | _ => .ret sessErr)
          | .idp (.status _) => .ret (deny cUnknown)
          | _ => .ret (deny cInternal)
      | _ => .ret sessErr

/-! ### refresh -/

def mergeTokens (o : Oracles) (old : Tokens) (b : IdpBody) (now : Int) : Tokens :=
  { idToken := if (o.attrs b.idToken).isSome then b.idToken else old.idToken,
    accessToken := if b.accessToken ≠ [] then b.accessToken else old.accessToken,
    refreshToken := if b.refreshToken ≠ [] then b.refreshToken else old.refreshToken,
    accessExp := if b.expiresIn > 0 then accessExpiry now b.expiresIn else old.accessExp }

/-- the refresh branch of `Process`: `refreshToken`, then `SetTokenResponse`, then allow -/
def refreshPath (cfg : Cfg) (o : Oracles) (req : Req) (prev : Headers) (sid : Str) (old : Tokens) : Prog :=
  .act (.idp (.refresh cfg.tokenUri old.refreshToken cfg.clientId cfg.clientSecret)) fun ans =>
    match ans with
    | .idp (.body b) =>
      if !validRefreshResponse b then redirectToIdp cfg o req sid
      else .act .now fun t =>
        match t with
        | .time now =>
          let merged := mergeTokens o old b now
          .act (.getAuth sid) fun r =>
            match r with
            | .auth (.ok a) =>
              validateIdToken cfg o merged.idToken (match a with | some a => a.nonce | none => []) false
                (fun _ => redirectToIdp cfg o req sid)
                (.act (.setTok sid merged) fun r =>
                  match r with
                  | .done true => .ret (allow cfg prev merged)
                  | _ => .ret sessErr)
            | _ => redirectToIdp cfg o req sid
        | _ => .ret sessErr
    | _ => redirectToIdp cfg o req sid

/-! ### Process -/

def logoutResp (cfg : Cfg) (uri : Str) : Resp :=
  redirectWithCookie uri (setCookie (cookieName cfg) (B "deleted") (some 0))

/-- `Process`. `prev` are the OK headers an earlier filter of the chain left in the response. -/
def process (cfg : Cfg) (o : Oracles) (req : Req) (prev : Headers := []) : Prog :=
  if !req.http then .ret (deny cInvalidArgument)
  else
    let sid := sessionIdFromCookie cfg req.cookie
    if matchesLogout cfg req then
      let uri := match cfg.logout with | some (_, u) => u | none => []
      if sid ≠ [] then
        .act (.removeSession sid) fun r =>
          match r with
          | .done true => .ret (logoutResp cfg uri)
          | _ => .ret sessErr
      else .ret (logoutResp cfg uri)
    else if sid = [] then redirectToIdp cfg o req []
    else if matchesCallback cfg req then retrieveTokens cfg o req sid
    else
      .act (.getTok sid) fun r =>
        match r with
        | .tok (.ok none) => redirectToIdp cfg o req sid
        | .tok (.ok (some t)) =>
          match o.attrs t.idToken with
          | none => .ret (deny cInternal)
          | some a =>
            .act .now fun tm =>
              match tm with
              | .time now =>
                if !tokensExpired cfg a t now then .ret (allow cfg prev t)
                else if t.refreshToken = [] then redirectToIdp cfg o req sid
                else refreshPath cfg o req prev sid t
              | _ => .ret sessErr
        | _ => .ret sessErr

end Oidc
end AuthModel
