/-
  Model of internal/http/http.go: GetPathQueryFragment, DecodeCookiesHeader, EncodeCookieHeader.
-/
import AuthModel.Str
namespace AuthModel
open Str

/-- Go slicing `s[lo:hi]`; `none` is the run-time panic "slice bounds out of range". -/
def goSlice (s : Str) (lo hi : Nat) : Option Str :=
  if lo ≤ hi ∧ hi ≤ s.length then some ((s.take hi).drop lo) else none

/-- `GetPathQueryFragment`, written with the indices and slices of the Go source.
    `none` = a slice expression would panic. -/
def pqfLit (full : Str) : Option (Str × Str × Str) :=
  let hash := indexOf 35 full                          -- '#'
  let inter : Option (Option Nat) := match hash with
    | some h => (goSlice full 0 h).map (indexOf 63)    -- strings.Index(fullPath[:hash], "?")
    | none => some (indexOf 63 full)
  match inter with
  | none => none
  | some inter =>
    match inter, hash with
    | some i, some h => do
        let p ← goSlice full 0 i
        let q ← goSlice full (i + 1) h
        let f ← goSlice full (h + 1) full.length
        pure (p, q, f)
    | some i, none => do
        let p ← goSlice full 0 i
        let q ← goSlice full (i + 1) full.length
        pure (p, q, [])
    | none, some h => do
        let p ← goSlice full 0 h
        let f ← goSlice full (h + 1) full.length
        pure (p, [], f)
    | none, none => some (full, [], [])

/-- The same function written with `cut`: everything after the first `#` is the fragment, and of what
    precedes it everything after the first `?` is the query. -/
def pqf (full : Str) : Str × Str × Str :=
  let (beforeHash, frag) := cut 35 full
  let (path, query) := cut 63 beforeHash
  (path, query.getD [], frag.getD [])

def pathOf (full : Str) : Str := (pqf full).1
def queryOf (full : Str) : Str := (pqf full).2.1

/-- `DecodeCookiesHeader`: split on `;`, trim, split on `=`, keep exactly-two-part items;
    result is a Go map, modelled as an association list in which a later entry overrides an earlier one. -/
def decodeCookies (hdr : Str) : List (Str × Str) :=
  (splitOn 59 hdr).filterMap fun c =>
    match splitOn 61 (trimSpace c) with
    | [n, v] => some (n, v)
    | _ => none

/-- map lookup semantics: the last binding for a name wins (later `cookies[k] = v` overwrites). -/
def lookupLast (m : List (Str × Str)) (k : Str) : Option Str :=
  (m.reverse.find? (·.1 == k)).map (·.2)

/-- `EncodeCookieHeader` -/
def encodeCookie (name value : Str) (directives : List Str) : Str :=
  name ++ [61] ++ value ++ (directives.map fun d => [59, 32] ++ d).flatten

end AuthModel
