/-
  A small shallow embedding of the Go constructs that occur in the functions translated mechanically from
  /repo by tools/factgen (translate.go) into AuthModel/Generated/Code*.lean.

  * `M` is the monad of a Go function body: `Except String`, the error being a run-time panic
    ("slice bounds out of range", "nil pointer dereference", "index out of range").  "Never panics" is
    therefore a theorem `f … = .ok _` about the GENERATED code, not an accident of Lean's totality.
  * Go `int` is `Int` (unbounded: none of the translated functions is about overflow).
  * Go `string` is `Str` (bytes).  A Go `map[string]string` is an association list with unique keys in
    insertion order (`Map`); iteration order, which Go leaves unspecified, is the list order.
  * What the standard library does is DEFINED here (`index`, `slice`, `hasPrefix`, …) after the Go
    documentation; these definitions are part of the trusted base of every theorem about generated code.
  Core Lean only.
-/
import AuthModel.Str
namespace AuthModel.Go
open AuthModel AuthModel.Str

abbrev M := Except String

deriving instance DecidableEq for Except

/-- a Go `error` value: only nil-ness is observable to the translated code -/
structure Error where
  isNil : Bool := true
  deriving Repr, BEq, DecidableEq

/-! ### net/url: what `url.Parse` returns, as far as the translated code looks at it -/

structure URL where
  isNil : Bool := false
  Scheme : Str := []
  hostname : Str := []
  port : Str := []
  Path : Str := []
  escapedPath : Str := []
  deriving Repr, BEq, DecidableEq
def URL.Scheme! (u : URL) : M Str := if u.isNil then (.error "invalid memory address or nil pointer dereference") else pure u.Scheme
/-- `(*URL).EscapedPath()`: the path in the escaped form it was written in -/
def URL.EscapedPath! (u : URL) : M Str := if u.isNil then (.error "invalid memory address or nil pointer dereference") else pure u.escapedPath
def URL.Path! (u : URL) : M Str := if u.isNil then (.error "invalid memory address or nil pointer dereference") else pure u.Path
/-- `(*URL).Hostname()` and `Port()` read `u.Host`: a nil receiver panics -/
def URL.Hostname! (u : URL) : M Str := if u.isNil then (.error "invalid memory address or nil pointer dereference") else pure u.hostname
def URL.Port! (u : URL) : M Str := if u.isNil then (.error "invalid memory address or nil pointer dereference") else pure u.port

/-- `time.Time`: nanoseconds since the Unix epoch; `none` is the zero Time (year 1), which is before every other instant -/
structure Time where
  unixNano : Option Int := none
  deriving Repr, BEq, DecidableEq

/-- `t.Before(u)` -/
def Time.before (t u : Time) : Bool :=
  match t.unixNano, u.unixNano with
  | none, some _ => true
  | some a, some b => decide (a < b)
  | _, none => false
/-- `t.Add(d)`.  The zero Time plus a duration is modelled as the zero Time: year 1 plus anything the service is
    configured with is still before every instant a clock produces, which is all `Before` can observe of it. -/
def Time.add (t : Time) (d : Int) : Time :=
  match t.unixNano with
  | some a => { unixNano := some (a + d) }
  | none => {}
/-- `t.IsZero()` (a value method: no receiver to dereference) -/
def Time.IsZero! (t : Time) : M Bool := pure t.unixNano.isNone

/-- what `jwt.Parse` (no validation) returns, as far as the translated code looks at it: the `exp` claim -/
structure JwtToken where
  isNil : Bool := false
  exp : Time := {}
  deriving Repr, BEq, DecidableEq
/-- `token.Expiration()` through the interface value: nil panics -/
def JwtToken.Expiration! (t : JwtToken) : M Time :=
  if t.isNil then .error "invalid memory address or nil pointer dereference" else pure t.exp

/-- Results of library calls that the model treats as oracles, supplied per evaluation. -/
structure Env where
  /-- `regexp.MatchString pattern s` = (matched, err ≠ nil) -/
  regexpMatchString : Str → Str → Bool × Bool := fun _ _ => (false, false)
  /-- `url.Parse s` = (the URL, nil on failure; err ≠ nil) -/
  urlParseOracle : Str → URL × Bool := fun _ => ({ isNil := true }, true)
  /-- `oidc.ParseToken s` = (the token, nil on failure; err ≠ nil) -/
  parseTokenOracle : Str → JwtToken × Bool := fun _ => ({ isNil := true }, true)
  /-- `redis.ParseURL s`: err ≠ nil -/
  redisParseURLOracle : Str → Bool := fun _ => true
  /-- `clock.Now()` during this evaluation -/
  now : Time := {}

def Env.parseToken (env : Env) (s : Str) : JwtToken × Error :=
  let r := env.parseTokenOracle s
  (r.1, { isNil := !r.2 })

/-- `redis.ParseURL s` = (options, err); the options are not looked at by the translated code -/
def Env.redisParseURL (env : Env) (s : Str) : Unit × Error := ((), { isNil := !env.redisParseURLOracle s })

def Env.urlParse (env : Env) (s : Str) : URL × Error :=
  let r := env.urlParseOracle s
  (r.1, { isNil := !r.2 })

def Env.regexpMatch (env : Env) (pat s : Str) : Bool × Error :=
  let r := env.regexpMatchString pat s
  (r.1, { isNil := !r.2 })

/-- `strings.Index s sub` as an `Option` -/
def indexOfSub (sub : Str) : Str → Option Nat
  | [] => if sub.isEmpty then some 0 else none
  | a :: t => if hasPrefix (a :: t) sub then some 0 else (indexOfSub sub t).map (· + 1)

/-- `strings.Index s sub`: index of the first instance of `sub` in `s`, or -1 -/
def index (s sub : Str) : Int :=
  match indexOfSub sub s with
  | some n => (n : Int)
  | none => -1

/-- `strings.Replace s old new 1`: the first instance of `old` (non-empty in the translated code) replaced by `new` -/
def replaceFirst (s old new : Str) : Str :=
  match indexOfSub old s with
  | some n => s.take n ++ new ++ s.drop (n + old.length)
  | none => s

/-- a write through a pointer (`p.F = v`): a nil pointer panics -/
def derefNil {α : Type} (isNil : Bool) (v : α) : M α :=
  if isNil then .error "invalid memory address or nil pointer dereference" else .ok v

/-- `len(x)` -/
def len {α : Type} (l : List α) : Int := (l.length : Int)

/-- the slice expression `s[lo:hi]` on a string; out-of-range bounds panic -/
def slice (s : Str) (lo hi : Int) : M Str :=
  if 0 ≤ lo ∧ lo ≤ hi ∧ hi ≤ (s.length : Int) then .ok ((s.take hi.toNat).drop lo.toNat)
  else .error "slice bounds out of range"

/-- `s[lo:]` -/
def sliceFrom (s : Str) (lo : Int) : M Str := slice s lo (s.length : Int)
/-- `s[:hi]` -/
def sliceTo (s : Str) (hi : Int) : M Str := slice s 0 hi

/-- `xs[i]` on a slice -/
def idx {α : Type} (xs : List α) (i : Int) : M α :=
  if 0 ≤ i then
    match xs[i.toNat]? with
    | some x => .ok x
    | none => .error "index out of range"
  else .error "index out of range"

/-- `s[i]` on a string: the byte at index i; out of range panics -/
def strIdx (s : Str) (i : Int) : M UInt8 :=
  if 0 ≤ i then
    match s[i.toNat]? with
    | some b => .ok b
    | none => .error "index out of range"
  else .error "index out of range"

/-- `strings.IndexByte s c` -/
def indexByte (s : Str) (c : UInt8) : Int :=
  match Str.indexOf c s with
  | some n => (n : Int)
  | none => -1

/-- `for i := 0; i < n; i++` -/
def range (n : Int) : List Int := (List.range n.toNat).map Int.ofNat

/-- `strings.HasPrefix s p`, `strings.HasSuffix s p` -/
def hasPrefix (s p : Str) : Bool := Str.hasPrefix s p
def hasSuffix (s p : Str) : Bool := Str.hasSuffix s p

/-- `strings.Split s sep` for a one-byte separator -/
def split1 (s : Str) (c : UInt8) : List Str := Str.splitOn c s

/-- `strings.ToLower` on ASCII input -/
def toLower (s : Str) : Str := Str.toLowerAscii s

/-- `strings.EqualFold a b` on ASCII input: equality under simple ASCII case folding -/
def equalFold (a b : Str) : Bool := Str.toLowerAscii a == Str.toLowerAscii b

/-- `strconv.Itoa` / `%d` -/
def itoa (n : Int) : Str :=
  if n < 0 then (45 : UInt8) :: Str.ofNat n.natAbs else Str.ofNat n.toNat

/-- `strconv.ParseBool`: accepts 1, t, T, TRUE, true, True, 0, f, F, FALSE, false, False; any other value is an error (and false) -/
def parseBool (s : Str) : Bool × Error :=
  if s == B "1" || s == B "t" || s == B "T" || s == B "TRUE" || s == B "true" || s == B "True" then (true, {})
  else if s == B "0" || s == B "f" || s == B "F" || s == B "FALSE" || s == B "false" || s == B "False" then (false, {})
  else (false, { isNil := false })

/-- Go `map[string]string`: unique keys, insertion order -/
abbrev Map := List (Str × Str)

def Map.empty : Map := []

/-- `m[k]` (zero value when absent) -/
def Map.get (m : Map) (k : Str) : Str :=
  match m.find? (·.1 == k) with
  | some kv => kv.2
  | none => []

/-- `m[k] = v` -/
def Map.set : Map → Str → Str → Map
  | [], k, v => [(k, v)]
  | (k', v') :: t, k, v => if k' == k then (k', v) :: t else (k', v') :: Map.set t k v

/-- Go `map[string]T` for other element types: unique keys -/
abbrev MapOf (α : Type) := List (Str × α)

/-- `m[k]`, `zero` when absent -/
def MapOf.get {α : Type} (m : MapOf α) (k : Str) (zero : α) : α :=
  match m.find? (·.1 == k) with
  | some kv => kv.2
  | none => zero

/-- `delete(m, k)` -/
def MapOf.delete {α : Type} (m : MapOf α) (k : Str) : MapOf α := m.filter (fun kv => !(kv.1 == k))

/-- `for k, v := range m` (one admissible order) -/
def Map.entries (m : Map) : List (Str × Str) := m

/-- `for i, x := range xs` -/
def enum {α : Type} (xs : List α) : List (Int × α) :=
  (xs.zipIdx).map fun p => ((p.2 : Int), p.1)

/-- `time.Duration` (nanoseconds) -/
abbrev Duration := Int
/-- `int(d.Seconds())`: float64 seconds truncated toward zero -/
def Duration.secondsInt (d : Duration) : Int := Int.tdiv d 1000000000

theorem indexOfSub_single (c : UInt8) (s : Str) : indexOfSub [c] s = Str.indexOf c s := by
  induction s with
  | nil => simp [indexOfSub, Str.indexOf]
  | cons a t ih =>
    by_cases h : a = c
    · subst h; simp [indexOfSub, Str.indexOf, Str.hasPrefix]
    · have h' : (a == c) = false := by simpa using h
      simp [indexOfSub, Str.indexOf, Str.hasPrefix, h, h', ih]

end AuthModel.Go
