/-
  Model of internal/k8s/secret_controller.go: loadSecrets and Reconcile.
-/
import AuthModel.Str
namespace AuthModel
namespace Secret

inductive Src where
  | none                          -- no client secret configured
  | literal (s : Str)             -- client_secret
  | ref (ns name : Str)           -- client_secret_ref {namespace, name}
  deriving Repr, BEq, DecidableEq

/-- a filter as the controller sees it: `none` for a non-OIDC filter -/
abbrev FilterS := Option Src

def keyOf (ns name : Str) : Str := ns ++ [47] ++ name        -- types.NamespacedName.String(): "ns/name"

/-- `loadSecrets`: index from "namespace/name" to the filters (positions) that reference it; `none` = error
    (cross-namespace reference refused) -/
def loadSecrets (ns : Str) : List FilterS → Nat → Option (List (Str × Nat))
  | [], _ => some []
  | f :: fs, i =>
    match f with
    | some (.ref rns name) =>
      if name = [] then loadSecrets ns fs (i + 1)
      else if rns ≠ [] ∧ rns ≠ ns then none
      else (loadSecrets ns fs (i + 1)).map fun idx => (keyOf ns name, i) :: idx
    | _ => loadSecrets ns fs (i + 1)

/-- what the API server answers for the reconciled object -/
inductive Lookup where
  | notFound
  | deleting                      -- DeletionTimestamp set
  | data (v : Option Str)         -- Data["client-secret"]: absent or its bytes
  deriving Repr, BEq, DecidableEq

structure State where
  ns : Str
  index : List (Str × Nat)
  filters : List FilterS

def setAt : List FilterS → Nat → FilterS → List FilterS
  | [], _, _ => []
  | _ :: fs, 0, v => v :: fs
  | f :: fs, n + 1, v => f :: setAt fs n v

/-- `Reconcile` for the object `reqNs/reqName` -/
def reconcile (st : State) (reqNs reqName : Str) (l : Lookup) : State :=
  let key := keyOf reqNs reqName
  let targets := (st.index.filter (·.1 == key)).map (·.2)
  if targets.isEmpty then st
  else match l with
    | .notFound => st
    | .deleting => st
    | .data none => st
    | .data (some v) =>
      if v = [] then st
      else { st with filters := targets.foldl (fun fs i => setAt fs i (some (.literal v))) st.filters }

end Secret
end AuthModel
