/-
  Model of the session generator (internal/oidc/session.go after e4b4d8c): every character is drawn from an
  entropy byte stream by rejection sampling; `GenerateCodeVerifier` (oauth2.GenerateVerifier) takes the next 32 bytes.
-/
import AuthModel.Str
namespace AuthModel
namespace Gen

def charset : Str := B "abcdefghijklmnopqrstuvwxyzABCDEFGHIJKLMNOPQRSTUVWXYZ0123456789"

/-- `limit = 256 - 256 % len(charset)` -/
def limit : Nat := 248

def charOf (b : UInt8) : UInt8 := charset.getD (b.toNat % 62) 0

/-- draw `n` characters: bytes `≥ limit` are discarded. Returns the characters and the unread rest of the stream;
    `none` if the stream runs out. -/
def draw : Str → Nat → Option (Str × Str)
  | s, 0 => some ([], s)
  | [], _ + 1 => none
  | b :: s, n + 1 =>
    if b.toNat < limit then (draw s n).map fun x => (charOf b :: x.1, x.2)
    else draw s (n + 1)

/-- the four values of one login redirect, in the order `redirectToIDP` asks for them -/
structure Ids where
  sid : Str
  nonce : Str
  state : Str
  verifierBytes : Str
  rest : Str
  deriving Repr, BEq, DecidableEq

def genAll (stream : Str) : Option Ids := do
  let (sid, r1) ← draw stream 64
  let (nonce, r2) ← draw r1 32
  let (state, r3) ← draw r2 32
  if r3.length < 32 then none
  else pure { sid := sid, nonce := nonce, state := state, verifierBytes := r3.take 32, rest := r3.drop 32 }

/-- everything but the session id, as a function of the stream AFTER the session id's segment:
    (nonce, state, verifier bytes, unread rest) -/
def publicPart (afterSid : Str) : Option (Str × Str × Str × Str) := do
  let (nonce, r2) ← draw afterSid 32
  let (state, r3) ← draw r2 32
  if r3.length < 32 then none else pure (nonce, state, r3.take 32, r3.drop 32)

end Gen
end AuthModel
