/-
  Byte strings. Go strings are byte sequences; every string of the implementation is a `Str` here.
  Core Lean only (this file is linked into the `driver` executable).
-/
namespace AuthModel

abbrev Str := List UInt8

/-- Interpret a Lean string literal as bytes. Only ever applied to ASCII literals (constants of the
    implementation), for which character codes and UTF-8 bytes coincide; this form reduces in the kernel. -/
def B (s : String) : Str := s.toList.map (fun c => c.toNat.toUInt8)

instance : Coe String Str := ⟨B⟩

namespace Str

/-- `strings.HasPrefix s p`. -/
def hasPrefix : Str → Str → Bool
  | _, [] => true
  | [], _ :: _ => false
  | a :: s, b :: p => a == b && hasPrefix s p

/-- `strings.HasSuffix s p`. -/
def hasSuffix (s p : Str) : Bool := hasPrefix s.reverse p.reverse

/-- `strings.Index s (string c)`: index of the first occurrence of byte `c`. -/
def indexOf (c : UInt8) : Str → Option Nat
  | [] => none
  | a :: s => if a = c then some 0 else (indexOf c s).map (· + 1)

/-- `strings.Cut s (string c)`: the part before the first `c`, and the part after it if `c` occurs. -/
def cut (c : UInt8) : Str → Str × Option Str
  | [] => ([], none)
  | a :: s => if a = c then ([], some s) else
      let (p, q) := cut c s
      (a :: p, q)

/-- `strings.Contains s (string c)` -/
def containsByte (c : UInt8) (s : Str) : Bool := s.any (· == c)

/-- `strings.Split s (string c)`: never empty. -/
def splitOn (c : UInt8) : Str → List Str
  | [] => [[]]
  | a :: s =>
    if a = c then [] :: splitOn c s
    else match splitOn c s with
      | [] => [[a]]            -- unreachable, `splitOn` never returns `[]`
      | x :: xs => (a :: x) :: xs

/-- join with a separator string -/
def join (sep : Str) : List Str → Str
  | [] => []
  | [x] => x
  | x :: y :: xs => x ++ sep ++ join sep (y :: xs)

/-- ASCII lower-casing (`strings.ToLower` restricted to ASCII input). -/
def toLowerAscii (s : Str) : Str :=
  s.map fun b => if 65 ≤ b ∧ b ≤ 90 then b + 32 else b

/-- `strings.TrimSpace` on valid UTF-8: removes leading and trailing Unicode White_Space, i.e.
    `\t \n \v \f \r ' '`, U+0085, U+00A0 (C2 85, C2 A0), U+1680 (E1 9A 80), U+2000..U+200A (E2 80 80..8A),
    U+2028, U+2029, U+202F (E2 80 A8/A9/AF), U+205F (E2 81 9F), U+3000 (E3 80 80). -/
def isSpace (b : UInt8) : Bool := b == 9 || b == 10 || b == 11 || b == 12 || b == 13 || b == 32

def isSpace3 (a b c : UInt8) : Bool :=
  (a == 0xE1 && b == 0x9A && c == 0x80) ||
  (a == 0xE2 && b == 0x80 && ((0x80 ≤ c && c ≤ 0x8A) || c == 0xA8 || c == 0xA9 || c == 0xAF)) ||
  (a == 0xE2 && b == 0x81 && c == 0x9F) ||
  (a == 0xE3 && b == 0x80 && c == 0x80)

def isSpace2 (a b : UInt8) : Bool := a == 0xC2 && (b == 0x85 || b == 0xA0)

/-- number of bytes of the white-space rune the string starts with (0: it does not start with white space) -/
def spaceRuneLen : Str → Nat
  | [] => 0
  | a :: rest =>
    if isSpace a then 1 else
    match rest with
    | [] => 0
    | b :: rest2 =>
      if isSpace2 a b then 2 else
      match rest2 with
      | [] => 0
      | c :: _ => if isSpace3 a b c then 3 else 0

def trimLeftFuel : Nat → Str → Str
  | 0, s => s
  | n + 1, s => match spaceRuneLen s with
    | 0 => s
    | k => trimLeftFuel n (s.drop k)

def trimLeft (s : Str) : Str := trimLeftFuel s.length s

/-- the same on the reversed string (byte patterns reversed) -/
def spaceRuneLenRev : Str → Nat
  | [] => 0
  | a :: rest =>
    if isSpace a then 1 else
    match rest with
    | [] => 0
    | b :: rest2 =>
      if isSpace2 b a then 2 else
      match rest2 with
      | [] => 0
      | c :: _ => if isSpace3 c b a then 3 else 0

def trimLeftRevFuel : Nat → Str → Str
  | 0, s => s
  | n + 1, s => match spaceRuneLenRev s with
    | 0 => s
    | k => trimLeftRevFuel n (s.drop k)

def trimLeftRev (s : Str) : Str := trimLeftRevFuel s.length s

def trimSpace (s : Str) : Str := (trimLeftRev (trimLeft s).reverse).reverse

def hexDigit (n : UInt8) : UInt8 := if n < 10 then 48 + n else 87 + n   -- lower case

def unhex (c : UInt8) : Option UInt8 :=
  if 48 ≤ c ∧ c ≤ 57 then some (c - 48)
  else if 97 ≤ c ∧ c ≤ 102 then some (c - 87)
  else if 65 ≤ c ∧ c ≤ 70 then some (c - 55)
  else none

/-- decimal rendering of a natural number as bytes (`strconv.Itoa` for n ≥ 0) -/
def ofNat (n : Nat) : Str := B (toString n)

end Str
end AuthModel
