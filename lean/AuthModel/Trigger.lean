/-
  Model of the trigger rules of internal/server/authz.go (mustTriggerCheck, matchTriggerRule, stringMatch).
  Regular expressions are an oracle `re pattern subject`.
-/
import AuthModel.Http
namespace AuthModel
open Str

inductive StringMatch where
  | exact (s : Str) | pfx (s : Str) | sfx (s : Str) | regex (s : Str) | unset
  deriving Repr, BEq, DecidableEq

structure TriggerRule where
  excluded : List StringMatch
  included : List StringMatch
  deriving Repr, BEq, DecidableEq

abbrev ReOracle := Str → Str → Bool

def stringMatch (re : ReOracle) (m : StringMatch) (p : Str) : Bool :=
  match m with
  | .exact s => s == p
  | .pfx s => hasPrefix p s
  | .sfx s => hasSuffix p s
  | .regex s => re s p
  | .unset => false

def matchTriggerRule (re : ReOracle) (r : TriggerRule) (p : Str) : Bool :=
  if r.excluded.any (stringMatch re · p) then false
  else if r.included.isEmpty then true
  else r.included.any (stringMatch re · p)

/-- `mustTriggerCheck` on the raw `:path` pseudo header (path?query#fragment). -/
def mustTrigger (re : ReOracle) (rules : List TriggerRule) (target : Str) : Bool :=
  let p := pathOf target
  if rules.isEmpty || p.isEmpty then true
  else rules.any (matchTriggerRule re · p)

end AuthModel
