/-
  Hand-written mirrors of the protoc-generated Go structs that the mechanically translated functions touch
  (config/gen/go/v1, envoy ext_authz v3), with the semantics protoc-gen-go gives them:

  * a message is handled through a pointer that may be nil: `isNil`;
  * every getter `GetX()` is nil-safe and returns the zero value on a nil receiver (and, for a oneof member,
    when another arm is set);
  * a direct field selection `x.F` on a nil pointer is a run-time panic: `x.F!` in `Go.M`.

  Field and getter names are the Go names, so the translator needs no table for them.
  Trusted: that these mirrors say what the generated *.pb.go files do.
-/
import AuthModel.GoLib
namespace AuthModel.Pb
open AuthModel AuthModel.Go

def nilPanic {α : Type} : M α := .error "invalid memory address or nil pointer dereference"

/-! ### config/v1: StringMatch, TriggerRule, Match -/

structure StringMatch_Exact where
  Exact : Str
  deriving Repr, BEq, DecidableEq
structure StringMatch_Prefix where
  Prefix : Str
  deriving Repr, BEq, DecidableEq
structure StringMatch_Suffix where
  Suffix : Str
  deriving Repr, BEq, DecidableEq
structure StringMatch_Regex where
  Regex : Str
  deriving Repr, BEq, DecidableEq

def StringMatch_Exact.Exact! (m : StringMatch_Exact) : M Str := pure m.Exact
def StringMatch_Prefix.Prefix! (m : StringMatch_Prefix) : M Str := pure m.Prefix
def StringMatch_Suffix.Suffix! (m : StringMatch_Suffix) : M Str := pure m.Suffix
def StringMatch_Regex.Regex! (m : StringMatch_Regex) : M Str := pure m.Regex

/-- the interface value held by the oneof field `match_type` -/
inductive StringMatch_MatchType where
  | nil
  | Exact (v : StringMatch_Exact)
  | Prefix (v : StringMatch_Prefix)
  | Suffix (v : StringMatch_Suffix)
  | Regex (v : StringMatch_Regex)
  deriving Repr, BEq, DecidableEq

structure StringMatch where
  isNil : Bool := false
  MatchType : StringMatch_MatchType := .nil
  deriving Repr, BEq, DecidableEq

def StringMatch.GetMatchType (m : StringMatch) : StringMatch_MatchType :=
  if m.isNil then .nil else m.MatchType

structure TriggerRule where
  isNil : Bool := false
  ExcludedPaths : List StringMatch := []
  IncludedPaths : List StringMatch := []
  deriving Repr, BEq, DecidableEq

def TriggerRule.GetExcludedPaths (r : TriggerRule) : List StringMatch := if r.isNil then [] else r.ExcludedPaths
def TriggerRule.GetIncludedPaths (r : TriggerRule) : List StringMatch := if r.isNil then [] else r.IncludedPaths

inductive Match_Criteria where
  | nil
  | Prefix (v : Str)
  | Equality (v : Str)
  deriving Repr, BEq, DecidableEq

structure Match where
  isNil : Bool := false
  Header : Str := []
  Criteria : Match_Criteria := .nil
  deriving Repr, BEq, DecidableEq

def Match.Header! (m : Match) : M Str := if m.isNil then nilPanic else pure m.Header
def Match.GetHeader (m : Match) : Str := if m.isNil then [] else m.Header
def Match.GetPrefix (m : Match) : Str :=
  if m.isNil then [] else match m.Criteria with | .Prefix v => v | _ => []
def Match.GetEquality (m : Match) : Str :=
  if m.isNil then [] else match m.Criteria with | .Equality v => v | _ => []

/-! ### envoy CheckRequest → Attributes → Request → Http -/

structure AttributeContext_HttpRequest where
  isNil : Bool := false
  Scheme : Str := []
  Host : Str := []
  Path : Str := []
  Query : Str := []
  Method : Str := []
  Headers : Go.Map := []
  deriving Repr, BEq, DecidableEq

def AttributeContext_HttpRequest.GetPath (h : AttributeContext_HttpRequest) : Str := if h.isNil then [] else h.Path
def AttributeContext_HttpRequest.GetHost (h : AttributeContext_HttpRequest) : Str := if h.isNil then [] else h.Host
def AttributeContext_HttpRequest.GetScheme (h : AttributeContext_HttpRequest) : Str := if h.isNil then [] else h.Scheme
def AttributeContext_HttpRequest.GetQuery (h : AttributeContext_HttpRequest) : Str := if h.isNil then [] else h.Query
def AttributeContext_HttpRequest.GetMethod (h : AttributeContext_HttpRequest) : Str := if h.isNil then [] else h.Method
/-- a nil map reads as empty -/
def AttributeContext_HttpRequest.GetHeaders (h : AttributeContext_HttpRequest) : Go.Map := if h.isNil then [] else h.Headers

structure AttributeContext_Request where
  isNil : Bool := false
  Http : AttributeContext_HttpRequest := {}
  deriving Repr, BEq, DecidableEq
def AttributeContext_Request.GetHttp (r : AttributeContext_Request) : AttributeContext_HttpRequest :=
  if r.isNil then { isNil := true } else r.Http

structure AttributeContext where
  isNil : Bool := false
  Request : AttributeContext_Request := {}
  deriving Repr, BEq, DecidableEq
def AttributeContext.GetRequest (a : AttributeContext) : AttributeContext_Request :=
  if a.isNil then { isNil := true } else a.Request

structure CheckRequest where
  isNil : Bool := false
  Attributes : AttributeContext := {}
  deriving Repr, BEq, DecidableEq
def CheckRequest.GetAttributes (r : CheckRequest) : AttributeContext :=
  if r.isNil then { isNil := true } else r.Attributes

end AuthModel.Pb
