/-
  Hand-written mirrors of the protoc-generated Go structs that the mechanically translated functions touch
  (config/gen/go/v1, envoy ext_authz v3), with the semantics protoc-gen-go gives them:

  * a message is handled through a pointer that may be nil: `isNil`;
  * every getter `GetX()` is nil-safe and returns the zero value on a nil receiver (and, for a oneof member,
    when another arm is set);
  * a direct field selection `x.F` on a nil pointer is a run-time panic: `x.F!` in `Go.M`.

  Field and getter names are the Go names, so the translator needs no table for them.
  Trusted: that these mirrors say what the generated *.pb.go files do.
-/
import AuthModel.GoLib
import AuthModel.Resp
namespace AuthModel.Pb
open AuthModel AuthModel.Go

def nilPanic {α : Type} : M α := .error "invalid memory address or nil pointer dereference"

/-! ### config/v1: StringMatch, TriggerRule, Match -/

structure StringMatch_Exact where
  Exact : Str
  deriving Repr, BEq, DecidableEq
structure StringMatch_Prefix where
  Prefix : Str
  deriving Repr, BEq, DecidableEq
structure StringMatch_Suffix where
  Suffix : Str
  deriving Repr, BEq, DecidableEq
structure StringMatch_Regex where
  Regex : Str
  deriving Repr, BEq, DecidableEq

def StringMatch_Exact.Exact! (m : StringMatch_Exact) : M Str := pure m.Exact
def StringMatch_Prefix.Prefix! (m : StringMatch_Prefix) : M Str := pure m.Prefix
def StringMatch_Suffix.Suffix! (m : StringMatch_Suffix) : M Str := pure m.Suffix
def StringMatch_Regex.Regex! (m : StringMatch_Regex) : M Str := pure m.Regex

/-- the interface value held by the oneof field `match_type` -/
inductive StringMatch_MatchType where
  | nil
  | Exact (v : StringMatch_Exact)
  | Prefix (v : StringMatch_Prefix)
  | Suffix (v : StringMatch_Suffix)
  | Regex (v : StringMatch_Regex)
  deriving Repr, BEq, DecidableEq

structure StringMatch where
  isNil : Bool := false
  MatchType : StringMatch_MatchType := .nil
  deriving Repr, BEq, DecidableEq

def StringMatch.GetMatchType (m : StringMatch) : StringMatch_MatchType :=
  if m.isNil then .nil else m.MatchType

structure TriggerRule where
  isNil : Bool := false
  ExcludedPaths : List StringMatch := []
  IncludedPaths : List StringMatch := []
  deriving Repr, BEq, DecidableEq

def TriggerRule.GetExcludedPaths (r : TriggerRule) : List StringMatch := if r.isNil then [] else r.ExcludedPaths
def TriggerRule.GetIncludedPaths (r : TriggerRule) : List StringMatch := if r.isNil then [] else r.IncludedPaths

inductive Match_Criteria where
  | nil
  | Prefix (v : Str)
  | Equality (v : Str)
  deriving Repr, BEq, DecidableEq

structure Match where
  isNil : Bool := false
  Header : Str := []
  Criteria : Match_Criteria := .nil
  deriving Repr, BEq, DecidableEq

def Match.Header! (m : Match) : M Str := if m.isNil then nilPanic else pure m.Header
def Match.GetHeader (m : Match) : Str := if m.isNil then [] else m.Header
def Match.GetPrefix (m : Match) : Str :=
  if m.isNil then [] else match m.Criteria with | .Prefix v => v | _ => []
def Match.GetEquality (m : Match) : Str :=
  if m.isNil then [] else match m.Criteria with | .Equality v => v | _ => []

/-! ### envoy CheckRequest → Attributes → Request → Http -/

structure AttributeContext_HttpRequest where
  isNil : Bool := false
  Scheme : Str := []
  Host : Str := []
  Path : Str := []
  Query : Str := []
  Method : Str := []
  Headers : Go.Map := []
  deriving Repr, BEq, DecidableEq

def AttributeContext_HttpRequest.GetPath (h : AttributeContext_HttpRequest) : Str := if h.isNil then [] else h.Path
def AttributeContext_HttpRequest.GetHost (h : AttributeContext_HttpRequest) : Str := if h.isNil then [] else h.Host
def AttributeContext_HttpRequest.GetScheme (h : AttributeContext_HttpRequest) : Str := if h.isNil then [] else h.Scheme
def AttributeContext_HttpRequest.GetQuery (h : AttributeContext_HttpRequest) : Str := if h.isNil then [] else h.Query
def AttributeContext_HttpRequest.GetMethod (h : AttributeContext_HttpRequest) : Str := if h.isNil then [] else h.Method
/-- a nil map reads as empty -/
def AttributeContext_HttpRequest.GetHeaders (h : AttributeContext_HttpRequest) : Go.Map := if h.isNil then [] else h.Headers

structure AttributeContext_Request where
  isNil : Bool := false
  Http : AttributeContext_HttpRequest := {}
  deriving Repr, BEq, DecidableEq
def AttributeContext_Request.GetHttp (r : AttributeContext_Request) : AttributeContext_HttpRequest :=
  if r.isNil then { isNil := true } else r.Http

structure AttributeContext where
  isNil : Bool := false
  Request : AttributeContext_Request := {}
  deriving Repr, BEq, DecidableEq
def AttributeContext.GetRequest (a : AttributeContext) : AttributeContext_Request :=
  if a.isNil then { isNil := true } else a.Request

structure CheckRequest where
  isNil : Bool := false
  Attributes : AttributeContext := {}
  deriving Repr, BEq, DecidableEq
def CheckRequest.GetAttributes (r : CheckRequest) : AttributeContext :=
  if r.isNil then { isNil := true } else r.Attributes

/-! ### config/v1/oidc: TokenConfig, LogoutConfig, OIDCConfig (the fields the translated functions read) -/

structure TokenConfig where
  isNil : Bool := false
  Header : Str := []
  Preamble : Str := []
  deriving Repr, BEq, DecidableEq
def TokenConfig.GetHeader (t : TokenConfig) : Str := if t.isNil then [] else t.Header
def TokenConfig.GetPreamble (t : TokenConfig) : Str := if t.isNil then [] else t.Preamble

structure LogoutConfig where
  isNil : Bool := false
  Path : Str := []
  RedirectUri : Str := []
  deriving Repr, BEq, DecidableEq
def LogoutConfig.GetPath (t : LogoutConfig) : Str := if t.isNil then [] else t.Path
def LogoutConfig.GetRedirectUri (t : LogoutConfig) : Str := if t.isNil then [] else t.RedirectUri

structure JwksFetcherConfig where
  isNil : Bool := false
  JwksUri : Str := []
  deriving Repr, BEq, DecidableEq
def JwksFetcherConfig.GetJwksUri (t : JwksFetcherConfig) : Str := if t.isNil then [] else t.JwksUri

structure RedisConfig where
  isNil : Bool := false
  ServerUri : Str := []
  deriving Repr, BEq, DecidableEq
def RedisConfig.GetServerUri (t : RedisConfig) : Str := if t.isNil then [] else t.ServerUri

structure OIDCConfig where
  isNil : Bool := false
  CallbackUri : Str := []
  CookieNamePrefix : Str := []
  IdToken : TokenConfig := { isNil := true }
  AccessToken : TokenConfig := { isNil := true }
  Logout : LogoutConfig := { isNil := true }
  ProxyUri : Str := []
  TokenUri : Str := []
  ConfigurationUri : Str := []
  AuthorizationUri : Str := []
  /-- the arm `jwks_fetcher` of the oneof `jwks_config` (nil when another arm or none is set) -/
  JwksFetcher : JwksFetcherConfig := { isNil := true }
  RedisSessionStoreConfig : RedisConfig := { isNil := true }
  deriving Repr, BEq, DecidableEq
def OIDCConfig.GetProxyUri (c : OIDCConfig) : Str := if c.isNil then [] else c.ProxyUri
def OIDCConfig.GetTokenUri (c : OIDCConfig) : Str := if c.isNil then [] else c.TokenUri
def OIDCConfig.GetConfigurationUri (c : OIDCConfig) : Str := if c.isNil then [] else c.ConfigurationUri
def OIDCConfig.GetAuthorizationUri (c : OIDCConfig) : Str := if c.isNil then [] else c.AuthorizationUri
def OIDCConfig.GetJwksFetcher (c : OIDCConfig) : JwksFetcherConfig := if c.isNil then { isNil := true } else c.JwksFetcher
def OIDCConfig.GetRedisSessionStoreConfig (c : OIDCConfig) : RedisConfig := if c.isNil then { isNil := true } else c.RedisSessionStoreConfig
def OIDCConfig.GetCallbackUri (c : OIDCConfig) : Str := if c.isNil then [] else c.CallbackUri
def OIDCConfig.GetCookieNamePrefix (c : OIDCConfig) : Str := if c.isNil then [] else c.CookieNamePrefix
def OIDCConfig.GetIdToken (c : OIDCConfig) : TokenConfig := if c.isNil then { isNil := true } else c.IdToken
def OIDCConfig.GetAccessToken (c : OIDCConfig) : TokenConfig := if c.isNil then { isNil := true } else c.AccessToken
def OIDCConfig.GetLogout (c : OIDCConfig) : LogoutConfig := if c.isNil then { isNil := true } else c.Logout
def OIDCConfig.IdToken! (c : OIDCConfig) : M TokenConfig := if c.isNil then nilPanic else pure c.IdToken
def OIDCConfig.AccessToken! (c : OIDCConfig) : M TokenConfig := if c.isNil then nilPanic else pure c.AccessToken

/-! ### internal/authz: idpTokensResponse, oidcHandler; internal/oidc: TokenResponse -/

structure IdpTokensResponse where
  isNil : Bool := false
  IDToken : Str := []
  AccessToken : Str := []
  RefreshToken : Str := []
  ExpiresIn : Int := 0
  TokenType : Str := []
  deriving Repr, BEq, DecidableEq
def IdpTokensResponse.IDToken! (r : IdpTokensResponse) : M Str := if r.isNil then nilPanic else pure r.IDToken
def IdpTokensResponse.AccessToken! (r : IdpTokensResponse) : M Str := if r.isNil then nilPanic else pure r.AccessToken
def IdpTokensResponse.RefreshToken! (r : IdpTokensResponse) : M Str := if r.isNil then nilPanic else pure r.RefreshToken
def IdpTokensResponse.ExpiresIn! (r : IdpTokensResponse) : M Int := if r.isNil then nilPanic else pure r.ExpiresIn
def IdpTokensResponse.TokenType! (r : IdpTokensResponse) : M Str := if r.isNil then nilPanic else pure r.TokenType

structure TokenResponse where
  isNil : Bool := false
  IDToken : Str := []
  AccessToken : Str := []
  RefreshToken : Str := []
  AccessTokenExpiresAt : Go.Time := {}
  deriving Repr, BEq, DecidableEq
def TokenResponse.AccessTokenExpiresAt! (r : TokenResponse) : M Go.Time := if r.isNil then nilPanic else pure r.AccessTokenExpiresAt
/-- `(*TokenResponse).ParseIDToken()`: reads `t.IDToken` (nil receiver panics), then `ParseToken` -/
def parseIDToken (env : Go.Env) (r : TokenResponse) : M (Go.JwtToken × Go.Error) :=
  if r.isNil then nilPanic else pure (env.parseToken r.IDToken)
def TokenResponse.IDToken! (r : TokenResponse) : M Str := if r.isNil then nilPanic else pure r.IDToken
def TokenResponse.AccessToken! (r : TokenResponse) : M Str := if r.isNil then nilPanic else pure r.AccessToken
def TokenResponse.RefreshToken! (r : TokenResponse) : M Str := if r.isNil then nilPanic else pure r.RefreshToken

/-! ### internal/oidc: the in-memory store and its sessions (memory.go) -/

structure AuthorizationState where
  isNil : Bool := false
  State : Str := []
  Nonce : Str := []
  RequestedURL : Str := []
  CodeVerifier : Str := []
  deriving Repr, BEq, DecidableEq

structure Session where
  isNil : Bool := false
  tokenResponse : TokenResponse := { isNil := true }
  authorizationState : AuthorizationState := { isNil := true }
  added : Go.Time := {}
  accessed : Go.Time := {}
  deriving Repr, BEq, DecidableEq
def Session.added! (s : Session) : M Go.Time := if s.isNil then nilPanic else pure s.added
def Session.accessed! (s : Session) : M Go.Time := if s.isNil then nilPanic else pure s.accessed

/-- the record a Redis hash is scanned into (redis.go); a value, not a pointer: selections cannot panic -/
structure RedisToken where
  IDToken : Str := []
  AccessToken : Str := []
  AccessTokenExpiresAt : Go.Time := {}
  RefreshToken : Str := []
  TimeAdded : Go.Time := {}
  deriving Repr, BEq, DecidableEq
def RedisToken.IDToken! (r : RedisToken) : M Str := pure r.IDToken
def RedisToken.AccessToken! (r : RedisToken) : M Str := pure r.AccessToken
def RedisToken.AccessTokenExpiresAt! (r : RedisToken) : M Go.Time := pure r.AccessTokenExpiresAt
def RedisToken.RefreshToken! (r : RedisToken) : M Str := pure r.RefreshToken

structure RedisAuthState where
  State : Str := []
  Nonce : Str := []
  RequestedURL : Str := []
  CodeVerifier : Str := []
  TimeAdded : Go.Time := {}
  deriving Repr, BEq, DecidableEq
def RedisAuthState.State! (r : RedisAuthState) : M Str := pure r.State
def RedisAuthState.Nonce! (r : RedisAuthState) : M Str := pure r.Nonce
def RedisAuthState.RequestedURL! (r : RedisAuthState) : M Str := pure r.RequestedURL
def RedisAuthState.CodeVerifier! (r : RedisAuthState) : M Str := pure r.CodeVerifier

/-- `memoryStore` without its lock and logger: timeouts (ns), and the map of sessions -/
structure MemoryStore where
  isNil : Bool := false
  absoluteSessionTimeout : Int := 0
  idleSessionTimeout : Int := 0
  sessions : Go.MapOf Session := []
  deriving Repr, BEq, DecidableEq
def MemoryStore.sessions! (m : MemoryStore) : M (Go.MapOf Session) := if m.isNil then nilPanic else pure m.sessions
def MemoryStore.absoluteSessionTimeout! (m : MemoryStore) : M Int := if m.isNil then nilPanic else pure m.absoluteSessionTimeout
def MemoryStore.idleSessionTimeout! (m : MemoryStore) : M Int := if m.isNil then nilPanic else pure m.idleSessionTimeout
/-- `m.clock.Now()` -/
def storeClockNow (env : Go.Env) (m : MemoryStore) : M Go.Time := if m.isNil then nilPanic else pure env.now

structure OidcHandler where
  isNil : Bool := false
  config : OIDCConfig := {}
  deriving Repr, BEq, DecidableEq
def OidcHandler.config! (o : OidcHandler) : M OIDCConfig := if o.isNil then nilPanic else pure o.config
/-- `o.clock.Now()` -/
def clockNow (env : Go.Env) (o : OidcHandler) : M Go.Time := if o.isNil then nilPanic else pure env.now


/-! ### rpc Status, envoy CheckResponse (the HTTP part is the model's `HttpResp`), mock config, filter, chain, config,
    the filter object and the handler interface -/

structure Status where
  isNil : Bool := false
  Code : Int := 0
  Message : Str := []
  deriving Repr, BEq, DecidableEq
def Status.new : Status := {}
def Status.Code! (s : Status) : M Int := if s.isNil then nilPanic else pure s.Code
def Status.GetCode (s : Status) : Int := if s.isNil then 0 else s.Code

/-! envoy core/type: header value options, HTTP status; the denied and the OK HTTP responses; the oneof `http_response` -/

structure HeaderValue where
  isNil : Bool := false
  Key : Str := []
  Value : Str := []
  deriving Repr, BEq, DecidableEq
def HeaderValue.GetKey (h : HeaderValue) : Str := if h.isNil then [] else h.Key
def HeaderValue.GetValue (h : HeaderValue) : Str := if h.isNil then [] else h.Value
def HeaderValue.new : HeaderValue := {}

structure HeaderValueOption where
  isNil : Bool := false
  Header : HeaderValue := { isNil := true }
  deriving Repr, BEq, DecidableEq
def HeaderValueOption.GetHeader (h : HeaderValueOption) : HeaderValue := if h.isNil then { isNil := true } else h.Header
def HeaderValueOption.new : HeaderValueOption := {}

structure HttpStatus where
  isNil : Bool := false
  Code : Int := 0
  deriving Repr, BEq, DecidableEq
def HttpStatus.GetCode (h : HttpStatus) : Int := if h.isNil then 0 else h.Code
def HttpStatus.new : HttpStatus := {}

structure DeniedHttpResponse where
  isNil : Bool := false
  Status : HttpStatus := { isNil := true }
  Headers : List HeaderValueOption := []
  Body : Str := []
  deriving Repr, BEq, DecidableEq
def DeniedHttpResponse.Headers! (d : DeniedHttpResponse) : M (List HeaderValueOption) := if d.isNil then nilPanic else pure d.Headers
def DeniedHttpResponse.new : DeniedHttpResponse := {}

structure OkHttpResponse where
  isNil : Bool := false
  Headers : List HeaderValueOption := []
  deriving Repr, BEq, DecidableEq
def OkHttpResponse.Headers! (d : OkHttpResponse) : M (List HeaderValueOption) := if d.isNil then nilPanic else pure d.Headers
def OkHttpResponse.new : OkHttpResponse := {}

structure CheckResponse_DeniedResponse where
  DeniedResponse : DeniedHttpResponse
  deriving Repr, BEq, DecidableEq
structure CheckResponse_OkResponse where
  OkResponse : OkHttpResponse
  deriving Repr, BEq, DecidableEq

/-- the interface value held by the oneof field `http_response` -/
inductive CheckResponse_HttpResponse where
  | nil
  | DeniedResponse (v : CheckResponse_DeniedResponse)
  | OkResponse (v : CheckResponse_OkResponse)
  deriving Repr, BEq, DecidableEq
instance : Coe CheckResponse_DeniedResponse CheckResponse_HttpResponse := ⟨.DeniedResponse⟩
instance : Coe CheckResponse_OkResponse CheckResponse_HttpResponse := ⟨.OkResponse⟩

structure CheckResponse where
  isNil : Bool := false
  Status : Pb.Status := { isNil := true }
  HttpResponse : CheckResponse_HttpResponse := .nil
  deriving Repr, BEq, DecidableEq
def CheckResponse.GetOkResponse (r : CheckResponse) : OkHttpResponse :=
  if r.isNil then { isNil := true } else match r.HttpResponse with | .OkResponse v => v.OkResponse | _ => { isNil := true }
def CheckResponse.GetDeniedResponse (r : CheckResponse) : DeniedHttpResponse :=
  if r.isNil then { isNil := true } else match r.HttpResponse with | .DeniedResponse v => v.DeniedResponse | _ => { isNil := true }
def CheckResponse.Status! (r : CheckResponse) : M Pb.Status := if r.isNil then nilPanic else pure r.Status
def CheckResponse.GetStatus (r : CheckResponse) : Pb.Status := if r.isNil then { isNil := true } else r.Status
/-- `&envoy.CheckResponse{}` -/
def CheckResponse.new : CheckResponse := {}

structure MockConfig where
  isNil : Bool := false
  Allow : Bool := false
  deriving Repr, BEq, DecidableEq
def MockConfig.GetAllow (m : MockConfig) : Bool := if m.isNil then false else m.Allow

structure Filter_Mock where
  Mock : MockConfig
  deriving Repr, BEq, DecidableEq
structure Filter_Oidc where
  Oidc : OIDCConfig
  deriving Repr, BEq, DecidableEq
def Filter_Mock.Mock! (f : Filter_Mock) : M MockConfig := pure f.Mock
def Filter_Oidc.Oidc! (f : Filter_Oidc) : M OIDCConfig := pure f.Oidc

/-- the oneof `type` of a filter; `Other` stands for the arms `Check` does not know (oidc_override after loading: none) -/
inductive Filter_Type where
  | nil
  | Mock (v : Filter_Mock)
  | Oidc (v : Filter_Oidc)
  | Other
  deriving Repr, BEq, DecidableEq

structure Filter where
  isNil : Bool := false
  Type_ : Filter_Type := .nil
  deriving Repr, BEq, DecidableEq
def Filter.Type_! (f : Filter) : M Filter_Type := if f.isNil then nilPanic else pure f.Type_

structure FilterChain where
  isNil : Bool := false
  Name : Str := []
  Match : Pb.Match := { isNil := true }
  Filters : List Filter := []
  deriving Repr, BEq, DecidableEq
def FilterChain.Name! (c : FilterChain) : M Str := if c.isNil then nilPanic else pure c.Name
def FilterChain.Match! (c : FilterChain) : M Pb.Match := if c.isNil then nilPanic else pure c.Match
def FilterChain.Filters! (c : FilterChain) : M (List Filter) := if c.isNil then nilPanic else pure c.Filters

structure Config where
  isNil : Bool := false
  TriggerRules : List TriggerRule := []
  Chains : List FilterChain := []
  AllowUnmatchedRequests : Bool := false
  deriving Repr, BEq, DecidableEq
def Config.TriggerRules! (c : Config) : M (List TriggerRule) := if c.isNil then nilPanic else pure c.TriggerRules
def Config.Chains! (c : Config) : M (List FilterChain) := if c.isNil then nilPanic else pure c.Chains
def Config.AllowUnmatchedRequests! (c : Config) : M Bool := if c.isNil then nilPanic else pure c.AllowUnmatchedRequests

structure ExtAuthZFilter where
  isNil : Bool := false
  cfg : Config := {}
  deriving Repr, BEq, DecidableEq
def ExtAuthZFilter.cfg! (e : ExtAuthZFilter) : M Config := if e.isNil then nilPanic else pure e.cfg

/-- a value of the interface type `authz.Handler`: nil, or an object whose `Process` leaves a response behind (the
    Go method mutates `*resp` in place and returns an error; here it returns the new response) -/
structure Handler where
  isNil : Bool := true
  process : CheckRequest → CheckResponse → CheckResponse × Go.Error := fun _ r => (r, {})
/-- `h.Process(ctx, req, resp)`: a call through a nil interface value panics -/
def Handler.Process! (h : Handler) (req : CheckRequest) (resp : CheckResponse) : M (CheckResponse × Go.Error) :=
  if h.isNil then nilPanic else pure (h.process req resp)

/-- how handlers are made: `authz.NewMockHandler`, `authz.NewOIDCHandler` (which may fail) -/
structure Handlers where
  newMock : MockConfig → Handler
  newOIDC : OIDCConfig → Handler × Go.Error

/-! ### structpb.Value (the `skip_verify_peer_cert` field: a bool or, for backwards compatibility, a string) -/

inductive Value_Kind where
  | nil
  | BoolValue (v : Bool)
  | StringValue (v : Str)
  | Other                      -- null, number, struct, list
  deriving Repr, BEq, DecidableEq

structure Value where
  isNil : Bool := false
  Kind : Value_Kind := .nil
  deriving Repr, BEq, DecidableEq
def Value.GetStringValue (v : Value) : Str := if v.isNil then [] else match v.Kind with | .StringValue s => s | _ => []
def Value.GetBoolValue (v : Value) : Bool := if v.isNil then false else match v.Kind with | .BoolValue b => b | _ => false

end AuthModel.Pb
