/-
  Hand-written EXPECTATION for the regenerated state inventory (AuthModel/Generated/State.lean, written by
  tools/factgen/state.go on every run): every package-level variable and every struct field of the packages on the
  Check path, each CLASSIFIED by what it can carry from one check to the next:

    const   a value fixed at program start and never assigned afterwards (error sentinels, key tables, the shared
            `allow` response, the standard no-cache header list)
    dep     a collaborator injected at construction (logger, pool, provider, client, clock, factory)
    config  configuration, fixed at construction (the one exception, the OIDCConfig written by discovery and by the secret
            controller, is the subject of the C16 findings and of C19)
    record  a field of a plain data record that lives for one call or inside the session store (token response, login
            state, discovery document, Redis row, ...)
    state   mutable state that outlives a check - ONLY: the in-memory session map and its entries, the discovery cache,
            the file watchers, the TLS configuration pool, the JWKS cache, the store factory's stores, the secret index

  The property theorems rest on the handler, the filter and the Redis store having NO entry of class `state`: a check is
  a function of (configuration, request, store answers, clock, IdP answers, key-source answers, entropy). A verdict
  cache, a handler cache, an object pool, a single-flight group or a per-process copy of session data is a new
  package-level variable or a new struct field and changes the inventory, whatever it is called.
-/
namespace AuthModel.StateExpect

abbrev Entry := (String × String) × String

def server : List Entry :=
  [(("var authz.go:allow", "&envoy.CheckResponse{1}"), "const"),
   (("var authz.go:deny", "func"), "const"),
   (("ExtAuthZFilter.log", "telemetry.Logger"), "dep"),
   (("ExtAuthZFilter.cfg", "*configv1.Config"), "config"),
   (("ExtAuthZFilter.tlsPool", "internal.TLSConfigPool"), "dep"),
   (("ExtAuthZFilter.jwks", "oidc.JWKSProvider"), "dep"),
   (("ExtAuthZFilter.sessions", "oidc.SessionStoreFactory"), "dep"),
   (("healthServer.log", "telemetry.Logger"), "dep"),
   (("healthServer.config", "*configv1.Config"), "config"),
   (("healthServer.server", "*http.Server"), "state"),
   (("healthServer.l", "net.Listener"), "state"),
   (("LogMiddleware.log", "telemetry.Logger"), "dep"),
   (("Server.log", "telemetry.Logger"), "dep"),
   (("Server.cfg", "*configv1.Config"), "config"),
   (("Server.server", "*grpc.Server"), "state"),
   (("Server.registerHandlers", "[]func(s*grpc.Server)"), "dep"),
   (("Server.Listen", "func()(net.Listener,error)"), "dep")]

def authz : List Entry :=
  [(("mockHandler.log", "telemetry.Logger"), "dep"),
   (("mockHandler.config", "*mockv1.MockConfig"), "config"),
   (("var oidc.go:standardResponseHeaders", "[]*corev3.HeaderValueOption{2}"), "const"),
   (("var oidc.go:ErrMissingLogoutRedirectURI", "errors.New(1)"), "const"),
   (("oidcHandler.log", "telemetry.Logger"), "dep"),
   (("oidcHandler.config", "*oidcv1.OIDCConfig"), "config"),
   (("oidcHandler.tlsPool", "internal.TLSConfigPool"), "dep"),
   (("oidcHandler.jwks", "oidc.JWKSProvider"), "dep"),
   (("oidcHandler.sessions", "oidc.SessionStoreFactory"), "dep"),
   (("oidcHandler.sessionGen", "oidc.SessionGenerator"), "dep"),
   (("oidcHandler.clock", "oidc.Clock"), "dep"),
   (("oidcHandler.httpClient", "*http.Client"), "dep"),
   (("idpTokensResponse.IDToken", "string"), "record"),
   (("idpTokensResponse.AccessToken", "string"), "record"),
   (("idpTokensResponse.RefreshToken", "string"), "record"),
   (("idpTokensResponse.ExpiresIn", "int"), "record"),
   (("idpTokensResponse.TokenType", "string"), "record"),
   (("idpTokensResponse.Scope", "string"), "record"),
   (("idpTokensResponse.DeviceSecret", "string"), "record")]

def oidc : List Entry :=
  [(("WellKnownConfig.Issuer", "string"), "record"),
   (("WellKnownConfig.AuthorizationEndpoint", "string"), "record"),
   (("WellKnownConfig.TokenEndpoint", "string"), "record"),
   (("WellKnownConfig.JWKSURL", "string"), "record"),
   (("WellKnownConfig.ResponseTypesSupported", "[]string"), "record"),
   (("WellKnownConfig.SubjectTypesSupported", "[]string"), "record"),
   (("WellKnownConfig.IDTokenSigningAlgorithms", "[]string"), "record"),
   (("WellKnownConfig.TokenEndpointAuthMethods", "[]string"), "record"),
   (("WellKnownConfig.UserInfoEndpoint", "string"), "record"),
   (("WellKnownConfig.EndSessionEndpoint", "string"), "record"),
   (("WellKnownConfig.RevocationEndpoint", "string"), "record"),
   (("WellKnownConfig.IntrospectionEndpoint", "string"), "record"),
   (("WellKnownConfig.ScopesSupported", "[]string"), "record"),
   (("WellKnownConfig.ClaimsSupported", "[]string"), "record"),
   (("WellKnownConfig.CodeChallengeMethods", "[]string"), "record"),
   (("WellKnownConfig.TokenRevocationEndpoint", "string"), "record"),
   (("var discovery.go:wellKnownConfigs", "make(1)"), "state"),
   (("var discovery.go:wellKnownConfigsMu", "sync.Mutex"), "state"),
   (("var jwks.go:ErrJWKSParse", "errors.New(1)"), "const"),
   (("var jwks.go:ErrJWKSFetch", "errors.New(1)"), "const"),
   (("DefaultJWKSProvider.log", "telemetry.Logger"), "dep"),
   (("DefaultJWKSProvider.cache", "*jwk.Cache"), "state"),
   (("DefaultJWKSProvider.config", "*configv1.Config"), "config"),
   (("DefaultJWKSProvider.tlsPool", "internal.TLSConfigPool"), "dep"),
   (("DefaultJWKSProvider.started", "chanstruct{}"), "state"),
   (("memoryStore.log", "telemetry.Logger"), "dep"),
   (("memoryStore.clock", "*Clock"), "dep"),
   (("memoryStore.absoluteSessionTimeout", "time.Duration"), "config"),
   (("memoryStore.idleSessionTimeout", "time.Duration"), "config"),
   (("memoryStore.mu", "sync.Mutex"), "state"),
   (("memoryStore.sessions", "map[string]*session"), "state"),
   (("session.tokenResponse", "*TokenResponse"), "state"),
   (("session.authorizationState", "*AuthorizationState"), "state"),
   (("session.added", "time.Time"), "state"),
   (("session.accessed", "time.Time"), "state"),
   (("var redis.go:ErrRedis", "errors.New(1)"), "const"),
   (("var redis.go:tokenResponseKeys", "[]string{5}"), "const"),
   (("var redis.go:authorizationStateKeys", "[]string{5}"), "const"),
   (("redisStore.log", "telemetry.Logger"), "dep"),
   (("redisStore.clock", "*Clock"), "dep"),
   (("redisStore.client", "redis.Cmdable"), "dep"),
   (("redisStore.absoluteSessionTimeout", "time.Duration"), "config"),
   (("redisStore.idleSessionTimeout", "time.Duration"), "config"),
   (("redisToken.IDToken", "string"), "record"),
   (("redisToken.AccessToken", "string"), "record"),
   (("redisToken.AccessTokenExpiresAt", "time.Time"), "record"),
   (("redisToken.RefreshToken", "string"), "record"),
   (("redisToken.TimeAdded", "time.Time"), "record"),
   (("redisAuthState.State", "string"), "record"),
   (("redisAuthState.Nonce", "string"), "record"),
   (("redisAuthState.RequestedURL", "string"), "record"),
   (("redisAuthState.CodeVerifier", "string"), "record"),
   (("redisAuthState.TimeAdded", "time.Time"), "record"),
   (("sessionStoreFactory.Config", "*configv1.Config"), "config"),
   (("sessionStoreFactory.log", "telemetry.Logger"), "dep"),
   (("sessionStoreFactory.redis", "map[string]SessionStore"), "state"),
   (("sessionStoreFactory.memory", "SessionStore"), "state"),
   (("struct randomGenerator", "{}"), "record"),
   (("staticGenerator.sessionID", "string"), "record"),
   (("staticGenerator.nonce", "string"), "record"),
   (("staticGenerator.state", "string"), "record"),
   (("staticGenerator.codeVerifier", "string"), "record"),
   (("AuthorizationState.State", "string"), "record"),
   (("AuthorizationState.Nonce", "string"), "record"),
   (("AuthorizationState.RequestedURL", "string"), "record"),
   (("AuthorizationState.CodeVerifier", "string"), "record"),
   (("Clock.NowFn", "func()time.Time"), "dep"),
   (("TokenResponse.IDToken", "string"), "record"),
   (("TokenResponse.AccessToken", "string"), "record"),
   (("TokenResponse.AccessTokenExpiresAt", "time.Time"), "record"),
   (("TokenResponse.RefreshToken", "string"), "record")]

def http : List Entry :=
  [(("LoggingRoundTripper.Log", "telemetry.Logger"), "dep"),
   (("LoggingRoundTripper.Delegate", "http.RoundTripper"), "dep")]

def internal : List Entry :=
  [(("var config.go:ErrInvalidPath", "errors.New(1)"), "const"),
   (("var config.go:ErrInvalidOIDCOverride", "errors.New(1)"), "const"),
   (("var config.go:ErrDuplicateOIDCConfig", "errors.New(1)"), "const"),
   (("var config.go:ErrMultipleOIDCConfig", "errors.New(1)"), "const"),
   (("var config.go:ErrInvalidURL", "errors.New(1)"), "const"),
   (("var config.go:ErrRequiredURL", "errors.New(1)"), "const"),
   (("var config.go:ErrHealthPortInUse", "errors.New(1)"), "const"),
   (("var config.go:ErrMustNotBeRootPath", "errors.New(1)"), "const"),
   (("var config.go:ErrMustBeDifferentPath", "errors.New(1)"), "const"),
   (("var config.go:ErrInvalidCookiePrefix", "errors.New(1)"), "const"),
   (("LocalConfigFile.path", "string"), "config"),
   (("LocalConfigFile.Config", "configv1.Config"), "config"),
   (("FileWatcher.ctx", "context.Context"), "dep"),
   (("FileWatcher.log", "telemetry.Logger"), "dep"),
   (("FileWatcher.mu", "sync.Mutex"), "state"),
   (("FileWatcher.watchers", "map[string]*watcher"), "state"),
   (("watcher.ctx", "context.Context"), "state"),
   (("watcher.cancel", "context.CancelFunc"), "state"),
   (("watcher.log", "telemetry.Logger"), "dep"),
   (("watcher.interval", "time.Duration"), "config"),
   (("watcher.callback", "func([]byte)"), "dep"),
   (("watcher.reader", "Reader"), "dep"),
   (("watcher.data", "[]byte"), "state"),
   (("FileReader.filePath", "string"), "record"),
   (("var logging.go:scopes", "map[string]string{10}"), "const"),
   (("var logging.go:ErrInvalidLogLevel", "errors.New(1)"), "const"),
   (("setupLogging.logger", "telemetry.Logger"), "dep"),
   (("setupLogging.cfg", "*configv1.Config"), "config"),
   (("logrAdapter.scope", "telemetry.Logger"), "dep"),
   (("logrAdapter.kvs", "[]any"), "record"),
   (("tlsConfigPool.log", "telemetry.Logger"), "dep"),
   (("tlsConfigPool.mu", "sync.RWMutex"), "state"),
   (("tlsConfigPool.configs", "map[string]*tls.Config"), "state"),
   (("tlsConfigPool.caWatcher", "*FileWatcher"), "dep"),
   (("tlsCAFileReader.*FileReader", "embedded"), "record"),
   (("tlsCAFileReader.configID", "string"), "record"),
   (("tlsConfigEncoder.SkipVerifyPeerCert", "bool"), "record"),
   (("tlsConfigEncoder.TrustedCA", "string"), "record"),
   (("tlsConfigEncoder.TrustedCAFile", "string"), "record"),
   (("tlsConfigEncoder.TrustedCARefreshInterval", "string"), "record")]

def k8s : List Entry :=
  [(("var secret_controller.go:ErrLoadingConfig", "errors.New(1)"), "const"),
   (("var secret_controller.go:ErrCrossNamespaceSecretRef", "errors.New(1)"), "const"),
   (("SecretController.log", "telemetry.Logger"), "dep"),
   (("SecretController.config", "*configv1.Config"), "config"),
   (("SecretController.secrets", "map[string][]*oidcv1.OIDCConfig"), "state"),
   (("SecretController.restConf", "*rest.Config"), "config"),
   (("SecretController.manager", "manager.Manager"), "dep"),
   (("SecretController.k8sClient", "client.Client"), "dep"),
   (("SecretController.namespace", "string"), "config")]

def names (l : List Entry) : List (String × String) := l.map (·.1)
def ofClass (c : String) (l : List Entry) : List String := (l.filter (·.2 == c)).map (·.1.1)

end AuthModel.StateExpect
