/-
  Session data and the abstract session map (the specification of C12).
  Time is an integer number of nanoseconds since the Unix epoch.
-/
import AuthModel.Str
namespace AuthModel

structure AuthState where
  state : Str
  nonce : Str
  requestedUrl : Str
  codeVerifier : Str
  deriving Repr, BEq, DecidableEq

/-- `oidc.TokenResponse`; `accessExp = none` is the zero `time.Time`. -/
structure Tokens where
  idToken : Str
  accessToken : Str := []
  refreshToken : Str := []
  accessExp : Option Int := none
  deriving Repr, BEq, DecidableEq

/-- what a plain map keeps per session id -/
structure Sess where
  auth : Option AuthState
  tokens : Option Tokens
  created : Int
  deriving Repr, BEq, DecidableEq

abbrev SpecMap := Str → Option Sess

def upd {α} (m : Str → α) (k : Str) (v : α) : Str → α := fun k' => if k' = k then v else m k'

namespace Spec

def setTok (m : SpecMap) (id : Str) (t : Tokens) (now : Int) : SpecMap :=
  upd m id (some (match m id with
    | none => { auth := none, tokens := some t, created := now }
    | some s => { s with tokens := some t }))

def getTok (m : SpecMap) (id : Str) : Option Tokens := (m id).bind (·.tokens)

def setAuth (m : SpecMap) (id : Str) (a : AuthState) (now : Int) : SpecMap :=
  upd m id (some (match m id with
    | none => { auth := some a, tokens := none, created := now }
    | some s => { s with auth := some a }))

def getAuth (m : SpecMap) (id : Str) : Option AuthState := (m id).bind (·.auth)

def clearAuth (m : SpecMap) (id : Str) : SpecMap :=
  match m id with
  | none => m
  | some s => upd m id (some { s with auth := none })

def remove (m : SpecMap) (id : Str) : SpecMap := upd m id none

end Spec

/-- results of store calls: `err` is a returned Go error -/
inductive SRes (α : Type) where
  | ok (a : α)
  | err
  deriving Repr, BEq, DecidableEq

end AuthModel
