/-
  Model of internal/oidc/redis.go as command sequences over a model of the Redis hash + TTL commands
  it uses (HSET/HMSET, HSETNX, HDEL, HMGET/HGET, DEL, EXPIREAT). One value of `RHash` is the state of ONE key;
  a server is `Str → RHash` and every store method touches only the key of its session id.
  The record with all fields absent is the non-existing key (Redis deletes a hash with its last field).
-/
import AuthModel.Store.Types
namespace AuthModel

structure RHash where
  idToken : Option Str := none
  accessToken : Option Str := none
  refreshToken : Option Str := none
  accessExp : Option Int := none
  state : Option Str := none
  nonce : Option Str := none
  requestedUrl : Option Str := none
  codeVerifier : Option Str := none
  timeAdded : Option Int := none
  expireAt : Option Int := none        -- argument of the last EXPIREAT, in seconds
  deriving Repr, BEq, DecidableEq

namespace Redis

def sec : Int := 1000000000

def hasFields (h : RHash) : Bool :=
  h.idToken.isSome || h.accessToken.isSome || h.refreshToken.isSome || h.accessExp.isSome ||
  h.state.isSome || h.nonce.isSome || h.requestedUrl.isSome || h.codeVerifier.isSome || h.timeAdded.isSome

/-- a hash without fields does not exist (and has no TTL) -/
def norm (h : RHash) : RHash := if hasFields h then h else {}

/-- what the server holds for the key at server time `now`: an expired key is gone -/
def visible (now : Int) (h : RHash) : RHash :=
  match h.expireAt with
  | some e => if now < e * sec then h else {}
  | none => h

/-- `EXPIREAT key e`: no-op on a missing key; a time that is not in the future deletes the key -/
def expireAtCmd (now : Int) (e : Int) (h : RHash) : RHash :=
  if !hasFields h then h else if e * sec ≤ now then {} else { h with expireAt := some e }

/-- the expiration `refreshExpiration` computes (a `time.Time`, ns) -/
def expiryTime (abs idle now ta : Int) : Int :=
  if abs = 0 then now + idle
  else if idle = 0 then ta + abs
  else if now + idle < ta + abs then now + idle else ta + abs

/-- `refreshExpiration(ctx, id, timeAdded)`; `taArg = none` is the zero time (then HGET time_added).
    Returns the new state and whether the call succeeded. -/
def refreshTA (abs idle now : Int) (ta : Option Int) (h : RHash) : RHash × Bool :=
  match ta with
  | none => ({}, false)                                   -- DEL, ErrRedis
  | some ta =>
    if abs = 0 ∧ idle = 0 then (h, true)
    else (expireAtCmd now (Int.fdiv (expiryTime abs idle now ta) sec) h, true)

def refresh (abs idle now : Int) (taArg : Option Int) (h : RHash) : RHash × Bool :=
  refreshTA abs idle now (match taArg with | some t => some t | none => h.timeAdded) h

/-- the commands of `SetTokenResponse` before `refreshExpiration`, one function per Redis command -/
def setTokSteps (t : Tokens) (now : Int) : List (RHash → RHash) :=
  [fun h => { h with idToken := some t.idToken }]
  ++ (if t.accessToken ≠ [] then [fun h => { h with accessToken := some t.accessToken }] else [])
  ++ (if t.accessExp.isSome then [fun h => { h with accessExp := t.accessExp }] else [])
  ++ (if t.refreshToken ≠ [] then [fun h => { h with refreshToken := some t.refreshToken }] else [])
  ++ (if t.accessToken = [] ∨ t.accessExp.isNone ∨ t.refreshToken = [] then
        [fun h => norm { h with
            accessToken := if t.accessToken = [] then none else h.accessToken,
            accessExp := if t.accessExp.isNone then none else h.accessExp,
            refreshToken := if t.refreshToken = [] then none else h.refreshToken }]
      else [])
  ++ [fun h => if h.timeAdded.isNone then { h with timeAdded := some now } else h]

def runSteps (steps : List (RHash → RHash)) (h : RHash) : RHash := steps.foldl (fun h f => f h) h

def setTok (abs idle now : Int) (t : Tokens) (h : RHash) : RHash × Bool :=
  refresh abs idle now none (runSteps (setTokSteps t now) (visible now h))

def setAuthSteps (a : AuthState) (now : Int) : List (RHash → RHash) :=
  [fun h => { h with state := some a.state, nonce := some a.nonce,
                     requestedUrl := some a.requestedUrl, codeVerifier := some a.codeVerifier },
   fun h => if h.timeAdded.isNone then { h with timeAdded := some now } else h]

def setAuth (abs idle now : Int) (a : AuthState) (h : RHash) : RHash × Bool :=
  refresh abs idle now none (runSteps (setAuthSteps a now) (visible now h))

/-- decoding of the HMGET answer into `redisToken.TokenResponse()` -/
def tokensOf (h : RHash) : Tokens :=
  { idToken := h.idToken.getD [], accessToken := h.accessToken.getD [],
    refreshToken := h.refreshToken.getD [], accessExp := h.accessExp }

def getTok (parses : Str → Bool) (abs idle now : Int) (h : RHash) : RHash × SRes (Option Tokens) :=
  let h := visible now h
  if h.idToken.getD [] = [] then (h, .ok none)
  else if !parses (h.idToken.getD []) then (h, .ok none)
  else
    let (h', ok) := refresh abs idle now h.timeAdded h
    if ok then (h', .ok (some (tokensOf h))) else (h', .err)

def authOf (h : RHash) : AuthState :=
  { state := h.state.getD [], nonce := h.nonce.getD [],
    requestedUrl := h.requestedUrl.getD [], codeVerifier := h.codeVerifier.getD [] }

def getAuth (abs idle now : Int) (h : RHash) : RHash × SRes (Option AuthState) :=
  let h := visible now h
  if h.state.getD [] = [] ∨ h.nonce.getD [] = [] ∨ h.requestedUrl.getD [] = [] ∨ h.codeVerifier.getD [] = [] then (h, .ok none)
  else
    let (h', ok) := refresh abs idle now h.timeAdded h
    if ok then (h', .ok (some (authOf h))) else (h', .err)

/-- `ClearAuthorizationState`: HDEL state nonce requested_url, then refresh with the zero time -/
def clearAuth (abs idle now : Int) (h : RHash) : RHash × Bool :=
  let h := visible now h
  refresh abs idle now none (norm { h with state := none, nonce := none, requestedUrl := none })

def remove (_h : RHash) : RHash := {}

end Redis

/-- the Redis-backed store: timeouts + server -/
structure RedisStore where
  abs : Int
  idle : Int
  server : Str → RHash

end AuthModel
