/-
  Model of internal/oidc/memory.go (after the `live` fix: timeouts are enforced on every access).
-/
import AuthModel.Store.Types
namespace AuthModel

structure MSess where
  tokens : Option Tokens
  auth : Option AuthState
  added : Int
  accessed : Int
  deriving Repr, BEq, DecidableEq

structure MemStore where
  abs : Int            -- absoluteSessionTimeout, ns; 0 = none
  idle : Int           -- idleSessionTimeout, ns; 0 = none
  sessions : Str → Option MSess

namespace MemStore

/-- `s.added.Add(abs).Before(now) || s.accessed.Add(idle).Before(now)` with the `> 0` guards -/
def expired (m : MemStore) (now : Int) (s : MSess) : Bool :=
  (decide (m.abs > 0) && decide (s.added + m.abs < now)) || (decide (m.idle > 0) && decide (s.accessed + m.idle < now))

/-- `live`: look the session up; an expired one is deleted and reported absent -/
def live (m : MemStore) (now : Int) (id : Str) : MemStore × Option MSess :=
  match m.sessions id with
  | none => (m, none)
  | some s => if m.expired now s then ({ m with sessions := upd m.sessions id none }, none) else (m, some s)

/-- `set` -/
def set (m : MemStore) (now : Int) (id : Str) (f : MSess → MSess) : MemStore :=
  let m1 := (m.live now id).1
  match (m.live now id).2 with
  | some s => { m1 with sessions := upd m1.sessions id (some (f { s with accessed := now })) }
  | none => { m1 with sessions := upd m1.sessions id (some (f { tokens := none, auth := none, added := now, accessed := now })) }

def setTok (m : MemStore) (now : Int) (id : Str) (t : Tokens) : MemStore :=
  m.set now id fun s => { s with tokens := some t }

def setAuth (m : MemStore) (now : Int) (id : Str) (a : AuthState) : MemStore :=
  m.set now id fun s => { s with auth := some a }

def getTok (m : MemStore) (now : Int) (id : Str) : MemStore × Option Tokens :=
  let m1 := (m.live now id).1
  match (m.live now id).2 with
  | none => (m1, none)
  | some s => ({ m1 with sessions := upd m1.sessions id (some { s with accessed := now }) }, s.tokens)

def getAuth (m : MemStore) (now : Int) (id : Str) : MemStore × Option AuthState :=
  let m1 := (m.live now id).1
  match (m.live now id).2 with
  | none => (m1, none)
  | some s => ({ m1 with sessions := upd m1.sessions id (some { s with accessed := now }) }, s.auth)

def clearAuth (m : MemStore) (now : Int) (id : Str) : MemStore :=
  let m1 := (m.live now id).1
  match (m.live now id).2 with
  | none => m1
  | some s => { m1 with sessions := upd m1.sessions id (some { s with accessed := now, auth := none }) }

def remove (m : MemStore) (id : Str) : MemStore := { m with sessions := upd m.sessions id none }

/-- `RemoveAllExpired` -/
def removeAllExpired (m : MemStore) (now : Int) : MemStore :=
  { m with sessions := fun id => match m.sessions id with
      | none => none
      | some s =>
        if (decide (m.abs > 0) && decide (s.added < now - m.abs)) || (decide (m.idle > 0) && decide (s.accessed < now - m.idle))
        then none else some s }

def empty (abs idle : Int) : MemStore := { abs := abs, idle := idle, sessions := fun _ => none }

end MemStore
end AuthModel
