/-
  Operation sequences over the stores and over the abstract session map.
-/
import AuthModel.Store.Memory
import AuthModel.Store.Redis
namespace AuthModel

inductive SOp where
  | setTok (id : Str) (t : Tokens)
  | getTok (id : Str)
  | setAuth (id : Str) (a : AuthState)
  | getAuth (id : Str)
  | clearAuth (id : Str)
  | remove (id : Str)

inductive SOut where
  | done
  | tok (o : Option Tokens)
  | auth (o : Option AuthState)
  | failed
  deriving BEq, DecidableEq, Repr

/-- One step of the plain map. The only place where the two stores differ inside the input guard is named here:
    clearing the login state of an absent id succeeds in memory and reports an error in Redis (state unchanged). -/
def specStep (redisMode : Bool) (m : SpecMap) (now : Int) : SOp → SpecMap × SOut
  | .setTok id t => (Spec.setTok m id t now, .done)
  | .getTok id => (m, .tok (Spec.getTok m id))
  | .setAuth id a => (Spec.setAuth m id a now, .done)
  | .getAuth id => (m, .auth (Spec.getAuth m id))
  | .clearAuth id => (Spec.clearAuth m id, if redisMode && (m id).isNone then .failed else .done)
  | .remove id => (Spec.remove m id, .done)

def memStep (m : MemStore) (now : Int) : SOp → MemStore × SOut
  | .setTok id t => (m.setTok now id t, .done)
  | .getTok id => ((m.getTok now id).1, .tok (m.getTok now id).2)
  | .setAuth id a => (m.setAuth now id a, .done)
  | .getAuth id => ((m.getAuth now id).1, .auth (m.getAuth now id).2)
  | .clearAuth id => (m.clearAuth now id, .done)
  | .remove id => (m.remove id, .done)

def okOut (b : Bool) : SOut := if b then .done else .failed

def redisStep (parses : Str → Bool) (abs idle : Int) (srv : Str → RHash) (now : Int) : SOp → (Str → RHash) × SOut
  | .setTok id t => (upd srv id (Redis.setTok abs idle now t (srv id)).1, okOut (Redis.setTok abs idle now t (srv id)).2)
  | .getTok id => (upd srv id (Redis.getTok parses abs idle now (srv id)).1,
      match (Redis.getTok parses abs idle now (srv id)).2 with | .ok o => .tok o | .err => .failed)
  | .setAuth id a => (upd srv id (Redis.setAuth abs idle now a (srv id)).1, okOut (Redis.setAuth abs idle now a (srv id)).2)
  | .getAuth id => (upd srv id (Redis.getAuth abs idle now (srv id)).1,
      match (Redis.getAuth abs idle now (srv id)).2 with | .ok o => .auth o | .err => .failed)
  | .clearAuth id => (upd srv id (Redis.clearAuth abs idle now (srv id)).1, okOut (Redis.clearAuth abs idle now (srv id)).2)
  | .remove id => (upd srv id (Redis.remove (srv id)), .done)

/-- run a history: each operation comes with the clock reading at which it is executed -/
def runOps {σ : Type} (step : σ → Int → SOp → σ × SOut) : σ → List (Int × SOp) → List SOut
  | _, [] => []
  | s, (now, op) :: rest => (step s now op).2 :: runOps step (step s now op).1 rest

end AuthModel
