/-
  internal/oidc/redis.go at the level of the Redis COMMANDS it issues, with command-level faults.

  `Store/Redis.lean` models each store method as a function on the hash of its key and assumes every command is
  answered. Here a method is a small command program (`RP`): a command, then a continuation that receives the reply.
  Any command may FAIL (timeout, connection reset, READONLY ...): the client gets an error reply, and the command
  may (`lost true`) or may not (`lost false`) have been applied on the server. `run` executes a program under a
  fault script, one entry per issued command; beyond the script no command fails.

  The clock is frozen during one method (the harness clock is virtual), so server-side expiry (`visible`) is applied
  once, by the caller, before `run`.
-/
import AuthModel.Store.Redis
namespace AuthModel
namespace RedisCmd
open Redis

inductive Cmd where
  | hsetIdToken (v : Str)
  | hsetAccessToken (v : Str)
  | hsetAccessExp (e : Option Int)
  | hsetRefreshToken (v : Str)
  | hdelStale (access exp refresh : Bool)     -- HDEL of the token fields that the new response does not carry
  | hsetnxTimeAdded (now : Int)
  | hmsetAuth (a : AuthState)
  | hdelAuth                                   -- HDEL state nonce requested_url
  | hmgetTok
  | hmgetAuth
  | hgetTimeAdded
  | del
  | expireAt (e : Int)

/-- command name as the client library reports it (used to compare the issued command sequence with the code) -/
def Cmd.name : Cmd → String
  | .hsetIdToken _ | .hsetAccessToken _ | .hsetAccessExp _ | .hsetRefreshToken _ => "hset"
  | .hdelStale .. | .hdelAuth => "hdel"
  | .hsetnxTimeAdded _ => "hsetnx"
  | .hmsetAuth _ => "hmset"
  | .hmgetTok | .hmgetAuth => "hmget"
  | .hgetTimeAdded => "hget"
  | .del => "del"
  | .expireAt _ => "expireat"

inductive Reply where
  | done                 -- a write was acknowledged
  | hash (h : RHash)     -- a read: the fields of the key (the program looks only at the ones it asked for)
  | fail                 -- error reply / no reply

/-- effect of an answered command on the key, at server time `now` -/
def Cmd.eff (now : Int) : Cmd → RHash → RHash
  | .hsetIdToken v, h => { h with idToken := some v }
  | .hsetAccessToken v, h => { h with accessToken := some v }
  | .hsetAccessExp e, h => { h with accessExp := e }
  | .hsetRefreshToken v, h => { h with refreshToken := some v }
  | .hdelStale a e r, h => norm { h with
      accessToken := if a then none else h.accessToken,
      accessExp := if e then none else h.accessExp,
      refreshToken := if r then none else h.refreshToken }
  | .hsetnxTimeAdded t, h => if h.timeAdded.isNone then { h with timeAdded := some t } else h
  | .hmsetAuth a, h => { h with state := some a.state, nonce := some a.nonce,
                                requestedUrl := some a.requestedUrl, codeVerifier := some a.codeVerifier }
  | .hdelAuth, h => norm { h with state := none, nonce := none, requestedUrl := none }
  | .hmgetTok, h | .hmgetAuth, h | .hgetTimeAdded, h => h
  | .del, _ => {}
  | .expireAt e, h => expireAtCmd now e h

def Cmd.isRead : Cmd → Bool
  | .hmgetTok | .hmgetAuth | .hgetTimeAdded => true
  | _ => false

/-- an answered command: new state and reply -/
def Cmd.exec (now : Int) (c : Cmd) (h : RHash) : RHash × Reply :=
  (c.eff now h, if c.isRead then .hash h else .done)

/-- command programs -/
inductive RP (α : Type) where
  | ret (a : α)
  | cmd (c : Cmd) (k : Reply → RP α)

inductive Fault where
  | none
  | lost (applied : Bool)
  deriving DecidableEq, Repr

structure Outcome (α : Type) where
  state : RHash
  res : α
  faulted : Bool          -- some command of this run got an error reply
  issued : List String    -- names of the commands issued, in order

def run {α : Type} (now : Int) : List Fault → RP α → RHash → Outcome α
  | _, .ret a, h => { state := h, res := a, faulted := false, issued := [] }
  | [], .cmd c k, h =>
    let o := run now [] (k (c.exec now h).2) (c.exec now h).1
    { o with issued := c.name :: o.issued }
  | .none :: fs, .cmd c k, h =>
    let o := run now fs (k (c.exec now h).2) (c.exec now h).1
    { o with issued := c.name :: o.issued }
  | .lost applied :: fs, .cmd c k, h =>
    let o := run now fs (k .fail) (if applied then c.eff now h else h)
    { o with faulted := true, issued := c.name :: o.issued }

/-- issue the command; on an error reply return `e` at once -/
def must {α : Type} (c : Cmd) (e : α) (next : RP α) : RP α :=
  .cmd c fun r => match r with | .fail => .ret e | _ => next

/-- `refreshExpiration(ctx, id, timeAdded)`. `ta = none` is the zero time: HGET time_added, whose error is IGNORED by
    the code (`timeAdded, _ = ...`) - a failed HGET leaves the zero time and leads to DEL + ErrRedis. -/
def expirePart (abs idle now ta : Int) : RP Bool :=
  if abs = 0 ∧ idle = 0 then .ret true
  else .cmd (.expireAt (Int.fdiv (expiryTime abs idle now ta) sec)) fun r =>
    match r with | .fail => .ret false | _ => .ret true

def delAndFail : RP Bool := .cmd .del fun _ => .ret false

def refreshP (abs idle now : Int) (ta : Option Int) : RP Bool :=
  match ta with
  | some t => expirePart abs idle now t
  | none => .cmd .hgetTimeAdded fun r =>
      match r with
      | .hash h => (match h.timeAdded with
          | some t => expirePart abs idle now t
          | none => delAndFail)
      | _ => delAndFail

/-- the commands of SetTokenResponse before refreshExpiration -/
def setTokCmds (t : Tokens) (now : Int) : List Cmd :=
  [.hsetIdToken t.idToken]
  ++ (if t.accessToken ≠ [] then [.hsetAccessToken t.accessToken] else [])
  ++ (if t.accessExp.isSome then [.hsetAccessExp t.accessExp] else [])
  ++ (if t.refreshToken ≠ [] then [.hsetRefreshToken t.refreshToken] else [])
  ++ (if t.accessToken = [] ∨ t.accessExp.isNone ∨ t.refreshToken = [] then
        [.hdelStale (t.accessToken = []) t.accessExp.isNone (t.refreshToken = [])] else [])
  ++ [.hsetnxTimeAdded now]

/-- a straight-line sequence: every command must be answered -/
def seqP (cs : List Cmd) (next : RP Bool) : RP Bool :=
  match cs with
  | [] => next
  | c :: cs => must c false (seqP cs next)

def setTokP (abs idle now : Int) (t : Tokens) : RP Bool :=
  seqP (setTokCmds t now) (refreshP abs idle now none)

def setAuthP (abs idle now : Int) (a : AuthState) : RP Bool :=
  seqP [.hmsetAuth a, .hsetnxTimeAdded now] (refreshP abs idle now none)

def clearAuthP (abs idle now : Int) : RP Bool :=
  seqP [.hdelAuth] (refreshP abs idle now none)

def removeP : RP Bool := .cmd .del fun r => match r with | .fail => .ret false | _ => .ret true

def liftRes {α : Type} (a : α) (p : RP Bool) : RP (SRes α) :=
  match p with
  | .ret b => .ret (cond b (.ok a) .err)
  | .cmd c k => .cmd c fun r => liftRes a (k r)

def getTokP (parses : Str → Bool) (abs idle now : Int) : RP (SRes (Option Tokens)) :=
  .cmd .hmgetTok fun r =>
    match r with
    | .hash h =>
      if h.idToken.getD [] = [] then .ret (.ok none)
      else if !parses (h.idToken.getD []) then .ret (.ok none)
      else liftRes (some (tokensOf h)) (refreshP abs idle now h.timeAdded)
    | _ => .ret .err

def getAuthP (abs idle now : Int) : RP (SRes (Option AuthState)) :=
  .cmd .hmgetAuth fun r =>
    match r with
    | .hash h =>
      if h.state.getD [] = [] ∨ h.nonce.getD [] = [] ∨ h.requestedUrl.getD [] = [] ∨ h.codeVerifier.getD [] = [] then .ret (.ok none)
      else liftRes (some (authOf h)) (refreshP abs idle now h.timeAdded)
    | _ => .ret .err

end RedisCmd
end AuthModel
