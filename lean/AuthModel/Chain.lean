/-
  Model of ExtAuthZFilter.Check (internal/server/authz.go): trigger rules, chain selection, filter loop.
  A filter is a function from the response accumulated so far to the response it leaves behind,
  or `none` when the handler (or its construction) returns an error: then `Check` returns the error
  and no verdict.
-/
import AuthModel.Resp
import AuthModel.Trigger
namespace AuthModel
open Str

structure Match where
  header : Str
  equality : Str     -- "" when the `prefix` arm (or none) is set
  pfx : Str          -- "" when the `equality` arm (or none) is set
  deriving Repr, BEq, DecidableEq

abbrev Filter := Resp → Option Resp

structure Chain where
  criterion : Option Match
  filters : List Filter

/-- Go map lookup with the zero value for a missing key. The header map of a request has unique keys. -/
def headerValue (hdrs : Headers) (k : Str) : Str :=
  match hdrs.find? (·.1 == k) with
  | some kv => kv.2
  | none => []

/-- `matches` -/
def chainMatches (m : Option Match) (hdrs : Headers) : Bool :=
  match m with
  | none => true
  | some m =>
    let v := headerValue hdrs (toLowerAscii m.header)
    if m.equality ≠ [] then v == m.equality else hasPrefix v m.pfx

def allowResp : Resp := { code := cOK }
def noChainResp : Resp := { code := cPermissionDenied, message := B "no chains matched" }

/-- the filter loop of one chain, starting from the accumulated response `r` -/
def runFilters : List Filter → Resp → Option Resp
  | [], r => some r
  | f :: fs, r =>
    match f r with
    | none => none
    | some r' => if r'.code == cOK then runFilters fs r' else some r'

/-- the chain loop -/
def runChains (allowUnmatched : Bool) (hdrs : Headers) : List Chain → Option Resp
  | [] => some (if allowUnmatched then allowResp else noChainResp)
  | c :: cs =>
    if chainMatches c.criterion hdrs then
      if c.filters.isEmpty then some allowResp else runFilters c.filters Resp.empty
    else runChains allowUnmatched hdrs cs

/-- `Check`: `triggered` is the result of `mustTrigger` for the request. -/
def check (triggered : Bool) (allowUnmatched : Bool) (chains : List Chain) (hdrs : Headers) : Option Resp :=
  if !triggered then some allowResp else runChains allowUnmatched hdrs chains

/-- The mock filter: sets only the status code, keeps whatever HTTP response an earlier filter left. -/
def mockFilter (allow : Bool) : Filter := fun r =>
  some { r with code := if allow then cOK else cPermissionDenied, message := [] }

end AuthModel
