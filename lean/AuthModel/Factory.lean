/-
  Model of the session store factory (internal/oidc/session.go: PreRun, Get): which store backs which OIDC filter,
  and with whose timeouts the store was constructed.
-/
import AuthModel.Str
namespace AuthModel
namespace Factory

structure FilterStore where
  redisUri : Str          -- "" = no Redis configured
  abs : Nat
  idle : Nat
  deriving Repr, BEq, DecidableEq

inductive StoreId where
  | memory
  | redis (uri : Str)
  deriving Repr, BEq, DecidableEq

structure Built where
  memory : Option (Nat × Nat)              -- timeouts the shared memory store was constructed with
  redis : List (Str × (Nat × Nat))         -- per server URI (a later filter with the same URI replaces the store)

/-- `PreRun` over the OIDC filters in configuration order -/
def preRun : List FilterStore → Built → Built
  | [], b => b
  | f :: fs, b =>
    if f.redisUri ≠ [] then
      preRun fs { b with redis := (b.redis.filter (·.1 ≠ f.redisUri)) ++ [(f.redisUri, (f.abs, f.idle))] }
    else if b.memory.isNone then preRun fs { b with memory := some (f.abs, f.idle) }
    else preRun fs b

/-- `Get` -/
def get (b : Built) (f : FilterStore) : StoreId :=
  if b.redis.any (·.1 == f.redisUri) then .redis f.redisUri else .memory

def timeoutsOf (b : Built) : StoreId → Option (Nat × Nat)
  | .memory => b.memory
  | .redis uri => (b.redis.find? (·.1 == uri)).map (·.2)

end Factory
end AuthModel
