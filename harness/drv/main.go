// Package main is the verification harness of /verif. It is injected into the module of /repo with
// `go build -overlay` (as internal/zzverif/drv), so that it can call the real, unexported-by-module
// packages in-process. Nothing here is part of the repository.
package main

import (
	"bufio"
	"crypto/sha256"
	"encoding/hex"
	"encoding/json"
	"fmt"
	"math/rand"
	"os"
	"path/filepath"
	"sort"
	"strconv"
	"strings"
	"time"
)

// Run is the shared state of one harness run for one property.
type Run struct {
	Prop   string
	Tier   string
	Seed   int64
	Out    string
	Rng    *rand.Rand
	ops    *bufio.Writer
	impl   *bufio.Writer
	opsF   *os.File
	implF  *os.File
	nLines int

	Evaluations int
	distinct    map[[32]byte]struct{}
	Samples     []any
	Dist        map[string]int
	Violations  []Violation
	Known       []string
	Notes       []string
	Extra       map[string]any
	start       time.Time
}

// Violation is a failure of the property observed on the real implementation (monitor), with a replay.
type Violation struct {
	What   string `json:"what"`
	Replay any    `json:"replay"`
}

func newRun(prop, tier string, seed int64, out string) *Run {
	must(os.MkdirAll(out, 0o755))
	of, err := os.Create(filepath.Join(out, "ops.txt"))
	must(err)
	inf, err := os.Create(filepath.Join(out, "impl.txt"))
	must(err)
	return &Run{
		Prop: prop, Tier: tier, Seed: seed, Out: out,
		Rng: rand.New(rand.NewSource(seed)),
		ops: bufio.NewWriterSize(of, 1<<20), impl: bufio.NewWriterSize(inf, 1<<20), opsF: of, implF: inf,
		distinct: map[[32]byte]struct{}{}, Dist: map[string]int{}, Extra: map[string]any{}, start: time.Now(),
	}
}

// Emit records one correspondence line: the operation as sent to the Lean driver and what the implementation did.
func (r *Run) Emit(op, implOut string) {
	if strings.ContainsAny(op, "\n\r") || strings.ContainsAny(implOut, "\n\r") {
		panic("newline in protocol line")
	}
	r.ops.WriteString(op)
	r.ops.WriteByte('\n')
	r.impl.WriteString(implOut)
	r.impl.WriteByte('\n')
	r.nLines++
}

// Case counts one explored case; nontrivialKey != "" marks it non-trivial and distinct by that key.
func (r *Run) Case(nontrivialKey string) {
	r.Evaluations++
	if nontrivialKey != "" {
		r.distinct[sha256.Sum256([]byte(nontrivialKey))] = struct{}{}
	}
}

func (r *Run) Sample(s any) {
	if len(r.Samples) < 6 {
		r.Samples = append(r.Samples, s)
	}
}

func (r *Run) Violate(what string, replay any) {
	if len(r.Violations) < 20 {
		r.Violations = append(r.Violations, Violation{What: what, Replay: replay})
	}
}

// unknownViolations counts violations that are not instances of a recorded finding.
func (r *Run) unknownViolations() int {
	n := 0
	for _, v := range r.Violations {
		if m, ok := v.Replay.(map[string]any); !ok || m["finding_id"] == nil {
			n++
		}
	}
	return n
}

// ViolateOnce records a violation that carries a finding id only once per id (bin/check turns listed ones into
// KNOWN-FINDING lines), any other violation as usual.
func (r *Run) ViolateOnce(what string, replay map[string]any) {
	if fid, ok := replay["finding_id"].(string); ok {
		for _, k := range r.Known {
			if k == fid {
				return
			}
		}
		r.Known = append(r.Known, fid)
	}
	r.Violate(what, replay)
}

func (r *Run) Finish(rule string) {
	must(r.ops.Flush())
	must(r.impl.Flush())
	r.opsF.Close()
	r.implF.Close()
	rep := map[string]any{
		"property": r.Prop, "tier": r.Tier, "seed": r.Seed,
		"evaluations": r.Evaluations, "distinct_nontrivial": len(r.distinct), "rule": rule,
		"samples": r.Samples, "distribution": r.Dist, "violations": r.Violations,
		"known_findings_confirmed": r.Known, "notes": r.Notes, "lines": r.nLines,
		"harness_wall_s": time.Since(r.start).Seconds(), "extra": r.Extra,
	}
	b, err := json.MarshalIndent(rep, "", " ")
	must(err)
	must(os.WriteFile(filepath.Join(r.Out, "report.json"), b, 0o644))
}

func must(err error) {
	if err != nil {
		panic(err)
	}
}

// hx encodes a string for the wire: 'x' + lower-case hex.
func hx(s string) string { return "x" + hex.EncodeToString([]byte(s)) }

func b01(b bool) string {
	if b {
		return "1"
	}
	return "0"
}

func listOr(items []string, sep string) string {
	if len(items) == 0 {
		return "-"
	}
	return strings.Join(items, sep)
}

func sortedKeys[V any](m map[string]V) []string {
	ks := make([]string, 0, len(m))
	for k := range m {
		ks = append(ks, k)
	}
	sort.Strings(ks)
	return ks
}

var checks = map[string]func(*Run){}

func main() {
	if len(os.Args) < 2 {
		fmt.Println("usage: drv <property> [-tier quick|thorough] [-seed n] [-out dir] [-replay file]")
		os.Exit(2)
	}
	prop := os.Args[1]
	tier, seed, out := "quick", int64(1), ""
	for i := 2; i+1 < len(os.Args); i += 2 {
		switch os.Args[i] {
		case "-tier":
			tier = os.Args[i+1]
		case "-seed":
			n, err := strconv.ParseInt(os.Args[i+1], 10, 64)
			must(err)
			seed = n
		case "-out":
			out = os.Args[i+1]
		case "-replay":
			replayFile = os.Args[i+1]
		}
	}
	if out == "" {
		out = "/verif/.work/" + prop
	}
	f, ok := checks[prop]
	if !ok {
		fmt.Println("unknown property", prop)
		os.Exit(2)
	}
	r := newRun(prop, tier, seed, out)
	setLogDebug(false)
	f(r)
}

var replayFile string

func (r *Run) thorough() bool { return r.Tier == "thorough" }

// pick returns a random element
func pick[T any](r *rand.Rand, xs []T) T { return xs[r.Intn(len(xs))] }
