package main

// Consistency under real concurrency, OVER THE WIRE. The real gRPC server of the service (server.New: interceptors,
// serialisation of the CheckResponse by gRPC after Check has returned) on an in-memory connection; logged-in browsers and
// anonymous browsers ask at the same time through a real gRPC client. What a browser's answer looks like when it arrives
// must be what Check built for it: a login redirect carries its own Location and Set-Cookie and the two no-cache headers
// and NOTHING ELSE - in particular none of the token headers that are being added, at the same moment, to the allowed
// requests of other users (C14); an allowed request carries its own session's tokens (C02).
// Runs in a child process (a fatal runtime error cannot be recovered from).

import (
	"bytes"
	"context"
	"encoding/json"
	"fmt"
	"net"
	"net/http"
	"net/http/httptest"
	"net/url"
	"os"
	"os/exec"
	"path/filepath"
	"regexp"
	"strings"
	"sync"
	"sync/atomic"
	"time"

	"github.com/alicebob/miniredis/v2"
	envoy "github.com/envoyproxy/go-control-plane/envoy/service/auth/v3"
	"google.golang.org/grpc"
	"google.golang.org/grpc/credentials/insecure"
	"google.golang.org/grpc/test/bufconn"

	configv1 "github.com/istio-ecosystem/authservice/config/gen/go/v1"
	oidcv1 "github.com/istio-ecosystem/authservice/config/gen/go/v1/oidc"
	"github.com/istio-ecosystem/authservice/internal"
	"github.com/istio-ecosystem/authservice/internal/oidc"
	"github.com/istio-ecosystem/authservice/internal/server"
)

func init() { checks["CCwire"] = runCCWireChild }

// three dot-separated base64url parts starting with an encoded JSON object: a compact JWS (the generated identifiers are
// alphanumeric and contain no dots)
var jwtShape = regexp.MustCompile(`eyJ[A-Za-z0-9_-]{8,}\.[A-Za-z0-9_-]{8,}\.[A-Za-z0-9_-]{8,}`)

func wireHammer(r *Run, tag string) {
	budget := scale(r, 3, 20)
	ctx, cancel := context.WithTimeout(context.Background(), time.Duration(budget*5+60)*time.Second)
	defer cancel()
	cmd := exec.CommandContext(ctx, os.Args[0], "CCwire", "-tier", r.Tier, "-seed", fmt.Sprint(r.Seed), "-out", filepath.Join(r.Out, "ccwire"))
	cmd.Env = append(os.Environ(), fmt.Sprintf("CC_BUDGET_S=%d", budget))
	var out bytes.Buffer
	cmd.Stdout, cmd.Stderr = &out, &out
	err := cmd.Run()
	text := out.String()
	_ = os.WriteFile(filepath.Join(r.Out, "ccwire.log"), out.Bytes(), 0o644)
	found := false
	for _, line := range strings.Split(text, "\n") {
		if strings.HasPrefix(line, "CC-VIOLATION ") {
			var v map[string]any
			if json.Unmarshal([]byte(strings.TrimPrefix(line, "CC-VIOLATION ")), &v) == nil {
				r.Violate(tag+" "+fmt.Sprint(v["what"]), v)
				found = true
				break
			}
		}
		if strings.HasPrefix(line, "CC-SUMMARY ") {
			var sum map[string]int
			if json.Unmarshal([]byte(strings.TrimPrefix(line, "CC-SUMMARY ")), &sum) == nil {
				total := 0
				for k, n := range sum {
					r.Dist["wire:"+k] = n
					total += n
				}
				// counted: the guaranteed minimum (the child runs until it has done that much); what a faster machine does beyond
				// it is reported separately
				floor := 500 * budget
				if total < floor {
					floor = total
				}
				r.Evaluations += floor
				r.Extra["wire_operations_total"] = total
				r.Extra["wire_operations_counted_as_evaluations"] = floor
			}
		}
	}
	switch {
	case found:
	case ctx.Err() != nil:
		r.Violate(tag+" concurrent requests to the gRPC server did not terminate", map[string]any{"log_tail": tail(text, 2000)})
	case strings.Contains(text, "fatal error:") || strings.Contains(text, "panic:"):
		r.Violate(tag+" the service crashed under concurrent requests to its gRPC server (fatal runtime error or panic)", map[string]any{"log_tail": tail(text, 3000)})
	case err != nil:
		r.Violate(tag+" the concurrent gRPC run failed", map[string]any{"error": err.Error(), "log_tail": tail(text, 2000)})
	}
	r.Case("concurrent-wire")
}

func runCCWireChild(r *Run) {
	budget := 3
	fmt.Sscan(os.Getenv("CC_BUDGET_S"), &budget)
	ctx, cancel := context.WithCancel(context.Background())
	defer cancel()
	idp := httptest.NewServer(http.HandlerFunc(func(w http.ResponseWriter, req *http.Request) {
		_ = req.ParseForm()
		nonce := strings.TrimPrefix(req.PostForm.Get("code"), "code-for-")
		b, _ := json.Marshal(map[string]any{"token_type": "Bearer", "expires_in": 600, "access_token": "ACCESS-marker-" + nonce, "refresh_token": "REFRESH-marker-" + nonce,
			"id_token": mintToken(tokSpec{Mode: "good", Exp: time.Now().Unix() + 600, Aud: "cc-client", Nonce: nonce, Sub: "u-" + nonce, Extra: nonce})})
		_, _ = w.Write(b)
	}))
	idp.Config.SetKeepAlivesEnabled(false)
	defer idp.Close()
	mr, err := miniredis.Run()
	must(err)
	defer mr.Close()
	oc := &oidcv1.OIDCConfig{ClientId: "cc-client", ClientSecretConfig: &oidcv1.OIDCConfig_ClientSecret{ClientSecret: "SECRET-marker-cc"},
		CallbackUri: "https://app.example.com/callback", AuthorizationUri: "https://idp.example.com/auth", TokenUri: idp.URL + "/token",
		Scopes: []string{"openid"}, IdToken: &oidcv1.TokenConfig{Header: "authorization", Preamble: "Bearer"},
		AccessToken: &oidcv1.TokenConfig{Header: "x-access-token", Preamble: "Bearer"}, JwksConfig: &oidcv1.OIDCConfig_Jwks{Jwks: keys().doc},
		RedisSessionStoreConfig: &oidcv1.RedisConfig{ServerUri: "redis://" + mr.Addr()}}
	cfg := &configv1.Config{Chains: []*configv1.FilterChain{{Name: "oidc", Filters: []*configv1.Filter{{Type: &configv1.Filter_Oidc{Oidc: oc}}}}}}
	fac := oidc.NewSessionStoreFactory(cfg)
	must(fac.PreRun())
	filter := server.NewExtAuthZFilter(cfg, internal.NewTLSConfigPool(ctx), staticJWKS{}, fac)
	srv := server.New(cfg, filter.Register)
	lis := bufconn.Listen(1 << 20)
	srv.Listen = func() (net.Listener, error) { return lis, nil }
	must(srv.PreRun())
	go func() { _ = srv.Serve() }()
	dial := func() envoy.AuthorizationClient {
		conn, err := grpc.NewClient("passthrough:///bufnet", grpc.WithContextDialer(func(ctx context.Context, _ string) (net.Conn, error) { return lis.DialContext(ctx) }),
			grpc.WithTransportCredentials(insecure.NewCredentials()))
		must(err)
		return envoy.NewAuthorizationClient(conn)
	}
	var once sync.Once
	violate := func(what string, extra map[string]any) {
		once.Do(func() {
			extra["what"] = what
			b, _ := json.Marshal(extra)
			fmt.Println("CC-VIOLATION " + string(b))
		})
	}
	counts := map[string]int{}
	var cmu sync.Mutex
	var totalOps int64
	count := func(k string) { cmu.Lock(); counts[k]++; cmu.Unlock(); atomic.AddInt64(&totalOps, 1) }
	ask := func(cl envoy.AuthorizationClient, path, cookie string) (*envoy.CheckResponse, error) {
		h := map[string]string{}
		if cookie != "" {
			h["cookie"] = cookie
		}
		c, cancel := context.WithTimeout(context.Background(), 10*time.Second)
		defer cancel()
		return cl.Check(c, httpReq("https", "app.example.com", path, "", h))
	}
	// what a redirect may carry, judged on the answer as it arrived
	checkRedirect := func(who string, resp *envoy.CheckResponse) (loc, cookie string, ok bool) {
		den := resp.GetDeniedResponse()
		if den == nil {
			violate("an unauthenticated request was not answered with a login redirect", map[string]any{"who": who, "answer": showResp(resp, nil)})
			return "", "", false
		}
		for _, h := range den.GetHeaders() {
			k, v := strings.ToLower(h.GetHeader().GetKey()), h.GetHeader().GetValue()
			switch k {
			case "cache-control", "pragma":
			case "location":
				loc = v
			case "set-cookie":
				cookie = v
			default:
				violate("a redirect sent back to the user agent carries a header that is not its own: another request's upstream headers (tokens) reached a browser",
					map[string]any{"who": who, "header": k, "value": v, "answer": showResp(resp, nil)})
				return "", "", false
			}
			for _, marker := range []string{"ACCESS-marker", "REFRESH-marker", "SECRET-marker"} {
				if strings.Contains(v, marker) || jwtShape.MatchString(v) {
					violate("a credential (client secret or token) appears in an answer sent back to the user agent", map[string]any{"who": who, "header": k, "value": v, "answer": showResp(resp, nil)})
					return "", "", false
				}
			}
		}
		if !strings.HasPrefix(loc, "https://idp.example.com/auth") || !strings.HasPrefix(cookie, "__Host-") {
			violate("a login redirect arrived without its own Location and Set-Cookie", map[string]any{"who": who, "answer": showResp(resp, nil)})
			return "", "", false
		}
		return loc, cookie, true
	}
	deadline := time.Now().Add(time.Duration(budget) * time.Second)
	// runs for its time budget AND until a minimum amount of work is done (at most four budgets): on a loaded machine it
	// runs longer instead of doing less, so that what the evidence reports does not depend on the load
	hardDeadline := time.Now().Add(time.Duration(4*budget) * time.Second)
	running := func() bool {
		now := time.Now()
		return now.Before(deadline) || (atomic.LoadInt64(&totalOps) < int64(500*budget) && now.Before(hardDeadline))
	}
	var wg sync.WaitGroup
	for g := 0; g < 12; g++ {
		wg.Add(1)
		go func(g int) {
			defer wg.Done()
			cl := dial()
			if g%2 == 0 {
				// anonymous browsers: one login redirect after the other
				for i := 0; running(); i++ {
					resp, err := ask(cl, fmt.Sprintf("/anon/%d/%d", g, i), "")
					count("redirect")
					if err != nil {
						violate("the gRPC server failed a request", map[string]any{"error": err.Error()})
						return
					}
					if _, _, ok := checkRedirect(fmt.Sprintf("anonymous browser %d", g), resp); !ok {
						return
					}
				}
				return
			}
			// a user who logs in once and then keeps browsing (allowed requests: the tokens are injected upstream)
			me := fmt.Sprintf("user%d", g)
			r1, err := ask(cl, "/home/"+me, "")
			if err != nil {
				violate("the gRPC server failed a request", map[string]any{"error": err.Error()})
				return
			}
			loc, sck, ok := checkRedirect(me, r1)
			if !ok {
				return
			}
			u, _ := url.Parse(loc)
			cs := (&http.Response{Header: http.Header{"Set-Cookie": []string{sck}}}).Cookies()
			if u == nil || len(cs) != 1 {
				return
			}
			nonce := u.Query().Get("nonce")
			cookie := cs[0].Name + "=" + cs[0].Value
			r2, err := ask(cl, "/callback?code=code-for-"+nonce+"&state="+u.Query().Get("state"), cookie)
			if l2, _ := hdrValue(r2.GetDeniedResponse().GetHeaders(), "location"); err != nil || l2 != "https://app.example.com/home/"+me {
				violate("the callback of a login did not return the browser to the URL it had asked for", map[string]any{"who": me, "got": showResp(r2, err)})
				return
			}
			for i := 0; running(); i++ {
				r3, err := ask(cl, fmt.Sprintf("/home/%s/%d", me, i), cookie)
				count("allowed")
				if err != nil || r3.GetStatus().GetCode() != 0 {
					violate("a logged-in browser was not let through", map[string]any{"who": me, "got": showResp(r3, err)})
					return
				}
				idh, _ := hdrValue(r3.GetOkResponse().GetHeaders(), "authorization")
				ach, _ := hdrValue(r3.GetOkResponse().GetHeaders(), "x-access-token")
				if !strings.Contains(decodeJWTPayload(strings.TrimPrefix(idh, "Bearer ")), `"u-`+nonce+`"`) || ach != "Bearer ACCESS-marker-"+nonce || len(r3.GetOkResponse().GetHeaders()) != 2 {
					violate("an allowed request does not carry exactly the ID token and access token of its own session", map[string]any{"who": me, "got": showResp(r3, nil)})
					return
				}
			}
		}(g)
	}
	wg.Wait()
	b, _ := json.Marshal(counts)
	fmt.Println("CC-SUMMARY " + string(b))
	os.Exit(0)
}
