package main

import (
	"encoding/json"
	"fmt"
	"net"
	"net/url"
	"os"
	"path/filepath"
	"strings"

	"github.com/redis/go-redis/v9"
	"google.golang.org/protobuf/encoding/protojson"

	configv1 "github.com/istio-ecosystem/authservice/config/gen/go/v1"
	oidcv1 "github.com/istio-ecosystem/authservice/config/gen/go/v1/oidc"
	"github.com/istio-ecosystem/authservice/internal"
)

func init() { checks["C17"] = runC17 }

type J = map[string]any

func oidcWire(o *oidcv1.OIDCConfig) string {
	jw := "u"
	switch {
	case o.GetJwksFetcher() != nil:
		jw = fmt.Sprintf("f%s:%d", hx(o.GetJwksFetcher().GetJwksUri()), o.GetJwksFetcher().GetPeriodicFetchIntervalSec())
	case o.JwksConfig != nil:
		jw = "i" + hx(o.GetJwks())
	}
	sec := "u"
	switch {
	case o.GetClientSecretRef() != nil:
		sec = "r" + hx(o.GetClientSecretRef().GetNamespace()) + ":" + hx(o.GetClientSecretRef().GetName())
	case o.ClientSecretConfig != nil:
		sec = "l" + hx(o.GetClientSecret())
	}
	var sc []string
	for _, s := range o.GetScopes() {
		sc = append(sc, hx(s))
	}
	tok := func(t *oidcv1.TokenConfig) string {
		if t == nil {
			return "-"
		}
		return hx(t.GetHeader()) + ":" + hx(t.GetPreamble())
	}
	lo := "-"
	if o.GetLogout() != nil {
		lo = hx(o.GetLogout().GetPath()) + ":" + hx(o.GetLogout().GetRedirectUri())
	}
	rd := "-"
	if o.GetRedisSessionStoreConfig() != nil {
		rd = hx(strings.Replace(o.GetRedisSessionStoreConfig().GetServerUri(), "tcp://", "redis://", 1))
	}
	return strings.Join([]string{hx(o.GetConfigurationUri()), hx(o.GetAuthorizationUri()), hx(o.GetTokenUri()), hx(o.GetCallbackUri()), jw,
		hx(o.GetClientId()), sec, listOr(sc, ","), hx(o.GetCookieNamePrefix()), tok(o.GetIdToken()), tok(o.GetAccessToken()), lo,
		hx(o.GetProxyUri()), rd, fmt.Sprint(o.GetAbsoluteSessionTimeout()), fmt.Sprint(o.GetIdleSessionTimeout())}, " ")
}

func filterWire(f *configv1.Filter) string {
	switch t := f.GetType().(type) {
	case *configv1.Filter_Mock:
		return "mock" + b01(t.Mock.GetAllow())
	case *configv1.Filter_Oidc:
		return "oidc " + oidcWire(t.Oidc)
	case *configv1.Filter_OidcOverride:
		return "override " + oidcWire(t.OidcOverride)
	}
	return "none"
}

// emitDoc sends the decoded document and the URL oracle rows to the model.
func emitDoc(r *Run, c *configv1.Config) {
	logOK := false
	for _, l := range []string{"trace", "debug", "info", "error", "critical"} {
		if c.GetLogLevel() == l {
			logOK = true
		}
	}
	r.Emit(fmt.Sprintf("conf begin %s %d %d %s", b01(net.ParseIP(c.GetListenAddress()) != nil), c.GetListenPort(), c.GetHealthListenPort(), b01(logOK)), "ok")
	uris := map[string]bool{"": true}
	redisURIs := map[string]bool{}
	collect := func(o *oidcv1.OIDCConfig) {
		if o == nil {
			return
		}
		for _, u := range []string{o.GetProxyUri(), o.GetTokenUri(), o.GetConfigurationUri(), o.GetAuthorizationUri(), o.GetCallbackUri(), o.GetJwksFetcher().GetJwksUri()} {
			uris[u] = true
		}
		if o.GetRedisSessionStoreConfig() != nil {
			redisURIs[strings.Replace(o.GetRedisSessionStoreConfig().GetServerUri(), "tcp://", "redis://", 1)] = true
		}
	}
	collect(c.GetDefaultOidcConfig())
	for _, ch := range c.GetChains() {
		for _, f := range ch.GetFilters() {
			collect(f.GetOidc())
			collect(f.GetOidcOverride())
		}
	}
	for _, u := range sortedKeys(uris) {
		res := "-"
		if p, err := url.Parse(u); err == nil {
			res = hx(p.EscapedPath()) // the path as written (escaped form): what the loader compares with the logout path, and root iff the decoded path is root
		}
		r.Emit("conf url "+hx(u)+" "+res, "ok")
	}
	for _, u := range sortedKeys(redisURIs) {
		_, err := redis.ParseURL(u)
		r.Emit("conf redis "+hx(u)+" "+b01(err == nil), "ok")
	}
	if c.GetDefaultOidcConfig() != nil {
		r.Emit("conf default "+oidcWire(c.GetDefaultOidcConfig()), "ok")
	}
	for _, ch := range c.GetChains() {
		crit := "-"
		if m := ch.GetMatch(); m != nil {
			val := m.GetPrefix() + m.GetEquality()
			crit = hx(m.GetHeader()) + ":" + b01(m.GetCriteria() != nil) + ":" + hx(val)
		}
		r.Emit("conf chain "+hx(ch.GetName())+" "+crit, "ok")
		for _, f := range ch.GetFilters() {
			r.Emit("conf filter "+filterWire(f), "ok")
		}
	}
}

func loadedWire(c *configv1.Config) string {
	var chains []string
	for _, ch := range c.GetChains() {
		var fs []string
		for _, f := range ch.GetFilters() {
			fs = append(fs, filterWire(f))
		}
		chains = append(chains, hx(ch.GetName())+" ["+strings.Join(fs, " ; ")+"]")
	}
	return "accept " + strings.Join(chains, " | ")
}

// resolvedProblems: the Resolved predicate of C17, evaluated on what Validate() accepted.
func resolvedProblems(c *configv1.Config) []string {
	var p []string
	if c.GetDefaultOidcConfig() != nil {
		p = append(p, "default_oidc_config still present")
	}
	if len(c.GetChains()) == 0 {
		p = append(p, "no chains")
	}
	for _, ch := range c.GetChains() {
		if ch.GetName() == "" || len(ch.GetFilters()) == 0 {
			p = append(p, "chain without name or filters")
		}
		nOidc := 0
		for _, f := range ch.GetFilters() {
			if f.GetMock() != nil {
				continue
			}
			o := f.GetOidc()
			if o == nil {
				p = append(p, "filter that is neither mock nor a resolved oidc filter")
				continue
			}
			nOidc++
			hasOpenid := false
			for _, s := range o.GetScopes() {
				hasOpenid = hasOpenid || s == "openid"
			}
			if !hasOpenid {
				p = append(p, "openid scope missing")
			}
			cb, err := url.Parse(o.GetCallbackUri())
			if err != nil || o.GetCallbackUri() == "" || cb.Path == "" || cb.Path == "/" {
				p = append(p, "callback URI unparseable or root")
			}
			if lo := o.GetLogout(); lo != nil {
				if lo.GetPath() == "" || lo.GetPath() == "/" || (cb != nil && cb.EscapedPath() == lo.GetPath()) {
					p = append(p, "logout path root or equal to the callback path")
				}
			}
			if o.GetClientId() == "" || strings.Contains(o.GetClientId(), ":") {
				p = append(p, "client id empty or containing a colon")
			}
			if o.GetClientSecret() == "" && o.GetClientSecretRef().GetName() == "" {
				p = append(p, "no client-secret source")
			}
			if o.GetIdToken().GetHeader() == "" {
				p = append(p, "no ID-token header")
			}
			if o.GetConfigurationUri() == "" && (o.GetAuthorizationUri() == "" || o.GetTokenUri() == "" || (o.GetJwks() == "" && o.GetJwksFetcher().GetJwksUri() == "")) {
				p = append(p, "neither endpoints (+ key source) nor a discovery URI")
			}
		}
		if nOidc > 1 {
			p = append(p, "more than one OIDC filter in a chain")
		}
	}
	return p
}

// genOidcJSON: `wild` draws every field from the whole value grammar; otherwise fields are valid with high
// probability and odd with probability ~1/25 each, so that most documents are accepted and the rejected ones fail for
// ONE reason (the interesting boundary), cf. the generator-quality remarks in DESIGN.md.
func genOidcJSON(r *Run, full bool, wild bool) J {
	rng := r.Rng
	o := J{}
	odd := func() bool {
		if wild {
			return rng.Intn(2) == 0
		}
		return rng.Intn(25) == 0
	}
	set := func(k string, good []any, bad []any) {
		if !full && rng.Intn(3) != 0 {
			return
		}
		if odd() {
			o[k] = bad[rng.Intn(len(bad))]
		} else {
			o[k] = good[rng.Intn(len(good))]
		}
	}
	useDiscovery := rng.Intn(5) == 0
	if useDiscovery {
		set("configuration_uri", []any{"https://idp/.well-known/openid-configuration"}, []any{"%%", ""})
	}
	if !useDiscovery || rng.Intn(2) == 0 {
		set("authorization_uri", []any{"https://idp/auth", "https://idp/auth?x=1"}, []any{"", "://bad", "http://[::1", "/relative"})
		set("token_uri", []any{"https://idp/token"}, []any{"", "%zz"})
	}
	set("callback_uri", []any{"https://app/callback", "https://app/cb?x=1", "https://app:8443/oauth/callback", "https://app/callback#frag"},
		[]any{"https://app/", "https://app", "", "%gh", "/only/path", "https://app/logout", "https://app/#/oauth/callback", "https://app#/cb", "https://app/callback#state?next=%zz", "https://app/?cb=1#/x"})
	set("client_id", []any{"client", "my-client"}, []any{"cli:ent", ""})
	if full || rng.Intn(2) == 0 {
		switch {
		case odd():
			switch rng.Intn(4) {
			case 0:
				o["client_secret"] = ""
			case 1:
				o["client_secret_ref"] = J{"name": "", "namespace": "ns"}
			case 2:
				o["client_secret_ref"] = J{}
			}
		case rng.Intn(3) == 0:
			o["client_secret_ref"] = J{"name": "sec", "namespace": pick(rng, []string{"", "ns"})}
		default:
			o["client_secret"] = "secret"
		}
	}
	if (full && !useDiscovery) || rng.Intn(2) == 0 {
		switch {
		case odd():
			switch rng.Intn(4) {
			case 0:
				o["jwks"] = ""
			case 1:
				o["jwks_fetcher"] = J{}
			case 2:
				o["jwks_fetcher"] = J{"jwks_uri": pick(rng, []string{"", "%zz"}), "periodic_fetch_interval_sec": 60}
			}
		case rng.Intn(2) == 0:
			o["jwks_fetcher"] = J{"jwks_uri": "https://idp/jwks", "periodic_fetch_interval_sec": rng.Intn(3) * 30}
		default:
			o["jwks"] = "{\"keys\":[]}"
		}
	}
	if rng.Intn(2) == 0 {
		o["scopes"] = pick(rng, [][]string{{}, {"profile", "email"}, {"openid"}, {"openid", "profile"}, {"profile", "openid", "openid"},
			{"openid_connect"}, {"xopenid", "profile"}, {"https://idp.example.com/openid.profile"}, {"OpenID"}, {"open", "id"}, {" openid"}, {"openid "}})
	}
	if full || rng.Intn(2) == 0 {
		if !odd() {
			o["id_token"] = J{"header": "authorization", "preamble": pick(rng, []string{"Bearer", ""})}
		} else if rng.Intn(2) == 0 {
			o["id_token"] = J{"header": "", "preamble": "Bearer"}
		}
	}
	if rng.Intn(3) == 0 {
		o["access_token"] = J{"header": pick(rng, []string{"x-access-token", "x-access-token", "x-access-token", "", "authorization"}), "preamble": ""}
	}
	if rng.Intn(3) == 0 {
		// the logout path collides with one of the callback paths of the grammar every fifth time - in whichever fragment
		// (default, override, plain filter) this object ends up, so that collisions across the merge occur as well
		lo := J{"path": pick(rng, []string{"/logout", "/logout", "/logout", "/app/logout", pick(rng, []string{"/callback", "/cb", "/oauth/callback"})}), "redirect_uri": pick(rng, []string{"https://idp/logout", "https://idp/logout", "", "https://idp/end?x=1", "ht tp://idp/x", "http://[::1/x", "http://idp/%zz", "://idp", "/relative", "idp.example.com/logout"})}
		if rng.Intn(6) == 0 {
			delete(lo, "path") // an override may carry only part of the logout message (merged field by field)
		}
		if odd() {
			lo["path"] = pick(rng, []string{"/", "", "/callback", "/cb", "/oauth/callback"})
		}
		o["logout"] = lo
	}
	if rng.Intn(6) == 0 {
		o["redis_session_store_config"] = J{"server_uri": pick(rng, []string{"redis://localhost:6379", "tcp://redis:6379/1", "redis://localhost:6379", "", "http://nope", "redis://:pw@host:1/notanumber"})}
	}
	if rng.Intn(8) == 0 {
		o["proxy_uri"] = pick(rng, []string{"http://proxy:3128", "http://proxy:3128", "%zz"})
	}
	if rng.Intn(6) == 0 {
		o["cookie_name_prefix"] = pick(rng, []string{"app", "a b", "x;y", "a=b", "ok-1_2.3", "tab\tbed", "ü", "(x)", "$%&'*+-.^_`|~", "x; Domain=evil.example", "q\"uote", "back\\slash"})
	}
	if rng.Intn(6) == 0 {
		o["absolute_session_timeout"], o["idle_session_timeout"] = rng.Intn(3)*100, rng.Intn(3)*50
	}
	return o
}

func genConfigJSON(r *Run) J {
	rng := r.Rng
	wild := rng.Intn(4) == 0
	odd := func() bool {
		if wild {
			return rng.Intn(3) == 0
		}
		return rng.Intn(30) == 0
	}
	d := J{"listen_address": "0.0.0.0", "listen_port": 8080, "log_level": pick(rng, []string{"debug", "info", "trace", "error", "critical"})}
	if odd() {
		d["listen_address"] = pick(rng, []string{"::1", "localhost", ""})
	}
	if odd() {
		d["listen_port"] = pick(rng, []int{0, 65536, -1, 10004})
	}
	if odd() {
		d["log_level"] = pick(rng, []string{"", "warn"})
	}
	if rng.Intn(4) == 0 {
		d["health_listen_port"] = pick(rng, []int{10004, 10004, 10004, 8080, 70000})
	} else if !odd() {
		d["health_listen_port"] = 10004
	}
	useDefault := rng.Intn(3) == 0
	if useDefault {
		d["default_oidc_config"] = genOidcJSON(r, rng.Intn(3) != 0, wild)
	}
	var chains []J
	nch := 1 + rng.Intn(3)
	if odd() {
		nch = 0
	}
	for k := 0; k < nch; k++ {
		ch := J{"name": fmt.Sprintf("chain-%d", k)}
		if odd() {
			ch["name"] = ""
		}
		if rng.Intn(3) == 0 {
			m := J{"header": "x-tenant"}
			if odd() {
				m["header"] = ""
			}
			switch {
			case odd():
			case rng.Intn(2) == 0:
				m["prefix"] = "a"
			default:
				m["equality"] = "b"
			}
			if odd() {
				m["prefix"] = ""
			}
			ch["match"] = m
		}
		var fs []J
		hasOidc := false
		nf := 1 + rng.Intn(3)
		if odd() {
			nf = 0
		}
		for j := 0; j < nf; j++ {
			switch x := rng.Intn(10); {
			case odd():
				fs = append(fs, J{})
			case x < 4 || (hasOidc && !odd()):
				fs = append(fs, J{"mock": J{"allow": rng.Intn(2) == 0}})
			case useDefault != odd():
				fs = append(fs, J{"oidc_override": genOidcJSON(r, false, wild)})
				hasOidc = true
			default:
				fs = append(fs, J{"oidc": genOidcJSON(r, true, wild)})
				hasOidc = true
			}
		}
		ch["filters"] = fs
		chains = append(chains, ch)
	}
	d["chains"] = chains
	if rng.Intn(5) == 0 {
		d["trigger_rules"] = []J{{"excluded_paths": []J{{"exact": "/x"}}}}
	}
	return d
}

// mutateFixture: small random edits of a shipped fixture (drop a key, blank a string, swap oidc/oidc_override, null a message).
func mutateJSON(r *Run, v any, depth int) any {
	switch x := v.(type) {
	case map[string]any:
		out := map[string]any{}
		for k, val := range x {
			switch r.Rng.Intn(14) {
			case 0:
				continue // drop
			case 1:
				out[k] = nil
				continue
			case 2:
				if k == "oidc" {
					out["oidc_override"] = val
					continue
				}
			}
			out[k] = mutateJSON(r, val, depth+1)
		}
		return out
	case []any:
		var out []any
		for _, e := range x {
			if r.Rng.Intn(12) == 0 {
				continue
			}
			out = append(out, mutateJSON(r, e, depth+1))
			if r.Rng.Intn(15) == 0 {
				out = append(out, mutateJSON(r, e, depth+1))
			}
		}
		if out == nil {
			return []any{}
		}
		return out
	case string:
		switch r.Rng.Intn(12) {
		case 0:
			return ""
		case 1:
			return x + ":"
		case 2:
			return "/"
		}
		return x
	}
	return v
}

// directedOverrideDocs: a complete, valid default configuration and ONE chain whose oidc_override carries a single
// field (or a part of the logout message) - every field x every good and bad value. Whatever the override alone looks
// like, the MERGED filter has to be judged: a value that is harmless in its own fragment can collide with a value of
// the other fragment (callback path vs logout path), blank a required member, or remove the openid scope.
func directedOverrideDocs() []any {
	base := func() J {
		return J{"authorization_uri": "https://idp/auth", "token_uri": "https://idp/token", "callback_uri": "https://app/oauth",
			"jwks": "{\"keys\":[]}", "client_id": "client", "client_secret": "secret", "scopes": []string{"profile"},
			"id_token": J{"header": "authorization", "preamble": "Bearer"},
			"logout":   J{"path": "/session", "redirect_uri": "https://idp/logout"}}
	}
	overrides := []J{
		{}, {"logout": J{"path": "/oauth"}}, {"logout": J{"path": "/oauth", "redirect_uri": "https://idp/x"}}, {"logout": J{"redirect_uri": "https://idp/x"}},
		{"callback_uri": "https://app/session"}, {"callback_uri": "https://app/session", "logout": J{"redirect_uri": "https://idp/x"}},
		{"callback_uri": "https://app/session?x=1"}, {"callback_uri": "https://other/session/"}, {"callback_uri": "https://app/"}, {"callback_uri": "https://app"},
		{"callback_uri": "https://app/s%C3%A9ance", "logout": J{"path": "/s%C3%A9ance"}}, {"callback_uri": "https://app/s%C3%A9ance", "logout": J{"path": "/séance"}},
		{"callback_uri": "https://app/log%20in", "logout": J{"path": "/log%20in", "redirect_uri": "https://idp/x"}},
		{"callback_uri": "%gh"}, {"callback_uri": "https://app/#/oauth/callback"}, {"callback_uri": "https://app/cb#state?next=%zz"}, {"logout": J{"path": "/"}}, {"logout": J{"path": ""}}, {"logout": J{}}, {"client_id": "a:b"}, {"client_id": ""},
		{"id_token": J{"header": ""}}, {"id_token": J{"preamble": "Token"}}, {"access_token": J{"header": ""}}, {"access_token": J{"header": "x-at"}},
		{"scopes": []string{}}, {"scopes": []string{"email"}}, {"scopes": []string{"openid"}}, {"scopes": []string{"openid_connect"}}, {"scopes": []string{"myopenid", "email"}},
		{"scopes": []string{"OPENID"}}, {"scopes": []string{"https://idp/openid.read"}}, {"authorization_uri": ""}, {"authorization_uri": "://bad"},
		{"token_uri": "%zz"}, {"configuration_uri": "https://idp/.well-known/openid-configuration"}, {"jwks": ""}, {"jwks_fetcher": J{"jwks_uri": ""}},
		{"jwks_fetcher": J{"jwks_uri": "https://idp/jwks"}}, {"client_secret": ""}, {"client_secret_ref": J{"name": "s"}}, {"client_secret_ref": J{"name": ""}},
		{"cookie_name_prefix": "a b"}, {"cookie_name_prefix": "ok"}, {"redis_session_store_config": J{"server_uri": ""}}, {"proxy_uri": "%zz"},
	}
	var docs []any
	// chain compositions: at most one OIDC filter per chain, wherever the others stand
	{
		mock := J{"mock": J{"allow": true}}
		oi := func(cid string) J { d := base(); d["client_id"] = cid; return J{"oidc": d} }
		ov := func(cid string) J { return J{"oidc_override": J{"client_id": cid}} }
		mk := func(def bool, filters ...J) any {
			d := J{"listen_address": "0.0.0.0", "listen_port": 8080, "log_level": "debug", "chains": []J{{"name": "app", "filters": filters}}}
			if def {
				d["default_oidc_config"] = base()
			}
			return d
		}
		docs = append(docs, mk(false, oi("a")), mk(false, mock, oi("a")), mk(false, oi("a"), mock), mk(false, oi("a"), oi("b")), mk(false, oi("a"), mock, oi("b")),
			mk(false, mock, oi("a"), mock, mock, oi("b")), mk(false, oi("a"), mock, mock), mk(true, ov("a"), ov("b")), mk(true, ov("a"), mock, ov("b")),
			mk(true, mock, ov("a"), mock), mk(true, ov("a"), mock, mock, ov("b"), mock), mk(true, oi("a")), mk(true, mock, oi("a")), mk(false, ov("a")), mk(false, mock, ov("a")))
	}
	// logout redirect URIs of every kind, in the filter itself and arriving through the merge
	for _, ru := range []string{"https://idp/logout", "", "ht tp://idp/x", "http://[::1/x", "http://idp/%zz", "://idp", "/relative", "idp.example.com/logout", "http://idp/\u0001"} {
		d := base()
		d["logout"] = J{"path": "/session", "redirect_uri": ru}
		docs = append(docs, J{"listen_address": "0.0.0.0", "listen_port": 8080, "log_level": "debug", "chains": []J{{"name": "app", "filters": []J{{"oidc": d}}}}})
		docs = append(docs, J{"listen_address": "0.0.0.0", "listen_port": 8080, "log_level": "debug", "default_oidc_config": d, "chains": []J{{"name": "app", "filters": []J{{"oidc_override": J{"client_id": "x"}}}}}})
		d2 := base()
		docs = append(docs, J{"listen_address": "0.0.0.0", "listen_port": 8080, "log_level": "debug", "default_oidc_config": d2, "chains": []J{{"name": "app", "filters": []J{{"oidc_override": J{"logout": J{"redirect_uri": ru}}}}}}})
	}
	for _, variant := range []string{"default-has-logout", "default-without-logout", "logout-only-in-override"} {
		for _, ov := range overrides {
			d := base()
			if variant != "default-has-logout" {
				delete(d, "logout")
			}
			o := J{}
			for k, v := range ov {
				o[k] = v
			}
			if variant == "logout-only-in-override" {
				if _, has := o["logout"]; !has {
					o["logout"] = J{"path": "/oauth", "redirect_uri": "https://idp/logout"}
				}
			}
			docs = append(docs, J{"listen_address": "0.0.0.0", "listen_port": 8080, "log_level": "debug", "default_oidc_config": d,
				"chains": []J{{"name": "app", "filters": []J{{"oidc_override": o}}}}})
		}
	}
	return docs
}

func runC17(r *Run) {
	dir := filepath.Join(r.Out, "cfg")
	must(os.MkdirAll(dir, 0o755))
	var fixtures []any
	fx, _ := filepath.Glob("/repo/internal/testdata/*.json")
	for _, f := range fx {
		b, err := os.ReadFile(f)
		var v any
		if err == nil && json.Unmarshal(b, &v) == nil {
			fixtures = append(fixtures, v)
		}
	}
	r.Extra["fixtures"] = len(fixtures)
	directed := directedOverrideDocs()
	r.Extra["directed_override_documents"] = len(directed)
	n := scale(r, 4000, 120000) + len(directed)
	for i := 0; i < n && r.unknownViolations() == 0; i++ {
		var doc any
		if i < len(directed) {
			doc = directed[i]
		} else if i%4 == 3 && len(fixtures) > 0 {
			doc = mutateJSON(r, pick(r.Rng, fixtures), 0)
		} else {
			doc = genConfigJSON(r)
		}
		b, _ := json.Marshal(doc)
		path := filepath.Join(dir, "c.json")
		must(os.WriteFile(path, b, 0o644))
		// the real loader
		l := internal.NewLocalConfigFileForVerif(path)
		var err error
		var pnc any
		func() {
			defer func() { pnc = recover() }()
			err = l.Validate()
		}()
		if pnc != nil {
			r.Violate("[C17] loading a configuration document panicked", map[string]any{"document": string(b), "panic": fmt.Sprint(pnc)})
			break
		}
		// the model sees the same bytes decoded independently
		dec := &configv1.Config{}
		if derr := protojson.Unmarshal(b, dec); derr != nil {
			r.Dist["undecodable"]++
			if err == nil {
				r.Violate("[C17] a document protojson rejects was accepted", map[string]any{"document": string(b)})
			}
			r.Case("")
			continue
		}
		emitDoc(r, dec)
		out := "reject"
		if err == nil {
			out = loadedWire(&l.Config)
		}
		r.Emit("conf load", out)
		if err == nil {
			r.Dist["accepted"]++
			if probs := resolvedProblems(&l.Config); len(probs) > 0 {
				r.Violate("[C17] an accepted configuration is not fully resolved: "+strings.Join(probs, "; "), map[string]any{"document": string(b), "loaded": internal.ConfigToJSONString(&l.Config)})
			}
			r.Case(string(b))
			if len(r.Samples) < 2 {
				r.Sample(map[string]any{"document": doc, "result": "accepted"})
			}
		} else {
			cls := strings.SplitN(err.Error(), ":", 2)[0]
			if len(cls) > 40 {
				cls = cls[:40]
			}
			r.Dist["rejected:"+cls]++
			r.Case("")
		}
	}
	if r.unknownViolations() == 0 {
		loaderLayouts(r, "[C17]") // verdict and configuration in force do not depend on where a setting is written
	}
	r.Finish("the same filter written as oidc / default_oidc_config / oidc_override (odd cookie prefixes and callback URIs): same verdict, and the configuration in force is the one written; JSON configuration documents from a grammar over every modelled field, oneof arm, omission and type-correct odd value (bad URLs, root paths, colon in client id, empty members, tcp:// redis URIs, duplicate/override/default combinations, filters without type) plus random mutations (drop, null, blank, swap oidc/oidc_override, duplicate elements) of the shipped fixtures; each document is loaded by the real LocalConfigFile.Validate() under recover(), decoded independently with protojson for the Lean `load` model, and an accepted result is judged by the Resolved predicate of the statement; non-trivial = an accepted document, distinct by document")
}
