package main

import (
	"context"
	"regexp"
	"strings"

	configv1 "github.com/istio-ecosystem/authservice/config/gen/go/v1"
	mockv1 "github.com/istio-ecosystem/authservice/config/gen/go/v1/mock"
	"github.com/istio-ecosystem/authservice/internal/server"
	"google.golang.org/grpc/codes"
)

func init() { checks["C07"] = runC07 }

type sm struct {
	Kind string `json:"kind"` // e p s r u
	Pat  string `json:"pat"`
}
type rule struct {
	Excluded []sm `json:"excluded"`
	Included []sm `json:"included"`
}

func (m sm) proto() *configv1.StringMatch {
	switch m.Kind {
	case "e":
		return &configv1.StringMatch{MatchType: &configv1.StringMatch_Exact{Exact: m.Pat}}
	case "p":
		return &configv1.StringMatch{MatchType: &configv1.StringMatch_Prefix{Prefix: m.Pat}}
	case "s":
		return &configv1.StringMatch{MatchType: &configv1.StringMatch_Suffix{Suffix: m.Pat}}
	case "r":
		return &configv1.StringMatch{MatchType: &configv1.StringMatch_Regex{Regex: m.Pat}}
	}
	return &configv1.StringMatch{}
}

func (m sm) wire() string {
	if m.Kind == "u" {
		return "u"
	}
	return m.Kind + hx(m.Pat)
}

func rulesWire(rs []rule) string {
	var out []string
	for _, r := range rs {
		var e, i []string
		for _, m := range r.Excluded {
			e = append(e, m.wire())
		}
		for _, m := range r.Included {
			i = append(i, m.wire())
		}
		out = append(out, strings.Join(e, ",")+"/"+strings.Join(i, ","))
	}
	return listOr(out, ";")
}

func rulesProto(rs []rule) []*configv1.TriggerRule {
	var out []*configv1.TriggerRule
	for _, r := range rs {
		tr := &configv1.TriggerRule{}
		for _, m := range r.Excluded {
			tr.ExcludedPaths = append(tr.ExcludedPaths, m.proto())
		}
		for _, m := range r.Included {
			tr.IncludedPaths = append(tr.IncludedPaths, m.proto())
		}
		out = append(out, tr)
	}
	return out
}

// pathOnly is the harness' own notion of the path component: everything before the first '?' or '#'.
func pathOnly(target string) string {
	if i := strings.IndexAny(target, "?#"); i >= 0 {
		return target[:i]
	}
	return target
}

// refTriggered is the documented rule, written independently of the implementation, on the path component.
func refTriggered(rs []rule, path string) bool {
	if len(rs) == 0 || path == "" {
		return true
	}
	match := func(m sm) bool {
		switch m.Kind {
		case "e":
			return path == m.Pat
		case "p":
			return len(path) >= len(m.Pat) && path[:len(m.Pat)] == m.Pat
		case "s":
			return len(path) >= len(m.Pat) && path[len(path)-len(m.Pat):] == m.Pat
		case "r":
			b, _ := regexp.MatchString(m.Pat, path)
			return b
		}
		return false
	}
	for _, r := range rs {
		sat := true
		for _, e := range r.Excluded {
			if match(e) {
				sat = false
			}
		}
		if !sat {
			continue
		}
		if len(r.Included) == 0 {
			return true
		}
		for _, i := range r.Included {
			if match(i) {
				return true
			}
		}
	}
	return false
}

// reTable gives the regex oracle rows the model may need: every regex pattern on the full target and on the path.
func reTable(rs []rule, target string) string {
	seen := map[string]bool{}
	var rows []string
	add := func(pat, subj string) {
		k := pat + "\x00" + subj
		if seen[k] {
			return
		}
		seen[k] = true
		b, _ := regexp.MatchString(pat, subj)
		rows = append(rows, hx(pat)+":"+hx(subj)+":"+b01(b))
	}
	for _, r := range rs {
		for _, l := range [][]sm{r.Excluded, r.Included} {
			for _, m := range l {
				if m.Kind == "r" {
					add(m.Pat, target)
					add(m.Pat, pathOnly(target))
				}
			}
		}
	}
	return listOr(rows, ",")
}

// triggerVerdict runs the real Check with one always-deny mock filter: the answer is OK iff NOT triggered.
func triggerVerdict(rs []rule, target string) (triggered bool, ok bool) {
	cfg := &configv1.Config{
		TriggerRules: rulesProto(rs),
		Chains: []*configv1.FilterChain{{Name: "c", Filters: []*configv1.Filter{
			{Type: &configv1.Filter_Mock{Mock: &mockv1.MockConfig{Allow: false}}}}}},
	}
	f := server.NewExtAuthZFilter(cfg, nil, nil, nil)
	resp, err := f.Check(context.Background(), httpReq("https", "example.com", target, "", nil))
	if err != nil || resp == nil {
		return false, false
	}
	return codes.Code(resp.GetStatus().GetCode()) != codes.OK, true
}

var c07Patterns = []string{"/", "/a", "a", ".", "/a.", ".a", "=", "?", "#", "a?", "", "/aa", "?a", "#a", "=.a", "/.", "a/"}
var c07Regexes = []string{"^/a", "a$", `\.a$`, "^/$", ".*", "[", "a.a", "^/a/.*", `\?`, "#", `^[^?#]*$`, "^/a$", `=\.a$`, "(", "^$"}

func genMatch(r *Run) sm {
	switch k := r.Rng.Intn(10); {
	case k < 2:
		return sm{"e", pick(r.Rng, c07Patterns)}
	case k < 4:
		return sm{"p", pick(r.Rng, c07Patterns)}
	case k < 7:
		return sm{"s", pick(r.Rng, c07Patterns)}
	case k < 9:
		return sm{"r", pick(r.Rng, c07Regexes)}
	}
	return sm{"u", ""}
}

func genRules(r *Run) []rule {
	n := r.Rng.Intn(5)
	rs := make([]rule, n)
	for i := range rs {
		for j := r.Rng.Intn(4); j > 0; j-- {
			rs[i].Excluded = append(rs[i].Excluded, genMatch(r))
		}
		for j := r.Rng.Intn(4); j > 0; j-- {
			rs[i].Included = append(rs[i].Included, genMatch(r))
		}
	}
	return rs
}

func runC07(r *Run) {
	fixed := [][]rule{
		{{Excluded: []sm{{"s", ".a"}}}},
		{{Included: []sm{{"p", "/a"}}}},
		{{Excluded: []sm{{"r", `\.a$`}}, Included: []sm{{"p", "/"}}}},
		{{Excluded: []sm{{"e", "/a"}}}, {Included: []sm{{"s", "a"}}}},
		{{Excluded: []sm{{"s", "=.a"}, {"p", "/."}}, Included: []sm{{"r", "^/a"}, {"e", "/"}}}},
		{{Included: []sm{{"r", `^[^?#]*$`}}}},
		{},
	}
	one := func(rs []rule, target string) {
		trig, ok := triggerVerdict(rs, target)
		out := "error"
		if ok {
			out = b01(trig)
		}
		r.Emit("trig "+hx(target)+" "+rulesWire(rs)+" "+reTable(rs, target), out)
		key := ""
		if strings.ContainsAny(target, "?#") && len(rs) > 0 {
			key = rulesWire(rs) + "|" + target
			r.Dist["target-with-query-or-fragment"]++
		}
		r.Dist["verdict-triggered="+b01(trig)]++
		r.Case(key)
		// monitors on the real code
		p := pathOnly(target)
		pt, pok := triggerVerdict(rs, p)
		if ok && pok && pt != trig {
			r.Violate("trigger decision differs between a target and its path component",
				map[string]any{"rules": rs, "target": target, "path": p, "triggered(target)": trig, "triggered(path)": pt})
		}
		if ok && trig != refTriggered(rs, p) {
			r.Violate("trigger decision is not the documented function of the path component",
				map[string]any{"rules": rs, "target": target, "path": p, "triggered(target)": trig, "documented": refTriggered(rs, p)})
		}
		if !ok {
			r.Violate("Check returned an error for a mock-only configuration", map[string]any{"rules": rs, "target": target})
		}
	}
	// exhaustive over a small alphabet
	alphabet := []byte("/a.?#=")
	maxLen := 5
	if r.thorough() {
		maxLen = 7
	}
	var targets []string
	var gen func(prefix []byte)
	gen = func(prefix []byte) {
		targets = append(targets, string(prefix))
		if len(prefix) == maxLen {
			return
		}
		for _, c := range alphabet {
			gen(append(append([]byte{}, prefix...), c))
		}
	}
	gen(nil)
	r.Extra["exhaustive_targets"] = len(targets)
	r.Extra["exhaustive_alphabet"] = string(alphabet)
	r.Extra["exhaustive_max_len"] = maxLen
	nFixed := len(fixed)
	if !r.thorough() {
		nFixed = 5
	}
	for _, rs := range fixed[:nFixed] {
		for _, t := range targets {
			one(rs, t)
		}
	}
	r.Sample(map[string]any{"rules": fixed[0], "target": "/a?=.a", "note": "exhaustive family"})
	// random rule sets x random targets (longer, wider alphabet incl. non-ASCII and percent escapes)
	n := 8000
	if r.thorough() {
		n = 300000
	}
	wide := []string{"/", "a", ".", "?", "#", "=", "aa", "%3F", "%23", "é", "/a", ".a", "&", ";", "//", "ß"}
	for i := 0; i < n; i++ {
		rs := genRules(r)
		var sb strings.Builder
		for k := r.Rng.Intn(9); k > 0; k-- {
			sb.WriteString(pick(r.Rng, wide))
		}
		t := sb.String()
		one(rs, t)
		if i < 3 {
			r.Sample(map[string]any{"rules": rs, "target": t})
		}
	}
	r.Finish("targets: every string over {/ a . ? # =} up to the stated length against fixed rule sets (exhaustive), plus random rule sets (0-4 rules, nested excluded/included, exact/prefix/suffix/regex/unset) x random targets; " +
		"each case runs the real ExtAuthZFilter.Check and the Lean mustTrigger on the same line; non-trivial = non-empty rule set and target containing '?' or '#', distinct by (rules,target)")
}
