package main

// The service's own logging system, initialised as cmd/main.go does, writing to /dev/null. Worlds switch every scope
// between info and debug: at debug level other code runs (the IdP client is wrapped in a LoggingRoundTripper, the gRPC
// server's log interceptor serialises requests and responses, handlers render tokens and configurations), and none of
// it may change what a check answers.

import (
	"os"
	"sync"

	"github.com/tetratelabs/log"
	"github.com/tetratelabs/telemetry"

	configv1 "github.com/istio-ecosystem/authservice/config/gen/go/v1"
	"github.com/istio-ecosystem/authservice/internal"
)

var logInit sync.Once

var logScopes = []string{internal.Authz, internal.Config, internal.Default, internal.Health, internal.IDP, internal.JWKS,
	internal.Requests, internal.Server, internal.Session, internal.K8s}

func initLogging() {
	logInit.Do(func() {
		devnull, err := os.OpenFile(os.DevNull, os.O_WRONLY, 0)
		must(err)
		old := os.Stdout
		os.Stdout = devnull // log.New captures os.Stdout as its writer
		l := log.New()
		os.Stdout = old
		u := internal.NewLogSystem(l, &configv1.Config{LogLevel: "info"})
		if p, ok := u.(interface{ PreRun() error }); ok {
			must(p.PreRun())
		}
	})
}

// setLogDebug switches every logging scope of the service to debug (true) or info (false).
func setLogDebug(on bool) {
	initLogging()
	lvl := telemetry.LevelInfo
	if on {
		lvl = telemetry.LevelDebug
	}
	for _, s := range logScopes {
		internal.Logger(s).SetLevel(lvl)
	}
}
