package main

// Consistency under real concurrency. Many browsers log in AT THE SAME TIME through one ExtAuthZFilter (real store
// factory, real generator, real clock): every one of them must see exactly what it would have seen alone.
//   - the identifiers of different logins are pairwise different (C06), the Set-Cookie and Location of a redirect belong
//     together and to the browser that asked (C05, C13);
//   - the token endpoint receives, with each browser's code, the verifier whose S256 is the challenge of THAT browser's
//     redirect, each code exactly once (C04);
//   - the callback returns each browser to the URL it asked for (C03, C13);
//   - an answer that has been returned does not change afterwards (C08, C16: responses are not shared or recycled).
// Runs in a child process: a fatal "concurrent map writes" cannot be recovered from.

import (
	"bytes"
	"context"
	"crypto/sha256"
	"encoding/base64"
	"encoding/json"
	"fmt"
	"net/http"
	"net/http/httptest"
	"net/url"
	"os"
	"os/exec"
	"path/filepath"
	"strings"
	"sync"
	"sync/atomic"
	"time"

	"github.com/alicebob/miniredis/v2"
	envoy "github.com/envoyproxy/go-control-plane/envoy/service/auth/v3"

	configv1 "github.com/istio-ecosystem/authservice/config/gen/go/v1"
	mockv1 "github.com/istio-ecosystem/authservice/config/gen/go/v1/mock"
	oidcv1 "github.com/istio-ecosystem/authservice/config/gen/go/v1/oidc"
	"github.com/istio-ecosystem/authservice/internal"
	"github.com/istio-ecosystem/authservice/internal/oidc"
	"github.com/istio-ecosystem/authservice/internal/server"
)

func init() {
	checks["CChammer"] = runCCHammerChild
	checks["CCstore"] = runCCStoreChild
}

// storeCrashProbe: the concurrent store probes (expired sessions read by many requests at once, the sweep against writers)
// in a CHILD process: if the store's map is touched without its lock the Go runtime aborts the whole process
// ("fatal error: concurrent map writes"), which no recover() can catch - for the service that is a crash of every check.
func storeCrashProbe(r *Run, tag string) {
	ctx, cancel := context.WithTimeout(context.Background(), 120*time.Second)
	defer cancel()
	cmd := exec.CommandContext(ctx, os.Args[0], "CCstore", "-tier", r.Tier, "-seed", fmt.Sprint(r.Seed), "-out", filepath.Join(r.Out, "ccstore"))
	var out bytes.Buffer
	cmd.Stdout, cmd.Stderr = &out, &out
	err := cmd.Run()
	text := out.String()
	_ = os.WriteFile(filepath.Join(r.Out, "ccstore.log"), out.Bytes(), 0o644)
	switch {
	case strings.Contains(text, "fatal error:") || strings.Contains(text, "panic:"):
		r.Violate(tag+" concurrent checks on one session of the in-memory store crash the process (fatal runtime error: the store's map is accessed without its lock)",
			map[string]any{"log_tail": tail(text, 3000), "steps": "a session past its idle limit is read by 8 goroutines at once (GetTokenResponse / GetAuthorizationState); RemoveAllExpired against writers"})
	case ctx.Err() != nil:
		r.Violate(tag+" concurrent operations on the in-memory store did not terminate", map[string]any{"log_tail": tail(text, 2000)})
	case err != nil && !strings.Contains(text, "CC-STORE-DONE"):
		r.Violate(tag+" the concurrent store probe failed", map[string]any{"error": err.Error(), "log_tail": tail(text, 2000)})
	}
	r.Case("store-crash-probe")
	r.Dist["store-crash-probe"]++
}

func runCCStoreChild(r *Run) {
	concurrentExpiredReads(r, "[child]")
	concurrentSweep(r, "[child]")
	fmt.Println("CC-STORE-DONE")
	os.Exit(0)
}

// consistencyHammer: the parent side. Violations found by the child are reported under `tag`.
func consistencyHammer(r *Run, tag string) {
	budget := scale(r, 4, 30)
	ctx, cancel := context.WithTimeout(context.Background(), time.Duration(budget*5+60)*time.Second)
	defer cancel()
	cmd := exec.CommandContext(ctx, os.Args[0], "CChammer", "-tier", r.Tier, "-seed", fmt.Sprint(r.Seed), "-out", filepath.Join(r.Out, "cchammer"))
	cmd.Env = append(os.Environ(), fmt.Sprintf("CC_BUDGET_S=%d", budget))
	var out bytes.Buffer
	cmd.Stdout, cmd.Stderr = &out, &out
	err := cmd.Run()
	text := out.String()
	_ = os.WriteFile(filepath.Join(r.Out, "cchammer.log"), out.Bytes(), 0o644)
	found := false
	for _, line := range strings.Split(text, "\n") {
		if strings.HasPrefix(line, "CC-VIOLATION ") {
			var v map[string]any
			if json.Unmarshal([]byte(strings.TrimPrefix(line, "CC-VIOLATION ")), &v) == nil {
				r.Violate(tag+" "+fmt.Sprint(v["what"]), v)
				found = true
				break
			}
		}
		if strings.HasPrefix(line, "CC-SUMMARY ") {
			var sum map[string]int
			if json.Unmarshal([]byte(strings.TrimPrefix(line, "CC-SUMMARY ")), &sum) == nil {
				total := 0
				for k, n := range sum {
					r.Dist["concurrent:"+k] = n
					total += n
				}
				// counted: the guaranteed minimum (the child runs until it has done that much); what a faster machine does beyond
				// it is reported separately
				floor := 750 * budget
				if total < floor {
					floor = total
				}
				r.Evaluations += floor
				r.Extra["concurrent_operations_total"] = total
				r.Extra["concurrent_operations_counted_as_evaluations"] = floor
			}
		}
	}
	switch {
	case found:
	case ctx.Err() != nil:
		r.Violate(tag+" concurrent logins did not terminate (a check never returned)", map[string]any{"log_tail": tail(text, 2000)})
	case strings.Contains(text, "fatal error:") || strings.Contains(text, "panic:"):
		r.Violate(tag+" the service crashed under concurrent logins (fatal runtime error or panic)", map[string]any{"log_tail": tail(text, 3000)})
	case err != nil:
		r.Violate(tag+" the concurrent-login run failed", map[string]any{"error": err.Error(), "log_tail": tail(text, 2000)})
	}
	r.Case("concurrent-logins")
}

func runCCHammerChild(r *Run) {
	budget := 4
	fmt.Sscan(os.Getenv("CC_BUDGET_S"), &budget)
	ctx, cancel := context.WithCancel(context.Background())
	defer cancel()
	var mu sync.Mutex
	type exch struct{ code, verifier, auth string }
	var exchanges []exch
	idp := httptest.NewServer(http.HandlerFunc(func(w http.ResponseWriter, req *http.Request) {
		_ = req.ParseForm()
		code := req.PostForm.Get("code")
		mu.Lock()
		exchanges = append(exchanges, exch{code, req.PostForm.Get("code_verifier"), req.Header.Get("Authorization")})
		mu.Unlock()
		// the code carries the nonce of its login (the "provider" remembers what it was asked)
		nonce := strings.TrimPrefix(code, "code-for-")
		time.Sleep(2 * time.Millisecond) // an exchange takes a moment: overlapping callbacks really overlap
		aud := "cc-client"
		if raw, err := base64.StdEncoding.DecodeString(strings.TrimPrefix(req.Header.Get("Authorization"), "Basic ")); err == nil {
			if i := strings.IndexByte(string(raw), ':'); i > 0 {
				aud = string(raw[:i]) // the provider issues the token for the client that authenticated
			}
		}
		b, _ := json.Marshal(map[string]any{"token_type": "Bearer", "expires_in": 600, "access_token": "at-" + nonce,
			"id_token": mintToken(tokSpec{Mode: "good", Exp: time.Now().Unix() + 600, Aud: aud, Nonce: nonce, Sub: "u-" + nonce, Extra: nonce})})
		_, _ = w.Write(b)
	}))
	idp.Config.SetKeepAlivesEnabled(false)
	defer idp.Close()
	oc := &oidcv1.OIDCConfig{ClientId: "cc-client", ClientSecretConfig: &oidcv1.OIDCConfig_ClientSecret{ClientSecret: "cc-secret"},
		CallbackUri: "https://app.example.com/callback", AuthorizationUri: "https://idp.example.com/auth", TokenUri: idp.URL + "/token",
		Scopes: []string{"openid"}, IdToken: &oidcv1.TokenConfig{Header: "authorization", Preamble: "Bearer"}, JwksConfig: &oidcv1.OIDCConfig_Jwks{Jwks: keys().doc}}
	// the session store is a Redis server (miniredis): every store call is a network round trip, during which other checks run
	mr, err := miniredis.Run()
	must(err)
	defer mr.Close()
	oc.RedisSessionStoreConfig = &oidcv1.RedisConfig{ServerUri: "redis://" + mr.Addr()}
	// a second OIDC filter with a provider, client and cookie prefix of its own (same Redis server, as deployments do):
	// half of the browsers log in through it, at the same time as the others log in through the first
	ocB := &oidcv1.OIDCConfig{ClientId: "cc-client-b", ClientSecretConfig: &oidcv1.OIDCConfig_ClientSecret{ClientSecret: "cc-secret-b"}, CookieNamePrefix: "pb",
		CallbackUri: "https://app.example.com/callback", AuthorizationUri: "https://idp-b.example.com/authorize", TokenUri: idp.URL + "/token-b",
		Scopes: []string{"openid"}, IdToken: &oidcv1.TokenConfig{Header: "authorization", Preamble: "Bearer"}, JwksConfig: &oidcv1.OIDCConfig_Jwks{Jwks: keys().doc},
		RedisSessionStoreConfig: &oidcv1.RedisConfig{ServerUri: "redis://" + mr.Addr()}}
	cfg := &configv1.Config{Chains: []*configv1.FilterChain{
		{Name: "deny", Match: &configv1.Match{Header: "x-app", Criteria: &configv1.Match_Equality{Equality: "deny"}},
			Filters: []*configv1.Filter{{Type: &configv1.Filter_Mock{Mock: &mockv1.MockConfig{Allow: false}}}}},
		{Name: "allow", Match: &configv1.Match{Header: "x-app", Criteria: &configv1.Match_Equality{Equality: "allow"}},
			Filters: []*configv1.Filter{{Type: &configv1.Filter_Mock{Mock: &mockv1.MockConfig{Allow: true}}}}},
		{Name: "oidc-b", Match: &configv1.Match{Header: "x-app", Criteria: &configv1.Match_Equality{Equality: "b"}},
			Filters: []*configv1.Filter{{Type: &configv1.Filter_Oidc{Oidc: ocB}}}},
		{Name: "oidc", Filters: []*configv1.Filter{{Type: &configv1.Filter_Oidc{Oidc: oc}}}}}}
	fac := oidc.NewSessionStoreFactory(cfg)
	must(fac.PreRun())
	filter := server.NewExtAuthZFilter(cfg, internal.NewTLSConfigPool(ctx), staticJWKS{}, fac)
	var once sync.Once
	violate := func(what string, extra map[string]any) {
		once.Do(func() {
			extra["what"] = what
			b, _ := json.Marshal(extra)
			fmt.Println("CC-VIOLATION " + string(b))
		})
	}
	counts := map[string]int{}
	var cmu sync.Mutex
	var totalOps int64
	count := func(k string) { cmu.Lock(); counts[k]++; cmu.Unlock(); atomic.AddInt64(&totalOps, 1) }
	type held struct {
		resp *envoy.CheckResponse
		show string
		what string
	}
	var seenMu sync.Mutex
	seen := map[string]string{} // identifier -> which login got it
	deadline := time.Now().Add(time.Duration(budget) * time.Second)
	// runs for its time budget AND until a minimum amount of work is done (at most four budgets): on a loaded machine it
	// runs longer instead of doing less, so that what the evidence reports does not depend on the load
	hardDeadline := time.Now().Add(time.Duration(4*budget) * time.Second)
	running := func() bool {
		now := time.Now()
		return now.Before(deadline) || (atomic.LoadInt64(&totalOps) < int64(750*budget) && now.Before(hardDeadline))
	}
	var wg sync.WaitGroup
	for g := 0; g < 16; g++ {
		wg.Add(1)
		go func(g int) {
			defer wg.Done()
			var keep []held
			recheck := func() {
				for _, h := range keep {
					if now := showResp(h.resp, nil); now != h.show {
						violate("an answer that had already been returned changed while other checks were served (responses share storage or are recycled)",
							map[string]any{"answer_kind": h.what, "answer_when_returned": h.show, "answer_later": now})
					}
				}
				keep = keep[:0]
			}
			// odd browsers use the second filter: its own provider, client id and cookie name - in every answer they get
			app, wantAuth, wantClient, wantCookie := "", "https://idp.example.com/auth?", "cc-client", "__Host-authservice-session-id-cookie"
			if g%2 == 1 {
				app, wantAuth, wantClient, wantCookie = "b", "https://idp-b.example.com/authorize?", "cc-client-b", "__Host-pb-authservice-session-id-cookie"
			}
			hdr := func(m map[string]string) map[string]string {
				if app != "" {
					if m == nil {
						m = map[string]string{}
					}
					m["x-app"] = app
				}
				return m
			}
			for i := 0; running(); i++ {
				me := fmt.Sprintf("g%d-%d", g, i)
				target := "/page/" + me + "?q=" + me
				// mock chains in between: their verdicts must be their own
				if i%3 == 0 {
					want := int32(7)
					app := "deny"
					if i%2 == 0 {
						want, app = 0, "allow"
					}
					resp, err := filter.Check(context.Background(), httpReq("https", "app.example.com", "/x", "", map[string]string{"x-app": app}))
					count("mock-check")
					if err != nil || resp == nil || resp.GetStatus().GetCode() != want {
						violate("a request judged by a mock chain got another request's verdict", map[string]any{"chain": app, "expected_code": want, "got": showResp(resp, err)})
					}
					keep = append(keep, held{resp, showResp(resp, nil), "mock " + app})
				}
				r1, err := filter.Check(context.Background(), httpReq("https", "app.example.com", target, "", hdr(map[string]string{"x-forwarded-for": "203.0.113.7", "user-agent": "Mozilla/5.0 (X11; Linux x86_64)"})))
				count("login-redirect")
				if err != nil || r1 == nil || r1.GetDeniedResponse() == nil {
					violate("no login redirect for an unauthenticated request", map[string]any{"got": showResp(r1, err)})
					return
				}
				show1 := showResp(r1, nil)
				loc, nloc := hdrValue(r1.GetDeniedResponse().GetHeaders(), "location")
				sck, nsc := hdrValue(r1.GetDeniedResponse().GetHeaders(), "set-cookie")
				u, _ := url.Parse(loc)
				cs := (&http.Response{Header: http.Header{"Set-Cookie": []string{sck}}}).Cookies()
				if nloc != 1 || nsc != 1 || u == nil || len(cs) != 1 {
					violate("a login redirect does not carry exactly one Location and one Set-Cookie of its own", map[string]any{"answer": show1})
					return
				}
				if !strings.HasPrefix(loc, wantAuth) || u.Query().Get("client_id") != wantClient || cs[0].Name != wantCookie {
					violate("a filter's login redirect carries another filter's provider, client id or cookie name (answers of different filters got mixed up under concurrency)",
						map[string]any{"filter": wantClient, "expected_authorization_endpoint": wantAuth, "expected_cookie_name": wantCookie, "answer": show1})
					return
				}
				sid, state, nonce, challenge := cs[0].Value, u.Query().Get("state"), u.Query().Get("nonce"), u.Query().Get("code_challenge")
				seenMu.Lock()
				for _, id := range []string{"sid:" + sid, "state:" + state, "nonce:" + nonce, "challenge:" + challenge} {
					if prev, dup := seen[id]; dup {
						seenMu.Unlock()
						violate("two logins that were in progress at the same time were issued the same identifier", map[string]any{"identifier": id, "first_login": prev, "second_login": me})
						return
					}
					seen[id] = me
				}
				seenMu.Unlock()
				keep = append(keep, held{r1, show1, "login redirect"})
				// the provider sends the browser back with a code that belongs to this login
				code := "code-for-" + nonce
				// code injection, timed to overlap with the victim's own callback: an attacker who has learnt this login's code
				// (it travels through the front channel) presents it under a login of his own - his own cookie, his own state.
				// The ID token the provider hands out for that code carries the VICTIM's nonce, so the attacker's callback must
				// fail and his session must stay unauthenticated, however the two exchanges interleave.
				attacked := i%4 == 1
				var awg sync.WaitGroup
				if attacked {
					ra, err := filter.Check(context.Background(), httpReq("https", "app.example.com", "/attacker/"+me, "", hdr(nil)))
					loca, _ := hdrValue(ra.GetDeniedResponse().GetHeaders(), "location")
					scka, _ := hdrValue(ra.GetDeniedResponse().GetHeaders(), "set-cookie")
					ua, _ := url.Parse(loca)
					csa := (&http.Response{Header: http.Header{"Set-Cookie": []string{scka}}}).Cookies()
					if err == nil && ua != nil && len(csa) == 1 {
						acookie := csa[0].Name + "=" + csa[0].Value
						awg.Add(1)
						go func() {
							defer awg.Done()
							count("injected-callback")
							rb, err := filter.Check(context.Background(), httpReq("https", "app.example.com", "/callback?code="+code+"&state="+ua.Query().Get("state"), "", hdr(map[string]string{"cookie": acookie})))
							if locb, _ := hdrValue(rb.GetDeniedResponse().GetHeaders(), "location"); err == nil && locb == "https://app.example.com/attacker/"+me {
								violate("a callback that presented ANOTHER login's authorization code under its own session was completed (the ID token it was given carries the other session's nonce)",
									map[string]any{"victim_login": me, "answer": showResp(rb, err)})
							}
							rc, err := filter.Check(context.Background(), httpReq("https", "app.example.com", "/attacker/"+me, "", hdr(map[string]string{"cookie": acookie})))
							if err == nil && rc != nil && rc.GetStatus().GetCode() == 0 {
								violate("a session was authenticated with tokens that were validated for ANOTHER session: it presented that session's authorization code while the other callback was in progress",
									map[string]any{"victim_login": me, "answer": showResp(rc, err)})
							}
						}()
					}
				}
				r2, err := filter.Check(context.Background(), httpReq("https", "app.example.com", "/callback?code="+code+"&state="+state, "", hdr(map[string]string{"cookie": cs[0].Name + "=" + sid})))
				count("callback")
				recheck()
				loc2, _ := hdrValue(r2.GetDeniedResponse().GetHeaders(), "location")
				if err != nil || loc2 != "https://app.example.com"+target {
					violate("the callback of a login did not return the browser to the URL it had asked for", map[string]any{"login": me, "expected": "https://app.example.com" + target, "got": showResp(r2, err)})
					return
				}
				mu.Lock()
				n, verifier := 0, ""
				for _, e := range exchanges {
					if e.code == code {
						n++
						verifier = e.verifier
					}
				}
				if len(exchanges) > 4000 {
					exchanges = exchanges[2000:]
				}
				mu.Unlock()
				awg.Wait()
				if attacked {
					// the injected callback may have reached the token endpoint too (with the attacker's verifier): what matters
					// is that this login's own exchange happened, once, with its own verifier
					mu.Lock()
					n, verifier = 0, ""
					for _, e := range exchanges {
						hh := sha256.Sum256([]byte(e.verifier))
						if e.code == code && base64.RawURLEncoding.EncodeToString(hh[:]) == challenge {
							n++
							verifier = e.verifier
						}
					}
					mu.Unlock()
				}
				h := sha256.Sum256([]byte(verifier))
				if n != 1 || base64.RawURLEncoding.EncodeToString(h[:]) != challenge {
					violate("the token endpoint did not receive this login's code exactly once together with the PKCE verifier of this login's redirect",
						map[string]any{"login": me, "code": code, "times_received": n, "challenge_of_the_redirect": challenge, "verifier_received": verifier})
					return
				}
				r3, err := filter.Check(context.Background(), httpReq("https", "app.example.com", target, "", hdr(map[string]string{"cookie": cs[0].Name + "=" + sid})))
				count("authenticated-request")
				if err != nil || r3 == nil || r3.GetStatus().GetCode() != 0 {
					violate("a browser that had just logged in was not let through", map[string]any{"login": me, "got": showResp(r3, err)})
					return
				}
				if v, _ := hdrValue(r3.GetOkResponse().GetHeaders(), "authorization"); !strings.Contains(decodeJWTPayload(strings.TrimPrefix(v, "Bearer ")), `"u-`+nonce+`"`) {
					violate("an authenticated request was given another login's ID token", map[string]any{"login": me, "authorization": v})
					return
				}
			}
		}(g)
	}
	wg.Wait()
	b, _ := json.Marshal(counts)
	fmt.Println("CC-SUMMARY " + string(b))
	os.Exit(0)
}

func decodeJWTPayload(tok string) string {
	parts := strings.Split(tok, ".")
	if len(parts) != 3 {
		return ""
	}
	b, _ := base64.RawURLEncoding.DecodeString(parts[1])
	return string(b)
}
