package main

// C08 over the wire: the real gRPC server of the service (server.New + PreRun: request-id and logging interceptors),
// listening on an in-memory connection, asked by a real gRPC client - with the `requests` log scope at info and at
// debug. Whatever the interceptors do to log a request must not change which chain judges it.

import (
	"context"
	"fmt"
	"net"
	"strings"
	"time"

	envoy "github.com/envoyproxy/go-control-plane/envoy/service/auth/v3"
	"google.golang.org/grpc"
	"google.golang.org/grpc/credentials/insecure"
	"google.golang.org/grpc/test/bufconn"

	configv1 "github.com/istio-ecosystem/authservice/config/gen/go/v1"
	"github.com/istio-ecosystem/authservice/internal/server"
)

func c08Wire(r *Run) {
	type wireCase struct {
		Chains []chainSpec       `json:"chains"`
		AU     bool              `json:"allow_unmatched"`
		Debug  bool              `json:"requests_scope_at_debug"`
		Hdrs   map[string]string `json:"headers"`
	}
	crits := []crit{{"-", "", ""}, {"eq", "x-tenant", "a"}, {"pfx", "authorization", "Bearer "}, {"eq", "Authorization", "Bearer t1"}, {"pfx", "proxy-authorization", "Basic "},
		{"eq", "cookie", "k=v"}, {"pfx", "x-forwarded-for", "10."}}
	hmaps := []map[string]string{nil, {"x-tenant": "a"}, {"authorization": "Bearer t1"}, {"authorization": "Bearer t2", "x-tenant": "a"}, {"proxy-authorization": "Basic abc"},
		{"cookie": "k=v"}, {"x-forwarded-for": "10.1.2.3", "authorization": "Basic zzz"}}
	n := scale(r, 40, 600)
	for i := 0; i < n && r.unknownViolations() == 0; i++ {
		var cs []chainSpec
		for k := 1 + r.Rng.Intn(3); k > 0; k-- {
			cs = append(cs, chainSpec{Crit: pick(r.Rng, crits), Filters: pick(r.Rng, []string{"a", "d", "aa", "ad", "da"})})
		}
		au := r.Rng.Intn(2) == 0
		debug := i%2 == 1
		setLogDebug(debug)
		cfg := &configv1.Config{AllowUnmatchedRequests: au}
		var cw []string
		for j, c := range cs {
			cfg.Chains = append(cfg.Chains, c.proto(j))
			cw = append(cw, c.wire())
		}
		f := server.NewExtAuthZFilter(cfg, nil, nil, nil)
		srv := server.New(cfg, f.Register)
		lis := bufconn.Listen(1 << 20)
		srv.Listen = func() (net.Listener, error) { return lis, nil }
		must(srv.PreRun())
		go func() { _ = srv.Serve() }()
		conn, err := grpc.NewClient("passthrough:///bufnet", grpc.WithContextDialer(func(ctx context.Context, _ string) (net.Conn, error) { return lis.DialContext(ctx) }),
			grpc.WithTransportCredentials(insecure.NewCredentials()))
		must(err)
		cl := envoy.NewAuthorizationClient(conn)
		for _, h := range hmaps {
			ctx, cancel := context.WithTimeout(context.Background(), 5*time.Second)
			resp, err := cl.Check(ctx, httpReq("https", "h", "/p", "", h))
			cancel()
			r.Emit("chain 1 "+b01(au)+" "+listOr(cw, ";")+" "+headersWire(h), showResp(resp, err))
			code, msg := refJudge(cs, au, h)
			r.Case(fmt.Sprintf("wire|%v|%s|%v|%v", debug, strings.Join(cw, ";"), au, h))
			r.Dist[fmt.Sprintf("wire:debug=%v", debug)]++
			if err != nil || resp == nil || int(resp.GetStatus().GetCode()) != code || resp.GetStatus().GetMessage() != msg {
				r.Violate("a request sent to the real gRPC server is not judged by the first matching chain (the verdict differs from the reference evaluator; interceptors and log level must not matter)",
					map[string]any{"case": wireCase{cs, au, debug, h}, "expected_code": code, "expected_message": msg, "got": showResp(resp, err)})
				break
			}
		}
		_ = conn.Close()
		srv.GracefulStop()
	}
	setLogDebug(false)
}
