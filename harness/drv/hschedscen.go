package main

import (
	"fmt"
	"strings"
	"time"
)

// schedScenario: sequential setup, then concurrent checks run under every interleaving, then sequential probes.
type schedScenario struct {
	Name    string   `json:"name"`
	Cfg     hCfg     `json:"config"`
	Threads []string `json:"threads"` // kinds: logout fresh refresh callback replay swap app
}

type schedRun struct {
	r   *Run
	s   *hSim
	w   *schedWorld
	sid string
	iss *issue
	sc  schedScenario
}

func (x *schedRun) cookie(sid string) string { return x.w.cfg.cookieName() + "=" + sid }

func (x *schedRun) gen() [4]string {
	return [4]string{x.s.uniq("sid"), x.s.uniq("nonce"), x.s.uniq("state"), x.s.uniq("VERIFIER-marker")}
}

func (x *schedRun) honest(nonce string, withRefresh bool, life int64) idpAnswer {
	a := idpAnswer{Kind: "body", TokenType: "Bearer", Access: x.s.uniq("ACCESS-marker"), ExpiresIn: i64(life)}
	if withRefresh {
		a.Refresh = x.s.uniq("REFRESH-marker")
	}
	spec := tokSpec{Mode: "good", Exp: x.w.rig.clock.Now().Unix() + life, Aud: x.w.cfg.ClientID, Sub: "user", Extra: x.s.uniq("j")}
	if nonce != "" {
		spec.Nonce = nonce
	}
	a.ID = mintToken(spec)
	return a
}

// login performs a sequential login for a new browser; returns its session id and what was issued.
func (x *schedRun) login(complete bool, life int64) (string, *issue) {
	q := hReq{Scheme: "https", Host: "app.example.com", Path: "/app", Gen: x.gen(), KeysOK: true, IDP: idpAnswer{Kind: "transport"}}
	x.s.do(q)
	sid := q.Gen[0]
	iss := x.s.issued[sid]
	if iss == nil || !complete {
		return sid, iss
	}
	cb := x.callbackReq(sid, iss, x.s.uniq("code"))
	cb.IDP = x.honest(iss.Nonce, true, life)
	x.s.do(cb)
	return sid, iss
}

func (x *schedRun) callbackReq(sid string, iss *issue, code string) hReq {
	u := mustURL(x.w.cfg.CallbackURI)
	return hReq{Scheme: u.Scheme, Host: u.Host, Path: u.EscapedPath() + "?code=" + code + "&state=" + iss.State, Cookie: x.cookie(sid),
		Gen: x.gen(), KeysOK: true, IDP: x.honest(iss.Nonce, true, 60)}
}

func (x *schedRun) appReq(sid string) hReq {
	nonce := ""
	if is := x.s.issued[sid]; is != nil {
		nonce = is.Nonce
	}
	return hReq{Scheme: "https", Host: "app.example.com", Path: "/app/page", Cookie: x.cookie(sid), Gen: x.gen(), KeysOK: true, IDP: x.honest(nonce, true, 60)}
}

// runSchedule executes the scenario under one schedule prefix and returns, for every step beyond the prefix, the set
// of alternatives that were available (for the enumeration of all interleavings).
func runSchedule(r *Run, sc schedScenario, prefix []int) (alts [][]int, taken []int) {
	sc.Cfg.Disc = nil // scheduled threads reach their own gated token endpoint through a per-thread TokenUri
	s := newHSim(r, sc.Cfg)
	s.schedMode = true
	w := newSchedWorld(sc.Cfg)
	// the hSim created its own world; use the scheduler world's base for everything
	s.w.Close()
	s.w = w.hWorld
	w.hWorld.emitPrelude(r)
	defer w.Close()
	x := &schedRun{r: r, s: s, w: w, sc: sc}
	// ---- setup
	needSession := false
	for _, k := range sc.Threads {
		if k != "callback" && k != "replay" && k != "swap" {
			needSession = true
		}
	}
	other, otherIss := "", (*issue)(nil)
	if needSession {
		hasRefresh := false
		for _, k := range sc.Threads {
			if k == "refresh" || k == "forged" {
				hasRefresh = true
			}
		}
		x.sid, x.iss = x.login(true, 30)
		if hasRefresh {
			s.tick(40 * time.Second) // tokens expired, refresh token present
		}
	} else {
		x.sid, x.iss = x.login(false, 0)
		other, otherIss = x.login(false, 0)
		_ = otherIss
	}
	if x.iss == nil {
		s.violate(r.Prop, "scenario setup did not obtain a login redirect", nil)
		return nil, nil
	}
	// ---- concurrent phase
	reqs := map[int]hReq{}
	code := s.uniq("code")
	for i, k := range sc.Threads {
		var q hReq
		switch k {
		case "logout":
			q = hReq{Scheme: "https", Host: "app.example.com", Path: sc.Cfg.LogoutPath, Cookie: x.cookie(x.sid), Gen: x.gen(), KeysOK: true, IDP: idpAnswer{Kind: "transport"}}
		case "fresh", "refresh", "app":
			q = x.appReq(x.sid)
		case "forged": // a check whose refresh is answered with an unexpired ID token signed by a foreign key
			q = x.appReq(x.sid)
			q.IDP.ID = mintToken(tokSpec{Mode: "foreign", Exp: x.w.rig.clock.Now().Unix() + 600, Aud: x.w.cfg.ClientID, Sub: "intruder", Extra: x.s.uniq("forged")})
		case "callback":
			q = x.callbackReq(x.sid, x.iss, code)
		case "replay":
			q = x.callbackReq(x.sid, x.iss, code)
		case "swap": // the other browser's cookie with this session's state and code
			q = x.callbackReq(other, x.iss, code)
		}
		reqs[i+1] = q
	}
	// the model fixes a thread's oracles when it is spawned: every token string and verifier any thread of this
	// scenario can meet (its own scripted answer, but also what another thread stores) is announced before the first spawn
	for i := range sc.Threads {
		w.announce(r, []string{reqs[i+1].IDP.ID}, []string{reqs[i+1].Gen[3]})
		if a := reqs[i+1].IDP; a.Kind == "body" { // what the token endpoint is scripted to return (ghost state of the monitors)
			for _, t := range []string{a.ID, a.Access, a.Refresh} {
				if t != "" {
					s.idpTokens[t] = true
				}
			}
		}
	}
	for i := range sc.Threads {
		w.spawn(r, i+1, reqs[i+1])
	}
	for {
		a := w.alive()
		if len(a) == 0 {
			break
		}
		pos := len(taken)
		choice := a[0]
		if pos < len(prefix) {
			for _, y := range a {
				if y == prefix[pos] {
					choice = y
				}
			}
		}
		alts = append(alts, a)
		taken = append(taken, choice)
		if out := w.step(r, choice); out == "STUCK" || strings.HasPrefix(out, "UNEXPECTED") {
			s.violate("C16", "a check did not reach its next external action within 5 s (possible deadlock)", map[string]any{"scenario": sc, "schedule": taken})
			s.violate(r.Prop, "a check did not reach its next external action within 5 s", map[string]any{"scenario": sc, "schedule": taken})
			return nil, taken
		}
	}
	// ---- per-thread monitors (the sequential ones, on what each thread observed)
	ids := make([]int, 0, len(w.threads))
	for id := range w.threads {
		ids = append(ids, id)
	}
	sortInts(ids)
	// order threads by completion so that ghost state (loggedOut, lastRT, ...) evolves in answer order
	for i := 1; i < len(ids); i++ {
		for j := i; j > 0 && w.threads[ids[j]].endStep < w.threads[ids[j-1]].endStep; j-- {
			ids[j], ids[j-1] = ids[j-1], ids[j]
		}
	}
	extra := map[string]any{"scenario": sc, "schedule": taken, "steps": w.log}
	for _, id := range ids {
		t := w.threads[id]
		o := hObs{Resp: t.resp, Err: t.err, Panic: t.pnc, Calls: t.calls, IDP: t.idp, Now: w.rig.clock.Now()}
		if t.jwks.calls > 0 {
			o.Keys = t.jwks.calls
		}
		s.events = append(s.events, hEvent{Req: &t.q})
		x.schedMonitor(id, t, reqs, extra)
		if t.resp != nil && t.pnc == nil {
			s.monitorSched(t.q, o)
		}
	}
	// ---- sequential probes afterwards
	probe := x.appReq(x.sid)
	o := s.do(probe)
	if o.Resp != nil && o.Resp.GetStatus().GetCode() == 0 {
		x.afterLogoutOK(0, probe, extra)
	}
	if !needSession {
		// replaying the callback after everything finished must not exchange again
		rp := x.callbackReq(x.sid, x.iss, code)
		o := s.do(rp)
		if len(o.IDP) > 0 && x.completed() {
			s.violate("C04", "replaying the callback after a successful exchange caused a second exchange", extra)
		}
	}
	return alts, taken
}

// completed: some thread finished the login of x.sid (302 back to the original URL)
func (x *schedRun) completed() bool {
	for _, t := range x.w.threads {
		if t.resp != nil && t.resp.GetDeniedResponse() != nil && int(t.resp.GetDeniedResponse().GetStatus().GetCode()) == 302 {
			if _, n := hdrValue(t.resp.GetDeniedResponse().GetHeaders(), "set-cookie"); n == 0 {
				return true
			}
		}
	}
	return false
}

// the step at which a thread performed an action matching the prefix (e.g. "remove:"), -1 if never
func (x *schedRun) stepOf(tid int, actionPrefix string) int {
	for _, l := range x.w.log {
		if l.Tid != tid {
			continue
		}
		for _, it := range strings.Split(strings.TrimPrefix(strings.Split(l.Items, " => ")[0], "spawn: "), ",") {
			if strings.HasPrefix(it, actionPrefix) {
				return l.Step
			}
		}
	}
	return -1
}

func (x *schedRun) logoutThread() (int, *sthread) {
	for i, k := range x.sc.Threads {
		if k == "logout" {
			return i + 1, x.w.threads[i+1]
		}
	}
	return 0, nil
}

func logoutSucceeded(t *sthread) bool {
	if t == nil || t.resp == nil || t.resp.GetDeniedResponse() == nil {
		return false
	}
	sc, n := hdrValue(t.resp.GetDeniedResponse().GetHeaders(), "set-cookie")
	return n == 1 && strings.Contains(sc, "Max-Age=0")
}

// afterLogoutOK: an OK for the logged-out session after the logout answer. Classify: the recorded finding
// (a refresh that read the session before the removal and stored its result after it) or something new.
func (x *schedRun) afterLogoutOK(tid int, q hReq, extra map[string]any) {
	lid, lt := x.logoutThread()
	if lt == nil || !logoutSucceeded(lt) {
		return
	}
	rstep := x.stepOf(lid, "remove:"+hx(x.sid))
	resurrect := false
	for id := range x.w.threads {
		g, st := x.stepOf(id, "gettok:"+hx(x.sid)), x.stepOf(id, "settok:"+hx(x.sid))
		if g >= 0 && st >= 0 && g < rstep && st > rstep {
			resurrect = true
		}
	}
	rp := map[string]any{"request": q, "thread": tid}
	for k, v := range extra {
		rp[k] = v
	}
	if resurrect {
		rp["finding_id"] = "C09-refresh-after-logout"
	}
	x.s.r.Dist["ok-after-logout"]++
	x.s.violateRaw("C09", "a request carrying the session cookie was answered OK after the logout for that session had been answered, with no new login in between", rp)
}

func (x *schedRun) schedMonitor(id int, t *sthread, reqs map[int]hReq, extra map[string]any) {
	lid, lt := x.logoutThread()
	if lt != nil && id != lid && logoutSucceeded(lt) && t.resp != nil && t.resp.GetStatus().GetCode() == 0 && t.endStep > lt.endStep {
		x.afterLogoutOK(id, t.q, extra)
	}
	// C04: a callback that STARTS after another callback of the same session completed must not exchange
	kind := x.sc.Threads[id-1]
	if kind == "callback" || kind == "replay" || kind == "swap" {
		for oid, ot := range x.w.threads {
			if oid == id || ot.resp == nil {
				continue
			}
			if ot.endStep < t.spawnStep && len(ot.idp) > 0 && len(t.idp) > 0 {
				x.s.violate("C04", "a callback started after a successful exchange for the same login state performed a second exchange", extra)
			}
		}
		if kind == "swap" && len(t.idp) > 0 {
			x.s.violate("C04", "a callback presented under another session caused a code exchange", extra)
		}
	}
}

// enumerate all interleavings of a scenario (bounded by maxRuns), DFS over schedule prefixes.
func exploreSchedules(r *Run, sc schedScenario, maxRuns int) int {
	stack := [][]int{nil}
	runs := 0
	seen := map[string]bool{}
	for len(stack) > 0 && runs < maxRuns && r.unknownViolations() == 0 {
		prefix := stack[len(stack)-1]
		stack = stack[:len(stack)-1]
		key := fmt.Sprint(prefix)
		if seen[key] {
			continue
		}
		seen[key] = true
		alts, taken := runSchedule(r, sc, prefix)
		runs++
		r.Case(sc.Name + fmt.Sprint(taken))
		r.Dist["schedule:"+sc.Name]++
		for pos := len(prefix); pos < len(taken) && pos < len(alts); pos++ {
			for _, alt := range alts[pos] {
				if alt != taken[pos] {
					np := append(append([]int{}, taken[:pos]...), alt)
					stack = append(stack, np)
				}
			}
		}
	}
	return runs
}
