package main

// loaderAccepts*: questions put to the REAL configuration loader (internal.LocalConfigFile.Validate), so that the
// handler-level generators only use configurations that can reach a running service - and use every one that can.

import (
	"encoding/json"
	"fmt"
	"os"
	"path/filepath"
	"strings"
	"sync"

	"github.com/istio-ecosystem/authservice/internal"
)

var (
	loaderMu    sync.Mutex
	loaderCache = map[string]bool{}
	loaderDir   string
)

func loaderAcceptsOIDC(fields map[string]any) bool {
	oidc := map[string]any{
		"authorization_uri": "https://idp.example.com/authorize", "token_uri": "https://idp.example.com/token",
		"callback_uri": "https://app.example.com/callback", "jwks": `{"keys":[]}`, "client_id": "client", "client_secret": "secret",
		"id_token": map[string]any{"preamble": "Bearer", "header": "authorization"},
	}
	for k, v := range fields {
		oidc[k] = v
	}
	doc := map[string]any{"listen_address": "0.0.0.0", "listen_port": 8080, "log_level": "debug",
		"chains": []any{map[string]any{"name": "c", "filters": []any{map[string]any{"oidc": oidc}}}}}
	b, _ := json.Marshal(doc)
	loaderMu.Lock()
	defer loaderMu.Unlock()
	if v, ok := loaderCache[string(b)]; ok {
		return v
	}
	if loaderDir == "" {
		d, err := os.MkdirTemp(os.Getenv("VERIF_WORK"), "loader")
		must(err)
		loaderDir = d
	}
	path := filepath.Join(loaderDir, "probe.json")
	must(os.WriteFile(path, b, 0o644))
	ok := func() (ok bool) {
		defer func() {
			if recover() != nil {
				ok = false
			}
		}()
		return internal.NewLocalConfigFileForVerif(path).Validate() == nil
	}()
	loaderCache[string(b)] = ok
	return ok
}

// loaderAcceptsPrefix tells whether a configuration with this cookie_name_prefix loads.
func loaderAcceptsPrefix(prefix string) bool {
	if !loaderAcceptsOIDC(nil) {
		panic("loader probe: the reference document does not load")
	}
	if prefix == "" {
		return true
	}
	return loaderAcceptsOIDC(map[string]any{"cookie_name_prefix": prefix})
}

// ---- layouts: the same effective filter written three ways --------------------------------------------------------------
//
// A filter's settings can come from the filter itself (`oidc`), from `default_oidc_config` with an `oidc_override` that
// leaves the field alone, or from the `oidc_override`. What the loader decides, and the configuration in force
// afterwards, must not depend on which of the three was used; and what is in force is what was written, byte for byte
// (the cookie name is built from the prefix, the redirect_uri parameter of every login is the callback URI).

var layoutNames = []string{"oidc", "default", "override"}

func loadLayout(layout, field string, value any) (accepted bool, eff map[string]any, pnc any) {
	base := map[string]any{
		"authorization_uri": "https://idp.example.com/authorize", "token_uri": "https://idp.example.com/token",
		"callback_uri": "https://app.example.com/callback", "jwks": `{"keys":[]}`, "client_id": "client", "client_secret": "secret",
		"id_token": map[string]any{"preamble": "Bearer", "header": "authorization"},
	}
	doc := map[string]any{"listen_address": "0.0.0.0", "listen_port": 8080, "log_level": "info"}
	switch layout {
	case "oidc":
		base[field] = value
		doc["chains"] = []any{map[string]any{"name": "c", "filters": []any{map[string]any{"oidc": base}}}}
	case "default":
		base[field] = value
		doc["default_oidc_config"] = base
		doc["chains"] = []any{map[string]any{"name": "c", "filters": []any{map[string]any{"oidc_override": map[string]any{"client_id": "client"}}}}}
	case "override":
		delete(base, field)
		doc["default_oidc_config"] = base
		doc["chains"] = []any{map[string]any{"name": "c", "filters": []any{map[string]any{"oidc_override": map[string]any{field: value}}}}}
	}
	b, _ := json.Marshal(doc)
	loaderMu.Lock()
	defer loaderMu.Unlock()
	if loaderDir == "" {
		d, err := os.MkdirTemp(os.Getenv("VERIF_WORK"), "loader")
		must(err)
		loaderDir = d
	}
	path := filepath.Join(loaderDir, "layout.json")
	must(os.WriteFile(path, b, 0o644))
	l := internal.NewLocalConfigFileForVerif(path)
	var err error
	func() {
		defer func() { pnc = recover() }()
		err = l.Validate()
	}()
	if pnc != nil || err != nil {
		return false, nil, pnc
	}
	if len(l.Config.GetChains()) != 1 || len(l.Config.GetChains()[0].GetFilters()) != 1 || l.Config.GetChains()[0].GetFilters()[0].GetOidc() == nil {
		return true, map[string]any{"shape": "no resolved oidc filter"}, nil
	}
	o := l.Config.GetChains()[0].GetFilters()[0].GetOidc()
	return true, map[string]any{"cookie_name_prefix": o.GetCookieNamePrefix(), "callback_uri": o.GetCallbackUri(),
		"authorization_uri": o.GetAuthorizationUri(), "token_uri": o.GetTokenUri(), "client_id": o.GetClientId()}, nil
}

func isCookieToken(s string) bool {
	for i := 0; i < len(s); i++ {
		c := s[i]
		if c <= 32 || c >= 127 || strings.IndexByte("()<>@,;:\\\"/[]?={}", c) >= 0 {
			return false
		}
	}
	return true
}

// loaderLayouts runs the probes; tag is the property on whose behalf the findings are reported.
func loaderLayouts(r *Run, tag string) {
	type probe struct {
		field string
		value string
	}
	var probes []probe
	for _, p := range []string{"app1", "my-app_2", "app.1", "A~b!", "x;y", "a b", "a=b", "x; Domain=evil.example", "x=1; Domain=test; y", "ü", "tab\tbed",
		"p|q^r", "$%&'*+-.^_`|~", "(x)", "__Host-x", "-", "a,b", "a/b", "q\"r", "{x}", "[y]", "a:b", "a@b", "a?b", "back\\slash", "\x7f"} {
		probes = append(probes, probe{"cookie_name_prefix", p})
	}
	for _, u := range []string{"https://app.example.com/callback", "https://app.example.com/r%C3%A9ponse/cb", "https://app.example.com/rückruf",
		"https://app.example.com/cb|v2", "https://app.example.com/oauth%20cb", "https://app.example.com/oauth cb", "HTTPS://app.example.com/cb",
		"https://app.example.com/a^b", "https://app.example.com/{id}/cb", "https://app.example.com/cb?x=1&y=%26", "https://APP.example.com:443/cb",
		"https://app.example.com/cb/../cb2", "https://app.example.com//cb", "https://app.example.com/cb%2Fx", "https://app.example.com/`cb`",
		"https://xn--bcher-kva.example/é/callback", "https://bücher.example/callback", "https://app.example.com/", "https://app.example.com", "::bad"} {
		probes = append(probes, probe{"callback_uri", u})
	}
	for _, p := range probes {
		var verdicts []bool
		for _, layout := range layoutNames {
			ok, eff, pnc := loadLayout(layout, p.field, p.value)
			r.Dist["layout:"+layout+":"+map[bool]string{true: "accepted", false: "rejected"}[ok]]++
			if pnc != nil {
				r.Violate(tag+" loading a configuration document panicked", map[string]any{"layout": layout, "field": p.field, "value": p.value, "panic": fmt.Sprint(pnc)})
				return
			}
			verdicts = append(verdicts, ok)
			if !ok {
				continue
			}
			if got, _ := eff[p.field].(string); got != p.value {
				r.Violate(tag+" the configuration in force after loading is not the one written: "+p.field+" was changed by the loader (the cookie name is built from the prefix; the redirect_uri of every login is the callback URI and must decode to exactly the configured value)",
					map[string]any{"layout": layout, "field": p.field, "written": p.value, "in_force": eff[p.field]})
				return
			}
			if p.field == "cookie_name_prefix" && !isCookieToken(p.value) {
				r.Violate(tag+" a cookie_name_prefix that is not an RFC 6265 token was accepted: the Set-Cookie of the session cookie can be given extra attributes or a different name through it",
					map[string]any{"layout": layout, "prefix": p.value})
				return
			}
		}
		if verdicts[0] != verdicts[1] || verdicts[0] != verdicts[2] {
			r.Violate(tag+" the loader's verdict depends on where a setting is written (filter itself / default_oidc_config / oidc_override)",
				map[string]any{"field": p.field, "value": p.value, "accepted_as_oidc": verdicts[0], "accepted_from_default": verdicts[1], "accepted_from_override": verdicts[2]})
			return
		}
		r.Case("layout:" + p.field + ":" + p.value)
	}
}
