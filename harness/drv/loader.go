package main

// loaderAccepts*: questions put to the REAL configuration loader (internal.LocalConfigFile.Validate), so that the
// handler-level generators only use configurations that can reach a running service - and use every one that can.

import (
	"encoding/json"
	"os"
	"path/filepath"
	"sync"

	"github.com/istio-ecosystem/authservice/internal"
)

var (
	loaderMu    sync.Mutex
	loaderCache = map[string]bool{}
	loaderDir   string
)

func loaderAcceptsOIDC(fields map[string]any) bool {
	oidc := map[string]any{
		"authorization_uri": "https://idp.example.com/authorize", "token_uri": "https://idp.example.com/token",
		"callback_uri": "https://app.example.com/callback", "jwks": `{"keys":[]}`, "client_id": "client", "client_secret": "secret",
		"id_token": map[string]any{"preamble": "Bearer", "header": "authorization"},
	}
	for k, v := range fields {
		oidc[k] = v
	}
	doc := map[string]any{"listen_address": "0.0.0.0", "listen_port": 8080, "log_level": "debug",
		"chains": []any{map[string]any{"name": "c", "filters": []any{map[string]any{"oidc": oidc}}}}}
	b, _ := json.Marshal(doc)
	loaderMu.Lock()
	defer loaderMu.Unlock()
	if v, ok := loaderCache[string(b)]; ok {
		return v
	}
	if loaderDir == "" {
		d, err := os.MkdirTemp(os.Getenv("VERIF_WORK"), "loader")
		must(err)
		loaderDir = d
	}
	path := filepath.Join(loaderDir, "probe.json")
	must(os.WriteFile(path, b, 0o644))
	ok := func() (ok bool) {
		defer func() {
			if recover() != nil {
				ok = false
			}
		}()
		return internal.NewLocalConfigFileForVerif(path).Validate() == nil
	}()
	loaderCache[string(b)] = ok
	return ok
}

// loaderAcceptsPrefix tells whether a configuration with this cookie_name_prefix loads.
func loaderAcceptsPrefix(prefix string) bool {
	if !loaderAcceptsOIDC(nil) {
		panic("loader probe: the reference document does not load")
	}
	if prefix == "" {
		return true
	}
	return loaderAcceptsOIDC(map[string]any{"cookie_name_prefix": prefix})
}
