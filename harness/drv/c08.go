package main

import (
	"context"
	"fmt"
	"strings"

	configv1 "github.com/istio-ecosystem/authservice/config/gen/go/v1"
	mockv1 "github.com/istio-ecosystem/authservice/config/gen/go/v1/mock"
	"github.com/istio-ecosystem/authservice/internal/server"
)

func init() { checks["C08"] = runC08 }

type crit struct {
	Kind   string `json:"kind"` // "-", "eq", "pfx"
	Header string `json:"header"`
	Val    string `json:"val"`
}
type chainSpec struct {
	Crit    crit   `json:"criterion"`
	Filters string `json:"filters"` // string of 'a' / 'd'
	Name    string `json:"name,omitempty"`
}

func (c chainSpec) proto(i int) *configv1.FilterChain {
	fc := &configv1.FilterChain{Name: fmt.Sprintf("chain-%d", i)}
	if c.Name != "" {
		fc.Name = c.Name
	}
	switch c.Crit.Kind {
	case "eq":
		fc.Match = &configv1.Match{Header: c.Crit.Header, Criteria: &configv1.Match_Equality{Equality: c.Crit.Val}}
	case "pfx":
		fc.Match = &configv1.Match{Header: c.Crit.Header, Criteria: &configv1.Match_Prefix{Prefix: c.Crit.Val}}
	case "bare":
		fc.Match = &configv1.Match{Header: c.Crit.Header}
	}
	for _, f := range c.Filters {
		fc.Filters = append(fc.Filters, &configv1.Filter{Type: &configv1.Filter_Mock{Mock: &mockv1.MockConfig{Allow: f == 'a'}}})
	}
	return fc
}

func (c chainSpec) wire() string {
	cr := "-"
	switch c.Crit.Kind {
	case "eq":
		cr = hx(c.Crit.Header) + ":" + hx(c.Crit.Val) + ":" + hx("")
	case "pfx":
		cr = hx(c.Crit.Header) + ":" + hx("") + ":" + hx(c.Crit.Val)
	case "bare":
		cr = hx(c.Crit.Header) + ":" + hx("") + ":" + hx("")
	}
	var fs []string
	for _, f := range c.Filters {
		fs = append(fs, string(f))
	}
	return cr + "/" + strings.Join(fs, ",")
}

func headersWire(h map[string]string) string {
	var items []string
	for _, k := range sortedKeys(h) {
		items = append(items, hx(k)+":"+hx(h[k]))
	}
	return listOr(items, ",")
}

// refJudge is the reference evaluator of C08, written from the statement, not from the code.
// returns (code, message)
func refJudge(chains []chainSpec, au bool, h map[string]string) (int, string) {
	lower := func(s string) string { // ASCII lower-casing
		b := []byte(s)
		for i, c := range b {
			if c >= 'A' && c <= 'Z' {
				b[i] = c + 32
			}
		}
		return string(b)
	}
	for _, c := range chains {
		m := false
		switch c.Crit.Kind {
		case "-":
			m = true
		case "eq":
			if c.Crit.Val != "" {
				m = h[lower(c.Crit.Header)] == c.Crit.Val
			} else {
				m = true // empty equality degenerates to the empty prefix
			}
		case "pfx":
			m = strings.HasPrefix(h[lower(c.Crit.Header)], c.Crit.Val)
		case "bare":
			m = true
		}
		if !m {
			continue
		}
		for _, f := range c.Filters {
			if f != 'a' {
				return 7, ""
			}
		}
		return 0, ""
	}
	if au {
		return 0, ""
	}
	return 7, "no chains matched"
}

func runC08(r *Run) {
	one := func(chains []chainSpec, au bool, h map[string]string, sample bool) {
		cfg := &configv1.Config{AllowUnmatchedRequests: au}
		var cw []string
		for i, c := range chains {
			cfg.Chains = append(cfg.Chains, c.proto(i))
			cw = append(cw, c.wire())
		}
		f := server.NewExtAuthZFilter(cfg, nil, nil, nil)
		resp, err := f.Check(context.Background(), httpReq("https", "h", "/p", "", h))
		r.Emit("chain 1 "+b01(au)+" "+listOr(cw, ";")+" "+headersWire(h), showResp(resp, err))
		code, msg := refJudge(chains, au, h)
		key := ""
		if len(chains) >= 2 {
			key = strings.Join(cw, ";") + "|" + b01(au) + "|" + headersWire(h)
		}
		r.Case(key)
		r.Dist[fmt.Sprintf("chains=%d", len(chains))]++
		r.Dist[fmt.Sprintf("code=%d", code)]++
		if err != nil || resp == nil || int(resp.GetStatus().GetCode()) != code || resp.GetStatus().GetMessage() != msg {
			r.Violate("Check disagrees with the reference evaluator (first matching chain judges, all filters must allow, unmatched denied)",
				map[string]any{"chains": chains, "allow_unmatched": au, "headers": h, "expected_code": code, "expected_message": msg, "got": showResp(resp, err)})
		}
		if sample {
			r.Sample(map[string]any{"chains": chains, "allow_unmatched": au, "headers": h, "impl": showResp(resp, err)})
		}
	}
	crits := []crit{{"-", "", ""}, {"eq", "X-Tenant", "a"}, {"eq", "x-tenant", "ab"}, {"pfx", "X-TENANT", "a"}, {"pfx", "x-tenant", ""}}
	filters := []string{"a", "d", "aa", "ad", "da", "aad"}
	var types []chainSpec
	for _, c := range crits {
		for _, f := range filters {
			types = append(types, chainSpec{Crit: c, Filters: f})
		}
	}
	// header values as Envoy hands them over: a repeated header arrives joined with commas, values may carry spaces
	hmaps := []map[string]string{nil, {"x-tenant": "a"}, {"x-tenant": "ab"}, {"x-tenant": "b"}, {"X-Tenant": "a", "other": "a"},
		{"x-tenant": "b,a"}, {"x-tenant": "a,b"}, {"x-tenant": "b, a"}, {"x-tenant": " a"}, {"x-tenant": "a;b"}}
	maxLen := 2
	if r.thorough() {
		maxLen = 3
	}
	var rec func(prefix []chainSpec)
	count := 0
	rec = func(prefix []chainSpec) {
		for _, au := range []bool{false, true} {
			for _, h := range hmaps {
				count++
				one(prefix, au, h, count%40000 == 7)
			}
		}
		if len(prefix) == maxLen {
			return
		}
		for _, t := range types {
			rec(append(append([]chainSpec{}, prefix...), t))
		}
	}
	rec(nil)
	r.Extra["exhaustive_layouts"] = count
	// random beyond: up to 4 chains, wider values, zero-filter chains, bare criteria, more headers
	n := 5000
	if r.thorough() {
		n = 200000
	}
	vals := []string{"", "a", "ab", "abc", "b", "A", "é"}
	names := []string{"x-tenant", "X-Tenant", "X-TENANT", "x-other", "X-Other", "x"}
	for i := 0; i < n; i++ {
		var cs []chainSpec
		for k := r.Rng.Intn(5); k > 0; k-- {
			c := chainSpec{}
			switch r.Rng.Intn(6) {
			case 0:
				c.Crit = crit{"-", "", ""}
			case 1, 2:
				c.Crit = crit{"eq", pick(r.Rng, names), pick(r.Rng, vals)}
			case 3, 4:
				c.Crit = crit{"pfx", pick(r.Rng, names), pick(r.Rng, vals)}
			case 5:
				c.Crit = crit{"bare", pick(r.Rng, names), ""}
			}
			for j := r.Rng.Intn(4); j > 0; j-- {
				if r.Rng.Intn(3) == 0 {
					c.Filters += "d"
				} else {
					c.Filters += "a"
				}
			}
			cs = append(cs, c)
		}
		h := map[string]string{}
		for k := r.Rng.Intn(4); k > 0; k-- {
			h[pick(r.Rng, names)] = pick(r.Rng, vals)
		}
		one(cs, r.Rng.Intn(2) == 0, h, i < 3)
	}
	// One ExtAuthZFilter instance serving SEVERAL requests (the service keeps one instance for its lifetime), with chain
	// names that are not unique (names are free text): the verdict of a request must not depend on earlier requests.
	m := 1500
	if r.thorough() {
		m = 40000
	}
	cnames := []string{"a", "a", "b", "main"}
	for i := 0; i < m; i++ {
		var cs []chainSpec
		for k := 1 + r.Rng.Intn(4); k > 0; k-- {
			c := chainSpec{Name: pick(r.Rng, cnames)}
			switch r.Rng.Intn(3) {
			case 0:
				c.Crit = crit{"-", "", ""}
			case 1:
				c.Crit = crit{"eq", "x-tenant", pick(r.Rng, []string{"a", "b", "ab"})}
			case 2:
				c.Crit = crit{"pfx", "x-tenant", pick(r.Rng, []string{"a", "b", ""})}
			}
			for j := 1 + r.Rng.Intn(3); j > 0; j-- {
				c.Filters += pick(r.Rng, []string{"a", "a", "d"})
			}
			cs = append(cs, c)
		}
		au := r.Rng.Intn(2) == 0
		cfg := &configv1.Config{AllowUnmatchedRequests: au}
		var cw []string
		for i, c := range cs {
			cfg.Chains = append(cfg.Chains, c.proto(i))
			cw = append(cw, c.wire())
		}
		f := server.NewExtAuthZFilter(cfg, nil, nil, nil)
		var hist []map[string]string
		for q := 0; q < 4; q++ {
			h := map[string]string{"x-tenant": pick(r.Rng, []string{"a", "b", "ab", "c"})}
			hist = append(hist, h)
			resp, err := f.Check(context.Background(), httpReq("https", "h", "/p", "", h))
			r.Emit("chain 1 "+b01(au)+" "+listOr(cw, ";")+" "+headersWire(h), showResp(resp, err))
			code, msg := refJudge(cs, au, h)
			r.Case(fmt.Sprintf("multi|%s|%v", strings.Join(cw, ";"), hist))
			r.Dist["multi-request-on-one-instance"]++
			if err != nil || resp == nil || int(resp.GetStatus().GetCode()) != code || resp.GetStatus().GetMessage() != msg {
				r.Violate("Check on a long-lived ExtAuthZFilter disagrees with the reference evaluator (the verdict depends on earlier requests or on chain names)",
					map[string]any{"chains": cs, "allow_unmatched": au, "requests_so_far": hist, "expected_code": code, "got": showResp(resp, err)})
				break
			}
		}
	}
	c08Wire(r)
	consistencyHammer(r, "[C08]")
	if r.unknownViolations() == 0 {
		systemRotation(r, "[C08]") // chain selection is untouched by background client-secret rotation
	}
	r.Finish("requests sent by a real gRPC client to the real gRPC server of the service (interceptors included) over an in-memory connection, with the requests log scope at info and at debug, criteria on authorization / proxy-authorization / cookie headers; every list of up to the stated number of chains over 30 chain types (5 criteria x 6 filter sequences) x allow_unmatched x 5 header maps (exhaustive), plus random lists of 0-4 chains incl. zero-filter chains, bare criteria, mixed-case names; " +
		"each case runs the real ExtAuthZFilter.Check with mock filters, the Lean `check`, and the Go reference evaluator; non-trivial = at least two chains, distinct by the whole layout")
}
