package main

// Endpoint discovery THROUGH the long-lived filter: one ExtAuthZFilter (as assembled at start-up) whose OIDC filter names a
// configuration_uri; the provider's discovery endpoint fails for the first requests (status 500, not JSON, connection
// closed) and is healthy afterwards. Every Check runs under recover(): while discovery fails a check ends in an error or
// a denial - never OK, never a panic - and once the endpoint is healthy the very next check sends the browser to the
// DISCOVERED authorization endpoint (nothing of the earlier failure is remembered).

import (
	"context"
	"encoding/json"
	"fmt"
	"net/http"
	"net/http/httptest"
	"strings"
	"sync/atomic"

	envoy "github.com/envoyproxy/go-control-plane/envoy/service/auth/v3"

	configv1 "github.com/istio-ecosystem/authservice/config/gen/go/v1"
	oidcv1 "github.com/istio-ecosystem/authservice/config/gen/go/v1/oidc"
	"github.com/istio-ecosystem/authservice/internal"
	"github.com/istio-ecosystem/authservice/internal/oidc"
	"github.com/istio-ecosystem/authservice/internal/server"
)

var discSysSeq int64

func discoveryThroughFilter(r *Run, tag string) {
	ctx, cancel := context.WithCancel(context.Background())
	defer cancel()
	for _, failKind := range []string{"status-500", "not-json", "connection-closed", "empty-document"} {
		if r.unknownViolations() > 0 {
			return
		}
		var hits int32
		const failing = 2
		srv := httptest.NewServer(http.HandlerFunc(func(w http.ResponseWriter, req *http.Request) {
			if atomic.AddInt32(&hits, 1) <= failing {
				switch failKind {
				case "status-500":
					w.WriteHeader(500)
				case "not-json":
					_, _ = w.Write([]byte("<html>maintenance</html>"))
				case "empty-document":
					_, _ = w.Write([]byte("null"))
				default:
					if hj, ok := w.(http.Hijacker); ok {
						if c, _, err := hj.Hijack(); err == nil {
							_ = c.Close()
						}
					}
				}
				return
			}
			_ = json.NewEncoder(w).Encode(map[string]any{"issuer": "https://idp.example.com", "authorization_endpoint": "https://idp.example.com/discovered/auth",
				"token_endpoint": "https://idp.example.com/discovered/token", "jwks_uri": "https://idp.example.com/discovered/jwks", "end_session_endpoint": "https://idp.example.com/discovered/end"})
		}))
		oc := &oidcv1.OIDCConfig{ClientId: "disc-client", ClientSecretConfig: &oidcv1.OIDCConfig_ClientSecret{ClientSecret: "s"},
			ConfigurationUri: fmt.Sprintf("%s/tenant-%d/.well-known/openid-configuration", srv.URL, atomic.AddInt64(&discSysSeq, 1)),
			CallbackUri:      "https://app.example.com/callback", Scopes: []string{"openid"}, IdToken: &oidcv1.TokenConfig{Header: "authorization", Preamble: "Bearer"},
			JwksConfig: &oidcv1.OIDCConfig_Jwks{Jwks: keys().doc}}
		cfg := &configv1.Config{Chains: []*configv1.FilterChain{{Name: "c", Filters: []*configv1.Filter{{Type: &configv1.Filter_Oidc{Oidc: oc}}}}}}
		fac := oidc.NewSessionStoreFactory(cfg)
		must(fac.PreRun())
		filter := server.NewExtAuthZFilter(cfg, internal.NewTLSConfigPool(ctx), staticJWKS{}, fac)
		safe := func() (resp *envoy.CheckResponse, err error, pv any) {
			defer func() {
				if p := recover(); p != nil {
					pv = p
				}
			}()
			resp, err = filter.Check(context.Background(), httpReq("https", "app.example.com", "/app", "", nil))
			return
		}
		var outcomes []string
		for i := 0; i < failing+3; i++ {
			resp, err, pv := safe()
			healthy := int(atomic.LoadInt32(&hits)) > failing
			switch {
			case pv != nil:
				outcomes = append(outcomes, fmt.Sprintf("PANIC: %v", pv))
				r.Violate(tag+" Check panicked after the provider's discovery endpoint had failed: "+fmt.Sprint(pv),
					map[string]any{"discovery_failure": failKind, "check_number": i + 1, "outcomes": outcomes})
			case err != nil:
				outcomes = append(outcomes, "error")
			default:
				outcomes = append(outcomes, showResp(resp, nil))
			}
			if pv != nil {
				break
			}
			if resp != nil && err == nil && resp.GetStatus().GetCode() == 0 {
				r.Violate(tag+" a request without a session was answered OK while (or after) endpoint discovery failed", map[string]any{"discovery_failure": failKind, "outcomes": outcomes})
				break
			}
			if healthy {
				loc, _ := hdrValue(resp.GetDeniedResponse().GetHeaders(), "location")
				if err != nil || !strings.HasPrefix(loc, "https://idp.example.com/discovered/auth") {
					r.Violate(tag+" the provider's discovery endpoint is healthy again but the service still cannot serve the filter (an earlier failure is remembered)",
						map[string]any{"discovery_failure": failKind, "check_number": i + 1, "outcomes": outcomes})
					break
				}
			}
		}
		r.Case("discovery-through-filter|" + failKind)
		r.Dist["discovery-through-filter"]++
		srv.Close()
	}
}
