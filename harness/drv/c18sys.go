package main

// C18 through the real configuration loader and through package-level state:
//  (a) a default configuration with two oidc_override filters, each discovering its own provider: after loading, no two
//      filters may share a mutable part of their configuration (endpoint discovery writes into it on every check), and
//      each filter redirects logins and logouts to ITS provider whatever the other filter did before;
//  (b) a filter with a proxy_uri next to one without: the token requests of the second never go through the first's proxy.

import (
	"context"
	"encoding/json"
	"fmt"
	"net/http"
	"net/http/httptest"
	"net/url"
	"os"
	"path/filepath"
	"strings"
	"sync"
	"time"

	"github.com/alicebob/miniredis/v2"

	configv1 "github.com/istio-ecosystem/authservice/config/gen/go/v1"
	oidcv1 "github.com/istio-ecosystem/authservice/config/gen/go/v1/oidc"
	"github.com/istio-ecosystem/authservice/internal"
	"github.com/istio-ecosystem/authservice/internal/oidc"
	"github.com/istio-ecosystem/authservice/internal/server"
)

func c18Loader(r *Run) { c18LoaderTag(r, "[C18]") }

// also part of C02: an ID token is validated under the key set of the filter's OWN (discovered) provider and redeemed
// at its own token endpoint
func c18LoaderTag(r *Run, tag string) {
	for oi, order := range [][]string{{"a", "b"}, {"b", "a"}, {"a", "b"}, {"b", "a"}} {
		byQuery := oi >= 2 // the two discovery URLs differ only in their query string
		ctx, cancel := context.WithCancel(context.Background())
		// both providers publish their documents on ONE host, under URLs that differ only after /.well-known/ (a policy or
		// realm selector): whatever is remembered about discovery must be remembered per configuration URI
		shared := newFakeIDP()
		idps := map[string]*fakeIDP{"a": shared, "b": shared}
		mrs := map[string]*miniredis.Miniredis{}
		paths := map[string]string{}
		shared.setJWKS(jwksDoc(&c18Key(0).PublicKey, keys().kid))
		stamp := time.Now().UnixNano()
		for _, n := range []string{"a", "b"} {
			mr, err := miniredis.Run()
			must(err)
			mrs[n] = mr
			paths[n] = "/.well-known/openid-configuration/realms/" + n + fmt.Sprintf("-%d", time.Now().UnixNano())
			if byQuery {
				paths[n] = fmt.Sprintf("/.well-known/openid-configuration/v%d?p=B2C_1_%s", stamp, n) // ONE path, two queries
			}
			shared.setDiscovery(paths[n], discAnswer{Kind: "doc", Doc: discDoc{Auth: "https://idp-" + n + ".example.com/authorize", Token: shared.srv.URL + "/token-" + n,
				Jwks: shared.srv.URL + "/jwks", EndSession: "https://idp-" + n + ".example.com/end-session"}})
		}
		ov := func(n string) J {
			return J{"oidc_override": J{"configuration_uri": idps[n].srv.URL + paths[n], "client_id": "client-" + n, "callback_uri": "https://app.example.com/" + n + "/callback",
				"cookie_name_prefix": "p" + n, "redis_session_store_config": J{"server_uri": "redis://" + mrs[n].Addr()}}}
		}
		doc := J{"listen_address": "0.0.0.0", "listen_port": 8080, "log_level": "info",
			"default_oidc_config": J{"client_secret": "shared-secret", "id_token": J{"header": "authorization", "preamble": "Bearer"},
				"logout": J{"path": "/logout"}, "jwks_fetcher": J{"periodic_fetch_interval_sec": 60}, "scopes": []string{"profile"}},
			"chains": []J{
				{"name": "a", "match": J{"header": "x-app", "equality": "a"}, "filters": []J{ov("a")}},
				{"name": "b", "match": J{"header": "x-app", "equality": "b"}, "filters": []J{ov("b")}}}}
		b, _ := json.Marshal(doc)
		dir := filepath.Join(r.Out, "c18cfg")
		must(os.MkdirAll(dir, 0o755))
		path := filepath.Join(dir, "c.json")
		must(os.WriteFile(path, b, 0o644))
		l := internal.NewLocalConfigFileForVerif(path)
		if err := l.Validate(); err != nil {
			r.Violate("[C18] a valid two-filter configuration (default + two discovering overrides) does not load", map[string]any{"document": string(b), "error": err.Error()})
			cancel()
			continue
		}
		cfg := &l.Config
		// (1) nothing mutable is shared between the filters
		var ocs []*oidcv1.OIDCConfig
		for _, ch := range cfg.GetChains() {
			for _, f := range ch.GetFilters() {
				if o := f.GetOidc(); o != nil {
					ocs = append(ocs, o)
				}
			}
		}
		for i := 0; i < len(ocs); i++ {
			for j := i + 1; j < len(ocs); j++ {
				var shared []string
				if ocs[i] == ocs[j] {
					shared = append(shared, "the whole OIDCConfig")
				}
				if ocs[i].GetLogout() != nil && ocs[i].GetLogout() == ocs[j].GetLogout() {
					shared = append(shared, "logout")
				}
				if ocs[i].GetJwksFetcher() != nil && ocs[i].GetJwksFetcher() == ocs[j].GetJwksFetcher() {
					shared = append(shared, "jwks_fetcher")
				}
				if ocs[i].GetIdToken() != nil && ocs[i].GetIdToken() == ocs[j].GetIdToken() {
					shared = append(shared, "id_token")
				}
				if ocs[i].GetRedisSessionStoreConfig() != nil && ocs[i].GetRedisSessionStoreConfig() == ocs[j].GetRedisSessionStoreConfig() {
					shared = append(shared, "redis_session_store_config")
				}
				if len(shared) > 0 {
					r.Violate("[C18] two filters share a mutable part of their loaded configuration (the same object): what endpoint discovery or a secret update writes for one filter changes the other",
						map[string]any{"document": string(b), "filters": []string{ocs[i].GetClientId(), ocs[j].GetClientId()}, "shared": shared})
				}
			}
		}
		// (2) each filter uses its own provider, whichever served first
		fac := oidc.NewSessionStoreFactory(cfg)
		must(fac.PreRun())
		pool := internal.NewTLSConfigPool(ctx)
		jw := oidc.NewJWKSProvider(cfg, pool)
		go func() { _ = jw.ServeContext(ctx) }()
		filter := server.NewExtAuthZFilter(cfg, pool, jw, fac)
		ask := func(n, p, cookie string) string {
			h := map[string]string{"x-app": n}
			if cookie != "" {
				h["cookie"] = cookie
			}
			resp, err := filter.Check(context.Background(), httpReq("https", "app.example.com", p, "", h))
			if err != nil || resp == nil {
				return "ERROR"
			}
			loc, _ := hdrValue(resp.GetDeniedResponse().GetHeaders(), "location")
			return loc
		}
		for rep := 0; rep < 2; rep++ {
			for _, n := range order {
				if loc := ask(n, "/"+n+"/page", ""); !strings.HasPrefix(loc, "https://idp-"+n+".example.com/authorize?") {
					r.Violate(tag+" a filter's login redirect does not go to the authorization endpoint of its own (discovered) provider",
						map[string]any{"document": string(b), "filter": n, "served_order": order, "location": loc})
				}
			}
			for _, n := range order {
				if loc := ask(n, "/logout", ""); loc != "https://idp-"+n+".example.com/end-session" {
					r.Violate("[C18] a filter's logout does not redirect to the end-session endpoint of its own (discovered) provider",
						map[string]any{"document": string(b), "filter": n, "served_order": order, "location": loc})
				}
			}
		}
		r.Case("loader|" + strings.Join(order, ">"))
		r.Dist["loader-two-overrides"]++
		cancel()
		shared.srv.Close()
		for n := range mrs {
			mrs[n].Close()
		}
	}
}

func c18Proxy(r *Run) {
	ctx, cancel := context.WithCancel(context.Background())
	defer cancel()
	var mu sync.Mutex
	var seen []string
	proxy := httptest.NewServer(http.HandlerFunc(func(w http.ResponseWriter, req *http.Request) {
		mu.Lock()
		seen = append(seen, req.Method+" "+req.RequestURI+" authorization="+req.Header.Get("Authorization"))
		mu.Unlock()
		w.WriteHeader(http.StatusBadGateway)
	}))
	defer proxy.Close()
	idps := []*fakeIDP{newFakeIDP(), newFakeIDP()}
	mk := func(i int, name, proxyURI string) *oidcv1.OIDCConfig {
		return &oidcv1.OIDCConfig{ClientId: "client-" + name, ClientSecretConfig: &oidcv1.OIDCConfig_ClientSecret{ClientSecret: "secret-" + name},
			CallbackUri: "https://app.example.com/" + name + "/callback", AuthorizationUri: "https://idp-" + name + ".example.com/auth", TokenUri: idps[i].srv.URL + "/token",
			Scopes: []string{"openid"}, CookieNamePrefix: "p" + name, IdToken: &oidcv1.TokenConfig{Header: "authorization", Preamble: "Bearer"},
			JwksConfig: &oidcv1.OIDCConfig_Jwks{Jwks: keys().doc}, ProxyUri: proxyURI}
	}
	ocs := []*oidcv1.OIDCConfig{mk(0, "partner", proxy.URL), mk(1, "corp", "")}
	cfg := &configv1.Config{}
	for _, oc := range ocs {
		n := strings.TrimPrefix(oc.ClientId, "client-")
		cfg.Chains = append(cfg.Chains, &configv1.FilterChain{Name: n, Match: &configv1.Match{Header: "x-app", Criteria: &configv1.Match_Equality{Equality: n}},
			Filters: []*configv1.Filter{{Type: &configv1.Filter_Oidc{Oidc: oc}}}})
	}
	fac := oidc.NewSessionStoreFactory(cfg)
	must(fac.PreRun())
	filter := server.NewExtAuthZFilter(cfg, internal.NewTLSConfigPool(ctx), staticJWKS{}, fac)
	login := func(i int, n string) (int, string) {
		resp, err := filter.Check(context.Background(), httpReq("https", "app.example.com", "/"+n+"/page", "", map[string]string{"x-app": n}))
		if err != nil || resp == nil {
			return -1, ""
		}
		loc, _ := hdrValue(resp.GetDeniedResponse().GetHeaders(), "location")
		sck, _ := hdrValue(resp.GetDeniedResponse().GetHeaders(), "set-cookie")
		u, _ := url.Parse(loc)
		cs := (&http.Response{Header: http.Header{"Set-Cookie": []string{sck}}}).Cookies()
		if u == nil || len(cs) != 1 {
			return -1, ""
		}
		idps[i].set(idpAnswer{Kind: "body", TokenType: "Bearer", Access: "at-" + n, ExpiresIn: i64(60),
			ID: mintToken(tokSpec{Mode: "good", Exp: time.Now().Unix() + 60, Aud: "client-" + n, Nonce: u.Query().Get("nonce"), Sub: "u", Extra: "c18proxy-" + n})})
		idps[i].take()
		r2, err := filter.Check(context.Background(), httpReq("https", "app.example.com", "/"+n+"/callback?code=c&state="+u.Query().Get("state"), "", map[string]string{"x-app": n, "cookie": cs[0].Name + "=" + cs[0].Value}))
		if err != nil || r2 == nil {
			return -1, ""
		}
		l2, _ := hdrValue(r2.GetDeniedResponse().GetHeaders(), "location")
		return len(idps[i].take()), l2
	}
	// the proxied filter serves first (its token request goes to ITS proxy, which refuses it) ...
	login(0, "partner")
	mu.Lock()
	before := len(seen)
	mu.Unlock()
	// ... then the other filter logs a user in: straight to its own token endpoint, nothing through the other's proxy
	for rep := 0; rep < 2; rep++ {
		direct, loc := login(1, "corp")
		mu.Lock()
		leaked := append([]string{}, seen[before:]...)
		mu.Unlock()
		if len(leaked) > 0 || direct != 1 || !strings.HasPrefix(loc, "https://app.example.com/corp/page") {
			r.Violate("[C18] the token request of one filter went through the HTTP proxy configured for ANOTHER filter (authorization code and client credentials disclosed to it) or did not reach its own token endpoint",
				map[string]any{"requests_seen_by_the_other_filters_proxy": leaked, "requests_at_own_token_endpoint": direct, "post_login_location": loc,
					"steps": "filter partner (proxy_uri set) serves a login; then filter corp (no proxy) serves a login"})
			break
		}
	}
	if tr, ok := http.DefaultTransport.(*http.Transport); ok && tr.Proxy != nil {
		if u, _ := tr.Proxy(&http.Request{URL: &url.URL{Scheme: "http", Host: "example.invalid"}}); u != nil && u.String() == proxy.URL {
			r.Violate("[C18] a filter's proxy_uri was installed on the process-wide default HTTP transport", map[string]any{"proxy": proxy.URL})
		}
	}
	r.Dist["proxy-isolation"]++
	r.Case("proxy")
	for _, i := range idps {
		i.srv.Close()
	}
	_ = fmt.Sprint
}
