package main

import (
	"context"
	"crypto/rand"
	"crypto/rsa"
	"fmt"
	"net/http"
	"net/url"
	"strings"
	"sync"
	"time"

	"github.com/alicebob/miniredis/v2"
	envoy "github.com/envoyproxy/go-control-plane/envoy/service/auth/v3"

	configv1 "github.com/istio-ecosystem/authservice/config/gen/go/v1"
	oidcv1 "github.com/istio-ecosystem/authservice/config/gen/go/v1/oidc"
	"github.com/istio-ecosystem/authservice/internal"
	"github.com/istio-ecosystem/authservice/internal/oidc"
	"github.com/istio-ecosystem/authservice/internal/server"
)

func init() { checks["C18"] = runC18 }

type c18Filter struct {
	Name     string `json:"name"`
	Prefix   string `json:"cookie_prefix"`
	ClientID string `json:"client_id"`
	Redis    string `json:"redis"` // "" memory, else a key into the servers map + "/db"
	Abs      uint32 `json:"abs"`
	Chain    string `json:"chain_name"`
	Keys     string `json:"keys,omitempty"` // "" by position (even: inline JWKS, odd: fetched) | "static" | "fetcher"
}

type c18Layout struct {
	Name    string      `json:"layout"`
	Filters []c18Filter `json:"filters"`
	// Shared[i][j]: filters i and j are expected to resolve to the same store (by the factory's documented rule)
}

// c18World: one ExtAuthZFilter over several OIDC chains selected by the x-app header, real factory, real stores.
type c18World struct {
	filter *server.ExtAuthZFilter
	fac    oidc.SessionStoreFactoryUnit
	ocs    []*oidcv1.OIDCConfig
	idps   []*fakeIDP
	keys   []*rsa.PrivateKey // one signing key per filter: each filter is configured with ITS provider's key set only
	mrs    map[string]*miniredis.Miniredis
	cancel context.CancelFunc
}

func newC18World(l c18Layout) (*c18World, error) {
	w := &c18World{mrs: map[string]*miniredis.Miniredis{}}
	ctx, cancel := context.WithCancel(context.Background())
	w.cancel = cancel
	cfg := &configv1.Config{}
	for i, f := range l.Filters {
		idp := newFakeIDP()
		w.idps = append(w.idps, idp)
		oc := &oidcv1.OIDCConfig{ClientId: f.ClientID, ClientSecretConfig: &oidcv1.OIDCConfig_ClientSecret{ClientSecret: "secret-" + f.Name},
			CallbackUri: "https://app.example.com/" + f.Name + "/callback", AuthorizationUri: "https://idp-" + f.Name + ".example.com/auth",
			TokenUri: idp.srv.URL + "/token", Scopes: []string{"openid"}, CookieNamePrefix: f.Prefix,
			IdToken:                &oidcv1.TokenConfig{Header: "x-id-" + f.Name, Preamble: ""},
			AbsoluteSessionTimeout: f.Abs}
		key := c18Key(i)
		w.keys = append(w.keys, key)
		if f.Keys == "static" || (f.Keys == "" && i%2 == 0) {
			oc.JwksConfig = &oidcv1.OIDCConfig_Jwks{Jwks: jwksDoc(&key.PublicKey, keys().kid)}
		} else {
			idp.setJWKS(jwksDoc(&key.PublicKey, keys().kid))
			oc.JwksConfig = &oidcv1.OIDCConfig_JwksFetcher{JwksFetcher: &oidcv1.OIDCConfig_JwksFetcherConfig{JwksUri: idp.srv.URL + "/jwks", PeriodicFetchIntervalSec: 3600}}
		}
		if f.Redis != "" {
			parts := strings.SplitN(f.Redis, "/", 2)
			mr := w.mrs[parts[0]]
			if mr == nil {
				var err error
				mr, err = miniredis.Run()
				if err != nil {
					return nil, err
				}
				w.mrs[parts[0]] = mr
			}
			uri := "redis://" + mr.Addr() + "/" + parts[1]
			if parts[1] == "" {
				uri = "redis://" + mr.Addr() // the same database 0, spelled without the path
			}
			oc.RedisSessionStoreConfig = &oidcv1.RedisConfig{ServerUri: uri}
		}
		w.ocs = append(w.ocs, oc)
		chain := f.Chain
		if chain == "" {
			chain = fmt.Sprintf("chain-%d", i)
		}
		cfg.Chains = append(cfg.Chains, &configv1.FilterChain{Name: chain,
			Match:   &configv1.Match{Header: "x-app", Criteria: &configv1.Match_Equality{Equality: f.Name}},
			Filters: []*configv1.Filter{{Type: &configv1.Filter_Oidc{Oidc: oc}}}})
	}
	w.fac = oidc.NewSessionStoreFactory(cfg)
	if err := w.fac.PreRun(); err != nil {
		return nil, err
	}
	pool := internal.NewTLSConfigPool(ctx)
	jw := oidc.NewJWKSProvider(cfg, pool) // the REAL key source: inline JWKS for even filters, fetched JWKS for odd ones
	go func() { _ = jw.ServeContext(ctx) }()
	w.filter = server.NewExtAuthZFilter(cfg, pool, jw, w.fac)
	return w, nil
}

func (w *c18World) Close() {
	w.cancel()
	for _, i := range w.idps {
		i.srv.Close()
	}
	for _, m := range w.mrs {
		m.Close()
	}
}

func (w *c18World) check(app, path, cookie string) *envoy.CheckResponse {
	h := map[string]string{"x-app": app}
	if cookie != "" {
		h["cookie"] = cookie
	}
	resp, err := w.filter.Check(context.Background(), httpReq("https", "app.example.com", path, "", h))
	if err != nil || resp == nil {
		return &envoy.CheckResponse{}
	}
	return resp
}

var (
	c18Keys   []*rsa.PrivateKey
	c18KeysMu sync.Mutex
)

// c18Key: the signing key of the i-th provider (generated once per process)
func c18Key(i int) *rsa.PrivateKey {
	c18KeysMu.Lock()
	defer c18KeysMu.Unlock()
	for len(c18Keys) <= i {
		k, err := rsa.GenerateKey(rand.Reader, 2048)
		must(err)
		c18Keys = append(c18Keys, k)
	}
	return c18Keys[i]
}

func cookieNameFor(prefix string) string {
	if prefix != "" {
		return "__Host-" + prefix + "-authservice-session-id-cookie"
	}
	return "__Host-authservice-session-id-cookie"
}

// loginAt performs a full login at filter i; returns the session id.
func (w *c18World) loginAt(l c18Layout, i int) (string, error) {
	f := l.Filters[i]
	r1 := w.check(f.Name, "/"+f.Name+"/page", "")
	d := r1.GetDeniedResponse()
	loc, _ := hdrValue(d.GetHeaders(), "location")
	sc, _ := hdrValue(d.GetHeaders(), "set-cookie")
	u, _ := url.Parse(loc)
	cs := (&http.Response{Header: http.Header{"Set-Cookie": []string{sc}}}).Cookies()
	if u == nil || len(cs) != 1 {
		return "", fmt.Errorf("no login redirect at %s: %s", f.Name, showResp(r1, nil))
	}
	if cs[0].Name != cookieNameFor(f.Prefix) || u.Query().Get("client_id") != f.ClientID || !strings.HasPrefix(loc, "https://idp-"+f.Name+".") {
		return "", fmt.Errorf("OWN-CONFIG: the login redirect of filter %s does not use its own cookie name / client id / provider: cookie %s location %s", f.Name, cs[0].Name, loc)
	}
	// first: an ID token that is perfect except that it is signed by ANOTHER filter's provider - it must not log anybody in
	other := (i + 1) % len(l.Filters)
	w.idps[i].set(idpAnswer{Kind: "body", TokenType: "Bearer", Access: "access-" + f.Name,
		ID: mintToken(tokSpec{Mode: "good", Key: w.keys[other], Exp: time.Now().Unix() + 600, Aud: f.ClientID, Nonce: u.Query().Get("nonce"), Sub: "intruder", Extra: f.Name + "-foreign"})})
	w.idps[i].take()
	r0 := w.check(f.Name, "/"+f.Name+"/callback?code=c&state="+u.Query().Get("state"), cs[0].Name+"="+cs[0].Value)
	if int(r0.GetDeniedResponse().GetStatus().GetCode()) == 302 {
		if loc0, _ := hdrValue(r0.GetDeniedResponse().GetHeaders(), "location"); !strings.HasPrefix(loc0, "https://idp-") {
			return "", fmt.Errorf("OWN-KEYS: filter %s completed a login with an ID token signed by the provider of filter %s (its own key set does not contain that key)", f.Name, l.Filters[other].Name)
		}
	}
	// the failed attempt consumed or invalidated the login state: start again
	r1 = w.check(f.Name, "/"+f.Name+"/page", "")
	d = r1.GetDeniedResponse()
	loc, _ = hdrValue(d.GetHeaders(), "location")
	sc, _ = hdrValue(d.GetHeaders(), "set-cookie")
	u, _ = url.Parse(loc)
	cs = (&http.Response{Header: http.Header{"Set-Cookie": []string{sc}}}).Cookies()
	if u == nil || len(cs) != 1 {
		return "", fmt.Errorf("no login redirect at %s after a rejected callback: %s", f.Name, showResp(r1, nil))
	}
	w.idps[i].set(idpAnswer{Kind: "body", TokenType: "Bearer", Access: "access-" + f.Name,
		ID: mintToken(tokSpec{Mode: "good", Key: w.keys[i], Exp: time.Now().Unix() + 600, Aud: f.ClientID, Nonce: u.Query().Get("nonce"), Sub: "user-of-" + f.Name, Extra: f.Name})})
	w.idps[i].take()
	r2 := w.check(f.Name, "/"+f.Name+"/callback?code=c&state="+u.Query().Get("state"), cs[0].Name+"="+cs[0].Value)
	if int(r2.GetDeniedResponse().GetStatus().GetCode()) != 302 {
		return "", fmt.Errorf("callback at %s failed: %s", f.Name, showResp(r2, nil))
	}
	recs := w.idps[i].take()
	if len(recs) != 1 {
		return "", fmt.Errorf("OWN-CONFIG: the code exchange of filter %s did not go to its own token endpoint", f.Name)
	}
	r3 := w.check(f.Name, "/"+f.Name+"/page", cs[0].Name+"="+cs[0].Value)
	if r3.GetStatus().GetCode() != 0 {
		return "", fmt.Errorf("session at %s not honoured by its own filter: %s", f.Name, showResp(r3, nil))
	}
	return cs[0].Value, nil
}

// the same keyspace: equal Redis database ("r1/" is database 0 of r1 spelled without the path), or both in memory
func sameStoreExpected(a, b c18Filter) bool {
	norm := func(s string) string {
		if strings.HasSuffix(s, "/") {
			return s + "0"
		}
		return s
	}
	return norm(a.Redis) == norm(b.Redis)
}

// ownKeySets: several filters served by ONE key provider (as cmd/main.go wires it), each configured with the key set
// of its own identity provider only - all inline, all fetched, mixed - and logins at them in every order. A login
// completes with a token signed by the filter's own provider and with none signed by another filter's provider.
func ownKeySets(r *Run, tag string) {
	for _, kinds := range [][]string{{"static", "static"}, {"fetcher", "fetcher"}, {"static", "fetcher", "static"}, {"fetcher", "static", "fetcher"}} {
		for _, order := range []string{"forward", "backward"} {
			l := c18Layout{Name: "own key sets " + strings.Join(kinds, "+") + " " + order}
			for i, k := range kinds {
				n := string(rune('a' + i))
				l.Filters = append(l.Filters, c18Filter{Name: n, Prefix: "p" + n, ClientID: "client-" + n, Redis: fmt.Sprintf("r%d/0", i), Keys: k})
			}
			w, err := newC18World(l)
			if err != nil {
				r.Violate(tag+" could not assemble the service for a valid multi-filter configuration", map[string]any{"layout": l, "error": err.Error()})
				continue
			}
			for k := range l.Filters {
				i := k
				if order == "backward" {
					i = len(l.Filters) - 1 - k
				}
				for rep := 0; rep < 2; rep++ { // twice: whatever the first login left behind in the provider must not matter
					if _, err := w.loginAt(l, i); err != nil {
						r.Violate(tag+" an ID token is accepted or refused by a filter on the strength of another filter's key set: "+err.Error(),
							map[string]any{"layout": l, "filter": l.Filters[i].Name, "login_order": order})
					}
					r.Dist["own-key-login"]++
				}
			}
			r.Case(l.Name)
			w.Close()
		}
	}
}

func runC18(r *Run) {
	layouts := []c18Layout{
		{Name: "two memory filters", Filters: []c18Filter{{Name: "a", Prefix: "pa", ClientID: "client-a"}, {Name: "b", Prefix: "pb", ClientID: "client-b", Abs: 1}}},
		{Name: "same redis database", Filters: []c18Filter{{Name: "a", Prefix: "pa", ClientID: "client-a", Redis: "r1/0"}, {Name: "b", Prefix: "pb", ClientID: "client-b", Redis: "r1/0"}}},
		{Name: "two databases of one redis server", Filters: []c18Filter{{Name: "a", Prefix: "pa", ClientID: "client-a", Redis: "r1/0"}, {Name: "b", Prefix: "pb", ClientID: "client-b", Redis: "r1/1"}}},
		{Name: "two redis servers", Filters: []c18Filter{{Name: "a", Prefix: "pa", ClientID: "client-a", Redis: "r1/0"}, {Name: "b", Prefix: "pb", ClientID: "client-b", Redis: "r2/0"}}},
		{Name: "memory and redis", Filters: []c18Filter{{Name: "a", Prefix: "pa", ClientID: "client-a"}, {Name: "b", Prefix: "", ClientID: "client-b", Redis: "r1/0"}}},
		{Name: "redis and memory, equal chain names", Filters: []c18Filter{{Name: "a", Prefix: "pa", ClientID: "client-a", Redis: "r1/0", Chain: "main"}, {Name: "b", Prefix: "pb", ClientID: "client-b", Chain: "main"}}},
		{Name: "three filters", Filters: []c18Filter{{Name: "a", Prefix: "pa", ClientID: "client-a"}, {Name: "b", Prefix: "pb", ClientID: "client-b", Redis: "r1/2"}, {Name: "c", Prefix: "pc", ClientID: "client-c", Redis: "r1/3", Chain: "chain-1"}}},
		{Name: "two redis servers, only the first filter sets a session timeout", Filters: []c18Filter{{Name: "a", Prefix: "pa", ClientID: "client-a", Redis: "r1/0", Abs: 100}, {Name: "b", Prefix: "pb", ClientID: "client-b", Redis: "r2/0"}}},
		{Name: "memory with a timeout, then redis without", Filters: []c18Filter{{Name: "a", Prefix: "pa", ClientID: "client-a", Abs: 100}, {Name: "b", Prefix: "pb", ClientID: "client-b", Redis: "r1/0"}}},
		{Name: "default cookie name and a prefixed filter, shared memory store", Filters: []c18Filter{{Name: "a", Prefix: "", ClientID: "client-a"}, {Name: "b", Prefix: "pb", ClientID: "client-b"}}},
		{Name: "default cookie name and a prefixed filter, one redis database", Filters: []c18Filter{{Name: "a", Prefix: "", ClientID: "client-a", Redis: "r1/0"}, {Name: "b", Prefix: "pb", ClientID: "client-b", Redis: "r1/0"}}},
		{Name: "one redis database under two spellings of its URL, different timeouts", Filters: []c18Filter{{Name: "a", Prefix: "pa", ClientID: "client-a", Redis: "r1/0", Abs: 100}, {Name: "b", Prefix: "pb", ClientID: "client-b", Redis: "r1/", Abs: 7}}},
		{Name: "same prefix, disjoint stores", Filters: []c18Filter{{Name: "a", Prefix: "p", ClientID: "client-a", Redis: "r1/0"}, {Name: "b", Prefix: "p", ClientID: "client-b", Redis: "r2/0"}}},
	}
	ownKeySets(r, "[C18]")
	if r.unknownViolations() == 0 {
		consistencyHammer(r, "[C18]") // two OIDC filters serving logins at the same time: no answer of one carries anything of the other
	}
	c18Loader(r)
	c18Proxy(r)
	reps := scale(r, 1, 10)
	for rep := 0; rep < reps; rep++ {
		for _, l := range layouts {
			w, err := newC18World(l)
			if err != nil {
				r.Violate("[C18] could not assemble the service for a valid multi-filter configuration", map[string]any{"layout": l, "error": err.Error()})
				continue
			}
			// the factory's assignment vs the model
			var ws []string
			classes := make([]int, len(l.Filters))
			for i := range l.Filters {
				classes[i] = i
				for j := 0; j < i; j++ {
					if w.fac.Get(w.ocs[i]) == w.fac.Get(w.ocs[j]) {
						classes[i] = classes[j]
						break
					}
				}
				ws = append(ws, fmt.Sprintf("%s:%d:%d", hx(w.ocs[i].GetRedisSessionStoreConfig().GetServerUri()), l.Filters[i].Abs, 0))
			}
			var cw []string
			for _, c := range classes {
				cw = append(cw, fmt.Sprint(c))
			}
			r.Emit("factory "+strings.Join(ws, ","), strings.Join(cw, ","))
			// every order of (login at i, replay at j), with the warm-up order varied so that caches would show
			for i := range l.Filters {
				for j := range l.Filters {
					if i == j {
						continue
					}
					if rep%2 == 1 {
						w.check(l.Filters[j].Name, "/warm", "") // another filter served a request first
					}
					sid, err := w.loginAt(l, i)
					if err != nil {
						what := "[C18] a filter is not governed by its own configuration / cannot serve its own login"
						r.Violate(what, map[string]any{"layout": l, "filter": l.Filters[i].Name, "error": err.Error()})
						continue
					}
					fi, fj := l.Filters[i], l.Filters[j]
					// the filter's OWN session timeouts govern its sessions: on a Redis server no other filter uses, the expiry
					// of the session key is the filter's absolute_session_timeout - none when it configures none
					if fi.Redis != "" {
						unique := true
						for k2, fk := range l.Filters {
							if k2 != i && fk.Redis == fi.Redis {
								unique = false
							}
						}
						parts := strings.SplitN(fi.Redis, "/", 2)
						db := 0
						fmt.Sscan(parts[1], &db)
						if ttl := w.mrs[parts[0]].DB(db).TTL(sid); unique && ((fi.Abs == 0 && ttl != 0) || (fi.Abs > 0 && (ttl <= 0 || ttl > time.Duration(fi.Abs)*time.Second))) {
							r.Violate("[C18] the sessions of a filter with a store of its own do not get that filter's own session timeouts (another filter's configuration leaks into its store)",
								map[string]any{"layout": l, "filter": fi.Name, "absolute_session_timeout_s": fi.Abs, "expiry_of_its_session_key": ttl.String()})
						}
					}
					// an honest browser: it sends filter i's cookie, under filter i's cookie name, to filter j (both live on one
					// host). Filter j must not even look at it - its own cookie name is what separates its sessions from
					// filter i's, shared store or not - so this is never the recorded shared-store finding.
					if cookieNameFor(fi.Prefix) != cookieNameFor(fj.Prefix) {
						resp := w.check(fj.Name, "/"+fj.Name+"/page", "theme=dark; "+cookieNameFor(fi.Prefix)+"="+sid)
						r.Case(fmt.Sprintf("%s|%d>%d|unrenamed", l.Name, i, j))
						r.Dist["cross-filter-unrenamed"]++
						if resp.GetStatus().GetCode() == 0 {
							r.Violate("[C18] a filter honoured a session presented under ANOTHER filter's cookie name (no cookie of its own name was sent): its own cookie prefix does not govern which sessions it accepts",
								map[string]any{"layout": l, "session_created_at": fi.Name, "honoured_by": fj.Name, "cookie_sent": cookieNameFor(fi.Prefix) + "=<session id>", "answer": showResp(resp, nil)})
						} else if loc, _ := hdrValue(resp.GetDeniedResponse().GetHeaders(), "location"); loc != "" && !strings.HasPrefix(loc, "https://idp-"+fj.Name+".") {
							r.Violate("[C18] a filter redirected a client to another filter's provider", map[string]any{"layout": l, "from": fi.Name, "to": fj.Name, "location": loc})
						}
						// and it must have left filter i's session alone
						if back := w.check(fi.Name, "/"+fi.Name+"/page", cookieNameFor(fi.Prefix)+"="+sid); back.GetStatus().GetCode() != 0 {
							r.Violate("[C18] a request to one filter carrying another filter's cookie destroyed that other filter's session",
								map[string]any{"layout": l, "session_of": fi.Name, "request_sent_to": fj.Name, "answer_of_owner_afterwards": showResp(back, nil)})
						}
					}
					// the client renames its cookie towards filter j (and also replays the original name)
					for _, ck := range []string{cookieNameFor(fj.Prefix) + "=" + sid, cookieNameFor(fi.Prefix) + "=" + sid + "; " + cookieNameFor(fj.Prefix) + "=" + sid} {
						resp := w.check(fj.Name, "/"+fj.Name+"/page", ck)
						r.Case(fmt.Sprintf("%s|%d>%d|%s", l.Name, i, j, ck))
						r.Dist["cross-filter-replay"]++
						if resp.GetStatus().GetCode() != 0 {
							// not honoured: it must have been sent to ITS OWN provider
							loc, _ := hdrValue(resp.GetDeniedResponse().GetHeaders(), "location")
							if loc != "" && !strings.HasPrefix(loc, "https://idp-"+fj.Name+".") {
								r.Violate("[C18] a filter redirected a client to another filter's provider", map[string]any{"layout": l, "from": fi.Name, "to": fj.Name, "location": loc})
							}
							continue
						}
						rp := map[string]any{"layout": l, "session_created_at": fi.Name, "honoured_by": fj.Name, "cookie_sent": ck,
							"answer": showResp(resp, nil), "steps": "login at " + fi.Name + "; send its session id under " + fj.Name + "'s cookie name to " + fj.Name}
						if sameStoreExpected(fi, fj) {
							if fi.Redis == "" {
								rp["finding_id"] = "C18-shared-memory-store"
							} else {
								rp["finding_id"] = "C18-shared-redis-store"
							}
						}
						r.ViolateOnce("[C18] a session created through one filter was honoured by another filter", rp)
					}
				}
			}
			// each filter's own timeouts: filter b of the first layout asks for a 1 s absolute timeout
			if l.Name == "two memory filters" && rep == 0 {
				sid, err := w.loginAt(l, 1)
				if err == nil {
					time.Sleep(1300 * time.Millisecond)
					resp := w.check("b", "/b/page", cookieNameFor("pb")+"="+sid)
					if resp.GetStatus().GetCode() == 0 {
						r.ViolateOnce("[C18] a filter's own session timeout does not govern its sessions", map[string]any{"layout": l, "filter": "b", "absolute_session_timeout_s": 1, "waited_ms": 1300,
							"finding_id": "C18-timeouts-of-constructing-filter"})
					}
				}
			}
			w.Close()
		}
	}
	r.Sample(map[string]any{"layout": layouts[0]})
	r.Sample(map[string]any{"layout": layouts[2]})
	r.Finish("two- and three-filter configurations (distinct/equal cookie prefixes, providers, client ids, timeouts, chain names; shared memory store, one Redis database, two databases of one Redis server, two Redis servers, memory + Redis) served by ONE ExtAuthZFilter with the real session store factory and the real stores; for every ordered pair (i, j): a full login at filter i (own cookie name, own provider, own client id checked), then its session id replayed under filter j's cookie name (alone and next to the original cookie), with and without a warm-up request at j; plus a real-time run of filter b's 1 s absolute timeout; non-trivial = every replay, distinct by (layout, i, j, cookie)")
}
