package main

// Controlled scheduler: concurrent checks run on real goroutines against the real handler and store; every external
// action (store call, token-endpoint call, key lookup) blocks at a gate until the scheduler grants that thread, so
// exactly one action of exactly one thread runs at a time, in the order of a script. The same script drives the Lean
// `Thread.step` semantics; the two sides print (actions of the step, answer if finished) per step.

import (
	"context"
	"encoding/json"
	"fmt"
	"net/http"
	"net/http/httptest"
	"strconv"
	"strings"
	"time"

	envoy "github.com/envoyproxy/go-control-plane/envoy/service/auth/v3"

	"github.com/istio-ecosystem/authservice/internal/authz"
	"github.com/istio-ecosystem/authservice/internal/oidc"
	"google.golang.org/protobuf/proto"

	oidcv1 "github.com/istio-ecosystem/authservice/config/gen/go/v1/oidc"
)

type sevent struct {
	tid    int
	parked chan struct{}
	done   bool
}

type sthread struct {
	id                 int
	q                  hReq
	rec                *recorder
	spy                *spyStore
	jwks               *scriptedJWKS
	parked             chan struct{}
	done               bool
	resp               *envoy.CheckResponse
	err                error
	pnc                any
	calls              []spyCall // accumulated over the thread's life
	idp                []idpRecord
	log                []stepLog
	spawnStep, endStep int
}

type stepLog struct {
	Step  int    `json:"step"`
	Tid   int    `json:"thread"`
	Items string `json:"actions"`
}

type schedWorld struct {
	log []stepLog
	*hWorld
	events  chan sevent
	threads map[int]*sthread
	idpMux  *httptest.Server
	stepNo  int
}

func newSchedWorld(c hCfg) *schedWorld {
	w := &schedWorld{hWorld: newHWorld(c), events: make(chan sevent, 16), threads: map[int]*sthread{}}
	// a second token endpoint that knows which thread is calling (?t=<tid>) and gates the call
	w.idpMux = httptest.NewServer(http.HandlerFunc(func(rw http.ResponseWriter, r *http.Request) {
		tid, _ := strconv.Atoi(r.URL.Query().Get("t"))
		t := w.threads[tid]
		_ = r.ParseForm()
		rec := idpRecord{Method: r.Method, Path: r.URL.RequestURI(), ContentType: r.Header.Get("Content-Type"),
			Auth: r.Header.Get("Authorization"), Form: r.PostForm, Host: r.Host}
		if t == nil {
			rw.WriteHeader(500)
			return
		}
		t.gate()
		t.rec.add(idpTrace(rec))
		t.idp = append(t.idp, rec)
		writeIDPAnswer(rw, t.q.IDP)
	}))
	return w
}

func (w *schedWorld) Close() {
	w.idpMux.Close()
	w.hWorld.Close()
}

// writeIDPAnswer renders a scripted answer (shared with the sequential fake IdP's behaviour for the kinds used here).
func writeIDPAnswer(w http.ResponseWriter, a idpAnswer) {
	switch a.Kind {
	case "transport":
		if hj, ok := w.(http.Hijacker); ok {
			c, _, _ := hj.Hijack()
			_ = c.Close()
		}
	case "status":
		w.WriteHeader(a.Status)
	case "undecodable":
		_, _ = w.Write([]byte(`{"broken`))
	case "null":
		_, _ = w.Write([]byte(`null`))
	default:
		m := map[string]any{"id_token": a.ID, "token_type": a.TokenType}
		if a.Access != "" {
			m["access_token"] = a.Access
		}
		if a.Refresh != "" {
			m["refresh_token"] = a.Refresh
		}
		if a.ExpiresIn != nil {
			m["expires_in"] = *a.ExpiresIn
		}
		b, _ := json.Marshal(m)
		_, _ = w.Write(b)
	}
}

func (t *sthread) gate() { t.gateW(nil) }

var theSched *schedWorld

func (t *sthread) gateW(_ *schedWorld) {
	ch := make(chan struct{})
	theSched.events <- sevent{tid: t.id, parked: ch}
	<-ch
}

func (w *schedWorld) tokenURI(tid int) string {
	return w.idpMux.URL + "/token?t=" + strconv.Itoa(tid)
}

// spawn starts a check on its own goroutine and waits until it parks at its first gate (or finishes).
func (w *schedWorld) spawn(r *Run, tid int, q hReq) *sthread {
	theSched = w
	rec := &recorder{}
	t := &sthread{id: tid, q: q, rec: rec, spawnStep: w.stepNo}
	t.spy = &spyStore{real: w.rig.inst[0], rec: rec, ledger: w.ledger, faults: append([]int{}, q.Faults...)}
	t.spy.gate = func(string) { t.gate() }
	t.jwks = &scriptedJWKS{ok: q.KeysOK, rec: nil}
	t.jwks.gate = func(string) { t.gate(); rec.add("keys") }
	w.threads[tid] = t
	oc := proto.Clone(w.oc).(*oidcv1.OIDCConfig)
	oc.TokenUri = w.tokenURI(tid)
	w.announce(r, []string{q.IDP.ID}, []string{q.Gen[3]})
	go func() {
		defer func() {
			if p := recover(); p != nil {
				t.pnc = p
			}
			w.events <- sevent{tid: tid, done: true}
		}()
		h, err := authz.NewOIDCHandler(oc, w.pool, t.jwks, spyFactory{t.spy}, oidc.Clock{NowFn: w.rig.clock.Now}, recGenerator{v: q.Gen, rec: rec})
		if err != nil {
			t.err = err
			return
		}
		hdrs := map[string]string{}
		if q.Cookie != "" {
			hdrs["cookie"] = q.Cookie
		}
		resp := &envoy.CheckResponse{}
		t.err = h.Process(context.Background(), httpReq(q.Scheme, q.Host, q.Path, q.Query, hdrs), resp)
		t.resp = resp
	}()
	out := w.await(t)
	w.log = append(w.log, stepLog{w.stepNo, tid, "spawn: " + out})
	line := strings.Join([]string{"spawn", strconv.Itoa(tid), hx(w.tokenURI(tid)), strings.TrimPrefix(q.wire(), "req ")}, " ")
	r.Emit(line, out)
	return t
}

// await waits for the thread to park again or to finish; returns the canonical description of what it just did.
func (w *schedWorld) await(t *sthread) string {
	select {
	case ev := <-w.events:
		if ev.tid != t.id {
			return fmt.Sprintf("UNEXPECTED-EVENT-FROM-%d", ev.tid)
		}
		if ev.done {
			t.done = true
			t.endStep = w.stepNo
		} else {
			t.parked = ev.parked
		}
	case <-time.After(5 * time.Second):
		return "STUCK"
	}
	items := listOr(t.rec.take(), ",")
	t.spy.mu.Lock()
	t.calls = append(t.calls[:0:0], t.spy.calls...)
	t.spy.mu.Unlock()
	if t.done {
		if t.pnc != nil {
			return items + " => panic"
		}
		return items + " => " + showResp(t.resp, t.err)
	}
	return items
}

// step grants the thread its next action.
func (w *schedWorld) step(r *Run, tid int) string {
	t := w.threads[tid]
	w.stepNo++
	if t == nil || t.done || t.parked == nil {
		return "no-thread"
	}
	ch := t.parked
	t.parked = nil
	close(ch)
	out := w.await(t)
	r.Emit("step "+strconv.Itoa(tid), out)
	w.log = append(w.log, stepLog{w.stepNo, tid, out})
	return out
}

func (w *schedWorld) alive() []int {
	var a []int
	for id, t := range w.threads {
		if !t.done && t.parked != nil {
			a = append(a, id)
		}
	}
	sortInts(a)
	return a
}

func sortInts(a []int) {
	for i := 1; i < len(a); i++ {
		for j := i; j > 0 && a[j] < a[j-1]; j-- {
			a[j], a[j-1] = a[j-1], a[j]
		}
	}
}

// drain lets every remaining thread run to completion (so that no goroutine is left blocked).
func (w *schedWorld) drain(r *Run) {
	for guard := 0; guard < 200; guard++ {
		a := w.alive()
		if len(a) == 0 {
			return
		}
		w.step(r, a[0])
	}
}
