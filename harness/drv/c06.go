package main

import (
	"bytes"
	"context"
	crand "crypto/rand"
	"encoding/base64"
	"fmt"
	mrand "math/rand"
	"net/http"
	"net/url"
	"sort"
	"strings"
	"sync"
	"time"

	configv1 "github.com/istio-ecosystem/authservice/config/gen/go/v1"
	oidcv1 "github.com/istio-ecosystem/authservice/config/gen/go/v1/oidc"
	"github.com/istio-ecosystem/authservice/internal"
	"github.com/istio-ecosystem/authservice/internal/oidc"
	"github.com/istio-ecosystem/authservice/internal/server"
)

func init() { checks["C06"] = runC06 }

// scriptedReader replaces crypto/rand.Reader: a fixed byte stream; reports how much was consumed.
type scriptedReader struct {
	mu   sync.Mutex
	data []byte
	pos  int
	over int // bytes requested beyond the script
}

func (s *scriptedReader) Read(p []byte) (int, error) {
	s.mu.Lock()
	defer s.mu.Unlock()
	// crypto/rand treats a failing Reader as fatal; a generator that asks for more than the script holds (e.g. one that
	// reads ahead in blocks) gets a fixed filler instead, and the over-read shows in the consumed count
	for i := range p {
		if s.pos < len(s.data) {
			p[i] = s.data[s.pos]
		} else {
			p[i] = byte(17 * (s.pos - len(s.data)))
			s.over++
		}
		s.pos++
	}
	return len(p), nil
}

type login struct {
	Sid, Nonce, State, Challenge string
	At                           time.Time
}

// doLogins performs n login redirects through the real ExtAuthZFilter.Check (real generator wiring) from `par` goroutines.
func doLogins(n, par int) ([]login, error) {
	ctx, cancel := context.WithCancel(context.Background())
	defer cancel()
	oc := &oidcv1.OIDCConfig{ClientId: "c", ClientSecretConfig: &oidcv1.OIDCConfig_ClientSecret{ClientSecret: "s"},
		CallbackUri: "https://app/callback", AuthorizationUri: "https://idp/auth", TokenUri: "https://idp/token",
		Scopes: []string{"openid"}, IdToken: &oidcv1.TokenConfig{Header: "authorization", Preamble: "Bearer"}, JwksConfig: &oidcv1.OIDCConfig_Jwks{Jwks: "x"}}
	cfg := &configv1.Config{Chains: []*configv1.FilterChain{{Name: "c", Filters: []*configv1.Filter{{Type: &configv1.Filter_Oidc{Oidc: oc}}}}}}
	f := oidc.NewSessionStoreFactory(cfg)
	if err := f.PreRun(); err != nil {
		return nil, err
	}
	filter := server.NewExtAuthZFilter(cfg, internal.NewTLSConfigPool(ctx), staticJWKS{}, f)
	out := make([]login, n)
	var wg sync.WaitGroup
	var firstErr error
	var mu sync.Mutex
	for g := 0; g < par; g++ {
		wg.Add(1)
		go func(g int) {
			defer wg.Done()
			lastCookie := ""
			for i := g; i < n; i += par {
				at := time.Now()
				// every other request comes from a browser whose previous login is still pending (it presents the cookie of
				// the redirect before): the new redirect must be as fresh as any other
				var hdrs map[string]string
				if (i/par)%2 == 1 && lastCookie != "" {
					hdrs = map[string]string{"cookie": lastCookie}
				}
				resp, err := filter.Check(context.Background(), httpReq("https", "app", "/x", "", hdrs))
				if err != nil || resp.GetDeniedResponse() == nil {
					mu.Lock()
					firstErr = fmt.Errorf("no login redirect: %v", err)
					mu.Unlock()
					return
				}
				loc, _ := hdrValue(resp.GetDeniedResponse().GetHeaders(), "location")
				sc, _ := hdrValue(resp.GetDeniedResponse().GetHeaders(), "set-cookie")
				u, _ := url.Parse(loc)
				cs := (&http.Response{Header: http.Header{"Set-Cookie": []string{sc}}}).Cookies()
				if u == nil || len(cs) != 1 {
					continue
				}
				lastCookie = cs[0].Name + "=" + cs[0].Value
				out[i] = login{Sid: cs[0].Value, Nonce: u.Query().Get("nonce"), State: u.Query().Get("state"), Challenge: u.Query().Get("code_challenge"), At: at}
			}
		}(g)
	}
	wg.Wait()
	return out, firstErr
}

const c06Charset = "abcdefghijklmnopqrstuvwxyzABCDEFGHIJKLMNOPQRSTUVWXYZ0123456789"

func mrandString(rng *mrand.Rand, n int) string {
	b := make([]byte, n)
	for i := range b {
		b[i] = c06Charset[rng.Intn(len(c06Charset))]
	}
	return string(b)
}

func runC06(r *Run) {
	// ---- (1) correspondence: the real generator on a scripted entropy stream vs Gen.lean on the same bytes
	n := scale(r, 400, 20000)
	orig := crand.Reader
	for i := 0; i < n; i++ {
		stream := make([]byte, 400)
		r.Rng.Read(stream)
		switch i % 4 {
		case 1: // many rejected bytes
			for k := range stream {
				if r.Rng.Intn(3) == 0 {
					stream[k] = byte(248 + r.Rng.Intn(8))
				}
			}
		case 2: // boundary values
			for k := range stream {
				stream[k] = []byte{0, 61, 62, 123, 124, 185, 186, 247, 248, 255}[r.Rng.Intn(10)]
			}
		}
		sr := &scriptedReader{data: stream}
		crand.Reader = sr
		g := oidc.NewRandomGenerator()
		sid, nonce, state, ver := g.GenerateSessionID(), g.GenerateNonce(), g.GenerateState(), g.GenerateCodeVerifier()
		crand.Reader = orig
		vb, err := base64.RawURLEncoding.DecodeString(ver)
		if err != nil {
			vb = []byte("UNDECODABLE-VERIFIER")
		}
		r.Emit("gen "+hx(string(stream)), fmt.Sprintf("%s %s %s %s %d", hx(sid), hx(nonce), hx(state), hx(string(vb)), len(stream)-sr.pos))
		r.Case(fmt.Sprintf("stream-%d", i))
		if i < 2 {
			r.Sample(map[string]any{"entropy_prefix_hex": fmt.Sprintf("%x", stream[:24]), "sid": sid, "nonce": nonce, "state": state})
		}
		// determinism monitor: the same entropy gives the same identifiers, different entropy in the sid segment only gives same public values
		sr2 := &scriptedReader{data: stream}
		crand.Reader = sr2
		g2 := oidc.NewRandomGenerator()
		sid2 := g2.GenerateSessionID()
		crand.Reader = orig
		if sid2 != sid {
			r.Violate("[C06] the session id is not a function of the entropy stream alone (same crypto/rand bytes, different id: clock, counter or another source is mixed in)",
				map[string]any{"sid1": sid, "sid2": sid2})
			break
		}
	}
	consistencyHammer(r, "[C06]")
	if r.unknownViolations() == 0 {
		// what was issued for one pending login stays that login's own while other logins start (nothing of it is replaced
		// by - and therefore computable from - the public values of another login)
		overlappingLogins(r, "C06")
	}
	if r.unknownViolations() == 0 {
		// the session id is not obtainable from what travels outside the cookie: a callback URL (state, code) replayed
		// without the cookie gets neither the pending login's session id nor its session
		cookielessCallback(r, "C06")
	}
	// ---- (2) search on the real wiring with the real entropy source
	nLog := scale(r, 600, 6000)
	logins, err := doLogins(nLog, 8)
	if err != nil {
		r.Violate("[C06] "+err.Error(), nil)
	}
	r.Extra["real_logins"] = len(logins)
	// (a) no value repeats, no long window of one identifier appears inside another identifier (entropy reuse)
	const win = 12
	seen := map[string]string{}
	reuse := 0
	var firstReuse map[string]any
	for i, l := range logins {
		for kind, v := range map[string]string{"sid": l.Sid, "nonce": l.Nonce, "state": l.State} {
			if len(v) < win {
				r.Violate("[C06] an identifier shorter than 12 characters was issued", map[string]any{"kind": kind, "value": v})
				continue
			}
			for k := 0; k+win <= len(v); k++ {
				w := v[k : k+win]
				owner := fmt.Sprintf("%d/%s", i, kind)
				if prev, ok := seen[w]; ok && prev != owner {
					reuse++
					if firstReuse == nil {
						firstReuse = map[string]any{"window": w, "first_seen_in": prev, "again_in": owner, "logins": len(logins)}
					}
				}
				seen[w] = owner
			}
		}
	}
	if reuse > 0 {
		firstReuse["windows_reused"] = reuse
		r.Violate("[C06] identifiers issued by the running service share 12-character windows: entropy is reused, so session ids are computable from public values or other sessions' identifiers", firstReuse)
	}
	// (a2) the same for ONE generator instance asked many times (a handler that lives longer than a request, a generator
	// shared by a filter's handlers): identifiers drawn later must not repeat entropy drawn earlier
	{
		g := oidc.NewRandomGenerator()
		draws := scale(r, 400, 4000)
		seenG := map[string]int{}
		var first map[string]any
		reused := 0
		for i := 0; i < draws; i++ {
			for kind, v := range map[string]string{"sid": g.GenerateSessionID(), "nonce": g.GenerateNonce(), "state": g.GenerateState(), "verifier": g.GenerateCodeVerifier()} {
				for k := 0; k+win <= len(v); k++ {
					if prev, ok := seenG[v[k:k+win]]; ok && prev != i {
						reused++
						if first == nil {
							first = map[string]any{"window": v[k : k+win], "first_drawn_at": prev, "again_at": i, "kind": kind, "draws": draws}
						}
					}
					seenG[v[k:k+win]] = i
				}
			}
		}
		if reused > 0 {
			first["windows_reused"] = reused
			r.Violate("[C06] one generator instance repeats 12-character windows of identifiers it issued earlier: after some draws its output is a replay, so later session ids are computable from earlier public values", first)
		}
		r.Dist["single-generator-draws"] = draws
	}
	// (b) length and alphabet
	for _, l := range logins[:minInt(50, len(logins))] {
		if len(l.Sid) != 64 || len(l.Nonce) != 32 || len(l.State) != 32 || strings.Trim(l.Sid+l.Nonce+l.State, c06Charset) != "" {
			r.Violate("[C06] identifier of unexpected length or alphabet", map[string]any{"login": l})
			break
		}
	}
	// (c) the seed-search attack of the original defect: does a math/rand stream seeded near the request time reproduce
	// the public state, and if so the cookie?
	window := time.Duration(scale(r, 2, 40)) * time.Millisecond
	for _, l := range logins[:minInt(4, len(logins))] {
		if l.State == "" {
			continue
		}
		found := attackSeedSearch(l, window)
		if found != "" {
			r.Violate("[C06] session id recovered from the public `state` parameter and the approximate request time (identifiers come from a time-seeded math/rand stream)",
				map[string]any{"state": l.State, "recovered_session_id": found, "matches_cookie": found == l.Sid, "window": window.String()})
			break
		}
	}
	// (d) per-position frequency sanity (gross bias only)
	freq := map[byte]int{}
	total := 0
	for _, l := range logins {
		for i := 0; i < len(l.Sid); i++ {
			freq[l.Sid[i]]++
			total++
		}
	}
	var fs []int
	for _, c := range []byte(c06Charset) {
		fs = append(fs, freq[c])
	}
	sort.Ints(fs)
	if total > 10000 && (fs[0] == 0 || float64(fs[len(fs)-1]) > 1.5*float64(fs[0])) {
		r.Violate("[C06] grossly non-uniform character distribution in session ids", map[string]any{"min": fs[0], "max": fs[len(fs)-1], "total": total})
	}
	r.Dist["real-logins"] = len(logins)
	r.Finish("(1) the real NewRandomGenerator with crypto/rand.Reader replaced by a scripted byte stream (random, rejection-heavy and boundary-valued streams) compared with the Lean Gen model on the same bytes, incl. how many bytes are consumed; (2) search on the real wiring: logins through ExtAuthZFilter.Check from 8 goroutines with the real entropy source - no 12-character window shared between any two identifiers (also among thousands of identifiers drawn from ONE generator instance), lengths/alphabet, seed-search attack (math/rand seeded around the request time), gross frequency test; non-trivial = every scripted stream, distinct by stream")
}

func minInt(a, b int) int {
	if a < b {
		return a
	}
	return b
}

// attackSeedSearch enumerates math/rand seeds around the request time and looks for the one whose stream
// (id 64, nonce 32, state 32 - the order of the original defect) reproduces the public state.
func attackSeedSearch(l login, window time.Duration) string {
	start := l.At.Add(-window / 4).UnixNano()
	end := l.At.Add(window).UnixNano()
	par := 16
	res := make(chan string, par)
	var wg sync.WaitGroup
	chunk := (end - start) / int64(par)
	for p := 0; p < par; p++ {
		wg.Add(1)
		go func(lo, hi int64) {
			defer wg.Done()
			src := mrand.NewSource(0)
			rng := mrand.New(src)
			want := []byte(l.State)
			for s := lo; s < hi; s++ {
				src.Seed(s)
				sid := mrandString(rng, 64)
				_ = mrandString(rng, 32)
				st := mrandString(rng, 32)
				if bytes.Equal([]byte(st), want) {
					res <- sid
					return
				}
			}
		}(start+int64(p)*chunk, start+int64(p+1)*chunk)
	}
	wg.Wait()
	select {
	case s := <-res:
		return s
	default:
		return ""
	}
}
