package main

import (
	"context"
	"fmt"
	"strings"

	corev1 "k8s.io/api/core/v1"
	metav1 "k8s.io/apimachinery/pkg/apis/meta/v1"
	"k8s.io/apimachinery/pkg/types"
	ctrl "sigs.k8s.io/controller-runtime"
	"sigs.k8s.io/controller-runtime/pkg/client/fake"

	configv1 "github.com/istio-ecosystem/authservice/config/gen/go/v1"
	mockv1 "github.com/istio-ecosystem/authservice/config/gen/go/v1/mock"
	oidcv1 "github.com/istio-ecosystem/authservice/config/gen/go/v1/oidc"
	"github.com/istio-ecosystem/authservice/internal/k8s"
)

func init() { checks["C19"] = runC19 }

type secretSrc struct {
	Kind string `json:"kind"` // m n l r
	A, B string
}

func (s secretSrc) wire() string {
	switch s.Kind {
	case "l":
		return "l" + hx(s.A)
	case "r":
		return "r" + hx(s.A) + ":" + hx(s.B)
	}
	return s.Kind
}

func (s secretSrc) filter() *configv1.Filter {
	switch s.Kind {
	case "m":
		return &configv1.Filter{Type: &configv1.Filter_Mock{Mock: &mockv1.MockConfig{Allow: true}}}
	case "l":
		return &configv1.Filter{Type: &configv1.Filter_Oidc{Oidc: &oidcv1.OIDCConfig{ClientId: "c", ClientSecretConfig: &oidcv1.OIDCConfig_ClientSecret{ClientSecret: s.A}}}}
	case "r":
		return &configv1.Filter{Type: &configv1.Filter_Oidc{Oidc: &oidcv1.OIDCConfig{ClientId: "c", ClientSecretConfig: &oidcv1.OIDCConfig_ClientSecretRef{ClientSecretRef: &oidcv1.OIDCConfig_SecretReference{Namespace: s.A, Name: s.B}}}}}
	}
	return &configv1.Filter{Type: &configv1.Filter_Oidc{Oidc: &oidcv1.OIDCConfig{ClientId: "c"}}}
}

func showFilterSecrets(fs []*configv1.Filter) string {
	var out []string
	for _, f := range fs {
		o := f.GetOidc()
		switch {
		case o == nil:
			out = append(out, "m")
		case o.GetClientSecretRef() != nil:
			out = append(out, "r"+hx(o.GetClientSecretRef().GetNamespace())+":"+hx(o.GetClientSecretRef().GetName()))
		case o.ClientSecretConfig == nil:
			out = append(out, "n")
		default:
			out = append(out, "l"+hx(o.GetClientSecret()))
		}
	}
	return listOr(out, ",")
}

func runC19(r *Run) {
	n := scale(r, 300, 10000)
	names := []string{"s1", "s2", "shared", "other"}
	nss := []string{"", "ns", "ns", "elsewhere"}
	for it := 0; it < n && r.unknownViolations() == 0; it++ {
		// configuration: 1-5 filters over 1-2 chains
		var srcs []secretSrc
		for k := 1 + r.Rng.Intn(5); k > 0; k-- {
			switch r.Rng.Intn(8) {
			case 0:
				srcs = append(srcs, secretSrc{Kind: "m"})
			case 1:
				srcs = append(srcs, secretSrc{Kind: "l", A: "static-" + fmt.Sprint(k)})
			case 2:
				srcs = append(srcs, secretSrc{Kind: "n"})
			case 3:
				srcs = append(srcs, secretSrc{Kind: "r", A: pick(r.Rng, nss), B: ""})
			default:
				ns := pick(r.Rng, nss)
				if it%5 != 0 && ns == "elsewhere" {
					ns = "ns" // cross-namespace references only in a fifth of the configurations
				}
				srcs = append(srcs, secretSrc{Kind: "r", A: ns, B: pick(r.Rng, names[:3])})
			}
		}
		cfg := &configv1.Config{}
		var all []*configv1.Filter
		var ws []string
		chain := &configv1.FilterChain{Name: "a"}
		for i, s := range srcs {
			f := s.filter()
			all = append(all, f)
			ws = append(ws, s.wire())
			chain.Filters = append(chain.Filters, f)
			if i == 1 {
				cfg.Chains = append(cfg.Chains, chain)
				chain = &configv1.FilterChain{Name: "b"}
			}
		}
		if len(chain.Filters) > 0 {
			cfg.Chains = append(cfg.Chains, chain)
		}
		cl := fake.NewClientBuilder().Build()
		ctrlr, err := k8s.NewSecretControllerForVerif(cfg, "ns", cl)
		r.Emit("secret load "+hx("ns")+" "+listOr(ws, ","), showErr(err))
		// reference map of the statement: name -> current value, and which filters reference it
		refs := map[int]string{}
		crossNS := false
		for i, s := range srcs {
			if s.Kind == "r" && s.B != "" {
				if s.A != "" && s.A != "ns" {
					crossNS = true
				}
				refs[i] = s.B
			}
		}
		if crossNS != (err != nil) {
			r.Violate("[C19] cross-namespace secret reference not refused at start-up (or a legal configuration refused)", map[string]any{"filters": srcs, "error": fmt.Sprint(err)})
			break
		}
		r.Case(strings.Join(ws, ","))
		if err != nil {
			r.Dist["refused-at-startup"]++
			continue
		}
		expected := map[int]string{} // filter -> value the reference map says it must have (once set)
		var history []map[string]any
		ctx := context.Background()
		for e := 0; e < 3+r.Rng.Intn(10); e++ {
			ns := pick(r.Rng, []string{"ns", "ns", "ns", "elsewhere"})
			name := pick(r.Rng, names)
			kind := pick(r.Rng, []string{"set", "set", "set", "empty", "nokey", "delete", "deleting", "none"})
			val := fmt.Sprintf("value-%d-%d", it, e)
			// a client secret is an opaque string: white space at either end (a trailing newline from `echo`, a leading blank) is part of it
			switch r.Rng.Intn(6) {
			case 0:
				val += "\n"
			case 1:
				val = " " + val + "  "
			case 2:
				val = "\t" + val
			}
			key := types.NamespacedName{Namespace: ns, Name: name}
			sec := &corev1.Secret{ObjectMeta: metav1.ObjectMeta{Namespace: ns, Name: name}}
			existing := &corev1.Secret{}
			exists := cl.Get(ctx, key, existing) == nil
			lk := ""
			switch kind {
			case "set":
				sec.Data = map[string][]byte{"client-secret": []byte(val), "unrelated": []byte("x")}
				lk = "v" + hx(val)
				// metadata and flags of the Secret that have nothing to do with its value: none of them may decide whether
				// the value reaches the filters
				switch r.Rng.Intn(4) {
				case 0:
					yes := true
					sec.Immutable = &yes
					r.Dist["secret:immutable"]++
				case 1:
					sec.Labels, sec.Annotations = map[string]string{"app": "authservice"}, map[string]string{"rotated-by": "operator"}
					sec.Type = corev1.SecretTypeOpaque
				}
			case "empty":
				sec.Data = map[string][]byte{"client-secret": {}}
				lk = "v" + hx("")
			case "nokey":
				sec.Data = map[string][]byte{"something-else": []byte(val)}
				lk = "nokey"
			}
			switch kind {
			case "set", "empty", "nokey":
				if exists && existing.DeletionTimestamp.IsZero() {
					sec.ResourceVersion = existing.ResourceVersion
					must(cl.Update(ctx, sec))
				} else if !exists {
					must(cl.Create(ctx, sec))
				} else {
					lk = "del" // still terminating
				}
			case "delete":
				if exists {
					existing.Finalizers = nil
					_ = cl.Update(ctx, existing)
					_ = cl.Delete(ctx, existing)
				}
				lk = "nf"
			case "deleting":
				if !exists {
					sec.Finalizers = []string{"verif/hold"}
					sec.Data = map[string][]byte{"client-secret": []byte(val)}
					must(cl.Create(ctx, sec))
				} else if len(existing.Finalizers) == 0 {
					existing.Finalizers = []string{"verif/hold"}
					must(cl.Update(ctx, existing))
				}
				_ = cl.Delete(ctx, &corev1.Secret{ObjectMeta: metav1.ObjectMeta{Namespace: ns, Name: name}})
				lk = "del"
			case "none":
				if exists {
					if !existing.DeletionTimestamp.IsZero() {
						lk = "del"
					} else if v, ok := existing.Data["client-secret"]; ok {
						lk = "v" + hx(string(v))
					} else {
						lk = "nokey"
					}
				} else {
					lk = "nf"
				}
			}
			_, rerr := ctrlr.Reconcile(ctx, ctrl.Request{NamespacedName: key})
			out := showFilterSecrets(all)
			if rerr != nil {
				out = "err"
			}
			r.Emit("secret ev "+hx(ns)+" "+hx(name)+" "+lk, out)
			history = append(history, map[string]any{"event": kind, "namespace": ns, "name": name, "value": val})
			r.Dist["event:"+kind]++
			// monitor against the reference map
			if strings.HasPrefix(lk, "v") && lk != "v"+hx("") && ns == "ns" {
				cur := unhx(lk[1:])
				for i, nm := range refs {
					if nm == name {
						expected[i] = cur
					}
				}
			}
			for i, f := range all {
				o := f.GetOidc()
				if o == nil {
					continue
				}
				want, has := expected[i]
				switch {
				case has && o.GetClientSecret() != want:
					r.Violate("[C19] after a reconcile a filter referencing the Secret does not use its current client-secret value", map[string]any{"filters": srcs, "history": history, "filter": i, "want": want, "got": o.GetClientSecret()})
				case !has && srcs[i].Kind == "l" && o.GetClientSecret() != srcs[i].A:
					r.Violate("[C19] a filter that does not reference the Secret had its client secret changed", map[string]any{"filters": srcs, "history": history, "filter": i, "got": o.GetClientSecret()})
				case !has && srcs[i].Kind != "l" && o.GetClientSecret() != "":
					r.Violate("[C19] a filter received a client secret from a Secret it does not reference (or from an ignored event)", map[string]any{"filters": srcs, "history": history, "filter": i, "got": o.GetClientSecret()})
				}
			}
			if r.unknownViolations() > 0 {
				break
			}
		}
		if it < 2 {
			r.Sample(map[string]any{"filters": srcs, "history": history})
		}
	}
	c19Rotation(r)
	r.Finish("one ExtAuthZFilter serving a login across two rotations of the referenced Secret, the client credentials read off the token endpoint (code exchange and refresh); configurations of 1-5 filters (mock, literal secret, no secret, unnamed reference, references to shared/distinct names in the own, empty or a foreign namespace) x histories of 3-12 events (set, update, empty value, key missing, delete, being-deleted with finalizer, reconcile without change) on referenced and unrelated Secrets in the own and another namespace; the real SecretController.Reconcile with controller-runtime's fake client vs the Lean model, judged by a reference map name -> current value; non-trivial = every accepted configuration, distinct by configuration")
}
