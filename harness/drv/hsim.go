package main

// Histories of requests against a handler-level world, with the property monitors evaluated on the real code's
// observations (independent of the Lean model).

import (
	"encoding/base64"
	"encoding/hex"
	"fmt"
	"net/http"
	"net/url"
	"sort"
	"strings"
	"time"

	corev3 "github.com/envoyproxy/go-control-plane/envoy/config/core/v3"
	envoy "github.com/envoyproxy/go-control-plane/envoy/service/auth/v3"
	"github.com/istio-ecosystem/authservice/internal/oidc"
)

type issue struct {
	Sid, Nonce, State, Verifier, URL string
}

type hEvent struct {
	Tick   time.Duration `json:"tick,omitempty"`
	Req    *hReq         `json:"req,omitempty"`
	Rotate bool          `json:"rotate_keys,omitempty"`
}

type hSim struct {
	r      *Run
	w      *hWorld
	n      int
	events []hEvent

	issued    map[string]*issue              // sid -> what the redirect that issued it generated
	cookieIDs map[string]bool                // every sid ever sent in a Set-Cookie by the service
	idpTokens map[string]bool                // every token string the (fake) IdP ever returned or was scripted to return
	lastRT    map[string]string              // sid -> most recent refresh token issued by the IdP for that session
	loggedOut map[string]bool                // sid -> a logout for it was answered and no login completed since
	secrets   []string                       // marker values that must never reach the user agent
	stored    map[string]*oidc.TokenResponse // sid -> tokens last stored successfully (ghost)
	kept      []keptResp                     // answers already returned, re-examined after later requests
	consumed  map[string]bool                // sid -> its login state was used by a completed code exchange
	life      map[string]*sessLife           // sid -> ghost of the session's lifetime (absolute / idle timeouts)
	stop      bool
	schedMode bool // interleaved run: the after-logout monitor lives in the scheduler scenario
}

// sessLife over-approximates how recently a session can have been accessed: EVERY request that presented the id counts
// as an access at its time, whether or not it reached the store. So when even this ghost is past a timeout the real
// session is, and once a request has found it expired it is gone for good (ids are never re-issued).
type sessLife struct {
	created, last time.Time
	dead          bool
}

type keptResp struct {
	q    hReq
	resp *envoy.CheckResponse
	show string
}

func newHSim(r *Run, c hCfg) *hSim {
	s := &hSim{r: r, w: newHWorld(c), issued: map[string]*issue{}, consumed: map[string]bool{}, life: map[string]*sessLife{}, cookieIDs: map[string]bool{}, idpTokens: map[string]bool{},
		lastRT: map[string]string{}, loggedOut: map[string]bool{}, stored: map[string]*oidc.TokenResponse{}}
	s.secrets = append(s.secrets, c.Secret)
	s.w.emitPrelude(r)
	return s
}

func (s *hSim) close() { s.w.Close() }

func (s *hSim) uniq(prefix string) string {
	s.n++
	return fmt.Sprintf("%s%d-%d", prefix, s.r.Seed%1000, s.n)
}

func (s *hSim) replay() map[string]any {
	return map[string]any{"config": s.w.cfg, "history": s.events}
}

func (s *hSim) violate(prop, what string, extra map[string]any) {
	if prop != s.r.Prop {
		return
	}
	rp := s.replay()
	for k, v := range extra {
		rp[k] = v
	}
	if fid, ok := rp["finding_id"].(string); ok {
		// a recorded finding: reported once (bin/check turns it into a KNOWN-FINDING line if it is listed), and the
		// exploration goes on looking for anything else
		for _, k := range s.r.Known {
			if k == fid {
				return
			}
		}
		s.r.Known = append(s.r.Known, fid)
		s.r.Violate("["+prop+"] "+what, rp)
		return
	}
	s.r.Violate("["+prop+"] "+what, rp)
	s.stop = true
}

func (s *hSim) rotateKeys() {
	s.events = append(s.events, hEvent{Rotate: true})
	s.w.rotateKeys(s.r, true)
	s.r.Dist["key-rotation"]++
}

func (s *hSim) violateRaw(prop, what string, extra map[string]any) { s.violate(prop, what, extra) }
func (s *hSim) monitorSched(q hReq, o hObs)                        { s.monitor(q, o) }

func (s *hSim) tick(d time.Duration) {
	s.events = append(s.events, hEvent{Tick: d})
	s.w.tick(s.r, d)
}

func hdrValue(hs []*corev3.HeaderValueOption, key string) (string, int) {
	v, n := "", 0
	for _, h := range hs {
		if h.GetHeader().GetKey() == key {
			v = h.GetHeader().GetValue()
			n++
		}
	}
	return v, n
}

// do serves one request on the real code, emits the protocol line, runs the monitors, updates the ghost state.
func (s *hSim) do(q hReq) hObs {
	toks := []string{q.IDP.ID}
	s.w.announce(s.r, toks, []string{q.Gen[3]})
	if q.IDP.Kind == "body" {
		for _, t := range []string{q.IDP.ID, q.IDP.Access, q.IDP.Refresh} {
			if t != "" {
				s.idpTokens[t] = true
			}
		}
	}
	s.events = append(s.events, hEvent{Req: &q})
	obs := s.w.serve(q)
	s.r.Emit(q.wire(), obs.implLine())
	// answers already handed back must not change when later requests are served (no shared mutable state between
	// responses): re-render the kept ones
	for _, k := range s.kept {
		if now := showResp(k.resp, nil); now != k.show {
			for _, prop := range []string{"C13", "C14", "C05", "C01"} {
				s.violate(prop, "an answer that had already been returned was modified while a later request was served (responses share mutable state)",
					map[string]any{"earlier_request": k.q, "earlier_answer_then": k.show, "earlier_answer_now": now, "later_request": q})
			}
		}
	}
	if obs.Resp != nil && obs.Panic == nil && obs.Err == nil {
		s.kept = append(s.kept, keptResp{q, obs.Resp, showResp(obs.Resp, nil)})
		if len(s.kept) > 3 {
			s.kept = s.kept[1:]
		}
	}
	s.monitor(q, obs)
	return obs
}

func (s *hSim) presentedSid(q hReq) string {
	// independent, strict reading of the Cookie header (RFC 6265 cookie-string): pairs separated by ';', optional
	// white space around a pair, name and value separated by the first '='. A pair whose value contains '=' is not a
	// session cookie the service could have issued (ids are alphanumeric) and is treated as not presented.
	sid := ""
	for _, pair := range strings.Split(q.Cookie, ";") {
		pair = strings.TrimSpace(pair)
		i := strings.IndexByte(pair, '=')
		if i < 0 {
			continue
		}
		name, val := pair[:i], pair[i+1:]
		if name == s.w.cfg.cookieName() && !strings.Contains(val, "=") {
			sid = val
		}
	}
	return sid
}

func (s *hSim) fresh(t *oidc.TokenResponse, now time.Time) bool {
	pt, err := oidc.ParseToken(t.IDToken)
	if err != nil {
		return false
	}
	if pt.Expiration().Before(now) {
		return false
	}
	if s.w.cfg.Access && t.AccessToken != "" && !t.AccessTokenExpiresAt.IsZero() && t.AccessTokenExpiresAt.Before(now) {
		return false
	}
	return true
}

// expectedOKHeaders: from the statement - the ID token always, the access token when forwarding is configured, each
// under its configured header and preamble - as a sorted list of "name: value" lines (a list, not a map: two tokens
// configured under one name are two expected headers)
func (s *hSim) expectedOKHeaders(t *oidc.TokenResponse) []string {
	c := s.w.cfg
	pre := func(p, v string) string {
		if p != "" {
			return p + " " + v
		}
		return v
	}
	m := []string{c.IDHeader + ": " + pre(c.IDPreamble, t.IDToken)}
	if c.Access && t.AccessToken != "" {
		m = append(m, c.AccHeader+": "+pre(c.AccPreamble, t.AccessToken))
	}
	sort.Strings(m)
	return m
}

func (s *hSim) monitor(q hReq, o hObs) {
	c := s.w.cfg
	kind := "error"
	defer func() { s.r.Dist["answer:"+kind]++ }()
	// ---- C15: never panics, verdict well-formed
	if o.Panic != nil {
		kind = "panic"
		s.violate("C15", fmt.Sprintf("Process panicked: %v", o.Panic), map[string]any{"request": q})
		s.violate("C01", "Process panicked instead of denying", map[string]any{"request": q})
		return
	}
	if o.Err != nil {
		// no verdict. One thing can still be judged: a refresh that was attempted and failed must end the session (C11:
		// "the stale session is removed so that the browser must log in again") - an error return that leaves the
		// session and its refresh token in the store does not.
		refreshAttempted, removed := false, false
		for _, rec := range o.IDP {
			if rec.Form.Get("grant_type") == "refresh_token" {
				refreshAttempted = true
			}
		}
		for _, cl := range o.Calls {
			if cl.Op == "remove" && !cl.Err {
				removed = true
			}
			if cl.Err {
				removed = true // a store that fails cannot be asked to do more
			}
		}
		if refreshAttempted && !removed && q.IDP.Kind != "body" {
			s.violate("C11", "the refresh exchange failed and the check ended in an error without removing the stale session (the session and its refresh token stay in the store)", map[string]any{"request": q, "error": o.Err.Error()})
		}
		return
	}
	code := o.Resp.GetStatus().GetCode()
	isOK := code == 0
	den := o.Resp.GetDeniedResponse()
	okr := o.Resp.GetOkResponse()
	if o.Resp.GetStatus() == nil || (isOK && (okr == nil || den != nil)) || (!isOK && den == nil) {
		s.violate("C15", "ill-formed verdict: status and body are inconsistent", map[string]any{"request": q, "response": showResp(o.Resp, nil)})
	}
	sid := s.presentedSid(q)
	// ---- C01 / C02 / C12: session data changes only through the store's write methods
	for _, b := range s.w.ledger.takeBad() {
		b["request"] = q
		for _, prop := range []string{"C02", "C01", "C12", "C11"} {
			s.violate(prop, "the store returned tokens that no SetTokenResponse ever stored under that session id (session data was modified in place: unvalidated tokens leaked into the session)", b)
		}
	}
	// ---- C04 / C06 / C12: login state changes only through the store's write methods
	for _, b := range s.w.ledger.takeBadAuth() {
		b["request"] = q
		for _, prop := range []string{"C04", "C06", "C12", "C03", "C13"} {
			s.violate(prop, "the store returned a login state (state, nonce, requested URL, PKCE verifier) that no SetAuthorizationState ever stored under that session id: the pending login of one session was overwritten by something else (shared or recycled structure)", b)
		}
	}
	// ---- C01 / C10: the session's own lifetime (absolute and idle timeout of the configured store)
	if g := s.life[sid]; g != nil && sid != "" && !q.NoHTTP && (c.Abs > 0 || c.Idle > 0) {
		if !g.dead && ((c.Idle > 0 && o.Now.Sub(g.last) > c.Idle) || (c.Abs > 0 && o.Now.Sub(g.created) > c.Abs)) {
			g.dead = true
			s.r.Dist["session-timed-out"]++
		}
		if !g.dead {
			g.last = o.Now
		}
		if g.dead && isOK {
			s.violate("C10", "a session was honoured although it had outlived its idle or absolute session timeout when it was presented",
				map[string]any{"request": q, "sid": sid, "created": g.created, "last_presented_before": g.last, "now": o.Now, "absolute": c.Abs.String(), "idle": c.Idle.String()})
			s.violate("C01", "OK for a session that had outlived its idle or absolute session timeout when it was presented",
				map[string]any{"request": q, "sid": sid, "created": g.created, "last_presented_before": g.last, "now": o.Now, "absolute": c.Abs.String(), "idle": c.Idle.String()})
		}
	}
	// ---- C04 / C05 / C06: without the session cookie there is no session. A request that carries no cookie is never handed
	// the id of a session that already exists and never causes a token request - whatever else it presents (a state, a code)
	if !q.NoHTTP && sid == "" {
		if len(o.IDP) > 0 {
			for _, prop := range []string{"C04", "C06"} {
				s.violate(prop, "a token request was made on behalf of a request that carried no session cookie (a login was located by something other than the cookie, e.g. its state parameter)", map[string]any{"request": q})
			}
		}
		if sck, n := hdrValue(den.GetHeaders(), "set-cookie"); n > 0 {
			if cs := (&http.Response{Header: http.Header{"Set-Cookie": []string{sck}}}).Cookies(); len(cs) == 1 && cs[0].Value != q.Gen[0] && s.issued[cs[0].Value] != nil {
				for _, prop := range []string{"C06", "C05", "C04"} {
					s.violate(prop, "a request that carried no session cookie was handed, in a Set-Cookie, the id of a session that already existed: the session id is obtainable from values that travel outside the cookie", map[string]any{"request": q, "set-cookie": sck})
				}
			}
		}
	}
	anyFault := false
	var lastGetTok *spyCall
	var setToks []spyCall
	for i := range o.Calls {
		cl := &o.Calls[i]
		if cl.Err {
			anyFault = true
		}
		if cl.Op == "gettok" {
			lastGetTok = cl
		}
		if cl.Op == "settok" {
			setToks = append(setToks, *cl)
		}
	}
	idpFailed := len(o.IDP) > 0 && q.IDP.Kind != "body"
	keysFailed := o.Keys > 0 && !q.KeysOK
	// ---- C01: every OK is justified
	if isOK {
		kind = "ok"
		switch {
		case q.NoHTTP || sid == "":
			s.violate("C01", "OK for a request without the session cookie", map[string]any{"request": q})
		case anyFault || idpFailed || keysFailed:
			s.violate("C01", "OK although a store call, the token endpoint or the key source failed during the check", map[string]any{"request": q, "calls": o.Calls})
		case lastGetTok == nil || lastGetTok.ID != sid || lastGetTok.GotTok == nil:
			s.violate("C01", "OK without tokens read from the store under the presented session id", map[string]any{"request": q, "sid": sid})
		default:
			bound := lastGetTok.GotTok
			if len(o.IDP) > 0 && (q.IDP.Kind != "body" || !strings.EqualFold(q.IDP.TokenType, "bearer")) {
				// "just refreshed" needs a token response: an answer without the (required) bearer token_type - e.g. an OAuth
				// error object sent with status 200 - renewed nothing
				s.violate("C01", "OK after a refresh exchange that the token endpoint did not answer with a token response", map[string]any{"request": q, "idp_answer": q.IDP})
				s.violate("C11", "a refresh exchange that was not answered with a token response was treated as successful", map[string]any{"request": q, "idp_answer": q.IDP})
			}
			if len(o.IDP) > 0 { // refreshed during this check
				if o.Keys == 0 && c.RealKeys == "" {
					// the merged result carries an ID token (the new one, or the stored one when the provider sent none): it is
					// bound and forwarded only after its signature was checked against the CURRENT key set
					for _, prop := range []string{"C01", "C02", "C11"} {
						s.violate(prop, "OK after a refresh whose resulting ID token was never verified against the key set (no key lookup during the check)", map[string]any{"request": q, "idp_answer": q.IDP})
					}
				}
				if len(setToks) != 1 || setToks[0].Err || setToks[0].ID != sid {
					s.violate("C01", "OK after a refresh whose result was not stored successfully under the presented session", map[string]any{"request": q})
					return
				}
				if s.fresh(lastGetTok.GotTok, o.Now) {
					s.violate("C11", "a refresh exchange was made although the stored tokens were not expired", map[string]any{"request": q})
				}
				bound = setToks[0].Tok
				// (the statement justifies an OK by a successful refresh during this very check; it does not ask the
				// renewed tokens to carry a future expiry, and the code does not check it either)
			} else if !s.fresh(bound, o.Now) {
				s.violate("C01", "OK for a session whose stored tokens are expired at check time and were not refreshed", map[string]any{"request": q, "now": o.Now})
			}
			// C02.2 / C14.3: forwarded headers are exactly the bound tokens
			want := s.expectedOKHeaders(bound)
			got := []string{}
			for _, h := range okr.GetHeaders() {
				got = append(got, h.GetHeader().GetKey()+": "+h.GetHeader().GetValue())
			}
			sort.Strings(got)
			if fmt.Sprint(want) != fmt.Sprint(got) {
				if c.Access && c.AccHeader == c.IDHeader {
					// one header name configured for both tokens: the access token overwrites the ID token in the header
					// map (recorded finding; the model proves exactly this: C02.same_header_drops_id)
					s.violate("C02", "the ID token is not injected: id_token.header and access_token.header are the same name and the access token replaces it",
						map[string]any{"finding_id": "C02-equal-header-names", "request": q, "want": want, "got": got})
				} else {
					s.violate("C02", "the headers injected on OK are not exactly the tokens bound to the presented session under their configured header and preamble", map[string]any{"request": q, "want": want, "got": got})
					s.violate("C14", "an OK answer adds something other than the ID token (and access token when configured)", map[string]any{"request": q, "want": want, "got": got})
					s.violate("C03", "after login the provider's tokens are not injected as configured", map[string]any{"request": q, "want": want, "got": got})
				}
			}
			if s.loggedOut[sid] && !s.schedMode {
				s.violate("C09", "OK for a session after its logout was answered and before a new login completed", map[string]any{"request": q, "sid": sid})
				s.violate("C01", "OK for a logged-out session (its logout had been answered, no new login completed)", map[string]any{"request": q, "sid": sid})
			}
		}
	}
	// ---- C02: only validated IdP tokens are bound
	for _, st := range setToks {
		if st.Fault == 1 {
			continue
		}
		t := st.Tok
		pt, err := oidc.ParseToken(t.IDToken)
		audOK := false
		if err == nil {
			for _, a := range pt.Audience() {
				if a == c.ClientID {
					audOK = true
				}
			}
		}
		if !s.cookieIDs[st.ID] {
			s.violate("C05", "tokens stored under a session id the service never issued in a Set-Cookie", map[string]any{"request": q, "sid": st.ID})
		}
		if (t.AccessToken != "" && !s.idpTokens[t.AccessToken]) || (t.RefreshToken != "" && !s.idpTokens[t.RefreshToken]) {
			s.violate("C02", "an access or refresh token that was never received in a valid answer of the token endpoint was bound to a session (and would be forwarded / used for it)",
				map[string]any{"request": q, "bound": t})
		}
		switch {
		case !s.idpTokens[t.IDToken]:
			s.violate("C02", "an ID token that was never received from the token endpoint was bound to a session", map[string]any{"request": q})
		case err != nil || !sigOKIndependent(t.IDToken):
			s.violate("C02", "an ID token without a valid signature under the configured key set was bound to a session", map[string]any{"request": q, "token": t.IDToken})
		case !audOK:
			s.violate("C02", "an ID token whose audience does not contain the client id was bound to a session", map[string]any{"request": q, "token": t.IDToken})
		}
		// C11: "if the exchange or the VALIDATION OF ITS RESULT fails, the request is not allowed and the stale session is
		// removed": the result of a refresh is the merged token set that is written back; its ID token (new or carried over)
		// must verify under the key set in force NOW and name this client
		if len(o.IDP) > 0 && o.IDP[0].Form.Get("grant_type") == "refresh_token" && (err != nil || !sigOKIndependent(t.IDToken) || !audOK) {
			s.violate("C11", "the result of a refresh was stored (and the request allowed) although its ID token does not validate under the current key set / audience",
				map[string]any{"request": q, "token": t.IDToken, "parse_error": fmt.Sprint(err), "audience_ok": audOK})
		}
		if len(o.IDP) > 0 && o.IDP[0].Form.Get("grant_type") == "authorization_code" && err == nil {
			iss := s.issued[st.ID]
			n, _ := pt.Get("nonce")
			if iss == nil || n != iss.Nonce {
				s.violate("C02", "at login an ID token was bound whose nonce is not the one issued for that very session", map[string]any{"request": q, "sid": st.ID})
			}
		}
	}
	// ---- token endpoint requests: C04 / C11 / C19
	for _, rec := range o.IDP {
		switch rec.Form.Get("grant_type") {
		case "authorization_code":
			iss := s.issued[sid]
			qs, _ := url.ParseQuery(queryPart(q.Path))
			switch {
			case iss == nil || qs.Get("state") != iss.State || qs.Get("state") == "":
				s.violate("C04", "an authorization code was sent to the token endpoint by a callback whose state is not the one issued for the session named by its cookie", map[string]any{"request": q})
			case rec.Form.Get("code_verifier") != iss.Verifier:
				s.violate("C04", "the code exchange did not carry the PKCE verifier of that session's authorization redirect", map[string]any{"request": q})
			case rec.Form.Get("redirect_uri") != c.CallbackURI || rec.Form.Get("code") != qs.Get("code"):
				s.violate("C04", "the code exchange did not carry the configured redirect URI and the presented code", map[string]any{"request": q})
			case rec.Auth != "Basic "+base64.StdEncoding.EncodeToString([]byte(c.ClientID+":"+c.Secret)):
				s.violate("C04", "the code exchange did not carry the client's credentials", map[string]any{"request": q})
			}
			// the login state is single-use: once a callback of this session completed (sequentially: before this request
			// started), no further code goes to the token endpoint for it - whichever replica serves the replay
			if s.consumed[sid] && !s.schedMode {
				s.violate("C04", "a code was sent to the token endpoint for a login state that an earlier, completed callback had already consumed (replay)", map[string]any{"request": q, "sid": sid})
			}
		case "refresh_token":
			// (two refreshes of one session that overlap both read the same stored refresh token: in scheduled runs "most recent"
			// is judged by what the thread read from the store - lastGetTok - not by the order in which threads finished)
			want, ok := s.lastRT[sid]
			if s.schedMode && lastGetTok != nil && lastGetTok.GotTok != nil {
				want, ok = lastGetTok.GotTok.RefreshToken, true
			}
			if !ok || rec.Form.Get("refresh_token") != want {
				s.violate("C11", "the refresh exchange did not use the most recently issued refresh token of the session", map[string]any{"request": q, "sent": rec.Form.Get("refresh_token"), "latest": want})
			}
			if rec.Form.Get("client_id") != c.ClientID || rec.Form.Get("client_secret") != c.Secret {
				s.violate("C11", "the refresh exchange did not carry the client id and secret", map[string]any{"request": q})
			}
		default:
			s.violate("C04", "a token request with an unknown grant type was made", map[string]any{"request": q})
		}
		if rec.Method != "POST" || (!s.schedMode && "http://"+rec.Host+rec.Path != s.w.oc.GetTokenUri()) {
			s.violate("C04", "the token request did not go to the configured token endpoint with POST", map[string]any{"request": q, "got": rec.Method + " http://" + rec.Host + rec.Path})
		}
	}
	if len(o.IDP) > 1 {
		s.violate("C11", "more than one token request during one check", map[string]any{"request": q})
	}
	if len(o.IDP) == 1 && o.IDP[0].Form.Get("grant_type") == "authorization_code" && len(setToks) == 1 && !setToks[0].Err && sid != "" {
		s.consumed[sid] = true
	}
	// C11: expired tokens + a refresh token => the exchange is ATTEMPTED (refresh tokens are opaque: whatever they look like)
	if lastGetTok != nil && lastGetTok.GotTok != nil && lastGetTok.ID == sid && !anyFault && len(o.IDP) == 0 && !q.NoHTTP &&
		lastGetTok.GotTok.RefreshToken != "" && !s.fresh(lastGetTok.GotTok, o.Now) && !(c.Logout && pathPart(q.Path) == c.LogoutPath) {
		if pt, err := oidc.ParseToken(lastGetTok.GotTok.IDToken); err == nil && !pt.Expiration().IsZero() {
			s.violate("C11", "the stored tokens are expired and the session holds a refresh token, but no refresh exchange was attempted", map[string]any{"request": q, "stored": lastGetTok.GotTok})
		}
	}
	// C11: the merged result of a refresh: new values replace old, omitted values are kept
	if len(o.IDP) == 1 && o.IDP[0].Form.Get("grant_type") == "refresh_token" && len(setToks) == 1 && lastGetTok != nil && lastGetTok.GotTok != nil && q.IDP.Kind == "body" {
		old, got, a := lastGetTok.GotTok, setToks[0].Tok, q.IDP
		wantID := old.IDToken
		if _, err := oidc.ParseToken(a.ID); err == nil {
			wantID = a.ID
		}
		or := func(n, o string) string {
			if n != "" {
				return n
			}
			return o
		}
		if got.IDToken != wantID || got.AccessToken != or(a.Access, old.AccessToken) || got.RefreshToken != or(a.Refresh, old.RefreshToken) {
			s.violate("C11", "the result of a refresh is not the merge of the answer over the stored tokens (new values replace old, omitted values are kept, a rotated refresh token replaces its predecessor)",
				map[string]any{"request": q, "stored_before": old, "stored_after": got})
		}
		if isOK {
			s.r.Dist["refresh-success"]++
		}
	}
	for _, st := range setToks {
		if st.Fault == 1 {
			continue
		}
		cp := *st.Tok
		s.stored[st.ID] = &cp
		if st.Tok.RefreshToken != "" {
			s.lastRT[st.ID] = st.Tok.RefreshToken
		} else {
			delete(s.lastRT, st.ID)
		}
	}
	// ---- denied answers
	if den != nil {
		loc, nloc := hdrValue(den.GetHeaders(), "location")
		sc, nsc := hdrValue(den.GetHeaders(), "set-cookie")
		st := int(den.GetStatus().GetCode())
		kind = fmt.Sprintf("denied-%d-%d", code, st)
		if st == 302 {
			cc, _ := hdrValue(den.GetHeaders(), "cache-control")
			pg, _ := hdrValue(den.GetHeaders(), "pragma")
			if cc != "no-cache" || pg != "no-cache" || nloc != 1 {
				s.violate("C13", "a redirect answer without the no-cache directives or without exactly one Location", map[string]any{"request": q, "response": showResp(o.Resp, nil)})
			}
		}
		isLogout := c.Logout && pathPart(q.Path) == c.LogoutPath && !q.NoHTTP
		if nsc > 0 {
			s.checkCookie(q, o, sc, isLogout, sid)
		}
		switch {
		case isLogout:
			kind = "logout"
			removed := false
			for _, cl := range o.Calls {
				if cl.Op == "remove" && cl.ID == sid && !cl.Err {
					removed = true
				}
			}
			if st == 302 && nsc == 1 && strings.Contains(sc, "Max-Age=0") {
				if sid != "" && !removed {
					s.violate("C09", "the logout was answered as successful although the session was not removed", map[string]any{"request": q})
				}
				if loc != c.LogoutURI {
					s.violate("C09", "the logout answer does not redirect to the configured end-session URI", map[string]any{"request": q, "location": loc})
				}
				if sid != "" {
					s.loggedOut[sid] = true
				}
			} else if st == 302 {
				s.violate("C09", "the logout answer does not expire the session cookie", map[string]any{"request": q, "set-cookie": sc})
				s.violate("C05", "the logout answer does not expire the session cookie", map[string]any{"request": q, "set-cookie": sc})
			} else if sid != "" && !anyFault {
				s.violate("C09", "a logout request was neither answered with the logout redirect nor failed on a store error", map[string]any{"request": q})
			}
		case st == 302 && nsc == 1:
			kind = "redirect-idp"
			s.checkAuthRedirect(q, o, loc, sc, sid)
		case st == 302:
			kind = "redirect-back"
			iss := s.issued[sid]
			if iss == nil || loc != iss.URL {
				s.violate("C13", "after a successful login the Location is not the URL first requested in that session", map[string]any{"request": q, "location": loc})
			}
			ok := len(setToks) == 1 && !setToks[0].Err && setToks[0].ID == sid
			if !ok {
				s.violate("C01", "the post-login redirect was sent although the tokens were not stored", map[string]any{"request": q})
			}
			cleared := false
			for _, cl := range o.Calls {
				if cl.Op == "clear" && cl.ID == sid && !cl.Err {
					cleared = true
				}
			}
			if !cleared {
				s.violate("C04", "a successful code exchange did not consume the login state", map[string]any{"request": q})
			}
			delete(s.loggedOut, sid)
		}
		// C14: no credential in anything sent back to the browser
		s.scanSecrets(q, o)
	}
	// C11: a failed refresh ends the session
	if len(o.IDP) == 1 && o.IDP[0].Form.Get("grant_type") == "refresh_token" && !isOK {
		removed := false
		for _, cl := range o.Calls {
			if cl.Op == "remove" && cl.ID == sid {
				removed = true
			}
		}
		storedOK := len(setToks) == 1 // exchange and validation succeeded; only saving the result failed (a store fault)
		if !removed && !storedOK {
			s.violate("C11", "a failed refresh neither allowed the request nor removed the stale session", map[string]any{"request": q})
		}
	}
}

func appendUniq(l []string, x string) []string {
	for _, y := range l {
		if y == x {
			return l
		}
	}
	return append(l, x)
}

func pathPart(target string) string {
	if i := strings.IndexAny(target, "?#"); i >= 0 {
		return target[:i]
	}
	return target
}

func queryPart(target string) string {
	if i := strings.IndexByte(target, '#'); i >= 0 {
		target = target[:i]
	}
	if i := strings.IndexByte(target, '?'); i >= 0 {
		return target[i+1:]
	}
	return ""
}

// checkCookie parses the Set-Cookie with net/http's parser (not string comparison).
func (s *hSim) checkCookie(q hReq, o hObs, sc string, isLogout bool, presented string) {
	c := s.w.cfg
	resp := http.Response{Header: http.Header{"Set-Cookie": []string{sc}}}
	cs := resp.Cookies()
	bad := func(why string) {
		s.violate("C05", "session cookie "+why, map[string]any{"request": q, "set-cookie": sc})
	}
	if len(cs) != 1 {
		bad("does not parse as one cookie")
		return
	}
	ck := cs[0]
	switch {
	case !strings.HasPrefix(ck.Name, "__Host-") || ck.Name != c.cookieName():
		bad("is not named with the __Host- prefix and the configured name")
	case ck.Path != "/":
		bad("does not have Path=/")
	case ck.Domain != "":
		bad("has a Domain attribute")
	case !ck.Secure:
		bad("is not Secure")
	case !ck.HttpOnly:
		bad("is not HttpOnly")
	case ck.SameSite != http.SameSiteLaxMode && ck.SameSite != http.SameSiteStrictMode:
		bad("is not SameSite-restricted")
	case isLogout && ck.MaxAge >= 0:
		bad("is not expired by the logout answer")
	case !isLogout && ck.MaxAge != 0:
		bad("of a login redirect carries a Max-Age")
	}
	if !isLogout {
		s.cookieIDs[ck.Value] = true
	}
}

func isTokenString(s string) bool {
	for _, r := range s {
		if r <= 32 || r >= 127 || strings.ContainsRune(`()<>@,;:\"/[]?={}`, r) {
			return false
		}
	}
	return true
}

// checkAuthRedirect: C05 (renewal), C13 (Location), C04.3 (challenge)
func (s *hSim) checkAuthRedirect(q hReq, o hObs, loc, sc, presented string) {
	c := s.w.cfg
	resp := http.Response{Header: http.Header{"Set-Cookie": []string{sc}}}
	newSid := ""
	if cs := resp.Cookies(); len(cs) == 1 {
		newSid = cs[0].Value
	}
	if newSid == "" || newSid == presented {
		s.violate("C05", "a login redirect did not issue a new session id different from the presented one", map[string]any{"request": q, "new": newSid})
	}
	if presented != "" {
		removedBefore := false
		for _, cl := range o.Calls {
			if cl.Op == "remove" && cl.ID == presented && !cl.Err {
				removedBefore = true
			}
			if cl.Op == "setauth" && !removedBefore {
				s.violate("C05", "a login redirect was issued without first destroying what was stored under the presented session id", map[string]any{"request": q})
			}
		}
	}
	var set *spyCall
	for i := range o.Calls {
		if o.Calls[i].Op == "setauth" && !o.Calls[i].Err {
			set = &o.Calls[i]
		}
	}
	if set == nil || set.ID != newSid {
		s.violate("C05", "the session id in the Set-Cookie is not the one under which the login state was stored", map[string]any{"request": q})
		return
	}
	iss := &issue{Sid: newSid, Nonce: set.Auth.Nonce, State: set.Auth.State, Verifier: set.Auth.CodeVerifier, URL: set.Auth.RequestedURL}
	s.issued[newSid] = iss
	s.life[newSid] = &sessLife{created: o.Now, last: o.Now}
	s.secrets = append(s.secrets, iss.Verifier)
	wantURL := q.Scheme + "://" + q.Host + q.Path
	if q.Query != "" {
		wantURL += "?" + q.Query
	}
	if iss.URL != wantURL {
		s.violate("C13", "the URL stored for the post-login redirect is not scheme, host, path and query of the request", map[string]any{"request": q, "stored": iss.URL})
	}
	// C13: Location = configured endpoint (own query retained) + exactly the eight parameters
	u, err := url.Parse(loc)
	au, _ := url.Parse(c.AuthURI)
	if err != nil || au == nil {
		s.violate("C13", "the login Location does not parse", map[string]any{"request": q, "location": loc})
		return
	}
	got, perr := url.ParseQuery(u.RawQuery)
	own, _ := url.ParseQuery(au.RawQuery)
	want := url.Values{"response_type": {"code"}, "client_id": {c.ClientID}, "redirect_uri": {c.CallbackURI}, "scope": {strings.Join(c.Scopes, " ")},
		"state": {iss.State}, "nonce": {iss.Nonce}, "code_challenge": {s256(iss.Verifier)}, "code_challenge_method": {"S256"}}
	for k, v := range own {
		want[k] = append(append([]string{}, v...), want[k]...)
	}
	base := func(x *url.URL) string { return x.Scheme + "://" + x.Host + x.Path }
	if perr != nil || base(u) != base(au) || canonValues(got) != canonValues(want) || u.Fragment != "" {
		if au.Fragment != "" {
			return // RFC 6749 3.1: the endpoint URI must not include a fragment; outside the property's domain
		}
		s.violate("C13", "the login Location is not the configured authorization endpoint plus exactly the required parameters, each decoding to its exact value", map[string]any{"request": q, "location": loc, "want": want, "got": got})
	}
	if got.Get("code_challenge") != s256(iss.Verifier) || got.Get("code_challenge_method") != "S256" {
		s.violate("C04", "the code challenge in the redirect is not S256 of the verifier stored for that session", map[string]any{"request": q})
	}
}

func canonValues(v url.Values) string {
	var ks []string
	for k := range v {
		ks = append(ks, k)
	}
	sort.Strings(ks)
	var sb strings.Builder
	for _, k := range ks {
		vs := append([]string{}, v[k]...)
		fmt.Fprintf(&sb, "%q=%q;", k, vs)
	}
	return sb.String()
}

// scanSecrets: every secret is a unique marker; look for it raw, URL-escaped, base64 (std/url, padded or not) and hex.
func (s *hSim) scanSecrets(q hReq, o hObs) {
	den := o.Resp.GetDeniedResponse()
	var hay strings.Builder
	hay.WriteString(o.Resp.GetStatus().GetMessage())
	hay.WriteString("\n" + den.GetBody())
	for _, h := range den.GetHeaders() {
		hay.WriteString("\n" + h.GetHeader().GetKey() + ": " + h.GetHeader().GetValue())
	}
	text := hay.String()
	secrets := append([]string{}, s.secrets...)
	for t := range s.idpTokens {
		secrets = append(secrets, t)
	}
	for _, sec := range secrets {
		if len(sec) < 6 {
			continue
		}
		forms := []string{sec, url.QueryEscape(sec), url.PathEscape(sec), base64.StdEncoding.EncodeToString([]byte(sec)), base64.RawStdEncoding.EncodeToString([]byte(sec)),
			base64.URLEncoding.EncodeToString([]byte(sec)), base64.RawURLEncoding.EncodeToString([]byte(sec)), hex.EncodeToString([]byte(sec)), fmt.Sprintf("%q", sec)}
		for _, f := range forms {
			if strings.Contains(text, f) {
				s.violate("C14", "a credential (client secret, PKCE verifier or token) appears in an answer sent back to the user agent", map[string]any{"request": q, "secret": sec, "response": showResp(o.Resp, nil)})
				return
			}
		}
	}
}
