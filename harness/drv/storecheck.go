package main

import (
	"fmt"
	"time"

	"github.com/istio-ecosystem/authservice/internal/oidc"
)

// refStore is the harness' reference for C10/C12: a plain map from session id to
// {login state, tokens, created, last used} with the two timeouts. It is deliberately tolerant exactly where the
// statement is ("one second of timestamp granularity aside") and where the two stores legitimately differ
// (a read that finds no data counts as "use" in the memory store but not in the Redis store).
type refSess struct {
	auth       *oidc.AuthorizationState
	tok        *oidc.TokenResponse
	created    int64
	lastUseMin int64 // earliest reading of "last use"
	lastUseMax int64 // latest reading of "last use"
}

type refStore struct {
	abs, idle int64
	gran      int64 // granularity allowance in ns (0 memory, 1s redis)
	m         map[string]*refSess
	uncertain map[string]bool // ids the reference cannot judge until the next remove
}

func newRefStore(kind string, abs, idle time.Duration) *refStore {
	g := int64(0)
	if kind == "redis" {
		g = int64(time.Second)
	}
	return &refStore{abs: int64(abs), idle: int64(idle), gran: g, m: map[string]*refSess{}, uncertain: map[string]bool{}}
}

// definitelyExpired: later than created+abs or later than (latest) lastUse+idle.
func (r *refStore) definitelyExpired(s *refSess, now int64) bool {
	return (r.abs > 0 && now > s.created+r.abs) || (r.idle > 0 && now > s.lastUseMax+r.idle)
}

// definitelyInside: inside both limits even after giving up the granularity allowance.
func (r *refStore) definitelyInside(s *refSess, now int64) bool {
	return (r.abs == 0 || now <= s.created+r.abs-r.gran) && (r.idle == 0 || now <= s.lastUseMin+r.idle-r.gran)
}

func tokEq(a, b *oidc.TokenResponse) bool {
	return a.IDToken == b.IDToken && a.AccessToken == b.AccessToken && a.RefreshToken == b.RefreshToken &&
		a.AccessTokenExpiresAt.Equal(b.AccessTokenExpiresAt)
}

// step applies the op to the reference given what the implementation answered; it returns a description of a
// violated clause, or "".
func (r *refStore) step(o storeOp, now int64, gotTok *oidc.TokenResponse, gotAuth *oidc.AuthorizationState, gotErr bool, wellFormed bool) string {
	if o.Kind == "remove" {
		delete(r.uncertain, o.ID)
	}
	if r.uncertain[o.ID] {
		return ""
	}
	s := r.m[o.ID]
	if s != nil && r.definitelyExpired(s, now) {
		// the session is over; whatever the store does with it now it must not serve it
		delete(r.m, o.ID)
		s = nil
	}
	touch := func(s *refSess, found bool) {
		s.lastUseMax = now
		if found {
			s.lastUseMin = now
		}
	}
	switch o.Kind {
	case "settok", "setauth":
		if gotErr {
			return "a write returned an error"
		}
		if s == nil {
			s = &refSess{created: now, lastUseMin: now, lastUseMax: now}
			r.m[o.ID] = s
		} else if !r.definitelyInside(s, now) {
			// allowance zone: the store may or may not have dropped and re-created the session; the
			// reference cannot know, so this id is not judged until it is removed.
			r.uncertain[o.ID] = true
			delete(r.m, o.ID)
			return ""
		}
		touch(s, true)
		if o.Kind == "settok" {
			cp := *o.Tok
			s.tok = &cp
		} else {
			cp := *o.Auth
			s.auth = &cp
		}
	case "gettok", "getauth":
		if gotErr {
			return "a read returned an error"
		}
		var want, got any
		has := false
		if o.Kind == "gettok" {
			has = s != nil && s.tok != nil
			if gotTok != nil {
				got = gotTok
			}
			if has {
				want = s.tok
			}
		} else {
			has = s != nil && s.auth != nil
			if gotAuth != nil {
				got = gotAuth
			}
			if has {
				want = s.auth
			}
		}
		switch {
		case got != nil && s == nil:
			return fmt.Sprintf("%s returned data for a session that is absent, removed or past its timeouts", o.Kind)
		case got != nil && !has:
			return fmt.Sprintf("%s returned data that was never written (or was cleared) for this id", o.Kind)
		case got != nil && has:
			if o.Kind == "gettok" && !tokEq(gotTok, want.(*oidc.TokenResponse)) {
				return "gettok did not return the latest tokens written for this id"
			}
			if o.Kind == "getauth" && *gotAuth != *(want.(*oidc.AuthorizationState)) {
				return "getauth did not return the latest login state written for this id"
			}
			touch(s, true)
		case got == nil && has && wellFormed:
			if r.definitelyInside(s, now) {
				return fmt.Sprintf("%s returned nothing although the session holds that data and is inside both limits", o.Kind)
			}
			// allowance zone: adopt the implementation's view
			r.uncertain[o.ID] = true
			delete(r.m, o.ID)
		case got == nil && s != nil:
			touch(s, false)
		}
	case "clear":
		if s != nil {
			if !r.definitelyInside(s, now) {
				r.uncertain[o.ID] = true
				delete(r.m, o.ID)
				return ""
			}
			if gotErr {
				return "clearing the login state of an existing session returned an error"
			}
			s.auth = nil
			touch(s, true)
		}
		// on an absent id the memory store succeeds and the Redis store reports ErrRedis: both accepted
	case "remove":
		if gotErr {
			return "remove returned an error"
		}
		delete(r.m, o.ID)
	}
	return ""
}

func minI(a, b int64) int64 {
	if a < b {
		return a
	}
	return b
}

// scenario is one store history.
type scenario struct {
	Kind string        `json:"store"`
	Abs  time.Duration `json:"abs"`
	Idle time.Duration `json:"idle"`
	Ops  []storeOp     `json:"ops"`
}

// runScenario executes the history on the real store, emits the protocol lines, and runs the reference monitor.
func runScenario(r *Run, sc scenario, wellFormed func(storeOp) bool) {
	rig := newStoreRig(sc.Kind, sc.Abs, sc.Idle, 1_700_000_000_000_000_000)
	defer rig.Close()
	ref := newRefStore(sc.Kind, sc.Abs, sc.Idle)
	r.Emit(rig.wireNew(), "ok")
	nontrivial := false
	for i, o := range sc.Ops {
		if o.Kind == "settok" {
			r.Emit("oracle parse "+hx(o.Tok.IDToken)+" "+b01(parsesJWT(o.Tok.IDToken)), "ok")
		}
		out := rig.apply(o)
		r.Emit(o.wire(), out)
		if sc.Kind == "redis" && o.Kind != "tick" && o.Kind != "sweep" {
			// the raw state of the key on the server (fields and remaining TTL) against the model's hash, after every operation
			r.Emit("sop dump 0 "+hx(o.ID), rig.dump(o.ID))
		}
		r.Dist["op:"+o.Kind]++
		if ch := rig.changedReads(); ch != "" {
			r.Violate("a value that an earlier read had returned was changed by a later operation: the store hands out (or writes through) a structure it keeps, so a read is not one atomic observation: "+ch,
				map[string]any{"scenario": sc, "failing_op_index": i})
			return
		}
		if o.Kind == "tick" || o.Kind == "sweep" {
			continue
		}
		var gt *oidc.TokenResponse
		var ga *oidc.AuthorizationState
		// re-decode the canonical output (the store call must not be repeated: reads have effects)
		gotErr := out == "err"
		if len(out) > 4 && out[:4] == "tok " {
			var a, b, c, e string
			fmt.Sscanf(out, "tok %s %s %s %s", &a, &b, &c, &e)
			gt = &oidc.TokenResponse{IDToken: unhx(a), AccessToken: unhx(b), RefreshToken: unhx(c)}
			if e != "-" {
				var ns int64
				fmt.Sscanf(e, "%d", &ns)
				gt.AccessTokenExpiresAt = time.Unix(0, ns)
			}
			nontrivial = true
			r.Dist["read-hit"]++
		} else if len(out) > 5 && out[:5] == "auth " {
			var a, b, c, d string
			fmt.Sscanf(out, "auth %s %s %s %s", &a, &b, &c, &d)
			ga = &oidc.AuthorizationState{State: unhx(a), Nonce: unhx(b), RequestedURL: unhx(c), CodeVerifier: unhx(d)}
			nontrivial = true
			r.Dist["read-hit"]++
		} else if out == "nil" {
			r.Dist["read-miss"]++
		} else if out == "err" {
			r.Dist["op-error"]++
		}
		wf := true
		if wellFormed != nil {
			// a session whose last write was outside the input guard is not judged by the reference
			wf = refWellFormed(ref, o.ID)
		}
		if !wellFormedOp(o) {
			markIllFormed(ref, o.ID)
			continue
		}
		if o.Kind == "remove" && illFormed[ref] != nil {
			delete(illFormed[ref], o.ID)
			wf = true
		}
		if msg := ref.step(o, rig.clock.Ns(), gt, ga, gotErr, wf); msg != "" && wf {
			r.Violate(msg, map[string]any{"scenario": sc, "failing_op_index": i, "observed": out})
			return
		}
	}
	key := ""
	if nontrivial {
		key = fmt.Sprintf("%v", sc)
	}
	r.Case(key)
}

// sessions written with values outside the input guard (empty members, unparsable ID token) are excluded from the
// reference monitor: there the stores differ by design; the Lean model still has to agree with each store exactly.
var illFormed = map[*refStore]map[string]bool{}

func markIllFormed(r *refStore, id string) {
	if illFormed[r] == nil {
		illFormed[r] = map[string]bool{}
	}
	illFormed[r][id] = true
	delete(r.m, id)
}
func refWellFormed(r *refStore, id string) bool { return !illFormed[r][id] }

func wellFormedOp(o storeOp) bool {
	switch o.Kind {
	case "settok":
		return o.Tok.IDToken != "" && parsesJWT(o.Tok.IDToken)
	case "setauth":
		return o.Auth.State != "" && o.Auth.Nonce != "" && o.Auth.RequestedURL != "" && o.Auth.CodeVerifier != ""
	}
	return true
}
