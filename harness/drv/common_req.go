package main

import (
	"fmt"
	"sort"
	"strings"

	corev3 "github.com/envoyproxy/go-control-plane/envoy/config/core/v3"
	envoy "github.com/envoyproxy/go-control-plane/envoy/service/auth/v3"
)

// httpReq builds a CheckRequest with the given HTTP attributes.
func httpReq(scheme, host, path, query string, headers map[string]string) *envoy.CheckRequest {
	return &envoy.CheckRequest{Attributes: &envoy.AttributeContext{Request: &envoy.AttributeContext_Request{
		Http: &envoy.AttributeContext_HttpRequest{Scheme: scheme, Host: host, Path: path, Query: query, Headers: headers},
	}}}
}

func showHeaderOpts(hs []*corev3.HeaderValueOption, sorted bool) string {
	var items []string
	for _, h := range hs {
		items = append(items, hx(h.GetHeader().GetKey())+":"+hx(h.GetHeader().GetValue()))
	}
	if sorted {
		// sort by (key,value) bytes: compare on decoded values
		sort.Slice(items, func(i, j int) bool {
			ki, vi := splitKV(hs, items[i])
			kj, vj := splitKV(hs, items[j])
			if ki != kj {
				return ki < kj
			}
			return vi < vj
		})
	}
	return listOr(items, ",")
}

func splitKV(_ []*corev3.HeaderValueOption, item string) (string, string) {
	p := strings.SplitN(item, ":", 2)
	return unhx(p[0]), unhx(p[1])
}

func unhx(s string) string {
	b := make([]byte, 0, len(s)/2)
	s = strings.TrimPrefix(s, "x")
	for i := 0; i+1 < len(s); i += 2 {
		var v byte
		fmt.Sscanf(s[i:i+2], "%02x", &v)
		b = append(b, v)
	}
	return string(b)
}

// showResp renders a CheckResponse canonically, exactly as AuthModel.Wire.showResp does.
func showResp(resp *envoy.CheckResponse, err error) string {
	if err != nil || resp == nil {
		return "error"
	}
	http := "none"
	switch {
	case resp.GetOkResponse() != nil:
		http = "ok:" + showHeaderOpts(resp.GetOkResponse().GetHeaders(), true)
	case resp.GetDeniedResponse() != nil:
		d := resp.GetDeniedResponse()
		http = fmt.Sprintf("denied:%d:%s:%s", int(d.GetStatus().GetCode()), showHeaderOpts(d.GetHeaders(), false), hx(d.GetBody()))
	}
	return fmt.Sprintf("code=%d msg=%s http=%s", resp.GetStatus().GetCode(), hx(resp.GetStatus().GetMessage()), http)
}
